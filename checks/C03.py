"""C03 - a CSG expression denotes one solid however it is built, shared or evaluated.
Coq proof (abstract Boolean algebra + transform action, every oracle answer) about an
executable port of the lazy evaluator, tied to /repo by a hook-free differential run:
random expression DAGs x forcing histories are executed by the real library and by the
extracted model (voxel instance); forced solids, node-graph shapes and exact volumes
are compared, and different histories / constructions of one expression are compared
with each other."""
import os, random, re, sys
import vp

sys.setrecursionlimit(100000)

LEVEL = "proof"
META = {
    "level": "proof",
    "technique": "Coq proof over an abstract carrier (Boolean-algebra laws + monoid action, all oracle answers) of a Gallina port of "
                 "CsgOpNode::ToLeafNode/BatchUnion/BatchBoolean + hook-free correspondence run (extracted model vs Manifold API with node-graph "
                 "inspection) + exact voxel/volume oracle + lazy/eager/differently-built self-agreement",
    "text": "Coq theorems (Properties_C03.v): force_denotes - for every history of client operations (constructors, BatchBoolean, + - ^, transforms, "
            "copies, drops, forcing calls anywhere) and every answer of the use_count / bounding-box / NumVert oracles, the ported big-step evaluator "
            "terminates (fuel = #children cells), keeps the heap invariant, leaves in the forced handle a LEAF denoting the value of the handle's "
            "original expression, and keeps the denotation of every other node; lazy_eq_eager and same_value_same_solid (two histories / two "
            "constructions, unrelated oracle answers); sub_sub_is_sub_union, nested_eq_flat (any arity/position), transform_chain (any length), "
            "shared_under_transforms; status_same (the carrier lifted to solid-or-error-code with the forwarding rules of Boolean3::Result/"
            "Compose/Transform: error-ness and the solid are history independent for the pinned first-error-wins rule), status_code_refuted "
            "(WHICH code is reported is not: witness replayed on the real code), status_exact_if_min_wins; rc_force_denotes + uniq_rc_spec "
            "(canCollapse decided from owner counts derived from the heap and the live handles instead of an oracle); "
            "compose_is_union_voxels (box oracle computed from the cells, hypothesis discharged); stack_refines_bigstep + stack_force_denotes (the frame-for-frame explicit stack computes the same heap and "
            "result); batch_heap_order_irrelevant and any_combination_tree (any pop order / completion order); "
            "compose_is_union_when_disjoint under the explicit hypothesis 'boxes that do not overlap bound disjoint solids'; the laws are "
            "instantiated by lattice cells with translations, quarter turns and mirrors. Tie: the same DAG+history runs on /repo's library "
            "(public API; node internals read with '#define private public', use_count answers inferred from which nodes got cached) and on "
            "the extracted EXPLICIT-STACK port; per forcing call the cell-centre classification bitmap, the node-graph shape (cache_ set, "
            "children vector shared/replaced, what each handle points to) and the exact 6*64^3*volume (against an independent exact formula "
            "evaluation) must agree; lazy / eager / interleaved / flattened / (a-b)-c-rewritten builds must agree with each other.",
    "note": "force_denotes is proved for the big-step evaluator (which follows the explicit stack's order) and transported to the frame-for-frame "
            "stack machine by the proved refinement stack_refines_bigstep (same heap, same cache node; fuel for the stack loop is existential, "
            "the big-step fuel bound is #cells); the correspondence run executes the stack machine. Not modelled: ExecutionContext/cancellation/progress (C15), meshIDs; destruction is 'unreachable from a live handle' "
            "(what shared_ptr counting amounts to without cycles), used by uniq_rc and by the node-graph comparison. Trusted: Coq kernel, extraction, the harness, Boolean3/Compose/"
            "Impl::Transform each standing for one operation of the carrier (their geometry is C02/C17's subject), integer-lattice symmetries "
            "standing for general affine maps.",
}

OPS = {"Add": 0, "Sub": 1, "Int": 2}
ID3 = ((1, 0, 0), (0, 1, 0), (0, 0, 1))
RX = ((1, 0, 0), (0, 0, -1), (0, 1, 0))
RY = ((0, 0, 1), (0, 1, 0), (-1, 0, 0))
RZ = ((0, -1, 0), (1, 0, 0), (0, 0, 1))


def mmul(a, b):
    return tuple(tuple(sum(a[i][k] * b[k][j] for k in range(3)) for j in range(3)) for i in range(3))


def mvec(a, v):
    return tuple(sum(a[i][k] * v[k] for k in range(3)) for i in range(3))


def tcomp(t2, t1):
    """apply t1 then t2; a transform is (M, translation in 1/64 units)"""
    return (mmul(t2[0], t1[0]), tuple(x + y for x, y in zip(mvec(t2[0], t1[1]), t2[1])))


def tr_of(kind, p):
    if kind == "TT":
        return (ID3, (64 * p[0], 64 * p[1], 64 * p[2]))
    if kind == "TM":
        return (((p[0], 0, 0), (0, p[1], 0), (0, 0, p[2])), (0, 0, 0))
    m = ID3
    for _ in range(p[0] % 4):
        m = mmul(RX, m)
    for _ in range(p[1] % 4):
        m = mmul(RY, m)
    for _ in range(p[2] % 4):
        m = mmul(RZ, m)
    return (m, (0, 0, 0))


TID = (ID3, (0, 0, 0))


def box_under(box, t):
    lo, hi = box
    a = tuple(x + y for x, y in zip(mvec(t[0], lo), t[1]))
    b = tuple(x + y for x, y in zip(mvec(t[0], hi), t[1]))
    return (tuple(min(x, y) for x, y in zip(a, b)), tuple(max(x, y) for x, y in zip(a, b)))


class Dag:
    """vals[i] = ('L', box) | ('B', o, a, b) | ('O', o, [a..]) | ('T', kind, a, params)"""

    def __init__(self, vals):
        self.vals = vals

    def instances(self, root, cap=150):
        """leaf instances (leaf index, box) of the tree unfolding of value root"""
        out = []

        def go(v, t):
            if len(out) > cap:
                return
            x = self.vals[v]
            if x[0] == "L":
                out.append((v, t, box_under(x[1], t)))
            elif x[0] == "E":
                pass
            elif x[0] == "B":
                go(x[2], t); go(x[3], t)
            elif x[0] == "O":
                for a in x[2]:
                    go(a, t)
            else:
                go(x[2], tcomp(t, tr_of(x[1], x[3])))
        go(root, TID)
        return out

    def err(self, root):
        """Status code of value root: 0, or the smallest code of the errored leaves of its expression (with the pinned
        first-wins rule the main stream uses one code only, so 'which one' does not matter)"""
        seen = {}

        def go(v):
            if v in seen:
                return seen[v]
            x = self.vals[v]
            if x[0] == "E":
                r = x[2]
            elif x[0] == "L":
                r = 0
            else:
                deps = [x[2], x[3]] if x[0] == "B" else list(x[2]) if x[0] == "O" else [x[2]]
                cs = [c for c in (go(a) for a in deps) if c]
                r = min(cs) if cs else 0
            seen[v] = r
            return r
        return go(root)

    def bits(self, root, axes):
        """exact evaluation of value root on the product of the per-axis sample lists (1/64 units): python int bitmask,
        bit index = (iz*ny + iy)*nx + ix"""
        xs, ys, zs = axes
        nx, ny, nz = len(xs), len(ys), len(zs)
        full = (1 << (nx * ny * nz)) - 1
        memo = {}

        def boxmask(b):
            lo, hi = b
            rx = 0
            for i, s in enumerate(xs):
                if lo[0] < s < hi[0]:
                    rx |= 1 << i
            pl = 0
            for j, s in enumerate(ys):
                if lo[1] < s < hi[1]:
                    pl |= rx << (j * nx)
            m = 0
            for k, s in enumerate(zs):
                if lo[2] < s < hi[2]:
                    m |= pl << (k * nx * ny)
            return m

        def go(v, t):
            key = (v, t)
            if key in memo:
                return memo[key]
            x = self.vals[v]
            if x[0] == "L":
                r = boxmask(box_under(x[1], t))
            elif x[0] == "E":
                r = 0
            elif x[0] == "T":
                r = go(x[2], tcomp(t, tr_of(x[1], x[3])))
            else:
                o, args = (x[1], [x[2], x[3]]) if x[0] == "B" else (x[1], x[2])
                if not args:
                    r = 0
                else:
                    ms = [go(a, t) for a in args]
                    r = ms[0]
                    if len(ms) > 1:
                        if o == 0:
                            for m in ms[1:]:
                                r |= m
                        elif o == 2:
                            for m in ms[1:]:
                                r &= m
                        else:
                            for m in ms[1:]:
                                r &= full & ~m
            memo[key] = r
            return r
        return go(root, TID)


def hex_of(mask, n):
    if n <= 0:
        return "-"
    s = bin(mask)[2:].zfill(n)[::-1]          # s[i] = bit i
    s += "0" * ((-n) % 4)
    return "".join("%x" % int(s[i:i + 4], 2) for i in range(0, len(s), 4))


def volume6(mask, axes2):
    """6 * 64^3 * volume from a bitmask on the compressed grid; axes2 = per axis list of (sample, length) in 1/64 units"""
    (xs, dx), (ys, dy), (zs, dz) = axes2
    nx, ny, nz = len(xs), len(ys), len(zs)
    rowmask = (1 << nx) - 1
    cache = {}
    tot = 0
    for k in range(nz):
        sl = (mask >> (k * nx * ny)) & ((1 << (nx * ny)) - 1)
        if not sl:
            continue
        acc = 0
        for j in range(ny):
            row = (sl >> (j * nx)) & rowmask
            if row:
                w = cache.get(row)
                if w is None:
                    w = sum(dx[i] for i in range(nx) if (row >> i) & 1)
                    cache[row] = w
                acc += w * dy[j]
        tot += acc * dz[k]
    return 6 * tot


# ------------------------------------------------------------------ generator

def gen_dag(rng):
    """random construction in general position, or None"""
    chain = rng.random() < 0.3          # template: nested same-op levels under non-commuting transforms, all on temporaries
    nleaf = rng.randint(4, 5) if chain else rng.randint(2, 5)
    fr = list(range(1, 32))
    rng.shuffle(fr)
    vals, depth = [], []
    for i in range(nleaf):
        f = fr[6 * i:6 * i + 6]
        k = [rng.randint(-3, 2) for _ in range(3)]
        sz = [rng.randint(1, 3) for _ in range(3)]
        lo = tuple(64 * k[a] + f[a] for a in range(3))
        hi = tuple(64 * (k[a] + sz[a]) + f[3 + a] for a in range(3))
        vals.append(("L", (lo, hi))); depth.append(0)
    if rng.random() < 0.12:
        # an errored operand (a mesh with a NaN vertex: NonFiniteVertex = 1) somewhere in the expression; one code only,
        # because WHICH of two different codes is reported depends on the history on the pinned tree (known finding)
        for _ in range(rng.randint(1, 2)):
            if nleaf >= 3:
                vals[rng.randrange(2, nleaf)] = ("E", 2, 10) if (TWO_CODES and rng.random() < 0.5) else ("E", 1, 1)
    used = set()
    nops = rng.randint(3, 13)

    def fresh_tr(a):
        kind = rng.choice(["TT", "TT", "TR", "TM"])
        if kind == "TT":
            p = tuple(rng.choice([-3, -2, -1, 1, 2, 3]) for _ in range(3))
        elif kind == "TR":
            p = tuple(rng.randint(0, 3) for _ in range(3))
            if p == (0, 0, 0):
                p = (0, 0, 1)
        else:
            p = rng.choice([(-1, 1, 1), (1, -1, 1), (1, 1, -1), (-1, -1, 1)])
        vals.append(("T", kind, a, p)); depth.append(depth[a] + 1)
        return len(vals) - 1

    def operand():
        # prefer recent values; a value that was already used is reused (prob 0.3) under a fresh transform
        n = len(vals)
        a = n - 1 - min(int(rng.expovariate(0.5)), n - 1)
        if a in used:
            if rng.random() < (0.45 if vals[a][0] != "L" else 0.2) or all(x in used for x in range(n)):
                a2 = fresh_tr(a)
                if rng.random() < 0.4:
                    a2 = fresh_tr(a2)          # chain of transforms
                used.add(a)
                return a2
            cands = [x for x in range(n) if x not in used]
            a = rng.choice(cands)
        used.add(a)
        return a

    if chain:
        # ((a o b).T1 o c).T2 o d [.T3 o e]: when the temporaries are dropped every level collapses into the root, and the
        # transform handed to the grandchildren is the PRODUCT frame->transform * node->transform_, in that order; T1, T2
        # alternate rotation / mirror with translation so that the factors do not commute
        o = rng.choice([0, 1, 2])
        kinds = [rng.choice(["TR", "TM"]), "TT"]
        if rng.random() < 0.5:
            kinds.reverse()
        v = None
        levels = rng.randint(3, 4)
        nxt = 0
        for lv in range(levels):
            if v is None:
                a, b = 0, 1; nxt = 2
            else:
                kind = kinds[(lv - 1) % 2]
                if kind == "TT":
                    p = tuple(rng.choice([-3, -2, -1, 1, 2, 3]) for _ in range(3))
                elif kind == "TR":
                    p = rng.choice([(0, 0, 1), (1, 0, 0), (0, 1, 0), (0, 0, 3), (1, 2, 0), (0, 1, 1)])
                else:
                    p = rng.choice([(-1, 1, 1), (1, -1, 1), (1, 1, -1)])
                vals.append(("T", kind, v, p)); depth.append(depth[v] + 1)
                used.add(v)
                tv = len(vals) - 1
                if nxt >= nleaf:
                    break
                a, b = tv, nxt; nxt += 1
                if o != 1 and rng.random() < 0.5:
                    a, b = b, a            # the collapsible child need not be the first operand of a commutative op
            vals.append(("B", o, a, b)); depth.append(1 + max(depth[a], depth[b]))
            used.add(a); used.add(b)
            v = len(vals) - 1
        nops = rng.randint(0, 5)
    for _ in range(nops):
        r = rng.random()
        o = rng.choice([0, 0, 1, 1, 2])
        if r < 0.55:
            a, b = operand(), operand()
            if a == b:
                b = fresh_tr(b)
            vals.append(("B", o, a, b)); depth.append(1 + max(depth[a], depth[b]))
        elif r < 0.8:
            n = rng.choice([0, 1, 2, 3, 3, 4, 5]) if rng.random() < 0.25 else rng.choice([3, 3, 4, 5])
            args = []
            for _ in range(n):
                a = operand()
                if a in args:
                    a = fresh_tr(a)
                args.append(a)
            vals.append(("O", o, args)); depth.append(1 + max([depth[a] for a in args] + [0]))
        else:
            opv = [i for i, x in enumerate(vals) if x[0] in ("B", "O")]
            if opv and rng.random() < 0.75:
                a = rng.choice(opv[-3:])           # transform of an op node: shares its children vector
            else:
                a = len(vals) - 1 - min(int(rng.expovariate(0.7)), len(vals) - 1)
            fresh_tr(a)
        if depth[-1] > 6:
            return None
    # the root must be an operation that (transitively) uses most of what was built: combine unused op values
    roots = [i for i in range(nleaf, len(vals)) if i not in used and vals[i][0] not in ("L", "E")]
    if not roots:
        return None
    while len(roots) > 1:
        a, b = roots.pop(), roots.pop()
        vals.append(("B", rng.choice([0, 0, 1, 2]), b, a)); depth.append(1 + max(depth[a], depth[b]))
        roots.append(len(vals) - 1)
        if depth[-1] > 6:
            return None
    d = Dag(vals)
    root = len(vals) - 1
    inst = d.instances(root)
    if len(inst) > 60 or len(inst) < 2:
        return None
    # general position: no two faces of different leaf instances in one plane, no instance twice
    seen = set()
    for (_, _, (lo, hi)) in inst:
        for ax in range(3):
            for c in (lo[ax], hi[ax]):
                if (ax, c) in seen:
                    return None
                seen.add((ax, c))
    if any(abs(c) > 64 * 18 for (_, _, (lo, hi)) in inst for c in lo + hi):
        return None
    return d


def rewrite_flat(d):
    """nested unions/intersections flattened into one BatchBoolean (differently built, same solid)"""
    vals = list(d.vals)
    changed = False
    for i, x in enumerate(vals):
        if x[0] in ("B", "O") and x[1] in (0, 2):
            args = [x[2], x[3]] if x[0] == "B" else list(x[2])
            new = []
            for a in args:
                y = vals[a]
                if y[0] in ("B", "O") and y[1] == x[1] and (y[0] == "B" or len(y[2]) >= 2):
                    new += [y[2], y[3]] if y[0] == "B" else list(y[2])
                    changed = True
                else:
                    new.append(a)
            if len(set(new)) == len(new) and len(new) >= 2:
                vals[i] = ("O", x[1], new)
    return Dag(vals) if changed else None


def rewrite_subsub(d):
    """(a - b) - c  ->  a - (b + c) built explicitly"""
    vals = list(d.vals)
    for i, x in enumerate(vals):
        if x[0] == "B" and x[1] == 1:
            y = vals[x[2]]
            if y[0] == "B" and y[1] == 1:
                # new values are appended; value i is redefined to use them (indices stay topological for emission by need)
                vals.append(("B", 0, y[3], x[3]))
                vals[i] = ("B", 1, y[2], len(vals) - 1)
                return Dag(vals), i
    return None, None


def emit(d, root, rng, mode):
    """history for value root: list of op token lists + list of (op index, forced value).  Values are emitted by need, in
    dependency order, so rewritten DAGs (with appended values) work too."""
    ops, forced, hof = [], [], {}     # hof: value -> handle
    nchunk = [0]
    nh = [0]
    order = []
    seen = set()

    def need(v):
        if v in seen:
            return
        seen.add(v)
        x = d.vals[v]
        deps = [x[2], x[3]] if x[0] == "B" else list(x[2]) if x[0] == "O" else [x[2]] if x[0] == "T" else []
        for a in deps:
            need(a)
        order.append(v)
    need(root)
    lastuse = {}
    for pos, v in enumerate(order):
        x = d.vals[v]
        deps = [x[2], x[3]] if x[0] == "B" else list(x[2]) if x[0] == "O" else [x[2]] if x[0] == "T" else []
        for a in deps:
            lastuse[a] = pos
    live = {}                           # value -> list of live handles

    def new_handle(v):
        live.setdefault(v, []).append(nh[0]); hof[v] = nh[0]; nh[0] += 1

    def h(v):
        return rng.choice(live[v]) if mode == "mixed" else live[v][0]

    def force(v, k=None):
        ops.append(["F", str(h(v)), str(rng.randint(0, 2) if k is None else k)])
        forced.append((len(ops) - 1, v))

    for pos, v in enumerate(order):
        x = d.vals[v]
        if x[0] == "E":
            ops.append(["E", str(x[1]), str(x[2])])
        elif x[0] == "L":
            lo, hi = x[1]
            ops.append(["L"] + [str(c) for c in lo + hi])
        elif x[0] == "B":
            ops.append(["K" if mode == "kernel" else "B", str(x[1])] + (["2"] if mode == "kernel" else []) + [str(h(x[2])), str(h(x[3]))])
        elif x[0] == "O":
            if mode == "kernel" and len(x[2]) == 0:
                ops.append(["O", str(x[1]), "0"])
            else:
                ops.append(["K" if mode == "kernel" else "O", str(x[1]), str(len(x[2]))] + [str(h(a)) for a in x[2]])
        else:
            ops.append([x[1], str(h(x[2]))] + [str(c) for c in x[3]])
        new_handle(v)
        isop = x[0] in ("B", "O")
        if mode == "eager" and isop:
            force(v)
        if mode == "chunk" and isop and v != root:
            nchunk[0] += 1
            if nchunk[0] % 300 == 0:
                force(v)      # every 300th operator of a long chain: the pieces stay below kMaxUnionSize
        if mode == "mixed":
            if isop and rng.random() < 0.3:
                force(v)
            if rng.random() < 0.2:
                ops.append(["C", str(h(v))]); live[v].append(nh[0]); nh[0] += 1
            if rng.random() < 0.25:
                cands = [w for w in live if live[w] and d.vals[w][0] not in ("L", "E")]
                if cands:
                    force(rng.choice(cands))
        # drop operands after their last use
        if mode in ("lazy_drop", "mixed", "flat", "subsub", "chunk", "eager_drop"):
            x = d.vals[v]
            deps = [x[2], x[3]] if x[0] == "B" else list(x[2]) if x[0] == "O" else [x[2]] if x[0] == "T" else []
            for a in set(deps):
                if lastuse.get(a) == pos and a != root and (mode != "mixed" or rng.random() < 0.6):
                    for hh in live[a]:
                        ops.append(["D", str(hh)])
                    live[a] = []
    force(root, 2 if mode != "mixed" else None)
    if mode == "mixed":
        cands = [w for w in live if live[w] and d.vals[w][0] not in ("L", "E")]
        for w in rng.sample(cands, min(2, len(cands))):
            force(w)
    return ops, forced


def kmax_from_source():
    src = open(os.path.join(vp.REPO, "src/csg_tree.cpp")).read()
    m = re.search(r"constexpr\s+size_t\s+kMaxUnionSize\s*=\s*(\d+)\s*;", src)
    return int(m.group(1)) if m else None


def dag_cases(made, d, root, variants, rng, grid_vals=None):
    """case lines + exact expectations for one DAG under the given (name, dag, root, emit mode) variants"""
    inst = d.instances(root, cap=10 ** 7)
    # the sampling lattice must contain every value that any history may force (intermediates sit where they were
    # built, before the transforms applied to them later)
    allinst = []
    for v in (range(len(d.vals)) if grid_vals is None else grid_vals):
        allinst += d.instances(v, cap=10 ** 7)
    g = []
    for a in range(3):
        los = [(lo[a] - 32) // 64 for (_, _, (lo, hi)) in allinst]
        his = [(hi[a] - 32) // 64 + 1 for (_, _, (lo, hi)) in allinst]
        g += [min(los) - 1, max(his) + 1]
    axes = tuple([64 * i + 32 for i in range(g[2 * a], g[2 * a + 1])] for a in range(3))
    ncell = len(axes[0]) * len(axes[1]) * len(axes[2])

    def expect(dd, v):
        e = dd.err(v)
        if e:
            return hex_of(0, ncell), 0, e
        return expect_ok(dd, v) + (0,)

    def expect_ok(dd, v):
        b = dd.bits(v, axes)
        # exact volume on the grid compressed to the face coordinates of v's own leaf instances (doubled coordinates,
        # so that the cell midpoints used as samples are integers)
        vi = dd.instances(v, cap=10 ** 7)
        axes2, mids = [], []
        for a in range(3):
            cs = sorted(set(c for (_, _, (lo, hi)) in vi for c in (lo[a], hi[a])))
            m2 = [cs[i] + cs[i + 1] for i in range(len(cs) - 1)]
            axes2.append((m2, [cs[i + 1] - cs[i] for i in range(len(cs) - 1)]))
            mids.append(m2)
        if any(len(m) == 0 for m in mids):
            return hex_of(b, ncell), 0
        dd2 = Dag([("L", (tuple(2 * c for c in x[1][0]), tuple(2 * c for c in x[1][1]))) if x[0] == "L" else x for x in dd.vals])
        dd2_tr = Dag([(x[0], x[1], x[2], tuple(2 * c for c in x[3])) if (x[0] == "T" and x[1] == "TT") else x for x in dd2.vals])
        bv = dd2_tr.bits(v, tuple(mids))
        return hex_of(b, ncell), volume6(bv, axes2)

    cases = []
    root_exp = expect(d, root)
    for (vn, dd, rt, mode) in variants:
        ops, forced = emit(dd, rt, random.Random(rng.getrandbits(32)), mode)
        cid = "%s.%s" % (made, vn)
        line = "CASE %s %s | %s" % (cid, " ".join(map(str, g)), " | ".join(" ".join(o) for o in ops))
        exp = {}
        for (j, v) in forced:
            exp[j] = root_exp if v == rt else expect(dd, v)
        cases.append(dict(id=cid, dag=made, variant=vn, line=line, forced=forced, exp=exp, root=rt, nvals=len(dd.vals),
                          ninst=len(inst), ncell=ncell))
    return cases


def build_cases(rng, ndags):
    cases = []          # dict(id, dag, variant, line, forced, grid, exp: {opindex: (hex, vol6)})
    tries = 0
    made = 0
    while made < ndags and tries < ndags * 400:
        tries += 1
        d = gen_dag(rng)
        if d is None:
            continue
        root = len(d.vals) - 1
        variants = [("lazy_drop", d, root, "lazy_drop"), ("lazy_keep", d, root, "lazy_keep"), ("eager", d, root, "eager"),
                    ("mixed", d, root, "mixed"), ("mixed2", d, root, "mixed"), ("kernel", d, root, "kernel")]
        fl = rewrite_flat(d)
        if fl is not None:
            variants.append(("flat", fl, root, "flat"))
        ss, ssroot = rewrite_subsub(d)
        if ss is not None:
            variants.append(("subsub", ss, root, "subsub"))
        cases += dag_cases(made, d, root, variants, rng)
        made += 1
    return cases, tries


# ------------------------------------------------------------------ many operands in ONE BatchUnion

SLAB_FR = [[13, 14, 15, 17, 18, 19], [21, 22, 23, 25, 26, 27], [28, 29, 30, 31, 16, 20]]


def gen_big(rng, n, shape, with_kernel=False):
    """n cheap leaves reaching one BatchUnion (kMaxUnionSize and its index arithmetic): unit boxes on a sparse lattice
    (pairwise disjoint boxes, so one big Compose set), some of them with an overlapping partner, and a few slabs that
    overlap many boxes (each forms its own bounding-box-disjoint set).  shape: 'flat' BatchBoolean(Add), 'chain' of
    operator+ on temporaries, 'sub' big block minus all of them.  Returns (dag, root, variants)."""
    W = max(8, int(n ** 0.5) + 2)
    nsl = 3
    npart = max(2, n // 40)
    ncube = n - nsl - npart
    H = ncube // W + 1
    # a common region R that every slab contains and where the partner boxes sit: the slabs overlap each other, the boxes
    # and the partners, so each slab ends up ALONE in a set of the partition (the singleton branch of BatchUnion)
    ra = rng.randint(1, W - 6); rb = ra + 4
    rc = rng.randint(0, max(0, H - 4)); re_ = rc + 3
    cubes = []
    for i in range(ncube):
        cx, cy = i % W, i // W
        cubes.append(((64 * 2 * cx + 5, 64 * 2 * cy + 6, 7), (64 * (2 * cx + 1) + 9, 64 * (2 * cy + 1) + 10, 64 + 11)))
    inR = [i for i in range(ncube) if ra <= i % W < rb and rc <= i // W < re_]
    others = [i for i in range(ncube) if i not in set(inR)]
    for i in (inR + rng.sample(others, max(0, npart - len(inR))))[:npart]:
        cx, cy = i % W, i // W
        cubes.append(((64 * 2 * cx + 37, 64 * 2 * cy + 38, 39), (64 * (2 * cx + 1) + 41, 64 * (2 * cy + 1) + 42, 64 + 43)))
    rng.shuffle(cubes)
    slabs = []
    for s_ in range(nsl):
        f = SLAB_FR[s_]
        a = 2 * ra - rng.randint(0, 3); b = 2 * rb + rng.randint(0, 3)
        c = 2 * rc - rng.randint(0, 2); e = 2 * re_ + rng.randint(0, 2)
        slabs.append(((64 * a + f[0], 64 * c + f[1], f[2]), (64 * b + f[3], 64 * e + f[4], 64 + f[5])))
    leaves = list(cubes)
    if rng.random() < 0.5:
        leaves += slabs                      # in the first chunk that BatchUnion takes (the LAST kMaxUnionSize children)
    else:
        for sl in slabs:
            leaves.insert(rng.randrange(len(leaves) + 1), sl)
    # the interesting operands (own set) must also sit among the FIRST and the LAST kMaxUnionSize children
    vals = [("L", b) for b in leaves]
    ids = list(range(len(vals)))
    chunk = 300
    if shape == "flat":
        d = Dag(vals + [("O", 0, ids)])
        root = len(d.vals) - 1
        # differently built: chunks of 300 forced one by one, then their union
        v2 = list(vals)
        parts = []
        for k in range(0, len(ids), chunk):
            v2.append(("O", 0, ids[k:k + chunk]) if len(ids[k:k + chunk]) > 1 else vals[ids[k]])
            parts.append(len(v2) - 1)
        v2.append(("O", 0, parts))
        d2 = Dag(v2)
        variants = [("lazy_drop", d, root, "lazy_drop"), ("flat", d2, len(v2) - 1, "eager")]
    elif shape == "chain":
        v = list(vals)
        acc = 0
        for k in ids[1:]:
            v.append(("B", 0, acc, k)); acc = len(v) - 1
        d = Dag(v); root = acc
        variants = [("lazy_drop", d, root, "lazy_drop"), ("eager", d, root, "chunk")]
    else:
        base = ((-64 + 1, -64 + 2, -64 + 3), (64 * (2 * W + 1) + 4, 64 * (2 * H + 1) + 8, 64 * 2 + 24))
        v = list(vals) + [("L", base)]
        bid = len(v) - 1
        v.append(("O", 1, [bid] + ids))
        d = Dag(v); root = len(v) - 1
        v2 = list(vals) + [("L", base)]
        acc = bid
        for k in range(0, len(ids), chunk):
            v2.append(("O", 1, [acc] + ids[k:k + chunk])); acc = len(v2) - 1
        d2 = Dag(v2)
        variants = [("lazy_drop", d, root, "lazy_drop"), ("flat", d2, acc, "eager")]
    if with_kernel:
        variants.append(("kernel", d, root, "kernel"))     # n sequential Boolean3 calls on a growing mesh: seconds
    return d, root, variants


def big_cases(rng, kmax, quick):
    """operand counts on both sides of kMaxUnionSize"""
    plan = [(kmax - 1, "flat"), (kmax, "sub"), (kmax + 1, "flat"), (kmax + 1, "sub"), (kmax + 100, "chain"), (kmax + 100, "flat"),
            (2 * kmax + kmax // 2, "flat")]
    if not quick:
        plan += [(m, sh) for m in (kmax - 1, kmax, kmax + 1, kmax + 100, 2 * kmax + kmax // 2) for sh in ("flat", "chain", "sub")]
    cases = []
    for k, (m, sh) in enumerate(plan):
        d, root, variants = gen_big(rng, m, sh, with_kernel=(k == 2 or not quick and m <= kmax + 100))
        cases += dag_cases("big%d_%s_%d" % (k, sh, m), d, root, variants, rng, grid_vals=[root])
    return cases


def parse_out(text):
    R, S, X, ALT = {}, {}, {}, {}
    for l in text.splitlines():
        t = l.split(" ", 3)
        if len(t) < 3:
            continue
        if t[0] == "R":
            R[(t[1], int(t[2]))] = t[3]
        elif t[0] == "S":
            S[(t[1], int(t[2]))] = t[3]
        elif t[0] == "X":
            X[t[1]] = l
        elif t[0] == "ALT":
            ALT[(t[1], int(t[2]))] = t[3]
    return R, S, X, ALT


def cached_sets(S, cid):
    """the implementation's live op nodes after each force: '# j k:cached:kind ...' segments for the model driver"""
    out = []
    for (c, j), s in S.items():
        if c != cid:
            continue
        ks = []
        for tok in s.split(" N", 1)[1].split() if " N" in s else []:
            f = tok.split(":")
            if len(f) >= 5 and f[1] != "L":
                ks.append("%s:%s:%s" % (f[0], f[2], f[4]))
        out.append((j, "%d %s" % (j, " ".join(ks))))
    return " # ".join(x for _, x in sorted(out))


def run(cx):
    cx.assumptions += [
        "Boolean3 / CsgLeafNode::Compose / Impl::Transform each stand for ONE operation of the abstract carrier; that they compute that operation is C02/C17's subject",
        "the bounding-box oracle is sound (boxes that do not overlap bound disjoint solids): explicit hypothesis of force_denotes and compose_is_union_when_disjoint",
        "the number of iterations of the explicit-stack loop is existentially quantified in stack_force_denotes (the big-step fuel bound is the number of children cells)",
        "cancellation, progress counters, error-Status short cuts, meshIDs and refcount-driven destruction are not modelled (ctx = nullptr)",
        "use_count answers used by the model are DERIVED from its own heap and live handles (extracted uniq_rc: no handle, at most one live children-vector entry, no live sharer of the children vector); they are compared with what the implementation did wherever that is observable, and the resulting node graphs must coincide",
        "Status: the main stream uses one error code per expression (exact Status compared); with two different codes the reported code depends on the history on the pinned tree (finding status-code-depends-on-history, Coq: status_code_refuted)",
    ]
    cx.prove()
    if cx.replay_mode:
        return replay(cx)
    kmax = kmax_from_source()
    cx.cov["constants_from_source"] = {"kMaxUnionSize": kmax}
    cx.obligation("translate:csg_tree.cpp kMaxUnionSize", kmax is not None and kmax >= 2,
                  "kMaxUnionSize not found in csg_tree.cpp or < 2 (the termination theorem of BatchUnion needs >= 2): %r" % kmax)
    src = open(os.path.join(vp.REPO, "src/csg_tree.cpp")).read()
    cx.cov["constants_from_source"]["BatchBoolean pairs per round"] = 4 if "for (size_t i = 0; i < 4 && heapNodes.size() > 1; i++)" in src else None
    cx.obligation("translate:csg_tree.cpp BatchBoolean constants",
                  "for (size_t i = 0; i < 4 && heapNodes.size() > 1; i++)" in src and "if (results.size() == 2)" in src
                  and "if (results.size() == 1) return results.front();" in src and "if (results.size() == 0)" in src,
                  "the literal thresholds of BatchBoolean (sizes 0/1/2 handled directly, 4 pairs per round) are no longer the ones ported in CsgDefs.bb_round/batch_boolean")
    mls = vp.coq_extract("ExtractC03", ["c03_model.ml"])
    drv = vp.ocaml_build("c03_driver", mls + [os.path.join(vp.ROOT, "extract/c03_driver.ml")])
    exe = vp.build_harness("c03_csg", "seq", link_lib=True)

    rule = status_rule_from_source()
    cx.obligation("translate:status forwarding rule", rule is not None,
                  "neither the pinned 'first errored operand wins' code nor Impl::CombineStatus (smallest code wins) was recognised in "
                  "boolean_result.cpp / csg_tree.cpp / impl.h: the Status model (CsgStatusDefs.v) no longer describes the code")
    rule = rule or "first"
    global TWO_CODES
    TWO_CODES = (rule == "min")       # with an order-independent rule the exact code must be history independent: use both codes
    status_witness(cx, exe, drv, kmax or 1000, rule)
    rng = random.Random(cx.seed * 104729 + 3)
    total = {"cases": 0, "forces": 0, "nontrivial": set(), "dist": {}, "mism": 0, "c02": 0, "alts": 0, "collapses": 0, "shared": 0}
    rounds = [cx.pick(500, 20000)]
    r_i = 0
    while r_i < len(rounds):
        check_round(cx, rng, rounds[r_i], exe, drv, kmax or 1000, total, rule, big=(r_i == 0))
        r_i += 1
        if r_i == 1 and cx.broken and not cx.violations:
            # the proof or the correspondence broke without a failing input: search with a larger budget
            cx.log("search phase: %d more DAGs" % (4 * rounds[0]))
            rounds.append(min(4 * rounds[0], 4000))
    cx.cov.update({
        "evaluations": total["cases"], "forcing_calls_compared": total["forces"],
        "distinct_nontrivial": len(total["nontrivial"]),
        "many_operand_plan": "operand counts kMaxUnionSize-1, kMaxUnionSize, +1, +100, x2.5 (kMaxUnionSize read from the source and given to the "
                             "extracted model) reaching ONE BatchUnion as flat BatchBoolean(Add), operator+ chain on temporaries, collapsed subtrahends; "
                             "lazy vs chunked/eager vs kernel-only; boxes on a sparse lattice + mutually overlapping slabs (each alone in its set)",
        "rule": "seeded generator of expression DAGs in general position (depth<=6, fan-out<=5, reuse under fresh transforms p=0.3) x histories "
                "(lazy with drops, lazy keeping handles, eager, 2 random interleavings with copies/drops/repeated forcing, kernel-only, flattened, "
                "(a-b)-c rewritten); non-trivial = a DAG whose runs contain at least one collapse decision AND one children vector shared by two nodes; distinct by DAG",
        "distribution": total["dist"], "correspondence_mismatches": total["mism"],
        "traces_validated_against_impl": total["forces"] - total["mism"],
        "oracle_irrelevance_runs": total["alts"], "collapse_decisions": total["collapses"], "shared_cell_observations": total["shared"],
        "c02_family_mismatches_same_in_all_orders": total["c02"],
        "use_count_questions_on_observable_nodes": total.get("uq_total", 0),
        "use_count_answers_derived_equal_inferred": total.get("uq_agree", 0),
    })


def replay(cx):
    """bin/check C03 --replay file: run the stored case lines through the implementation and the model, print both sides"""
    import json
    obj = json.load(open(cx.replay_mode))
    lines = (obj.get("replay") or {}).get("lines") or [(obj.get("replay") or {}).get("case")]
    lines = [l for l in lines if l]
    mls = vp.coq_extract("ExtractC03", ["c03_model.ml"])
    drv = vp.ocaml_build("c03_driver", mls + [os.path.join(vp.ROOT, "extract/c03_driver.ml")])
    exe = vp.build_harness("c03_csg", "seq", link_lib=True)
    rc, out, err = vp.sh2([exe], input="\n".join(lines) + "\n", timeout=600)
    print(out[-6000:])
    R, S, X, _ = parse_out(out)
    ml = [l + " # " + cached_sets(S, l.split()[1]) for l in lines if ".kernel" not in l.split()[1]]
    rc, out2, err = vp.sh2([drv, str(kmax_from_source() or 1000), status_rule_from_source() or "first"], input="\n".join(ml) + "\n", timeout=600)
    print("--- model\n" + out2[-6000:])
    MR, MS, MX, ALT = parse_out(out2)
    for k in sorted(MR):
        if k in R and (R[k].split()[-1] != MR[k].split()[-1] or S.get(k) != MS.get(k)):
            cx.violation("replayed-case-differs", "implementation and model differ at %s op %d" % k, {"lines": lines})


def status_rule_from_source():
    """which error code a Boolean of two errored operands reports, read from the source:
    'first' (pinned: inP's status, else inQ's; Compose: the first errored node) or 'min' (Impl::CombineStatus: the smallest
    code), None when neither shape is recognised"""
    br = open(os.path.join(vp.REPO, "src/boolean_result.cpp")).read()
    ct = open(os.path.join(vp.REPO, "src/csg_tree.cpp")).read()
    ih = open(os.path.join(vp.REPO, "src/impl.h")).read()
    first_b = re.search(r"if \(inP_\.status_ != Manifold::Error::NoError\) \{\s*auto impl = Manifold::Impl\(\);\s*impl\.status_ = inP_\.status_;", br)
    first_c = re.search(r"for \(auto& node : nodes\) \{\s*if \(node->pImpl_->status_ != Manifold::Error::NoError\) \{\s*Manifold::Impl impl;\s*impl\.status_ = node->pImpl_->status_;", ct)
    if first_b and first_c and "CombineStatus" not in br and "CombineStatus" not in ct:
        return "first"
    min_h = re.search(r"static Error CombineStatus\(Error a, Error b\) \{\s*if \(a == Error::NoError\) return b;\s*if \(b == Error::NoError\) return a;\s*return a < b \? a : b;", ih)
    if min_h and "CombineStatus(inP_.status_, inQ_.status_)" in br and "CombineStatus(status, node->pImpl_->status_)" in ct:
        return "min"
    return None


def load_witnesses():
    out = []
    for l in open(os.path.join(vp.ROOT, "corpus/C03/status_witness.txt")):
        l = l.strip()
        if not l or l.startswith("#"):
            continue
        name, rest = l.split(" | ", 1)
        lazy, eager = rest.split(" || ")
        out.append((name.strip(), "CASE W.%s.lazy 0 3 0 3 0 3 | %s" % (name.strip(), lazy), "CASE W.%s.eager 0 3 0 3 0 3 | %s" % (name.strip(), eager)))
    return out


def status_witness(cx, exe, drv, kmax, rule):
    """Properties_C03.status_code_refuted (and relatives, corpus/C03/status_witness.txt) replayed on the real code: an
    expression with two DIFFERENT error codes forced lazily (temporaries collapse, BatchBoolean reorders) and eagerly."""
    ws = load_witnesses()
    lines = [x for w in ws for x in w[1:]]
    rc, out, err = vp.sh2([exe], input="\n".join(lines) + "\n", timeout=300)
    R, S, X, _ = parse_out(out)
    ml = [l + " # " + cached_sets(S, l.split()[1]) for l in lines]
    rc2, out2, err2 = vp.sh2([drv, str(kmax), rule], input="\n".join(ml) + "\n", timeout=300)
    MR, MS, MX, _ = parse_out(out2)

    def last(Rd, cid):
        ks = sorted(k for k in Rd if k[0] == cid)
        return Rd[ks[-1]].split()[0] if ks else None
    rep = {}
    for (name, ll, le) in ws:
        il, ie = last(R, ll.split()[1]), last(R, le.split()[1])
        ml_, me = last(MR, ll.split()[1]), last(MR, le.split()[1])
        rep[name] = {"impl_lazy": il, "impl_eager": ie, "model_lazy": ml_, "model_eager": me}
        if il is None or ie is None or X:
            cx.broke("corr:C03/status-witness#%s" % name, "the status witness did not run: %s" % (list(X.values())[:1]))
            continue
        if (il, ie) != (ml_, me):
            cx.broke("corr:C03/status-witness-model#%s" % name,
                     "model (rule '%s') and implementation report different Status codes: impl=%s/%s model=%s/%s" % (rule, il, ie, ml_, me))
        if il != ie:
            cx.violation("status-code-depends-on-history:%s" % name,
                         "an expression with two differently errored operands (Status 1 = NaN vertex, Status 10 = wrong faceID length): "
                         "Status() is %s when the root is forced lazily (temporaries collapse into it, BatchBoolean/Compose reorder the "
                         "operands) and %s when the intermediate is forced first; which error code is reported depends on the forcing "
                         "history (error-ness does not)" % (il, ie), {"lines": [ll, le], "impl": [il, ie], "model": [ml_, me]})
    cx.cov["status_witness"] = rep
    cx.cov["status_rule_from_source"] = rule


TWO_CODES = False


def check_round(cx, rng, ndags, exe, drv, kmax, total, rule="first", big=False):
    cases, tries = build_cases(rng, ndags)
    if big:
        bc = big_cases(rng, kmax, cx.quick())
        total["dist"]["many_operand_cases"] = total["dist"].get("many_operand_cases", 0) + len(bc)
        cases = bc + cases
    lines = [c["line"] for c in cases]
    kl = lambda l: l.split()[1] if l.startswith("CASE") else None
    ko = lambda l: l.split()[1] if l.startswith("END ") else None
    out_impl, crashes = vp.run_cases(exe, lines, kl, ko, timeout=1500)
    for cl, rc, err in crashes:
        cx.violation("csg-evaluation-crash", "forcing a valid CSG expression crashed or hung (rc=%s): %s" % (rc, err[-300:]), {"case": cl})
    R, S, X, _ = parse_out(out_impl)
    mlines = []
    for c in cases:
        if c["variant"] != "kernel":
            mlines.append(c["line"] + " # " + cached_sets(S, c["id"]))
    rc2, out_model, err2 = vp.sh2([drv, str(kmax), rule], input="\n".join(mlines) + "\n", timeout=1500)
    if rc2 != 0:
        cx.broke("corr:C03/model-driver", "model driver exited %d: %s" % (rc2, err2[-400:]))
    MR, MS, MX, ALT = parse_out(out_model)
    bydag = {}
    for c in cases:
        bydag.setdefault(c["dag"], []).append(c)
    for dag, cs in bydag.items():
        roots = {}
        kern = None
        info = {"collapse": 0, "shared": 0}
        for c in cs:
            cid = c["id"]
            total["cases"] += 1
            total["dist"][c["variant"]] = total["dist"].get(c["variant"], 0) + 1
            if cid in X:
                cx.violation("csg-evaluation-exception", "a valid history raised: %s" % X[cid][:200], {"case": c["line"]})
                continue
            for (j, v) in c["forced"]:
                ri = R.get((cid, j))
                if ri is None:
                    cx.broke("corr:C03/no-output#%s" % cid, "implementation printed nothing for op %d" % j)
                    continue
                st, ntri, vol, inex, hx = ri.split()
                ehex, evol, est = c["exp"][j]
                if inex == "2":
                    # a sample point fell exactly on a projected triangle edge: the bitmap is not trustworthy, skip this observation
                    total["dist"]["degenerate_sample_skipped"] = total["dist"].get("degenerate_sample_skipped", 0) + 1
                    continue
                # inexact=1: some exported coordinate is off the 1/64 lattice by more than 1e-6 (a kernel artefact within
                # tolerance): the volume is then compared with a relative tolerance instead of exactly
                volok = int(vol) == evol if inex == "0" else abs(int(vol) - evol) <= 1e-6 * max(1, abs(evol))
                good = (hx == ehex) and volok and st == str(est)
                if v == c["root"]:
                    roots[c["variant"]] = (st, hx, vol if inex == "0" else "~", good)
                    if c["variant"] == "kernel":
                        kern = roots[c["variant"]]
                    if inex != "0":
                        total["dist"]["inexact_coordinates"] = total["dist"].get("inexact_coordinates", 0) + 1
                if c["variant"] == "kernel":
                    continue
                total["forces"] += 1
                c.setdefault("bad", []).append((j, v, good, ri[:80], (ehex[:40], evol, est)))
                if est:
                    total["dist"]["errored_values_forced"] = total["dist"].get("errored_values_forced", 0) + 1
                # model side
                mr = MR.get((cid, j))
                if mr is None:
                    total["mism"] += 1
                    cx.broke("corr:C03/model#%s" % cid, "model undefined or silent at op %d: %s" % (j, MX.get(cid, "")))
                    continue
                mst, mn, mout, mhex = mr.split()
                if mhex != ehex or mout != "0" or mst != str(est):
                    total["mism"] += 1
                    cx.broke("corr:C03/model-vs-formula#%s" % cid, "extracted model's voxel set differs from the exact formula at op %d" % j)
                ms, is_ = MS.get((cid, j)), S.get((cid, j))
                if ms != is_ and good:
                    total["mism"] += 1
                    if total["mism"] <= 4:
                        cx.broke("corr:C03/shape#%s@%d" % (cid, j), "node graph after forcing differs: impl=[%s] model=[%s]" % (str(is_)[:300], str(ms)[:300]))
                al = ALT.get((cid, j), "0 1 0").split()
                total["alts"] += int(al[1])
                if len(al) > 4:
                    total["uq_agree"] = total.get("uq_agree", 0) + int(al[3]); total["uq_total"] = total.get("uq_total", 0) + int(al[4])
                    if al[3] != al[4] and good:
                        cx.broke("corr:C03/use_count#%s@%d" % (cid, j), "use_count answers derived from the model heap (uniq_rc) differ from "
                                 "what the implementation did on nodes that are observable afterwards (%s of %s agree)" % (al[3], al[4]))
                if al[0] != al[1]:
                    cx.broke("corr:C03/oracle-irrelevance#%s@%d" % (cid, j), "model result depends on oracle answers / stack vs big-step (%s of %s agree)" % (al[0], al[1]))
                info["collapse"] += int(al[2]) if len(al) > 2 else 0
                if is_:
                    for tok in is_.split(" N", 1)[1].split() if " N" in is_ else []:
                        f = tok.split(":")
                        if len(f) >= 4 and f[1] != "L" and f[3] != f[0]:
                            info["shared"] += 1
        total["collapses"] += info["collapse"]
        total["shared"] += info["shared"]
        if info["collapse"] and info["shared"]:
            total["nontrivial"].add(cs[0]["line"].split(" ", 2)[2])      # distinct by the construction text itself
        # decisions
        vals = {k: v[:3] for k, v in roots.items() if k != "kernel"}
        exactvols = set(v[2] for v in vals.values() if v[2] != "~")
        # same Status, same classification bitmap, same exact volume wherever the coordinates are exact
        distinct = set((v[0], v[1]) for v in vals.values())
        if len(exactvols) > 1:
            distinct = set(vals.values())
        replay = {"lines": [c["line"] for c in cs], "roots": {k: list(v) for k, v in roots.items()},
                  "expected_root": list(cs[0]["exp"][cs[0]["forced"][-1][0]]) if cs[0]["variant"] != "mixed" else None}
        samehist = {k: v for k, v in vals.items() if k in ("lazy_drop", "lazy_keep", "eager", "mixed", "mixed2")}
        sh_ex = set(v[2] for v in samehist.values() if v[2] != "~")
        if len(set((v[0], v[1]) for v in samehist.values())) > 1 or len(sh_ex) > 1:
            cx.violation("solid-depends-on-forcing-history",
                         "one expression, different forcing histories, different solids/Status: %s" % {k: (v[0], v[2]) for k, v in samehist.items()}, replay)
        elif len(distinct) > 1:
            cx.violation("solid-depends-on-construction",
                         "nested vs flat / (a-b)-c vs a-(b+c) builds of one solid differ: %s" % {k: (v[0], v[2]) for k, v in vals.items()}, replay)
        anybad = [k for k, v in roots.items() if k != "kernel" and not v[3]]
        if anybad and len(distinct) == 1:
            if kern is not None and kern[3]:
                cx.violation("forced-solid-differs-from-expression",
                             "every history gives the same solid, but it is not the solid of the expression (exact voxel/volume formula), while the "
                             "Boolean kernel applied directly gives the right one: %s" % anybad, replay)
            else:
                total["c02"] += 1
                cx.notes.append("C02-family mismatch, same in all orders (kernel-only evaluation is wrong too): dag %s" % cs[0]["line"][:200])
        # intermediate values
        for c in cs:
            for (j, v, good, ri, e) in c.get("bad", []):
                if not good and v != c["root"] and (kern is None or kern[3]):
                    cx.violation("forced-intermediate-differs-from-expression",
                                 "a forced intermediate value is not the solid of its sub-expression: op %d value %d got %s expected %s" % (j, v, ri, e),
                                 {"lines": [c["line"]]})
    if cases:
        c = cases[min(3, len(cases) - 1)]
        cx.sample({"case": c["line"][:500], "impl": [R.get((c["id"], j), "")[:120] for (j, _) in c["forced"]][:3],
                   "shape": [S.get((c["id"], j), "")[:200] for (j, _) in c["forced"]][:2]})
    total["dist"]["generator_tries"] = total["dist"].get("generator_tries", 0) + tries
