"""C02 — Booleans compute the regularized set operation on the operand solids.
translation_validation: a Coq-verified exact classifier (winding number over Z,
half-open rule) judges what /repo's Boolean actually outputs, against a
specification side that is a theorem (voxel_spec / lattice_check_sound); plus
proved kernels (inclusion arithmetic c1/c2/c3 + AbsSum scans, Shadows) stated
about definitions regenerated from the C++ source on every run."""
import hashlib, os, random, re, sys, glob
from fractions import Fraction

import vp

sys.path.insert(0, os.path.join(vp.ROOT, "translate"))
import c02_consts

LEVEL = "translation_validation"
META = {
    "level": "translation_validation",
    "technique": "Coq-verified exact point-in-solid classifier + exact 6*volume run on the implementation's outputs (lattice CSG programs: every voxel "
                 "centre and the exact volume; generic pairs: far-from-surface sample points, commutativity, inclusion-exclusion) + proved kernels "
                 "tied to the source by a translator",
    "text": "Coq (Properties_C02.v, 31 theorems, all closed under the global context): winding (signed +z-ray crossing number over Z, half-open rule, exact "
            "determinants) is additive, order/rotation invariant, negated by flipping, equal to its bounding-interval-filtered extracted form; for the "
            "12-triangle table of Impl(Shape::Cube) (table regenerated from impl.cpp and compared) on any integer box it is 1 inside / 0 outside at every "
            "point off the six face planes (winding_box), 6*volume is 6*dx*dy*dz; voxel_spec: for every CSG tree over lattice boxes/half-spaces the set "
            "formula over 'winding of the leaf cube mesh != 0' equals the comparison-only classifier; lattice_check_sound: if the extracted checker reports "
            "0 mismatches then at every voxel centre the output's winding number is the formula's indicator and the reported 6*volume is exact; "
            "equal_winding_equal_volume_lattice for signed voxel-cube chains. inclusion_table/abs_sum_scan/abs_sum_scan_parallel (about c1,c2,c3, the "
            "i03/i30/i12/i21 lambdas, AbsSum, DuplicateVerts' count regenerated from boolean_result.cpp): c1*k+c2*w+c3*k*w is the multilinear extension of "
            "the set formula and the inclusion numbers are exactly its jumps for all integer winding numbers; the AbsSum scans give consecutive disjoint "
            "vertex ranges covering [init,total), also under EVERY legal tbb::parallel_scan schedule (C13's protocol model) although AbsSum has no identity. "
            "Exact-Q port of the boolean3.cpp kernels (Interpolate, Intersect, Shadow01, Kernel02, Kernel11, Kernel12; Shadows/withSign regenerated from "
            "shared.h): shadowsQ_is_perturbed_order/antisymmetry, shadow01_spec (both passes ask the same perturbed question 'P-vertex left of Q-vertex'), "
            "kernel02_is_crossing_sum_partial, kernel12_is_signed_sum, x12_sum_is_winding_difference (for a closed B the x12 of an edge summed over all "
            "faces is the difference of the end points' vertex windings, ties included), winding03_flood_fill_spec / winding03_is_vertex_winding (union-find "
            "components = connectivity classes of unbroken edges; every vertex gets its own sum of s02 whatever representative was chosen). "
            "Correspondence: the REAL Shadow01/Kernel02/Kernel11/Kernel12 (harness includes boolean3.cpp) and Boolean3's xv12_/xv21_/w03_/w30_ are compared "
            "integer for integer with the extracted port on lattice box pairs, on operands that are Boolean results and on generic-position primitives "
            "(differences excused only where a decision on a computed value is within 2^-30 relative of a tie); closed_meshb is evaluated on every operand. "
            "Validation: every result of lattice CSG programs (pairs of boxes in {0..3}^3 x 3 ops x Split - all 247,536 incl. plane cuts in the thorough "
            "tier -, nested programs with Split/SplitByPlane/TrimByPlane/BatchBoolean, programs whose sub-expressions carry 90-degree rotations, mirrors "
            "and integer translations on nested same-op nodes, lazy and eager evaluation) must have the formula's winding number at all voxel centres and "
            "exact 6*volume = 6*voxel count; generic pairs of Cube/Sphere/Cylinder/Tetrahedron under random transforms are classified at ~200 points "
            "farther than 10*tolerance from both inputs, with commutativity and inclusion-exclusion of exact volumes.",
    "note": "Not proved: that boolean3.cpp/boolean_result.cpp compute the right solid (only their outputs are checked, on the generated inputs); "
            "'equal winding everywhere => equal volume' for arbitrary closed meshes (proved for voxel-cube chains only); that Kernel02's crossing sum "
            "= +-1 iff the perturbed vertex projects inside the perturbed triangle; the consistency lemma 'an edge with no recorded intersection has "
            "x12 = 0 against every face' is a hypothesis of winding03_is_vertex_winding (checked on real data by the correspondence). The kernel model "
            "uses exact sums of face normals where the C++ rounds them (same sign unless within 1 ulp); DisjointSets is modelled as quick-find. "
            "Spec-side push-down of lattice isometries to the leaves and the choice of violation keys are Python. Trusted: Coq kernel, "
            "extraction, the OCaml driver's exact decoding of IEEE-754 bit patterns, the C++ harness printing bit patterns, the regex translator, the "
            "double-precision distance filter (conservative margin 1e-9*scale) that only selects sample points.",
}

OPS = ["+", "-", "^"]
N = 3  # lattice {0..3}^3  -> 3x3x3 voxels


# ------------------------------------------------------------------ programs
# program = nested tuples: ("B", lo, hi) | (op, a, b) with op in + - ^ S0 S1 | ("P0"|"P1", ax, off, a)
#           | ("T", ax, sgn, off, a) | ("BA"|"BI"|"BS", [e...])
def prefix(e):
    k = e[0]
    if k == "B":
        return "B %d %d %d %d %d %d" % (e[1] + e[2])
    if k in ("+", "-", "^", "S0", "S1"):
        return "%s %s %s" % (k, prefix(e[1]), prefix(e[2]))
    if k in ("P0", "P1"):
        return "%s %d %d %s" % (k, e[1], e[2], prefix(e[3]))
    if k == "T":
        return "T %d %d %d %s" % (e[1], e[2], e[3], prefix(e[4]))
    if k == "H":
        return "H %d %d %d" % (e[1], 1 if e[2] else 0, e[3])
    if k in ("RX", "RY", "RZ"):
        return "%s %d %s" % (k, e[1], prefix(e[2]))
    if k in ("MX", "MY", "MZ"):
        return "%s %s" % (k, prefix(e[1]))
    if k == "TR":
        return "TR %d %d %d %s" % (e[1] + (prefix(e[2]),))
    if k == "AF":
        return "AF %s %s %s" % (" ".join(str(x) for r in e[1] for x in r), " ".join(map(str, e[2])), prefix(e[3]))
    return "%s %d %s" % (k, len(e[1]), " ".join(prefix(x) for x in e[1]))


def pretty(e):
    k = e[0]
    if k == "B":
        if all(0 <= x <= 9 for x in e[1] + e[2]):
            return "[%d%d%d-%d%d%d]" % (e[1] + e[2])
        return "[%d,%d,%d:%d,%d,%d]" % (e[1] + e[2])
    if k in ("+", "-", "^"):
        return "(%s%s%s)" % (pretty(e[1]), k, pretty(e[2]))
    if k in ("S0", "S1"):
        return "%s(%s,%s)" % (k, pretty(e[1]), pretty(e[2]))
    if k in ("P0", "P1"):
        return "%s%s%d(%s)" % (k, "xyz"[e[1]], e[2], pretty(e[3]))
    if k == "T":
        return "T%s%s%d(%s)" % ("xyz"[e[1]], "+" if e[2] > 0 else "-", e[3], pretty(e[4]))
    if k in ("RX", "RY", "RZ"):
        return "R%s%d(%s)" % (k[1].lower(), e[1], pretty(e[2]))
    if k in ("MX", "MY", "MZ"):
        return "M%s(%s)" % (k[1].lower(), pretty(e[1]))
    if k == "TR":
        return "Tr%+d%+d%+d(%s)" % (e[1] + (pretty(e[2]),))
    if k == "AF":
        return "Af{%s;%s}(%s)" % (",".join(str(x) for r in e[1] for x in r), ",".join(map(str, e[2])), pretty(e[3]))
    return "%s(%s)" % (k, ",".join(pretty(x) for x in e[1]))


def parse_pretty(s):
    """Inverse of pretty (used for the corpus files)."""
    pos = [0]

    def peek():
        return s[pos[0]] if pos[0] < len(s) else ""

    def eat(c):
        assert s[pos[0]:pos[0] + len(c)] == c, (s, pos[0], c)
        pos[0] += len(c)

    def num():
        m = re.match(r"-?\d+", s[pos[0]:])
        pos[0] += m.end()
        return int(m.group(0))

    def e():
        c = peek()
        if c == "[":
            m = re.match(r"\[(\d)(\d)(\d)-(\d)(\d)(\d)\]", s[pos[0]:]) or \
                re.match(r"\[(-?\d+),(-?\d+),(-?\d+):(-?\d+),(-?\d+),(-?\d+)\]", s[pos[0]:])
            pos[0] += m.end()
            g = [int(x) for x in m.groups()]
            return ("B", tuple(g[:3]), tuple(g[3:]))
        if c == "(":
            eat("(")
            a = e()
            op = peek()
            eat(op)
            b = e()
            eat(")")
            return (op, a, b)
        if c == "S":
            k = s[pos[0]:pos[0] + 2]
            eat(k + "(")
            a = e()
            eat(",")
            b = e()
            eat(")")
            return (k, a, b)
        if c == "P":
            k = s[pos[0]:pos[0] + 2]
            eat(k)
            ax = "xyz".index(peek())
            pos[0] += 1
            off = num()
            eat("(")
            a = e()
            eat(")")
            return (k, ax, off, a)
        if s[pos[0]:pos[0] + 3] == "Af{":
            m = re.match(r"Af\{([-\d,]+);([-\d,]+)\}\(", s[pos[0]:])
            pos[0] += m.end()
            a = e()
            eat(")")
            mm = [int(x) for x in m.group(1).split(",")]
            return ("AF", (tuple(mm[0:3]), tuple(mm[3:6]), tuple(mm[6:9])), tuple(int(x) for x in m.group(2).split(",")), a)
        if c == "R":
            eat("R")
            ax = peek().upper()
            pos[0] += 1
            k = num()
            eat("(")
            a = e()
            eat(")")
            return ("R" + ax, k, a)
        if c == "M":
            eat("M")
            ax = peek().upper()
            pos[0] += 1
            eat("(")
            a = e()
            eat(")")
            return ("M" + ax, a)
        if s[pos[0]:pos[0] + 2] == "Tr":
            eat("Tr")
            m = re.match(r"([+-]\d+)([+-]\d+)([+-]\d+)\(", s[pos[0]:])
            pos[0] += m.end()
            a = e()
            eat(")")
            return ("TR", tuple(int(x) for x in m.groups()), a)
        if c == "T":
            eat("T")
            ax = "xyz".index(peek())
            pos[0] += 1
            sgn = 1 if peek() == "+" else -1
            pos[0] += 1
            off = num()
            eat("(")
            a = e()
            eat(")")
            return ("T", ax, sgn, off, a)
        if c == "B":
            k = s[pos[0]:pos[0] + 2]
            eat(k + "(")
            xs = [e()]
            while peek() == ",":
                eat(",")
                xs.append(e())
            eat(")")
            return (k, xs)
        raise ValueError("cannot parse program %r at %d" % (s, pos[0]))

    r = e()
    assert pos[0] == len(s), (s, pos[0])
    return r


def prog_key(e, mode):
    can = pretty(e) + ("@eager" if mode else "@lazy")
    return "lattice-program:" + hashlib.sha1(can.encode()).hexdigest()[:12], can


XFORMS = ("RX", "RY", "RZ", "MX", "MY", "MZ", "TR")


def children(e):
    k = e[0]
    if k in ("B", "H"):
        return []
    if k in ("BA", "BI", "BS"):
        return list(e[1])
    if k in ("RX", "RY", "RZ", "TR"):
        return [e[2]]
    if k in ("MX", "MY", "MZ"):
        return [e[1]]
    if k in ("P0", "P1", "AF"):
        return [e[3]]
    if k == "T":
        return [e[4]]
    return [e[1], e[2]]


def depth(e):
    cs = children(e)
    if not cs:
        return 0
    return (0 if e[0] in XFORMS else 1) + max(depth(x) for x in cs)


def has_xform(e):
    return e[0] in XFORMS or any(has_xform(x) for x in children(e))


# ---- lattice isometries p -> M p + t (M a signed permutation matrix) and the spec-side push-down
ID3 = ((1, 0, 0), (0, 1, 0), (0, 0, 1))


def iso_of(e):
    """(M, t) of a transform node, as Manifold::Rotate / Mirror / Translate define them."""
    k = e[0]
    if k == "TR":
        return ID3, tuple(e[1])
    if k in ("MX", "MY", "MZ"):
        a = "XYZ".index(k[1])
        return tuple(tuple((-1 if (i == j == a) else (1 if i == j else 0)) for j in range(3)) for i in range(3)), (0, 0, 0)
    c, sn = [(1, 0), (0, 1), (-1, 0), (0, -1)][e[1] % 4]
    if k == "RX":      # y' = c y - s z ; z' = s y + c z
        return ((1, 0, 0), (0, c, -sn), (0, sn, c)), (0, 0, 0)
    if k == "RY":      # x' = c x + s z ; z' = -s x + c z
        return ((c, 0, sn), (0, 1, 0), (-sn, 0, c)), (0, 0, 0)
    return ((c, -sn, 0), (sn, c, 0), (0, 0, 1)), (0, 0, 0)


def iso_apply(g, p):
    M, t = g
    return tuple(sum(M[i][j] * p[j] for j in range(3)) + t[i] for i in range(3))


def iso_compose(g, h):          # g after h
    (M, t), (N, u) = g, h
    return (tuple(tuple(sum(M[i][k] * N[k][j] for k in range(3)) for j in range(3)) for i in range(3)), iso_apply(g, u))


def iso_inverse(g):
    M, t = g
    Mt = tuple(tuple(M[j][i] for j in range(3)) for i in range(3))
    return Mt, tuple(-sum(Mt[i][j] * t[j] for j in range(3)) for i in range(3))


def pushdown(e, g=(ID3, (0, 0, 0))):
    """The same solid as a transform-free program: g(A op B) = g(A) op g(B), the image of a lattice box / axis half-space
    under a lattice isometry is a lattice box / axis half-space.  Plane operations become intersections with H leaves."""
    k = e[0]
    if k == "B":
        a, b = iso_apply(g, e[1]), iso_apply(g, e[2])
        return ("B", tuple(min(x, y) for x, y in zip(a, b)), tuple(max(x, y) for x, y in zip(a, b)))
    if k == "H":
        M, t = g
        ax, greater, off = e[1], e[2], e[3]
        i = next(r for r in range(3) if M[r][ax] != 0)
        sgn = M[i][ax]
        return ("H", i, greater if sgn > 0 else (not greater), sgn * off + t[i])
    if k in XFORMS:
        return pushdown(children(e)[0], iso_compose(g, iso_of(e)))
    if k in ("P0", "P1"):
        return ("^", pushdown(e[3], g), pushdown(("H", e[1], k == "P0", e[2]), g))
    if k == "T":
        h = ("H", e[1], True, e[3]) if e[2] > 0 else ("H", e[1], False, -e[3])
        return ("^", pushdown(e[4], g), pushdown(h, g))
    if k in ("BA", "BI", "BS"):
        return (k, [pushdown(x, g) for x in e[1]])
    return (k, pushdown(e[1], g), pushdown(e[2], g))


def leaf_range(e):
    """min / max coordinate over all box leaves of a pushed-down program"""
    if e[0] == "B":
        return min(e[1]), max(e[2])
    if e[0] == "H":
        return 0, 0
    rs = [leaf_range(x) for x in children(e)]
    return min(r[0] for r in rs), max(r[1] for r in rs)


def shift_prog(e, s):
    k = e[0]
    if k == "B":
        return ("B", tuple(x + s for x in e[1]), tuple(x + s for x in e[2]))
    if k == "H":
        return ("H", e[1], e[2], e[3] + s)
    if k in ("BA", "BI", "BS"):
        return (k, [shift_prog(x, s) for x in e[1]])
    return (k, shift_prog(e[1], s), shift_prog(e[2], s))


def has_plane(e):
    return e[0] in ("P0", "P1", "T") or any(has_plane(x) for x in children(e))


# |volume - voxel count| accepted as "within tolerance": 20 * tolerance (3e-12 for the {0..3}^3 lattice) * area (<= ~150)
VOL_TOL = Fraction(1, 10 ** 8)


def voxels(e):
    """Python mirror of csg_inside on the 27 voxel centres -- used ONLY to choose the violation key
    (is the operand of a TrimByPlane node empty?), never for a verdict."""
    k = e[0]
    if has_xform(e):
        return voxels(pushdown(e))
    cs = [(x, y, z) for x in range(-9, 12) for y in range(-9, 12) for z in range(-9, 12)] if WIDE_VOXELS[0] else \
         [(x, y, z) for x in range(N) for y in range(N) for z in range(N)]
    if k == "H":
        return frozenset(c for c in cs if (c[e[1]] >= e[3] if e[2] else c[e[1]] < e[3]))
    if k == "B":
        return frozenset(c for c in cs if all(e[1][i] <= c[i] < e[2][i] for i in range(3)))
    if k in ("+", "BA"):
        xs = e[1] if k == "BA" else [e[1], e[2]]
        return frozenset().union(*[voxels(x) for x in xs])
    if k in ("^", "S0", "BI"):
        xs = e[1] if k == "BI" else [e[1], e[2]]
        r = voxels(xs[0])
        for x in xs[1:]:
            r = r & voxels(x)
        return r
    if k in ("-", "S1", "BS"):
        xs = e[1] if k == "BS" else [e[1], e[2]]
        r = voxels(xs[0])
        for x in xs[1:]:
            r = r - voxels(x)
        return r
    if k in ("P0", "P1"):
        return frozenset(c for c in voxels(e[3]) if (c[e[1]] >= e[2] if k == "P0" else c[e[1]] < e[2]))
    if k == "T":
        return frozenset(c for c in voxels(e[4]) if (c[e[1]] >= e[3] if e[2] > 0 else c[e[1]] < -e[3]))
    raise ValueError(k)


WIDE_VOXELS = [False]


def trim_of_empty(e):
    if has_xform(e) and not WIDE_VOXELS[0]:
        WIDE_VOXELS[0] = True
        try:
            return trim_of_empty(e)
        finally:
            WIDE_VOXELS[0] = False
    if e[0] == "T" and not voxels(e[4]):
        return True
    return any(trim_of_empty(x) for x in children(e))


ALL_BOXES = [((x0, y0, z0), (x1, y1, z1)) for x0 in range(N) for x1 in range(x0 + 1, N + 1)
             for y0 in range(N) for y1 in range(y0 + 1, N + 1) for z0 in range(N) for z1 in range(z0 + 1, N + 1)]


def rbox(rng):
    lo, hi = rng.choice(ALL_BOXES)
    return ("B", lo, hi)


def rprog(rng, d, extras=True):
    """Random program of depth <= d (operands may be Boolean results)."""
    if d == 0 or rng.random() < 0.15:
        return rbox(rng)
    r = rng.random()
    if not extras or r < 0.70:
        return (rng.choice(OPS), rprog(rng, d - 1, extras), rprog(rng, d - 1, extras))
    if r < 0.80:
        return (rng.choice(["S0", "S1"]), rprog(rng, d - 1, extras), rprog(rng, d - 1, extras))
    if r < 0.88:
        return (rng.choice(["P0", "P1"]), rng.randrange(3), rng.randrange(0, N + 1), rprog(rng, d - 1, extras))
    if r < 0.94:
        return ("T", rng.randrange(3), rng.choice([1, -1]), rng.randrange(-N, N + 1), rprog(rng, d - 1, extras))
    return (rng.choice(["BA", "BI", "BS"]), [rprog(rng, d - 1, extras) for _ in range(rng.randrange(2, 5))])


# ---- programs with lattice isometries applied to SUB-EXPRESSIONS (each op node may carry its own transform; in lazy mode
#      they stay unevaluated CSG nodes, so collapsing of same-op chains has to compose non-commuting transforms correctly)
def rand_xform(rng):
    r = rng.random()
    if r < 0.45:
        return (rng.choice(["RX", "RY", "RZ"]), rng.choice([1, 2, 3]))
    if r < 0.85:
        t = [0, 0, 0]
        for _ in range(rng.choice([1, 1, 2])):
            t[rng.randrange(3)] = rng.choice([-3, -2, -1, 1, 2, 3])
        return ("TR", tuple(t))
    return (rng.choice(["MX", "MY", "MZ"]),)


def wrap_xform(x, e):
    return x + (e,)


def frame_leaf(rng, F):
    """a random box of the base grid, expressed in the coordinates of frame F (F maps base-grid coordinates to local ones)"""
    lo, hi = rng.choice(ALL_BOXES)
    return pushdown(("B", lo, hi), F)


def frame_operand(rng, F):
    if rng.random() < 0.7:
        return frame_leaf(rng, F)
    return (rng.choice(OPS), frame_leaf(rng, F), frame_leaf(rng, F))


def chain_at(e):
    """length of the chain of directly nested same-op nodes starting at e (transform nodes in between do not break it)"""
    e = _skip_x(e)
    if e[0] not in OPS:
        return 0
    return 1 + max([chain_at(c) for c in children(e) if _skip_x(c)[0] == e[0]] + [0])


def same_op_chain(e):
    return max([chain_at(e)] + [same_op_chain(c) for c in children(e)])


def _skip_x(e):
    while e[0] in XFORMS:
        e = children(e)[0]
    return e


def rxprog(rng, levels, F, op):
    """`levels` nested op nodes (mostly the SAME op, so that the lazy evaluator collapses them), the inner operand of
    each wrapped in its own Rotate / Mirror / Translate; all leaves land in the base grid after the transforms."""
    if levels == 0:
        return frame_leaf(rng, F)
    inner_op = op if rng.random() < 0.8 else rng.choice(OPS)
    xs = []
    if rng.random() < 0.9:
        xs.append(rand_xform(rng))
        if rng.random() < 0.25:
            xs.append(rand_xform(rng))
    Fi = F
    for x in xs:                       # outermost transform first: e = x0(x1(inner))
        Fi = iso_compose(iso_inverse(iso_of(wrap_xform(x, None))), Fi)
    inner = rxprog(rng, levels - 1, Fi, inner_op)
    for x in reversed(xs):
        inner = wrap_xform(x, inner)
    other = frame_operand(rng, F)
    if op != "-" and rng.random() < 0.3:
        return (op, other, inner)
    return (op, inner, other)


# ------------------------------------------------------------------ running
MAX_REPORTED = 12   # distinct fresh per-program violations reported per stream (all are counted in the log)


class _Capped:
    """Forwards to the Check but stops reporting per-program violations after `cap` distinct keys
    (class keys and broke() always pass)."""

    def __init__(self, cx, cap):
        self.cx, self.cap, self.keys, self.dropped = cx, cap, set(), 0

    def violation(self, key, desc, rep):
        if ":" in key and key not in self.keys and len(self.keys) >= self.cap:
            self.dropped += 1
            return
        self.keys.add(key)
        self.cx.violation(key, desc, rep)

    def broke(self, name, desc):
        self.cx.broke(name, desc)


def run_lattice(cx, exe, drv, cases, label, cap=None):
    """cases: list of (id, mode, program).  Returns dict id -> result dict."""
    if cap is not None:
        cx = _Capped(cx, cap)
    lines = ["L %s %d %s" % (cid, mode, prefix(e)) for cid, mode, e in cases]
    kl = lambda l: l.split()[1] if l.startswith("L ") else None
    ko = lambda l: l.split()[1] if l.startswith("ST ") else None
    out, crashes = vp.run_cases(exe, lines, kl, ko, timeout=1700)
    byid = {str(c[0]): c for c in cases}
    res = {}
    for cl, rc, err in crashes:
        toks = cl.split()
        if len(toks) > 1 and toks[1] in byid:
            cid, mode, e = byid[toks[1]]
            key, can = prog_key(e, mode)
            cx.violation(key, "Boolean program crashed or hung (rc=%s): %s :: %s" % (rc, can, err[-200:].replace("\n", " ")),
                         {"program": can, "prefix": prefix(e), "mode": mode, "harness_line": cl})
            res[str(cid)] = {"crash": True}
    dl = []
    status = {}
    grid = {}
    for l in out.splitlines():
        if l.startswith("MESH r"):
            cid = l.split(" ", 2)[1][1:]
            if cid in byid:
                dl.append(l)
                prog = byid[cid][2]
                if has_xform(prog):
                    # spec side: transforms pushed down to the leaves (boxes stay boxes), grid enlarged to hold every leaf
                    spec = pushdown(prog)
                    lo, hi = leaf_range(spec)
                    grid[cid] = hi - lo
                    dl.append("LATS %s %d %d r%s %s" % (cid, hi - lo, -lo, cid, prefix(shift_prog(spec, -lo))))
                else:
                    dl.append("LAT %s %d r%s %s" % (cid, N, cid, prefix(prog)))
                dl.append("DROP r%s" % cid)
        elif l.startswith("ST "):
            t = l.split()
            status[t[1]] = (int(t[2]), int(t[3]))
    rc, dout, derr = vp.sh2([drv], input="\n".join(dl) + "\n", timeout=1700)
    if rc != 0:
        cx.broke("corr:C02/driver", "%s: exact checker exited %d: %s" % (label, rc, derr[-300:]))
    for l in dout.splitlines():
        t = l.split()
        if t[0] == "L":
            k, bad, cnt, vol, wf = int(t[2]), int(t[3]), int(t[4]), int(t[5], 16), int(t[6])
            res[t[1]] = {"k": k, "bad": bad, "cnt": cnt, "vol6": Fraction(vol, 1 << (3 * k)), "wf": wf}
        elif t[0] == "E":
            res[t[1]] = {"error": " ".join(t[2:])}
    nviol = 0
    for cid, mode, e in cases:
        r = res.get(str(cid))
        key, can = prog_key(e, mode)
        st = status.get(str(cid))
        rep = {"program": can, "prefix": prefix(e), "mode": "eager" if mode else "lazy",
               "replay": "echo 'L 0 %d %s' | build/h-c02_bool-seq-*/c02_bool   (then LAT 0 3 r0 <prefix> to the driver)" % (mode, prefix(e))}
        if r is None or st is None:
            if not (r and r.get("crash")):
                cx.broke("corr:C02/lattice-missing", "%s: no verdict for %s" % (label, can))
            continue
        if st[0] != 0:
            if trim_of_empty(e):
                key = "trim-by-plane-empty-operand"
                desc = "TrimByPlane of an EMPTY operand returns error status %d (SplitByPlane returns an empty pair): %s" % (st[0], can)
            else:
                desc = "Boolean program returned status %d instead of a solid: %s" % (st[0], can)
            cx.violation(key, desc, rep)
            nviol += 1
            continue
        if "error" in r:
            cx.violation(key, "result has non-finite coordinates / malformed mesh (%s): %s" % (r["error"], can), rep)
            nviol += 1
            continue
        if not r["wf"]:
            cx.broke("corr:C02/csg_wf", "generated program is not well-formed for voxel_spec: " + can)
            continue
        want = 6 * r["cnt"]
        r["can"] = can
        if r["bad"] == 0 and r["vol6"] == want:
            r["verdict"] = "exact"
            continue
        rep.update({"voxel_centres_misclassified": r["bad"], "voxels_expected": r["cnt"],
                    "volume_expected": r["cnt"], "volume_got": float(r["vol6"] / 6), "volume6_exact": str(r["vol6"])})
        within = r["bad"] == 0 and abs(r["vol6"] - want) <= 6 * VOL_TOL
        if within and has_plane(e):
            # SplitByPlane/TrimByPlane build their cutter from sqrt/asin/atan2 of the bounding box: results are only
            # required to be within tolerance of the lattice solid (exact winding at all voxel centres, volume within VOL_TOL)
            r["verdict"] = "plane-within-tolerance"
            continue
        if within:
            # right solid up to tolerance but NOT exactly the voxel set (a vertex 1 ulp off a lattice edge): one defect
            # family, one key; the witness program is in the description/replay
            r["verdict"] = "inexact"
            cx.violation("lattice-result-inexact-within-tolerance",
                         "lattice program %s: all voxel centres right but 6*volume differs from %d by %.3g (non-lattice vertex on an edge)"
                         % (can, want, float(r["vol6"] - want)), rep)
            nviol += 1
            continue
        r["verdict"] = "wrong"
        cx.violation(key, "lattice program %s: %d voxel centres misclassified, volume %.6g instead of %d"
                     % (can, r["bad"], float(r["vol6"] / 6), r["cnt"]), rep)
        nviol += 1
    return res, nviol


def fhex(x):
    return float(x).hex()


def gen_shape(rng):
    kind = rng.choice([0, 0, 1, 1, 2, 2, 3])
    if kind == 0:
        p = [rng.uniform(0.6, 2.0), rng.uniform(0.6, 2.0), rng.uniform(0.6, 2.0), 0]
    elif kind == 1:
        p = [rng.uniform(0.5, 1.3), rng.choice([2, 3, 4, 6]), 0, 0]
    elif kind == 2:
        p = [rng.uniform(0.8, 2.2), rng.uniform(0.3, 1.0), rng.uniform(0.3, 1.0), rng.choice([1, 2, 3, 5])]
    else:
        p = [0, 0, 0, 0]
    rot = [rng.uniform(-180, 180) for _ in range(3)]
    sc = [rng.uniform(0.7, 1.4) for _ in range(3)]
    tr = [rng.uniform(-0.7, 0.7) for _ in range(3)]
    return "%d %s %s %s %s" % (kind, " ".join(fhex(x) for x in p), " ".join(fhex(x) for x in rot),
                               " ".join(fhex(x) for x in sc), " ".join(fhex(x) for x in tr)), kind


def dbl_of_token(t):
    import struct
    if t.startswith("x"):
        return struct.unpack(">d", bytes.fromhex(t[1:]))[0]
    return float(int(t))


def frac_of_token(t):
    return Fraction(dbl_of_token(t))


def run_generic(cx, exe, drv, rng, count, npts):
    cases = []
    for i in range(count):
        a, ka = gen_shape(rng)
        b, kb = gen_shape(rng)
        cases.append((i, "G %d %d %d %s %s" % (i, npts, rng.randrange(1 << 30), a, b), (ka, kb)))
    return run_generic_lines(cx, exe, drv, cases)


def run_generic_lines(cx, exe, drv, cases):
    lines = [c[1] for c in cases]
    kl = lambda l: l.split()[1] if l.startswith("G ") else None
    ko = lambda l: l.split()[1] if l.startswith("GT ") else None
    out, crashes = vp.run_cases(exe, lines, kl, ko, timeout=1700)
    for cl, rc, err in crashes:
        key = "generic-crash:" + hashlib.sha1(cl.encode()).hexdigest()[:12]
        cx.violation(key, "Boolean of generic-position primitives crashed or hung (rc=%s): %s" % (rc, err[-200:].replace("\n", " ")),
                     {"harness_line": cl})
    dl, gt = [], {}
    names = ["a", "b", "add", "sub", "int", "dda", "tni"]
    for l in out.splitlines():
        if l.startswith("MESH ") or l.startswith("PTS "):
            dl.append(l)
        elif l.startswith("GT "):
            t = l.split()
            cid = t[1]
            gt[cid] = {"tol": frac_of_token(t[2]), "area": frac_of_token(t[3]), "scale": frac_of_token(t[4]),
                       "status": [int(x) for x in t[5:10]], "near": int(t[10])}
            dl.append("WIND %s p%s %s" % (cid, cid, " ".join(n + cid for n in names[:5])))
            for n in names:
                dl.append("VOL %s %s%s" % (cid, n, cid))
            dl.append("DROP p%s %s" % (cid, " ".join(n + cid for n in names)))
    rc, dout, derr = vp.sh2([drv], input="\n".join(dl) + "\n", timeout=1700)
    if rc != 0:
        cx.broke("corr:C02/driver", "generic: exact checker exited %d: %s" % (rc, derr[-300:]))
    W, V = {}, {}
    for l in dout.splitlines():
        t = l.split()
        if t[0] == "W":
            W.setdefault(t[1], {})[t[2][:-len(t[1])]] = [int(x) for x in t[4:]]
        elif t[0] == "V":
            V.setdefault(t[1], {})[t[2][:-len(t[1])]] = Fraction(int(t[4], 16), 1 << (3 * int(t[3]))) / 6
        elif t[0] == "E":
            cx.broke("corr:C02/generic-mesh", "driver rejected a mesh: " + l)
    stats = {"pairs": 0, "points": 0, "points_near_surface": 0, "informative_points": 0, "nontrivial_pairs": 0, "kinds": {}}
    for cid, line, kinds in cases:
        c = str(cid)
        if c not in gt or c not in W or c not in V:
            if not any(cl == line for cl, _, _ in crashes):
                cx.broke("corr:C02/generic-missing", "no verdict for generic case %s" % c)
            continue
        g, w, v = gt[c], W[c], V[c]
        key = "generic-pair:" + hashlib.sha1(line.split(" ", 4)[4].encode()).hexdigest()[:12]
        rep = {"harness_line": line, "tolerance": float(g["tol"])}
        if any(g["status"]):
            cx.violation(key, "Boolean of valid generic-position primitives returned an error status %s" % g["status"], rep)
            continue
        stats["pairs"] += 1
        stats["kinds"][str(kinds)] = stats["kinds"].get(str(kinds), 0) + 1
        n = len(w["a"])
        stats["points"] += n
        stats["points_near_surface"] += g["near"]
        bad = []
        ins = [0, 0, 0, 0]
        for i in range(n):
            ia, ib = w["a"][i] != 0, w["b"][i] != 0
            ins[2 * ia + ib] += 1
            if w["a"][i] not in (0, 1) or w["b"][i] not in (0, 1):
                bad.append((i, "operand winding %d/%d" % (w["a"][i], w["b"][i])))
                continue
            for nm, want in (("add", ia or ib), ("sub", ia and not ib), ("int", ia and ib)):
                if w[nm][i] != (1 if want else 0):
                    bad.append((i, "%s winding %d, formula says %d (inA=%d inB=%d)" % (nm, w[nm][i], want, ia, ib)))
        if ins[3] and (ins[1] or ins[2]):
            stats["nontrivial_pairs"] += 1
        stats["informative_points"] += ins[1] + ins[2] + ins[3]
        if bad:
            rep["misclassified"] = bad[:8]
            cx.violation(key, "generic pair: %d of %d sample points (> 10*tolerance from both inputs) classified against the set formula, e.g. %s"
                         % (len(bad), n, bad[0][1]), rep)
            continue
        # exact volumes: commutativity and inclusion-exclusion, |error| <= 20 * tolerance * (area(A)+area(B))
        bound = 20 * g["tol"] * g["area"]
        checks = [("commutative-add", v["add"] - v["dda"]), ("commutative-intersect", v["int"] - v["tni"]),
                  ("inclusion-exclusion", v["add"] + v["int"] - v["a"] - v["b"]), ("difference", v["sub"] + v["int"] - v["a"])]
        for nm, d in checks:
            if abs(d) > bound:
                rep["volumes"] = {k: float(x) for k, x in v.items()}
                cx.violation(key, "generic pair: %s of exact volumes off by %.3g > bound %.3g (20*tolerance*area)" % (nm, float(d), float(bound)), rep)
                break
    return stats


# ------------------------------------------------------------------ large batches (n-ary union / subtract around kMaxUnionSize)
def max_union_size():
    m = re.search(r"constexpr\s+size_t\s+kMaxUnionSize\s*=\s*(\d+)\s*;", open(os.path.join(vp.REPO, "src/csg_tree.cpp")).read())
    return int(m.group(1)) if m else None


def gb_programs(K, thorough):
    """FIXED list (no seed): n unit lattice cubes on a sparse grid + bars/slabs overlapping many of them, the bars placed
    first / in the middle / last in the operand list, operand counts on both sides of kMaxUnionSize = K, evaluated by
    BatchBoolean and by lazy +/- chains."""
    out = []
    sizes = [K - 30, K + 25] + ([K + 90, K - 1, K + 1] if thorough else [])
    for n in sizes:
        G = int(n ** 0.5) + 1
        rows = (n + G - 1) // G
        bar = ((0, 0, 0), (2 * G - 1, 1, 1))                      # along x through row 0
        slab = ((2 * (G // 2), 0, 0), (2 * (G // 2) + 1, 2 * (rows - 1), 1))   # along y through a middle column
        for posname, pos in (("first", 0), ("middle", n // 2), ("last", n + 5)):
            combos = [("U", "batch"), ("U", "chain"), ("S", "batch")] + ([("S", "chain")] if thorough else [])
            for kind, via in combos:
                bars = [(pos, bar)] if (n + len(out)) % 2 == 0 else [(pos, bar), (pos, slab)]
                out.append({"kind": kind, "via": via, "n": n, "G": G, "bars": bars, "pos": posname})
    return out


def gb_canon(g):
    return "GB%s(%s,n=%d,G=%d,bars@%s=%s)@lazy" % (g["kind"], g["via"], g["n"], g["G"], g["pos"],
            "+".join("[%d,%d,%d:%d,%d,%d]" % (b[1][0] + b[1][1]) for b in g["bars"]))


def gb_prefix(g):
    return "GB %s %s %d %d %d %s" % (g["kind"], g["via"], g["n"], g["G"], len(g["bars"]),
            " ".join("%d %d %d %d %d %d %d" % ((b[0],) + b[1][0] + b[1][1]) for b in g["bars"]))


def gb_inside(g, x, y, z):
    """the set formula for cell [x,x+1)x[y,y+1)x[z,z+1)  (Python: these programs are too large for the cubic-grid
    lattice_check; the extracted classifier and exact volume are still what judges the output)"""
    if z != 0:
        return False
    n, G = g["n"], g["G"]
    cube = x >= 0 and y >= 0 and x % 2 == 0 and y % 2 == 0 and x // 2 < G and (y // 2) * G + x // 2 < n
    inbar = any(b[1][0][0] <= x < b[1][1][0] and b[1][0][1] <= y < b[1][1][1] for b in g["bars"])
    u = cube or inbar
    if g["kind"] == "U":
        return u
    rows = (n + G - 1) // G
    plate = -1 <= x < 2 * G + 1 and -1 <= y < 2 * rows + 1
    return plate and not u


def run_big_batches(cx, exe, drv, K, thorough):
    import struct
    progs = gb_programs(K, thorough)
    lines = ["L g%d 0 %s" % (i, gb_prefix(g)) for i, g in enumerate(progs)]
    kl = lambda l: l.split()[1] if l.startswith("L ") else None
    ko = lambda l: l.split()[1] if l.startswith("ST ") else None
    out, crashes = vp.run_cases(exe, lines, kl, ko, timeout=1700)
    keyof = lambda g: "lattice-program:" + hashlib.sha1(gb_canon(g).encode()).hexdigest()[:12]
    for cl, rc, err in crashes:
        i = int(cl.split()[1][1:])
        cx.violation(keyof(progs[i]), "large batch program crashed or hung (rc=%s): %s" % (rc, gb_canon(progs[i])),
                     {"program": gb_canon(progs[i]), "harness_line": cl})
    half = lambda v: "x" + struct.pack(">d", v + 0.5).hex()
    dl, pts, status = [], {}, {}
    for l in out.splitlines():
        if l.startswith("MESH rg"):
            cid = l.split(" ", 2)[1][1:]
            i = int(cid[1:])
            g = progs[i]
            rows = (g["n"] + g["G"] - 1) // g["G"]
            rng = random.Random(1000 + i)
            cells = set((x, 0, 0) for x in range(-1, 2 * g["G"] + 1))                 # the bar's row
            cells |= set((2 * (g["G"] // 2), y, 0) for y in range(-1, 2 * rows + 1))  # the slab's column
            cells |= set((2 * (k % g["G"]), 2 * (k // g["G"]), 0) for k in rng.sample(range(g["n"]), 40))   # cubes, early and late operands
            cells |= set((2 * (k % g["G"]), 2 * (k // g["G"]), 0) for k in range(g["n"] - 40, g["n"]))
            cells |= set((rng.randrange(-1, 2 * g["G"] + 1), rng.randrange(-1, 2 * rows + 1), rng.choice([0, 0, 0, 1, -1])) for _ in range(30))
            cells = sorted(cells)
            pts[cid] = cells
            dl += [l, "PTS p%s %d %s" % (cid, len(cells), " ".join("%s %s %s" % (half(x), half(y), half(z)) for x, y, z in cells)),
                   "WIND %s p%s r%s" % (cid, cid, cid), "VOL %s r%s" % (cid, cid), "DROP r%s p%s" % (cid, cid)]
        elif l.startswith("ST g"):
            t = l.split()
            status[t[1]] = int(t[2])
    rc, dout, derr = vp.sh2([drv], input="\n".join(dl) + "\n", timeout=1700)
    if rc != 0:
        cx.broke("corr:C02/driver", "large batches: exact checker exited %d: %s" % (rc, derr[-300:]))
    W, V = {}, {}
    for l in dout.splitlines():
        t = l.split()
        if t[0] == "W":
            W[t[1]] = [int(x) for x in t[4:]]
        elif t[0] == "V":
            V[t[1]] = Fraction(int(t[4], 16), 1 << (3 * int(t[3]))) / 6
    ok = 0
    for i, g in enumerate(progs):
        cid, can, key = "g%d" % i, gb_canon(g), keyof(g)
        rep = {"program": can, "harness_line": lines[i], "operands": g["n"] + len(g["bars"]), "kMaxUnionSize": K}
        if cid not in W or cid not in V:
            if not any(cl.split()[1] == cid for cl, _, _ in crashes):
                cx.broke("corr:C02/batch-missing", "no verdict for " + can)
            continue
        if status.get(cid, 0) != 0:
            cx.violation(key, "large batch program returned status %d: %s" % (status[cid], can), rep)
            continue
        rows = (g["n"] + g["G"] - 1) // g["G"]
        want_vol = sum(gb_inside(g, x, y, 0) for x in range(-1, 2 * g["G"] + 1) for y in range(-1, 2 * rows + 1))
        bad = [(c, w) for c, w in zip(pts[cid], W[cid]) if w != int(gb_inside(g, *c))]
        if bad or V[cid] != want_vol:
            rep.update({"volume_got": float(V[cid]), "volume_expected": want_vol, "misclassified_cells": bad[:10]})
            cx.violation(key, "batch program %s (%d operands, kMaxUnionSize %d): exact volume %s instead of %d, %d of %d sampled voxel centres misclassified"
                         % (can, g["n"] + len(g["bars"]), K, V[cid], want_vol, len(bad), len(pts[cid])), rep)
        else:
            ok += 1
    return len(progs), ok


# ------------------------------------------------------------------ general unimodular integer affine maps (shears ...)
def det3i(M):
    return (M[0][0] * (M[1][1] * M[2][2] - M[1][2] * M[2][1]) - M[0][1] * (M[1][0] * M[2][2] - M[1][2] * M[2][0])
            + M[0][2] * (M[1][0] * M[2][1] - M[1][1] * M[2][0]))


def inv3i(M):
    d = det3i(M)
    c = lambda i, j: (M[(i + 1) % 3][(j + 1) % 3] * M[(i + 2) % 3][(j + 2) % 3] - M[(i + 1) % 3][(j + 2) % 3] * M[(i + 2) % 3][(j + 1) % 3])
    return tuple(tuple(c(j, i) * d for j in range(3)) for i in range(3))      # adj / det with det = +-1


def rand_unimodular(rng):
    """det +-1, entries in {-2..2}: shears (every sign pattern, every row), their products, signed permutations"""
    while True:
        r = rng.random()
        if r < 0.5:          # elementary shear: row i += k * row j
            M = [[1 if i == j else 0 for j in range(3)] for i in range(3)]
            i, j = rng.sample(range(3), 2)
            M[i][j] = rng.choice([-2, -1, 1, 2])
            if rng.random() < 0.4:
                i2, j2 = rng.sample(range(3), 2)
                if (i2, j2) != (j, i):
                    M[i2][j2] = rng.choice([-2, -1, 1, 2])
        else:
            M = [[rng.randrange(-2, 3) for _ in range(3)] for _ in range(3)]
        M = tuple(tuple(r_) for r_ in M)
        if abs(det3i(M)) == 1 and all(abs(x) <= 7 for r_ in inv3i(M) for x in r_):
            return M


def _pull(e, p):
    Mi = inv3i(e[1])
    q = [p[i] - e[2][i] for i in range(3)]
    return tuple(sum(Mi[i][j] * q[j] for j in range(3)) for i in range(3))


def aff_inside(e, p):
    """exact membership (Fractions): lattice boxes, the three set operations, pull-back through integer affine maps"""
    k = e[0]
    if k == "B":
        return all(e[1][i] < p[i] < e[2][i] for i in range(3))
    if k == "AF":
        return aff_inside(e[3], _pull(e, p))
    a, b = aff_inside(e[1], p), aff_inside(e[2], p)
    return (a or b) if k == "+" else (a and not b) if k == "-" else (a and b)


def aff_on_face(e, p):
    k = e[0]
    if k == "B":
        return any(p[i] == e[1][i] or p[i] == e[2][i] for i in range(3))
    if k == "AF":
        return aff_on_face(e[3], _pull(e, p))
    return aff_on_face(e[1], p) or aff_on_face(e[2], p)


def aff_corners(e, g=None):
    """image corners of all leaf boxes (for the sampling region)"""
    k = e[0]
    ap = lambda M, t, p: tuple(sum(M[i][j] * p[j] for j in range(3)) + t[i] for i in range(3))
    if k == "B":
        cs = [(x, y, z) for x in (e[1][0], e[2][0]) for y in (e[1][1], e[2][1]) for z in (e[1][2], e[2][2])]
        for (M, t) in reversed(g or []):
            cs = [ap(M, t, c) for c in cs]
        return cs
    if k == "AF":
        return aff_corners(e[3], (g or []) + [(e[1], e[2])])
    return aff_corners(e[1], g) + aff_corners(e[2], g)


def rand_aff_node(rng, a):
    M = rand_unimodular(rng)
    cs = aff_corners(a)
    c0 = [sum(c[i] for c in cs) / len(cs) for i in range(3)]
    img = [sum(M[i][j] * c0[j] for j in range(3)) for i in range(3)]
    t = tuple(int(round(1.5 - img[i])) + rng.choice([-1, 0, 0, 1]) for i in range(3))
    return ("AF", M, t, a)


def raffprog(rng):
    leaf = lambda: rbox(rng)
    small = lambda: leaf() if rng.random() < 0.6 else (rng.choice(OPS), leaf(), leaf())
    r = rng.random()
    op = rng.choice(OPS)
    if r < 0.35:
        return (op, rand_aff_node(rng, small()), small())
    if r < 0.6:
        return (op, small(), rand_aff_node(rng, small()))
    if r < 0.8:      # on a sub-expression of a deeper program, both operands mapped
        return (op, rand_aff_node(rng, (rng.choice(OPS), small(), leaf())), rand_aff_node(rng, leaf()))
    return (op, rand_aff_node(rng, (rng.choice(OPS), rand_aff_node(rng, leaf()), leaf())), small())   # nested maps


def has_affine(e):
    return e[0] == "AF" or any(has_affine(c) for c in children(e))


def all_det_positive(e):
    if e[0] == "AF" and det3i(e[1]) < 0:
        return False
    return all(all_det_positive(c) for c in children(e))


def aff_points(e):
    cs = aff_corners(e)
    lo = [min(c[i] for c in cs) for i in range(3)]
    hi = [max(c[i] for c in cs) for i in range(3)]
    vol = 1
    for i in range(3):
        vol *= (hi[i] - lo[i] + 1)
    pitch = Fraction(1, 4)
    while vol / float(pitch) ** 3 > 1500:
        pitch *= 2
    offs = (Fraction(64, 512), Fraction(72, 512), Fraction(65, 512))
    P = []
    steps = [int((hi[i] - lo[i] + 1) / pitch) + 1 for i in range(3)]
    for a in range(steps[0]):
        for b in range(steps[1]):
            for c in range(steps[2]):
                p = (lo[0] - Fraction(1, 2) + a * pitch + offs[0] * pitch * 4, lo[1] - Fraction(1, 2) + b * pitch + offs[1] * pitch * 4,
                     lo[2] - Fraction(1, 2) + c * pitch + offs[2] * pitch * 4)
                if not aff_on_face(e, p):
                    P.append(p)
    return P


def run_affine(cx, exe, drv, cases, label):
    """cases: (id, mode 0|1, program with AF nodes).  Oracle: extracted exact winding number of the result at a dense
    lattice of rational sample points (pitch 1/4 or coarser, per-axis offsets, points on a face dropped) against the
    set formula evaluated EXACTLY by pulling the point back through the inverse (integer) maps; plus the exact volume
    against the same program with the maps applied vertex by vertex through Warp (collider rebuilt), within VOL_TOL."""
    import struct
    lines = []
    for cid, mode, e in cases:
        lines.append("L %s %d %s" % (cid, mode, prefix(e)))
        if all_det_positive(e):
            lines.append("L %sw 2 %s" % (cid, prefix(e)))
    kl = lambda l: l.split()[1] if l.startswith("L ") else None
    ko = lambda l: l.split()[1] if l.startswith("ST ") else None
    out, crashes = "", []
    for s_ in range(0, len(lines), 12):          # small chunks: a crashing tree must not hide the other programs
        o_, c_ = vp.run_cases(exe, lines[s_:s_ + 12], kl, ko, timeout=600, max_restarts=6)
        out += o_
        crashes += c_
    byid = {str(c[0]): c for c in cases}
    for cl, rc, err in crashes:
        cid = cl.split()[1].rstrip("w")
        if cid in byid:
            key, can = prog_key(byid[cid][2], byid[cid][1])
            cx.violation(key, "Boolean with an affinely mapped operand crashed or hung (rc=%s): %s :: %s" % (rc, can, err[-160:].replace("\n", " ")),
                         {"program": can, "prefix": prefix(byid[cid][2]), "harness_line": cl})
    tok = lambda fr: "x" + struct.pack(">d", float(fr)).hex()
    dl, pts, status = [], {}, {}
    for l in out.splitlines():
        if l.startswith("MESH r"):
            name = l.split(" ", 2)[1]
            cid = name[1:]
            if cid.endswith("w"):
                dl += [l, "VOL %s %s" % (cid, name), "DROP %s" % name]
                continue
            if cid not in byid:
                continue
            P = aff_points(byid[cid][2])
            pts[cid] = P
            dl += [l, "PTS p%s %d %s" % (cid, len(P), " ".join("%s %s %s" % (tok(p[0]), tok(p[1]), tok(p[2])) for p in P)),
                   "WIND %s p%s %s" % (cid, cid, name), "VOL %s %s" % (cid, name), "DROP %s p%s" % (name, cid)]
        elif l.startswith("ST "):
            t = l.split()
            status[t[1]] = int(t[2])
    rc, dout, derr = vp.sh2([drv], input="\n".join(dl) + "\n", timeout=1700)
    if rc != 0:
        cx.broke("corr:C02/driver", "%s: exact checker exited %d: %s" % (label, rc, derr[-300:]))
    W, V = {}, {}
    for l in dout.splitlines():
        t = l.split()
        if t[0] == "W":
            W[t[1]] = [int(x) for x in t[4:]]
        elif t[0] == "V":
            V[t[1]] = Fraction(int(t[4], 16), 1 << (3 * int(t[3]))) / 6
    st = {"programs": 0, "points": 0, "inside_points": 0, "with_warp_reference": 0, "rejected": 0}
    for cid, mode, e in cases:
        cid = str(cid)
        key, can = prog_key(e, mode)
        rep = {"program": can, "prefix": prefix(e), "mode": "eager" if mode else "lazy"}
        if cid not in W or cid not in V:
            if status.get(cid) not in (None, 0):
                cx.violation(key, "Boolean with an affinely mapped operand returned status %d: %s" % (status[cid], can), rep)
                st["rejected"] += 1
            elif cid in status and cid in pts and not pts[cid]:
                pass
            elif not any(cl.split()[1].rstrip("w") == cid for cl, _, _ in crashes):
                cx.broke("corr:C02/affine-missing", "%s: no verdict for %s" % (label, can))
            continue
        st["programs"] += 1
        if status.get(cid, 0) != 0:
            cx.violation(key, "Boolean with an affinely mapped operand returned status %d: %s" % (status[cid], can), rep)
            st["rejected"] += 1
            continue
        want = [int(aff_inside(e, p)) for p in pts[cid]]
        st["points"] += len(want)
        st["inside_points"] += sum(want)
        bad = [(tuple(float(x) for x in p), w, v) for p, w, v in zip(pts[cid], W[cid], want) if w != v]
        msg = None
        if bad:
            msg = "%d of %d exact sample points classified against the set formula (e.g. point %s winding %d, formula %d)" % (
                len(bad), len(want), bad[0][0], bad[0][1], bad[0][2])
        elif cid + "w" in V:
            st["with_warp_reference"] += 1
            if status.get(cid + "w", 0) == 0 and abs(V[cid] - V[cid + "w"]) > VOL_TOL:
                msg = "exact volume %.9g differs from %.9g of the same program with the maps applied vertex-wise by Warp" % (float(V[cid]), float(V[cid + "w"]))
        if msg:
            rep.update({"volume": float(V[cid]), "volume_warp_reference": float(V.get(cid + "w", -1)), "misclassified": bad[:8]})
            cx.violation(key, "lattice program with unimodular integer affine maps %s: %s" % (can, msg), rep)
            st["rejected"] += 1
    return st


# ------------------------------------------------------------------ kernel correspondence
KTAGS = ["S01F", "S01B", "K02F", "K02B", "K11", "K12F", "K12B"]


def run_kernels(cx, kexe, kdrv, exe, drv, cases, label):
    """cases: (id, op index 0/1/2, kind 'L'|'G', body, oracle program or None, capV, capF, capE).
    Runs the REAL kernels (harness c02_kern: Shadow01/Kernel02/Kernel11/Kernel12 + Boolean3 members) and the
    extracted exact model on the same operand data and compares every integer output."""
    lines = ["K %s %d %d %d %d %s %s" % (c[0], c[1], c[5], c[6], c[7], c[2], c[3]) for c in cases]
    kl = lambda l: l.split()[1] if l.startswith("K ") else None
    ko = lambda l: l.split()[1] if l.startswith("KD ") else None
    out, crashes = vp.run_cases(kexe, lines, kl, ko, timeout=1700)
    for cl, rc, err in crashes:
        cx.violation("kernel-crash:" + hashlib.sha1(cl.encode()).hexdigest()[:12],
                     "Boolean3 construction / kernel call crashed (rc=%s): %s" % (rc, err[-200:].replace("\n", " ")), {"harness_line": cl})
    byid = {str(c[0]): c for c in cases}
    impl, dl = {}, []
    for l in out.splitlines():
        t = l.split(" ", 2)
        if t[0] == "KMESH":
            dl.append(l)
        elif t[0] in KTAGS or t[0] in ("B3", "V12", "KD"):
            impl.setdefault(t[1], {})[t[0]] = t[2] if len(t) > 2 else ""
    b3 = {}
    for cid, d in impl.items():
        if "B3" not in d or cid not in byid:
            continue
        c = byid[cid]
        toks = [int(x) for x in d["B3"].split()]
        i = 0
        n12 = toks[i]; i += 1
        x12 = [tuple(toks[i + 3 * k:i + 3 * k + 3]) for k in range(n12)]; i += 3 * n12
        n21 = toks[i]; i += 1
        x21 = [tuple(toks[i + 3 * k:i + 3 * k + 3]) for k in range(n21)]; i += 3 * n21
        nw = toks[i]; i += 1
        w03 = toks[i:i + nw]; i += nw
        nw2 = toks[i]; i += 1
        w30 = toks[i:i + nw2]
        b3[cid] = (x12, x21, w03, w30)
        ex = 1 if c[1] == 0 else 0
        dl.append("KRUN %s %d %d %d %d" % (cid, ex, c[5], c[6], c[7]))
        dl.append("W03 %s %d %d" % (cid, ex, 10 ** 9 if c[2] == "L" else 12))
        e12 = sorted(set(p[0] for p in x12))
        e21 = sorted(set(p[1] for p in x21))
        dl.append("FLOOD %s %d %d %s %d %s" % (cid, ex, len(e12), " ".join(map(str, e12)), len(e21), " ".join(map(str, e21))))
        dl.append("KDROP %s" % cid)
    # the driver wants both KMESH lines of a case before its commands: reorder per case
    per = {}
    for l in dl:
        t = l.split(" ", 2)
        cid = t[1][1:] if t[0] == "KMESH" else t[1]
        per.setdefault(cid, []).append(l)
    dl = [l for cid in per for l in sorted(per[cid], key=lambda x: 0 if x.startswith("KMESH") else 1)]
    rc, dout, derr = vp.sh2([kdrv], input="\n".join(dl) + "\n", timeout=1700)
    if rc != 0:
        cx.broke("corr:C02/kernel-driver", "%s: extracted kernel model exited %d: %s" % (label, rc, derr[-300:]))
    model = {}
    for l in dout.splitlines():
        t = l.split(" ", 2)
        if t[0] == "E":
            cx.broke("corr:C02/kernel-driver", "model rejected input: " + l[:200])
            continue
        model.setdefault(t[1], {})[t[0]] = t[2] if len(t) > 2 else ""
    st = {"cases": 0, "entries": 0, "nonzero": 0, "mismatch": 0, "excused_near_tie": 0, "undefined_in_model": 0, "cases_with_intersections": 0}
    need_oracle = []
    for c in cases:
        cid = str(c[0])
        d, m = impl.get(cid), model.get(cid)
        if not d or "KD" not in d or d["KD"].startswith("error") or not m or cid not in b3:
            if d and d.get("KD", "").startswith("error"):
                cx.broke("corr:C02/kernel-harness", "harness error on case %s: %s" % (cid, d["KD"]))
            elif not any(cl.split()[1] == cid for cl, _, _ in crashes):
                cx.broke("corr:C02/kernel-missing", "%s: no output for kernel case %s" % (label, cid))
            continue
        st["cases"] += 1
        bad = []
        tie = [False]     # some kernel output of this case differed at a decision the exact model sees as a (near-)tie

        def cmp(tag, a, b, g, allow_short=False, derived=False):
            for k, (x, y) in enumerate(zip(a, b)):
                st["entries"] += 1
                st["nonzero"] += int(x != 0)
                if y in (9, 99):
                    st["undefined_in_model"] += 1
                if x != y:
                    if k < len(g) and g[k] == "1":
                        st["excused_near_tie"] += 1
                        tie[0] = True
                    elif derived and tie[0]:
                        st["excused_near_tie"] += 1
                    else:
                        st["mismatch"] += 1
                        bad.append("%s[%d]: impl %d model %d" % (tag, k, x, y))
            if len(a) != len(b) and not (allow_short and 0 < len(b) < len(a)):
                st["mismatch"] += 1
                bad.append("%s: length impl %d model %d" % (tag, len(a), len(b)))

        mk = {}
        for tag in KTAGS:
            a = [int(x) for x in d.get(tag, "").split()]
            b = [int(x) for x in m.get(tag, "").split()]
            mk[tag] = b
            cmp(tag, a, b, m.get("G" + tag, "").strip())
        if m.get("CM", "").split() != ["1", "1"]:
            # hypothesis of x12_sum_is_winding_difference / winding03_is_vertex_winding, validated on the real operands
            cx.broke("hyp:C02/closed_mesh#%s" % cid, "an operand handed to Boolean3 is not a closed oriented halfedge structure (closed_meshb = %s)" % m.get("CM"))
        x12, x21, w03, w30 = b3[cid]
        nP, nfP, nQ, nfQ = [int(x) for x in d["KD"].split()]
        if x12 or x21:
            st["cases_with_intersections"] += 1
        # Boolean3 members against the model: p1q2/x12 lists (when the caps did not truncate), w03/w30 per vertex
        if nP <= c[5] and nQ <= c[5] and nfP <= c[6] and nfQ <= c[6] and 3 * nfP // 2 <= c[7] and 3 * nfQ // 2 <= c[7]:
            # forward-edge enumeration order of harness and driver: halfedge index
            def nonzero(tag, nf):
                vals = mk[tag]
                return [(k // nf, k % nf, v) for k, v in enumerate(vals) if v != 0]
            # edge indices: recover the forward-halfedge list from the B3 pairs is not possible; compare (rank of edge, face, x)
            ranks12 = {e: i for i, e in enumerate(sorted(set(p[0] for p in x12)))}
            got12 = [(p[1], p[2]) for p in x12]
            want12 = [(f, v) for (_, f, v) in nonzero("K12F", nfQ)]
            if got12 != want12 and tie[0]:
                st["excused_near_tie"] += 1
            elif got12 != want12:
                st["mismatch"] += 1
                bad.append("xv12_: impl (face,x12) %s model %s" % (got12[:6], want12[:6]))
            got21 = [(p[0], p[2]) for p in x21]
            want21 = [(f, v) for (_, f, v) in nonzero("K12B", nfP)]
            if got21 != want21 and tie[0]:
                st["excused_near_tie"] += 1
            elif got21 != want21:
                st["mismatch"] += 1
                bad.append("xv21_: impl (face,x21) %s model %s" % (got21[:6], want21[:6]))
        cmp("w03_ vs per-vertex Kernel02 sum", w03, [int(x) for x in m.get("W03F", "").split()], m.get("GW03F", "").strip(), c[2] == "G", True)
        cmp("w30_ vs per-vertex Kernel02 sum", w30, [int(x) for x in m.get("W03B", "").split()], m.get("GW03B", "").strip(), c[2] == "G", True)
        cmp("w03_ vs Winding03 model", w03, [int(x) for x in m.get("FLF", "").split()], m.get("GW03F", "").strip(), False, True)
        cmp("w30_ vs Winding03 model", w30, [int(x) for x in m.get("FLB", "").split()], m.get("GW03B", "").strip(), False, True)
        if bad:
            cx.broke("corr:C02/kernels#%s" % cid, "%s: real kernels and exact model differ on `K %s %d ... %s %s`: %s"
                     % (label, cid, c[1], c[2], c[3][:160], "; ".join(bad[:4])))
            if c[4] is not None:
                need_oracle.append(("k" + cid, 1, c[4]))
    if need_oracle:   # decision rule: is the implementation's Boolean on that very pair wrong?
        run_lattice(cx, exe, drv, need_oracle[:50], "kernel-oracle", cap=MAX_REPORTED)
    return st


def gen_kernel_cases(rng, nL, nN, nG):
    cases = []
    for i in range(nL):          # pairs of lattice boxes (coincident faces / edges / vertices abound)
        a, b = rbox(rng), rbox(rng)
        op = rng.randrange(3)
        cases.append(("kl%d" % i, op, "L", prefix(a) + " | " + prefix(b), (OPS[op], a, b), 40, 60, 60))
    for i in range(nN):          # operands that are themselves Boolean results
        a, b = rprog(rng, 1, False), rprog(rng, 1, False)
        op = rng.randrange(3)
        cases.append(("kn%d" % i, op, "L", prefix(a) + " | " + prefix(b), (OPS[op], a, b), 60, 120, 160))
    for i in range(nG):          # generic position, truncated enumeration
        a, _ = gen_shape(rng)
        b, _ = gen_shape(rng)
        cases.append(("kg%d" % i, rng.randrange(3), "G", a + " " + b, None, 10, 24, 24))
    return cases



def replay(cx, exe, drv, path):
    """bin/check C02 --replay <file>: re-run exactly one stored case (a replay JSON written by a previous run, or a text
    file holding one canonical program `...@lazy|@eager`) through the implementation and the extracted checker and print
    both sides; the case is reported again as a violation if the checker still rejects it."""
    import json
    txt = open(path).read()
    try:
        obj = json.loads(txt)
        rep = obj.get("replay", obj)
    except ValueError:
        rep = {"program": [l.split("#")[0].strip() for l in txt.splitlines() if l.split("#")[0].strip()][0]}
    if "program" in rep:
        can = rep["program"]
        mode = 1 if can.endswith("@eager") else 0
        e = parse_pretty(can.rsplit("@", 1)[0])
        key, can2 = prog_key(e, mode)
        cx.log("replay %s  key=%s" % (can2, key))
        if has_affine(e):
            st = run_affine(cx, exe, drv, [("0", mode, e)], "replay")
            cx.log("  prefix form fed to the harness: L 0 %d %s" % (mode, prefix(e)))
            cx.log("  checker (exact winding at rational sample points vs pulled-back set formula; volume vs Warp reference): %s" % st)
            cx.cov.update({"evaluations": 1, "distinct_nontrivial": 1, "rule": "replay of one stored case", "distribution": {"replay": path}})
            return
        cx.log("  prefix form fed to the harness: L 0 %d %s" % (mode, prefix(e)))
        rc, out, err = vp.sh2([exe], input="L 0 %d %s\n" % (mode, prefix(e)), timeout=120)
        mesh = [l for l in out.splitlines() if l.startswith("MESH r0")]
        stl = [l for l in out.splitlines() if l.startswith("ST 0")]
        cx.log("  implementation: rc=%d %s ; mesh %s vertices %s triangles" % (rc, stl[0] if stl else "no status line",
               mesh[0].split()[2] if mesh else "?", mesh[0].split()[3] if mesh else "?"))
        if mesh:
            spec = pushdown(e) if has_xform(e) else None
            if spec is not None:
                lo, hi = leaf_range(spec)
                cmds = [mesh[0], "LATS 0 %d %d r0 %s" % (hi - lo, -lo, prefix(shift_prog(spec, -lo)))]
                n, sh = hi - lo, -lo
                cx.log("  specification (transforms pushed down to the leaves): %s" % pretty(spec))
            else:
                cmds = [mesh[0], "LAT 0 %d r0 %s" % (N, prefix(e)), "LATW 0 %d r0" % N]
                n, sh = N, 0
            rc2, dout, derr = vp.sh2([drv], input="\n".join(cmds) + "\n", timeout=300)
            for l in dout.splitlines():
                t = l.split()
                if t[0] == "L":
                    k = int(t[2])
                    vol = Fraction(int(t[5], 16), 1 << (3 * k)) / 6
                    cx.log("  checker: scale 2^%d, voxel centres misclassified %s, voxels kept by the formula %s, exact volume %s (= %.9g), csg_wf %s"
                           % (k, t[3], t[4], vol, float(vol), t[6]))
                elif t[0] == "LW":
                    w = [int(x) for x in t[2:]]
                    want = voxels(e)
                    cells = [(x, y, z) for x in range(N) for y in range(N) for z in range(N)]
                    diff = [(c, w[i], int(c in want)) for i, c in enumerate(cells) if w[i] != int(c in want)]
                    cx.log("  winding at the 27 voxel centres (x-major): %s" % " ".join(map(str, w)))
                    cx.log("  voxels where it differs from the formula (voxel, winding, formula): %s" % (diff or "none"))
                elif t[0] == "E":
                    cx.log("  checker error: " + l)
        run_lattice(cx, exe, drv, [("0", mode, e)], "replay")
        cx.cov.update({"evaluations": 1, "distinct_nontrivial": 1, "rule": "replay of one stored case", "distribution": {"replay": path}})
        return
    if "harness_line" in rep and rep["harness_line"].startswith("G "):
        line = rep["harness_line"]
        cx.log("replay generic pair: " + line[:200])

        class _One(random.Random):
            pass
        # re-run exactly that harness line through run_generic's comparison code
        out, crashes = vp.run_cases(exe, [line], lambda l: l.split()[1], lambda l: l.split()[1] if l.startswith("GT ") else None)
        for l in out.splitlines():
            if l.startswith("GT "):
                cx.log("  implementation: " + l[:200])
        st = run_generic_lines(cx, exe, drv, [(int(line.split()[1]), line, ("?", "?"))])
        cx.log("  checker: %s" % {k: v for k, v in st.items() if k != "kinds"})
        cx.cov.update({"evaluations": 1, "distinct_nontrivial": 1, "rule": "replay of one stored case", "distribution": {"replay": path}})
        return
    cx.broke("replay", "replay file %s holds neither a lattice program nor a generic harness line" % path)


def load_corpus():
    out = []
    for p in sorted(glob.glob(os.path.join(vp.ROOT, "corpus", "C02", "*.txt"))):
        for line in open(p):
            line = line.split("#")[0].strip()
            if not line:
                continue
            can = line
            mode = 1 if can.endswith("@eager") else 0
            e = parse_pretty(can.rsplit("@", 1)[0])
            out.append((mode, e))
    return out


def run(cx):
    cx.assumptions += [
        "translation validation: the Boolean kernels themselves are not modelled; every claim about the solid is about the outputs of the generated inputs",
        "sample points of the generic regime are selected by a double-precision distance filter with margin 10*tolerance + 1e-9*scale",
        "volume identities in generic position are accepted within 20*tolerance*(area A + area B)",
        "exact decoding of doubles (bit patterns) by the OCaml driver and their printing by the C++ harness",
    ]
    # ---- tie: regenerate the constants/arithmetic/tables from the source
    try:
        raw = c02_consts.write(vp.REPO, vp.COQ)
        cx.cov["constants_from_source"] = {k: (v if isinstance(v, str) else str(v)) for k, v in raw.items()}
        cx.obligation("translate:boolean_result.cpp/shared.h/impl.cpp", True)
    except Exception as ex:      # the source no longer has the shape the translator understands
        cx.obligation("translate:boolean_result.cpp/shared.h/impl.cpp", False, "translator failed: %s" % ex)
    cx.prove()
    mls = vp.coq_extract("ExtractC02", ["c02_model.ml"])
    drv = vp.ocaml_build("c02_driver", mls + [os.path.join(vp.ROOT, "extract/c02_driver.ml")])
    exe = vp.build_harness("c02_bool", "seq", link_lib=True)

    if cx.replay_mode:
        return replay(cx, exe, drv, cx.replay_mode)

    rng = random.Random(cx.seed * 1000003 + 2)
    dist = {}
    total = nontriv = 0
    seen = set()

    def account(cases, res, tag):
        nonlocal total, nontriv
        for cid, mode, e in cases:
            total += 1
            r = res.get(str(cid))
            can = prog_key(e, mode)[1]
            if can in seen:
                continue
            seen.add(can)
            dist[tag] = dist.get(tag, 0) + 1
            if r and "cnt" in r and 0 < r["cnt"] and (has_xform(e) or r["cnt"] < 27) and depth(e) >= 1:
                nontriv += 1

    # (0) corpus of known witnesses (always first)
    corpus = load_corpus()
    cases = [("c%d" % i, mode, e) for i, (mode, e) in enumerate(corpus)]
    if cases:
        res, nv = run_lattice(cx, exe, drv, cases, "corpus")
        account(cases, res, "corpus")
        cx.log("corpus: %d programs, %d rejected" % (len(cases), nv))
    # (i) seed-dependent streams, restricted to the regimes that were enumerated EXHAUSTIVELY clean on the pinned tree:
    #     pairs of boxes x three ops x Split (eager == lazy at depth 1), plane operations on boxes
    pairs = []
    if cx.quick():
        for i in range(NQ_PAIRS):
            pairs.append(("p%d" % i, rng.randrange(2), (rng.choice(OPS + ["S0", "S1"]), rbox(rng), rbox(rng))))
        for i in range(NQ_PLANE):
            pairs.append(("q%d" % i, rng.randrange(2), plane_on(rng, rbox(rng))))
    else:
        i = 0
        for a in ALL_BOXES:
            for b in ALL_BOXES:
                for op in OPS + ["S0", "S1"]:
                    pairs.append(("p%d" % i, 0, (op, ("B",) + a, ("B",) + b)))
                    i += 1
        for a in ALL_BOXES:
            for ax in range(3):
                for off in range(0, N + 1):
                    for k in ("P0", "P1"):
                        pairs.append(("p%d" % i, 0, (k, ax, off, ("B",) + a)))
                        i += 1
                for off in range(-N, N + 1):
                    for sgn in (1, -1):
                        pairs.append(("p%d" % i, 0, ("T", ax, sgn, off, ("B",) + a)))
                        i += 1
    for s in range(0, len(pairs), 20000):
        chunk = pairs[s:s + 20000]
        res, nv = run_lattice(cx, exe, drv, chunk, "pairs", cap=MAX_REPORTED)
        account(chunk, res, "pair")
    cx.log("pairs and plane cuts of boxes: %d programs checked" % len(pairs))
    # (ii) nested programs (operands are Boolean results; Split/SplitByPlane/TrimByPlane/BatchBoolean inside):
    #      NOT clean on the pinned tree at any depth >= 2 (see known_findings), and findings are keyed per program, so
    #      this stream is FIXED (independent of VERIF_SEED): every run sees the same programs and the known failures
    #      among them are exactly the listed ones; any other failing program is a fresh violation.
    frng = random.Random(FIXED_STREAM_SEED)
    progs = []
    for i in range(cx.pick(NQ_NEST, NT_NEST)):
        d = 2 if i % 4 else rng_depth(frng)
        progs.append(("n%d" % i, frng.randrange(2), rprog(frng, d)))
    for s in range(0, len(progs), 20000):
        chunk = progs[s:s + 20000]
        res, nv = run_lattice(cx, exe, drv, chunk, "nested", cap=MAX_REPORTED)
        account(chunk, res, "nested-depth")
    cx.log("nested programs (fixed stream): %d checked" % len(progs))
    # (ii') programs whose SUB-EXPRESSIONS carry lattice isometries (Rotate by k*90 degrees, Mirror, integer Translate):
    #       chains of nested same-op nodes, each with its own non-commuting transform, kept as unevaluated temporaries in
    #       lazy mode -- the CSG-tree collapsing has to compose the transforms in the right order.  Spec side: transforms
    #       pushed down to the leaves (a box stays a box).  Fixed stream for the same reason as (ii).
    xrng = random.Random(FIXED_XFORM_SEED)
    xprogs = []
    for i in range(cx.pick(NQ_XFORM, NT_XFORM)):
        e = rxprog(xrng, xrng.choice([1, 2, 3, 3, 4]), (ID3, (0, 0, 0)), xrng.choice(OPS))
        xprogs.append(("t%d" % i, 0 if xrng.random() < 0.8 else 1, e))
    for s in range(0, len(xprogs), 20000):
        chunk = xprogs[s:s + 20000]
        res, nv = run_lattice(cx, exe, drv, chunk, "transformed", cap=MAX_REPORTED)
        account(chunk, res, "transformed")
    dist["transformed_same_op_depth>=3_lazy"] = sum(1 for _, m, e in xprogs if m == 0 and same_op_chain(e) >= 3)
    cx.log("transformed programs (fixed stream): %d checked, %d with >= 3 nested same-op nodes evaluated lazily"
           % (len(xprogs), dist["transformed_same_op_depth>=3_lazy"]))
    if xprogs:
        cx.sample({"program": prog_key(xprogs[0][2], xprogs[0][1])[1], "prefix": prefix(xprogs[0][2])})
    # (ii'') n-ary unions / subtractions with operand counts on both sides of kMaxUnionSize (BatchUnion partitions only the
    #        last kMaxUnionSize children per pass); fixed list
    K = max_union_size()
    cx.obligation("translate:csg_tree.cpp kMaxUnionSize", K is not None and 10 <= K <= 5000, "cannot read kMaxUnionSize from csg_tree.cpp: %r" % K)
    if K is not None and 10 <= K <= 5000:
        nb, okb = run_big_batches(cx, exe, drv, K, not cx.quick())
        total += nb
        nontriv += nb
        dist["large_batch"] = nb
        cx.log("large batches around kMaxUnionSize=%d: %d programs, %d accepted" % (K, nb, okb))
    # (ii-d) operands / sub-expressions under general unimodular integer affine maps (shears, every sign pattern) through
    #        Manifold::Transform(mat3x4), lazy and eager; fixed stream
    arng = random.Random(FIXED_AFFINE_SEED)
    acases = [("a%d" % i, arng.randrange(2), raffprog(arng)) for i in range(cx.pick(NQ_AFF, NT_AFF))]
    ast = run_affine(cx, exe, drv, acases, "affine")
    total += ast["programs"]
    nontriv += ast["programs"]
    dist["affine_maps"] = ast
    cx.log("programs with unimodular integer affine maps (fixed stream): %s" % ast)
    # search: a proof obligation / the translator no longer checks -> spend extra budget on seed-dependent nested programs
    # (the coincident-geometry regime every proved kernel is about) to turn the broken tie into a concrete failing input
    if cx.broken:
        srng = random.Random(cx.seed * 31337 + 5)
        extra = [("s%d" % i, srng.randrange(2), rprog(srng, srng.choice([2, 3, 3, 4]))) for i in range(N_SEARCH)]
        found = 0
        for s in range(0, len(extra), 20000):
            res, nv = run_lattice(cx, exe, drv, extra[s:s + 20000], "search", cap=MAX_REPORTED)
            found += nv
        cx.log("search after broken obligations: %d programs, %d rejected" % (len(extra), found))
        cx.cov["search_after_broken"] = {"programs": len(extra), "rejected": found}
    for cid, mode, e in (progs[:2] + pairs[:1]):
        cx.sample({"program": prog_key(e, mode)[1], "prefix": prefix(e)})
    # (iv) kernel correspondence: the REAL Shadow01/Kernel02/Kernel11/Kernel12 and Boolean3's xv12_/xv21_/w03_/w30_
    #      against the extracted exact-Q port (Geo/KernelDefs.v) and the Winding03 flood-fill model (Geo/FloodDefs.v)
    try:
        mlk = vp.coq_extract("ExtractC02K", ["c02k_model.ml"])
        kdrv = vp.ocaml_build("c02k_driver", mlk + [os.path.join(vp.ROOT, "extract/c02k_driver.ml")])
        kexe = vp.build_harness("c02_kern", "seq", link_lib=True)
        krng = random.Random(cx.seed * 104729 + 7)
        kst = run_kernels(cx, kexe, kdrv, exe, drv,
                          gen_kernel_cases(krng, cx.pick(NQ_KERN[0], NT_KERN[0]), cx.pick(NQ_KERN[1], NT_KERN[1]),
                                           cx.pick(NQ_KERN[2], NT_KERN[2])), "kernels")
        cx.cov["kernel_correspondence"] = kst
        cx.log("kernels: %s" % kst)
    except vp.BuildError as ex:
        cx.broke("corr:C02/kernel-build", "kernel harness / extracted kernel model no longer builds against this tree: %s" % str(ex)[-600:])
    # (iii) generic position
    grng = random.Random(cx.seed * 7919 + 202)
    stats = run_generic(cx, exe, drv, grng, cx.pick(NQ_GEN, NT_GEN), 200)
    cx.log("generic: %s" % {k: v for k, v in stats.items() if k != "kinds"})
    cx.cov.update({
        "evaluations": total + stats["pairs"] * 7,
        "distinct_nontrivial": nontriv + stats["nontrivial_pairs"],
        "rule": "lattice: distinct canonical program strings (incl. evaluation mode) of depth >= 1 whose formula keeps some but not all of the 27 voxels; "
                "generic: pairs with sample points both in A^B and in exactly one operand",
        "distribution": {"lattice": dist, "generic": stats},
    })


def plane_on(rng, a):
    if rng.random() < 0.6:
        return (rng.choice(["P0", "P1"]), rng.randrange(3), rng.randrange(0, N + 1), a)
    return ("T", rng.randrange(3), rng.choice([1, -1]), rng.randrange(-N, N + 1), a)


def rng_depth(rng):
    return rng.choice([3, 3, 4])


# budgets (set from measurements on the pinned tree, see the report)
FIXED_STREAM_SEED = 20250923
FIXED_XFORM_SEED = 20250924
FIXED_AFFINE_SEED = 20250925
NQ_AFF, NT_AFF = 150, 3000
NQ_XFORM, NT_XFORM = 4000, 60000
NQ_PAIRS, NQ_PLANE = 5000, 1500
NQ_NEST, NT_NEST = 4000, 80000
NQ_GEN, NT_GEN = 24, 300
N_SEARCH = 60000
NQ_KERN, NT_KERN = (30, 8, 1), (600, 150, 20)   # (box pairs, operands that are Boolean results, generic pairs)
