"""C10 — Triangulate returns a correct triangulation of epsilon-valid polygons.

proof (integer structure of EarClip for every oracle) + verified exact checker
tri_check on the implementation's outputs + replay of the implementation's
traced decisions through the extracted model (correspondence)."""
import os, re, random, struct, math, hashlib, shutil
from fractions import Fraction
import vp

LEVEL = "proof"
META = {
    "level": "proof",
    "technique": "Coq proof about a Gallina port of EarClip's linked-list code with all geometry as oracles + extracted exact checker on outputs + decision-replay correspondence",
    "text": "Coq theorems, for every oracle (= every outcome of the floating-point predicates) and every polygon set without empty contours: the ported EarClip "
            "(Link, ClipEar with the topological-degenerate filter, recursive ClipIfDegenerate, Loop, FindStart, CutKeyhole/JoinPolygons, TriangulatePoly with the empty-queue fallback) "
            "TERMINATES without undefined behaviour once fuel >= 2(V+2*contours)+4 (earclip_terminates) and its triangles satisfy the chain identity "
            "(every input edge once in its direction, every other edge cancelled by its reverse), use only input indices, #triangles+#filtered = V-2+2h-2(o-1) (earclip_count) "
            "(earclip_chain, earclip_total_correctness): proved with a ghost ring decomposition (labels preserved along left/right, one circular list per label, Loop visits exactly its ring, "
            "holes/outers/simples in pairwise different rings until JoinPolygons merges two), so the former run-time side conditions nbad = 0 / rings_closed are now theorems. "
            "TriangulateConvex satisfies the same identities for every contour length (zig-zag induction). The area identity is a corollary of the chain identity. "
            "The extracted, proved-sound (and for the chain test complete) checker tri_check decides on every output of /repo's TriangulateIdx (11 generated polygon families + test/polygons corpus; "
            "allowConvex on/off, fresh vs reused PolygonTriangulator): index validity, chain identity, exact area sum, count, CCW within 2*eps exactly. "
            "The extracted model replays the implementation's traced decisions and must reproduce its triangle list and final polygon_ links.",
    "note": "Not proved: that each triangle is CCW within epsilon (floating ear costs) - decided per output by the exact checker. Trusted: Coq kernel, extraction, "
            "the harness, the add-only trace hook hooks/C10.patch (applied to a scratch copy of polygon.cpp when not committed), exact scaling of doubles to integers in Python.",
}

QUICK_CASES = 400
THOROUGH_CASES = 12000
REPLAY_MAXV = 450


# ---------------------------------------------------------------- helpers

def bits(x):
    return "%016x" % struct.unpack("<Q", struct.pack("<d", float(x)))[0]


def from_bits(s):
    return struct.unpack("<d", struct.pack("<Q", int(s, 16)))[0]


def hexz(n):
    return ("-%x" % -n) if n < 0 else ("%x" % n)


def scale_case(polys, eps):
    """Exact common power-of-two scaling of all coordinates; returns (int polys, tolsq)."""
    den = 1
    for p in polys:
        for (_, x, y) in p:
            for d in (x, y):
                den = max(den, Fraction(d).denominator)
    ip = [[(i, int(Fraction(x) * den), int(Fraction(y) * den)) for (i, x, y) in p] for p in polys]
    tol = 2 * Fraction(eps) * den
    t2 = tol * tol
    tolsq = -((-t2.numerator) // t2.denominator)      # ceil
    return ip, tolsq


def area2(p):
    s = Fraction(0)
    n = len(p)
    for i in range(n):
        x0, y0 = Fraction(p[i][0]), Fraction(p[i][1])
        x1, y1 = Fraction(p[(i + 1) % n][0]), Fraction(p[(i + 1) % n][1])
        s += x0 * y1 - x1 * y0
    return s


def has_reflex(p):
    n = len(p)
    sgn = 1 if area2(p) > 0 else -1
    for i in range(n):
        a, b, c = p[i - 1], p[i], p[(i + 1) % n]
        cr = (Fraction(b[0]) - Fraction(a[0])) * (Fraction(c[1]) - Fraction(b[1])) - \
             (Fraction(b[1]) - Fraction(a[1])) * (Fraction(c[0]) - Fraction(b[0]))
        if cr * sgn < 0:
            return True
    return False


# ---------------------------------------------------------------- generators
# every generator returns a list of contours (lists of (x, y) floats), outers CCW, holes CW,
# pairwise disjoint, on a dyadic grid so that the exact arithmetic stays small.

def q(x, g=64.0):
    return round(x * g) / g


def star(rng, n, cx=0.0, cy=0.0, rmin=1.0, rmax=2.0, g=2.0 ** 16):
    # strictly increasing angles with a guaranteed gap => star-shaped, hence simple
    ph = rng.random()
    angs = [2 * math.pi * (i + ph + 0.3 * rng.random()) / n for i in range(n)]
    pts = []
    for a in angs:
        r = rmin + (rmax - rmin) * rng.random()
        pts.append((q(cx + r * math.cos(a), g), q(cy + r * math.sin(a), g)))
    out = []
    for p in pts:                       # drop exact consecutive duplicates created by rounding
        if not out or out[-1] != p:
            out.append(p)
    if len(out) > 1 and out[0] == out[-1]:
        out.pop()
    return out


def regular(n, cx, cy, r, phase=0.0, g=1024.0):
    return [(q(cx + r * math.cos(phase + 2 * math.pi * i / n), g), q(cy + r * math.sin(phase + 2 * math.pi * i / n), g)) for i in range(n)]


def comb(rng, teeth):
    w = 1.0
    pts = [(0.0, 0.0), (teeth * 2 * w, 0.0)]
    for i in range(teeth - 1, -1, -1):
        h = 1.0 + rng.randrange(1, 9) / 2.0
        pts += [(2 * w * i + 2 * w, 1.0), (2 * w * i + 1.5 * w, 1.0), (2 * w * i + 1.5 * w, h), (2 * w * i + 0.5 * w, h), (2 * w * i + 0.5 * w, 1.0)]
    pts += [(0.0, 1.0)]
    out = []
    for p in pts:
        if not out or out[-1] != p:
            out.append(p)
    return out


def spiral(rng, turns, per=8):
    n = turns * per
    outer, inner = [], []
    for i in range(n + 1):
        a = 2 * math.pi * i / per
        r = 1.0 + 0.5 * i / per * 2
        outer.append((q(r * math.cos(a)), q(r * math.sin(a))))
        inner.append((q((r - 0.4) * math.cos(a)), q((r - 0.4) * math.sin(a))))
    pts = inner + outer[::-1]
    if area2(pts) < 0:
        pts = pts[::-1]
    return pts


def polyomino(rng, w, h, fill):
    """Random lattice cell set without diagonal-only contacts; boundary contours with every
    lattice point as a vertex (many collinear vertices), outer CCW, holes CW."""
    cells = set()
    x, y = w // 2, h // 2
    target = max(1, int(w * h * fill))
    cells.add((x, y))
    frontier = [(x, y)]
    while len(cells) < target and frontier:
        cx_, cy_ = rng.choice(frontier)
        nb = [(cx_ + dx, cy_ + dy) for dx, dy in ((1, 0), (-1, 0), (0, 1), (0, -1))
              if 0 <= cx_ + dx < w and 0 <= cy_ + dy < h and (cx_ + dx, cy_ + dy) not in cells]
        if not nb:
            frontier.remove((cx_, cy_))
            continue
        c = rng.choice(nb)
        cells.add(c)
        frontier.append(c)
    # remove diagonal-only contacts (cells and complement) by filling
    changed = True
    while changed:
        changed = False
        for i in range(-1, w):
            for j in range(-1, h):
                a, b, c, d = (i, j) in cells, (i + 1, j) in cells, (i, j + 1) in cells, (i + 1, j + 1) in cells
                if a and d and not b and not c:
                    if 0 <= i + 1 < w and 0 <= j < h:
                        cells.add((i + 1, j)); changed = True
                elif b and c and not a and not d:
                    if 0 <= i < w and 0 <= j < h:
                        cells.add((i, j)); changed = True
    # directed boundary edges with the cell on the left
    nxt = {}
    for (i, j) in cells:
        if (i, j - 1) not in cells: nxt[(i, j)] = (i + 1, j)
        if (i + 1, j) not in cells: nxt[(i + 1, j)] = (i + 1, j + 1)
        if (i, j + 1) not in cells: nxt[(i + 1, j + 1)] = (i, j + 1)
        if (i - 1, j) not in cells: nxt[(i, j + 1)] = (i, j)
    # (no pinch vertices => each boundary vertex has exactly one outgoing edge)
    contours = []
    seen = set()
    for s in sorted(nxt):
        if s in seen:
            continue
        c, v = [], s
        while v not in seen:
            seen.add(v)
            c.append((float(v[0]), float(v[1])))
            v = nxt[v]
        contours.append(c)
    return contours


def with_noise(rng, contour, dup=0.0, mid=0.0):
    """insert exact duplicate vertices and exactly collinear midpoints"""
    out = []
    n = len(contour)
    for i, p in enumerate(contour):
        out.append(p)
        if rng.random() < dup:
            out.append(p)
        if rng.random() < mid:
            nx = contour[(i + 1) % n]
            m = ((p[0] + nx[0]) / 2, (p[1] + nx[1]) / 2)
            if m != p and m != nx:
                out.append(m)
    return out


def _orient(a, b, c):
    v = (b[0] - a[0]) * (c[1] - a[1]) - (b[1] - a[1]) * (c[0] - a[0])
    return (v > 0) - (v < 0)


def _on_seg(a, b, p):
    return min(a[0], b[0]) <= p[0] <= max(a[0], b[0]) and min(a[1], b[1]) <= p[1] <= max(a[1], b[1])


def _seg_touch(a, b, c, d):
    o1, o2, o3, o4 = _orient(a, b, c), _orient(a, b, d), _orient(c, d, a), _orient(c, d, b)
    if o1 != o2 and o3 != o4:
        return True
    return (o1 == 0 and _on_seg(a, b, c)) or (o2 == 0 and _on_seg(a, b, d)) or \
           (o3 == 0 and _on_seg(c, d, a)) or (o4 == 0 and _on_seg(c, d, b))


def valid_input(polys):
    """Exact validity of a generated polygon set: every contour simple (after removing exact
    consecutive duplicates), contours pairwise disjoint, orientation = nesting parity."""
    ip, _ = scale_case(polys, 1.0)
    cs = []
    for p in ip:
        c = []
        for (_, x, y) in p:
            if not c or c[-1] != (x, y):
                c.append((x, y))
        if len(c) > 1 and c[0] == c[-1]:
            c.pop()
        if len(c) < 3:
            return False
        cs.append(c)
    segs = []
    for k, c in enumerate(cs):
        n = len(c)
        for i in range(n):
            a, b = c[i], c[(i + 1) % n]
            segs.append((min(a[0], b[0]), max(a[0], b[0]), min(a[1], b[1]), max(a[1], b[1]), a, b, k, i, n))
    segs.sort()
    for i, s1 in enumerate(segs):
        for j in range(i + 1, len(segs)):
            s2 = segs[j]
            if s2[0] > s1[1]:
                break
            if s2[2] > s1[3] or s1[2] > s2[3]:
                continue
            if s1[6] == s2[6]:
                d = (s1[7] - s2[7]) % s1[8]
                if d == 1 or d == s1[8] - 1:
                    # adjacent edges: may only share the common vertex, i.e. must not fold back
                    a, b, c_, d_ = s1[4], s1[5], s2[4], s2[5]
                    if s1[8] == 3 and False:
                        pass
                    sh = b if b == c_ else a
                    o1, o2 = (a if sh == b else b), (d_ if sh == c_ else c_)
                    if _orient(o1, sh, o2) == 0 and (o1[0] - sh[0]) * (o2[0] - sh[0]) + (o1[1] - sh[1]) * (o2[1] - sh[1]) > 0:
                        return False
                    continue
            if _seg_touch(s1[4], s1[5], s2[4], s2[5]):
                return False

    def inside(pt, c):
        cnt, n = 0, len(c)
        for i in range(n):
            a, b = c[i], c[(i + 1) % n]
            if (a[1] > pt[1]) != (b[1] > pt[1]):
                # x of intersection > pt.x ?
                t = (b[0] - a[0]) * (pt[1] - a[1]) - (pt[0] - a[0]) * (b[1] - a[1])
                if (t > 0) == (b[1] > a[1]):
                    cnt += 1
        return cnt % 2 == 1

    for k, c in enumerate(cs):
        depth = sum(1 for j, d in enumerate(cs) if j != k and inside(c[0], d))
        a2 = sum(c[i][0] * c[(i + 1) % len(c)][1] - c[(i + 1) % len(c)][0] * c[i][1] for i in range(len(c)))
        if a2 == 0 or (a2 > 0) != (depth % 2 == 0):
            return False
    return True


KPRECISION = 1e-12          # manifold's kPrecision: epsilon = bBox.Scale() * kPrecision when epsilon < 0
OFFSETS = [10 ** 3, 10 ** 6, 10 ** 7, 10 ** 8, 10 ** 9, 3 * 10 ** 9, 10 ** 10]


def min_feature(polys):
    """Smallest non-zero edge length / vertex altitude over all contours (exact, as float)."""
    best = None
    for p in polys:
        pts = []
        for (_, x, y) in p:
            if not pts or pts[-1] != (x, y):
                pts.append((x, y))
        if len(pts) > 1 and pts[0] == pts[-1]:
            pts.pop()
        n = len(pts)
        for i in range(n):
            a, b, c = pts[i - 1], pts[i], pts[(i + 1) % n]
            ab2 = (Fraction(b[0]) - Fraction(a[0])) ** 2 + (Fraction(b[1]) - Fraction(a[1])) ** 2
            ac2 = (Fraction(c[0]) - Fraction(a[0])) ** 2 + (Fraction(c[1]) - Fraction(a[1])) ** 2
            cr = (Fraction(b[0]) - Fraction(a[0])) * (Fraction(c[1]) - Fraction(a[1])) - \
                 (Fraction(b[1]) - Fraction(a[1])) * (Fraction(c[0]) - Fraction(a[0]))
            cands = [math.sqrt(ab2)] if ab2 else []
            if cr != 0 and ac2 != 0:
                cands.append(abs(float(cr)) / math.sqrt(ac2))      # altitude of b over ac
            for v in cands:
                if v > 0 and (best is None or v < best):
                    best = v
    return best or 0.0


def transform_case(rng, c, cid):
    """Translation / scale stratum: the same polygon set scaled by an exact power of two and moved by
    exact integer offsets (both axes, both signs), as far from the origin as keeps the smallest feature
    >= 200 epsilon (epsilon = max|coordinate| * kPrecision).  Every coordinate stays exactly representable
    (checked), so the shapes are unchanged and tri_check's exact arithmetic applies."""
    k = rng.choice([-20, -10, -3, 0, 0, 0, 3, 10, 20])
    sc = Fraction(2) ** k
    feat = min_feature(c["polys"]) * float(sc)
    ext = max(max(abs(x), abs(y)) for p in c["polys"] for (_, x, y) in p) * float(sc)
    allowed = [m for m in OFFSETS if (m * float(sc) + ext) * KPRECISION * 200 <= feat]
    if not allowed:
        m = 0
    else:
        m = rng.choice(allowed[-3:])          # prefer the far ones
    sx, sy = rng.choice([(1, 0), (0, 1), (1, 1), (-1, 1), (1, -1), (-1, -1), (1000, 731), (731, -1000)])
    tx = Fraction(m * sx, 1000 if abs(sx) > 1 else 1) * sc
    ty = Fraction(m * sy, 1000 if abs(sy) > 1 else 1) * sc
    out = []
    for p in c["polys"]:
        q = []
        for (i, x, y) in p:
            nx, ny = Fraction(x) * sc + tx, Fraction(y) * sc + ty
            fx, fy = float(nx), float(ny)
            if Fraction(fx) != nx or Fraction(fy) != ny or math.isinf(fx) or math.isinf(fy):
                return None                   # not exactly representable: keep the untransformed case
            q.append((i, fx, fy))
        out.append(q)
    d = dict(c)
    d["polys"] = out
    d["tag"] = c["tag"] + "@far"
    d["xform"] = {"scale_log2": k, "offset": [float(tx), float(ty)]}
    return d


def bridge_family(rng):
    """Keyhole-bridge configurations: the +x ray from the hole's right-most start vertex S hits a slanted
    outer edge whose end nearer in y lies LEFT of S.x, with something on the segment from S to that end:
    (A) a vertex of the same (concave) hole, (B) a second hole further left, or both, several holes
    staggered in x; mirrored in y; the translation/scale stratum adds offsets and scales."""
    xb = rng.choice([-0.5, -1.0, -1.5, -2.0, -3.0])
    top = rng.choice([3.0, 4.0, 6.0])
    # the slanted edge (xb,-1)->(xr,top) must pass right of S = (0,0) at y = 0
    xr = math.ceil(xb + (0.75 - xb) * (top + 1)) + rng.choice([0, 1, 4])
    outer = [(-6.0, -1.0), (xb, -1.0), (float(xr), top), (-6.0, top)]
    holes = []
    kind = rng.choice(["A", "A", "B", "B", "AB", "stagger"])
    if kind in ("A", "AB"):
        a = rng.choice([0.25, 0.375, 0.5]) * min(1.0, -xb)
        b = min(0.8, a / -xb + rng.choice([0.125, 0.25, 0.375]))
        h = [(0.0, 0.0), (-a, -b)]
        if rng.random() < 0.5:
            h.append((-1.0 - rng.randrange(0, 3) / 8.0, -0.125))       # concave
        h.append((-2.0 - rng.randrange(0, 8) / 8.0, 0.5))
        if rng.random() < 0.5:
            h.append((-1.0, 0.625))
        holes.append(h)
    else:
        holes.append([(0.0, 0.0), (-0.375, -0.125), (-0.375, 0.1875)])
    if kind in ("B", "AB", "stagger"):
        ts = [rng.choice([0.5, 0.625, 0.75])] if kind != "stagger" else [0.4375, 0.6875, 0.875]
        for t in ts:
            cx, cy = t * xb, -t
            if kind == "AB":
                cx, cy = cx - 0.75, cy - 0.0625       # keep clear of the first hole
            r = 0.0625
            holes.append([(cx - r, cy + r), (cx + r, cy), (cx - r, cy - r)])
    polys = [outer] + holes
    if rng.random() < 0.5:                           # mirror in y
        polys = [[(x, -y) for (x, y) in c][::-1] for c in polys]
    polys = [[(q(x, 1024.0), q(y, 1024.0)) for (x, y) in c] for c in polys]
    out = []
    for k, c in enumerate(polys):
        a2 = area2(c)
        if a2 == 0:
            continue
        if (a2 > 0) != (k == 0):
            c = c[::-1]
        out.append(c)
    return out


def gen_case(rng, cid, big):
    fam = cid % 13 if cid >= 13 else cid
    polys, tag = [], ""
    if fam == 0:
        n = rng.choice([3, 4, 5, 8, 13, 30, 64, 120, 400 if big else 200])
        polys, tag = [star(rng, n)], "star"
    elif fam == 1:
        polys, tag = [comb(rng, rng.choice([1, 2, 5, 12, 40, 75]))], "comb"
    elif fam == 2:
        polys, tag = [spiral(rng, rng.choice([1, 2, 4, 8, 20]))], "spiral"
    elif fam == 3 or fam == 4:
        w, h = rng.choice([(3, 3), (5, 4), (8, 8), (12, 10), (16, 16)])
        polys, tag = polyomino(rng, w, h, rng.choice([0.4, 0.6, 0.8, 0.95])), "polyomino"
    elif fam == 5:
        # nested: outer, hole, island in hole, hole in island ...
        depth = rng.choice([2, 3, 4, 5])
        r = 16.0
        for d in range(depth):
            n = rng.choice([3, 4, 5, 7, 12])
            c = regular(n, 0.0078125 * r, -0.00390625 * r, r, phase=rng.random())
            if d % 2 == 1:
                c = c[::-1]
            polys.append(c)
            r *= 0.375
        tag = "nested"
    elif fam == 6:
        # several outers each with several star holes on a coarse grid of boxes
        k = rng.choice([1, 2, 3])
        for o in range(k):
            ox = 40.0 * o
            polys.append([(ox, 0.0), (ox + 32.0, 0.0), (ox + 32.0, 32.0), (ox, 32.0)])
            for hx in range(rng.choice([1, 2, 3])):
                for hy in range(rng.choice([1, 2, 3])):
                    if rng.random() < 0.8:
                        s = star(rng, rng.choice([3, 4, 6, 9]), ox + 5.0 + 10.0 * hx, 5.0 + 10.0 * hy, 1.0, 3.5)
                        if len(s) >= 3 and area2(s) > 0:
                            polys.append(s[::-1])
        tag = "multi-holes"
    elif fam == 7:
        base = rng.choice([lambda: [star(rng, 20)], lambda: [comb(rng, 6)], lambda: polyomino(rng, 6, 6, 0.7)])()
        polys, tag = [with_noise(rng, c, dup=0.15, mid=0.3) for c in base], "dup-collinear"
    elif fam == 8:
        # near-degenerate ears: thin spikes and tiny notches, far above eps
        n = rng.choice([6, 10, 24])
        c = regular(n, 0.0, 0.0, 4.0, g=2.0 ** 20)
        out = []
        for i, p in enumerate(c):
            out.append(p)
            if rng.random() < 0.5:
                nx = c[(i + 1) % n]
                mx, my = (p[0] + nx[0]) / 2, (p[1] + nx[1]) / 2
                d = rng.choice([2.0 ** -12, 2.0 ** -16, 2.0 ** -20])
                s = rng.choice([0.9, 1.1, 1.0 + d])
                out.append((q(mx * s, 2.0 ** 24), q(my * s, 2.0 ** 24)))
        polys, tag = [out], "near-degenerate"
    elif fam == 9:
        # convex inputs: the fast path
        k = rng.choice([1, 1, 2, 4])
        for o in range(k):
            polys.append(regular(rng.choice([3, 4, 5, 8, 17, 50]), 10.0 * o, 0.0, 4.0, phase=rng.random()))
        tag = "convex"
    elif fam == 10:
        # polyomino with stars inside big holes is hard to guarantee; use scaled/offset copies instead
        base = polyomino(rng, 6, 6, 0.8)
        polys = [[(x, y) for (x, y) in c] for c in base] + [[(x + 10.0, y * 0.5) for (x, y) in c] for c in base]
        tag = "copies"
    elif fam == 12:
        polys, tag = bridge_family(rng), "bridge"
    else:
        # large scale / tiny scale versions of a star with a hole
        s = rng.choice([2.0 ** -30, 2.0 ** 20, 1.0])
        o = star(rng, rng.choice([8, 30]), 0, 0, 4.0, 6.0)
        hct = star(rng, rng.choice([3, 7]), 0, 0, 1.0, 2.0)
        polys = [[(x * s, y * s) for (x, y) in o], [(x * s, y * s) for (x, y) in hct[::-1]]]
        tag = "scaled"
    polys = [c for c in polys if len(c) >= 3]
    # drop anything that became degenerate by rounding
    polys = [c for c in polys if area2(c) != 0]
    idx, ip = 0, []
    for c in polys:
        ip.append([(idx + k, x, y) for k, (x, y) in enumerate(c)])
        idx += len(c)
    return {"id": "g%d" % cid, "tag": tag, "eps": -1.0, "polys": ip, "corpus": False, "expected": None}


def read_corpus(path):
    toks = open(path).read().split()
    i, out = 0, []
    while i < len(toks):
        name, exp, eps, npoly = toks[i], int(toks[i + 1]), float(toks[i + 2]), int(toks[i + 3])
        i += 4
        polys, idx = [], 0
        for _ in range(npoly):
            n = int(toks[i]); i += 1
            polys.append([(idx + j, float(toks[i + 2 * j]), float(toks[i + 2 * j + 1])) for j in range(n)])
            idx += n
            i += 2 * n
        out.append({"id": "c_" + os.path.basename(path)[:-4] + "_" + name, "tag": "corpus", "eps": eps, "polys": polys,
                    "corpus": True, "expected": exp})
    return out


def case_line(c):
    toks = ["CASE", c["id"], bits(c["eps"]), str(len(c["polys"]))]
    for p in c["polys"]:
        toks.append(str(len(p)))
        for (i, x, y) in p:
            toks += [str(i), bits(x), bits(y)]
    return " ".join(toks)


# ---------------------------------------------------------------- hook handling

def prepare_hook(cx):
    """Returns (path of the polygon.cpp to include, hook_available)."""
    src = os.path.join(vp.REPO, "src/polygon.cpp")
    txt = open(src).read()
    if "verifEarClipTrace" in txt:
        cx.cov["hook"] = "committed in repo"
        return src, True
    patch = os.path.join(vp.ROOT, "hooks/C10.patch")
    h = hashlib.sha256((txt + open(patch).read()).encode()).hexdigest()[:16]
    d = os.path.join(vp.BUILD, "c10_hook", h, "src")
    dst = os.path.join(d, "polygon.cpp")
    if not os.path.exists(dst):
        os.makedirs(d, exist_ok=True)
        shutil.copy(src, dst)
        rc, out = vp.sh(["patch", "-p1", "--no-backup-if-mismatch", "-F3", "-d", os.path.dirname(d), "-i", patch])
        if rc != 0:
            shutil.rmtree(os.path.dirname(d), ignore_errors=True)
            cx.cov["hook"] = "patch does not apply: " + out[-300:]
            return None, False
    cx.cov["hook"] = "hooks/C10.patch applied to a scratch copy of the working tree's polygon.cpp"
    return dst, True


# ---------------------------------------------------------------- reset translator

def reset_table():
    """EarClip's data members vs what Reset()/Triangulate() clears or reassigns."""
    txt = open(os.path.join(vp.REPO, "src/polygon.cpp")).read()
    m = re.search(r"class EarClip \{(.*?)\n\};\n", txt, flags=re.S)
    if not m:
        return None, "class EarClip not found"
    body = m.group(1)
    # data members: declarations at class scope between 'struct IdxCollider {...};' and 'struct Vert {'
    seg = re.search(r"struct IdxCollider \{.*?\};(.*?)struct Vert \{", body, flags=re.S)
    if not seg:
        return None, "member block not found"
    members = re.findall(r"^\s{2}(?:[\w:<>,\s\*&]+?)\s+(\w+_);", re.sub(r"//.*", "", seg.group(1)), flags=re.M)
    r = re.search(r"void Reset\(double epsilon\) \{(.*?)\n  \}", body, flags=re.S)
    if not r or not members:
        return None, "Reset body or members not found"
    rb = re.sub(r"//.*", "", r.group(1))
    tri = re.search(r"HalfedgeTriangulation Triangulate\(.*?\{(.*?)\n  \}", body, flags=re.S)
    calls_reset = bool(tri and re.search(r"^\s*Reset\(epsilon\);", tri.group(1), flags=re.M) and
                       tri.group(1).find("Reset(epsilon)") < tri.group(1).find("Initialize(polys)"))
    table = []
    for mem in members:
        cleared = bool(re.search(r"\b%s(\.\w+)*\.clear\(" % mem, rb) or re.search(r"\b%s\s*=" % mem, rb))
        if mem == "collider_":
            cleared = bool(re.search(r"collider_\.itr\.clear\(", rb) and re.search(r"collider_\.points\.clear\(", rb))
        table.append((mem, cleared))
    return (table, calls_reset), ""


def write_reset_gen(table, calls_reset):
    d = os.path.join(vp.COQ, "Gen")
    os.makedirs(d, exist_ok=True)
    rows = "; ".join('("%s"%%string, %s)' % (m, "true" if c else "false") for m, c in table)
    txt = ("(* generated by checks/C10.py from src/polygon.cpp on every run: EarClip data members x\n"
           "   'cleared or reassigned by Reset()', and whether Triangulate() calls Reset first *)\n"
           "From Coq Require Import String List Bool.\nImport ListNotations.\n"
           "Definition earclip_members : list (string * bool) := [%s].\n"
           "Definition triangulate_calls_reset_first : bool := %s.\n"
           "Definition reset_completeb : bool := triangulate_calls_reset_first && forallb snd earclip_members.\n"
           % (rows, "true" if calls_reset else "false"))
    p = os.path.join(d, "C10Reset.v")
    if not os.path.exists(p) or open(p).read() != txt:
        open(p, "w").write(txt)


# ---------------------------------------------------------------- main

def parse_harness(out):
    res = {}
    for l in out.splitlines():
        t = l.split()
        if not t:
            continue
        if t[0] == "R":
            n = int(t[6])
            v = list(map(int, t[7:7 + 3 * n]))
            res.setdefault(t[1], {})[int(t[2])] = {"eps": from_bits(t[3]), "pair": t[4] == "1", "api": t[5] == "1",
                                                  "tris": [tuple(v[3 * i:3 * i + 3]) for i in range(n)]}
        elif t[0] == "EV":
            res[t[1]][int(t[2])]["ev"] = t[3:]
        elif t[0] == "PG":
            res[t[1]][int(t[2])]["pg"] = t[3:]
        elif t[0] == "HP":
            res[t[1]][1]["hp"] = t[2:]
    return res


def run(cx):
    cx.assumptions += [
        "geometric decisions of EarClip (degenerate test, hole/outer classification, keyhole connector, ear order, queue membership) are oracles: arbitrary functions of the whole state; theorems hold for all of them",
        "not proved: every triangle is CCW within epsilon for epsilon-valid input (depends on floating ear costs) - decided per output by the proved-sound exact checker tri_check",
        "the ghost conditions nbad = 0 / rings_closed are proved for every oracle (earclip_chain); the check still evaluates them on every replayed run as a cross-check of the model against the implementation's final polygon_",
        "earclip_count is proved as #triangles + #filtered = V-2+2h-2(o-1) with h = joins, o = contours - joins; that nothing is filtered and that every hole finds an outer for epsilon-valid input is geometry, decided per output by tri_check's count",
        "v->ear iterator validity is modelled as queue membership; hash pairing of HalfedgeTriangulation is checked on outputs (reciprocal, swapped endpoints), not modelled",
        "doubles are scaled to integers exactly (common power of two) by checks/C10.py; tolerance (2*eps)^2 rounded up",
    ]
    # -- translator: reset_complete
    tab, err = reset_table()
    if tab is None:
        cx.obligation("translate:C10/reset_table", False, "cannot parse EarClip members / Reset(): " + err)
        write_reset_gen([("unparsed", False)], False)
    else:
        table, calls_reset = tab
        write_reset_gen(table, calls_reset)
        cx.cov["reset_table"] = {"members": table, "triangulate_calls_reset_first": calls_reset}
        missing = [m for m, c in table if not c]
        cx.obligation("translate:C10/reset_complete", calls_reset and not missing and len(table) >= 10,
                      "EarClip members not cleared/reassigned by Reset(): %s (Triangulate calls Reset first: %s, members found: %d)" % (missing, calls_reset, len(table)))
    # -- proofs
    cx.prove()
    mls = vp.coq_extract("ExtractC10", ["c10_model.ml"])
    drv = vp.ocaml_build("c10_driver", mls + [os.path.join(vp.ROOT, "extract/c10_driver.ml")])
    cpp, hook = prepare_hook(cx)
    extra = []
    if cpp:
        extra = ['-DC10_POLYGON_CPP="%s"' % cpp] + (["-DC10_HAVE_HOOK=1"] if hook else [])
    exe = vp.build_harness("c10_tri", "seq", link_lib=True, extra=extra)

    rng = random.Random(cx.seed * 104729 + 10)
    ncase = cx.pick(QUICK_CASES, THOROUGH_CASES)
    cases = []
    for f in ("polygon_corpus.txt", "sponge.txt", "zebra.txt", "zebra3.txt"):
        p = os.path.join(vp.REPO, "test/polygons", f)
        if os.path.exists(p):
            cases += read_corpus(p)
    maxv = cx.pick(1500, 70000)
    cases = [c for c in cases if sum(len(p) for p in c["polys"]) <= maxv]
    ncorpus = len(cases)
    discarded = 0
    for cid in range(ncase):
        c = gen_case(rng, cid, True)
        if c["polys"] and cid >= 12 and cid % 5 in (1, 3):
            t = transform_case(rng, c, cid)
            if t is not None:
                c = t
        if c["polys"] and valid_input(c["polys"]):
            cases.append(c)
        else:
            discarded += 1
    # -- single-contour almost-convex polygons with ONE special vertex (reflex beyond the second diagonal, reflex,
    #    exactly collinear, barely reflex/convex within and beyond epsilon), under EVERY cyclic rotation of the list
    nrot = 0
    for b in range(cx.pick(16, 120)):
        n = rng.choice([5, 5, 6, 7, 8, 11])
        base = regular(n, 0.0, 0.0, 4.0, phase=rng.random(), g=1024.0)
        j = rng.randrange(n)
        mx = (Fraction(base[j - 1][0]) + Fraction(base[(j + 1) % n][0])) / 2
        my = (Fraction(base[j - 1][1]) + Fraction(base[(j + 1) % n][1])) / 2
        # t < 1: pulled towards the centre; t > 1: beyond the centre (beyond the diagonal of its second neighbours)
        t = rng.choice([Fraction(0), Fraction(1, 2 ** 44), -Fraction(1, 2 ** 44), Fraction(1, 2 ** 20), -Fraction(1, 2 ** 20),
                        Fraction(1, 4), Fraction(1, 2), Fraction(3, 4), Fraction(7, 8), Fraction(5, 4), Fraction(3, 2),
                        Fraction(2), Fraction(5, 2), Fraction(3)] if b % 2 else
                       [Fraction(3, 4), Fraction(7, 8), Fraction(5, 4), Fraction(3, 2), Fraction(2), Fraction(5, 2)])
        base[j] = (float(mx * (1 - t)), float(my * (1 - t)))
        for r in range(n):
            c = base[r:] + base[:r]
            cc = {"id": "o%d_%d" % (b, r), "tag": "one-special-vertex", "eps": -1.0,
                  "polys": [[(k, x, y) for k, (x, y) in enumerate(c)]], "corpus": False, "expected": None}
            if valid_input(cc["polys"]):
                cases.append(cc)
                nrot += 1
    # -- rotation invariance: for a sample of cases of every family, every contour's list cyclically rotated and the
    #    contour order permuted; validity and triangle count must not depend on where the lists start
    for c in list(cases[ncorpus:]):
        if c["tag"] == "one-special-vertex" or int(hashlib.sha256(c["id"].encode()).hexdigest(), 16) % 6 != 0:
            continue
        cs = [[(x, y) for (_, x, y) in p] for p in c["polys"]]
        cs = [p[r:] + p[:r] for p in cs for r in [rng.randrange(len(p))]]
        rng.shuffle(cs)
        idx, ip = 0, []
        for p in cs:
            ip.append([(idx + k, x, y) for k, (x, y) in enumerate(p)])
            idx += len(p)
        cases.append({"id": c["id"] + "r", "tag": c["tag"] + "~rot", "eps": c["eps"], "polys": ip, "corpus": False,
                      "expected": None, "rot_of": c["id"]})
        nrot += 1
    cx.cov["generated_invalid_discarded"] = discarded
    cx.cov["rotation_cases"] = nrot
    lines = [case_line(c) for c in cases]
    kl = lambda l: l.split()[1] if l.startswith("CASE") else None
    ko = lambda l: l.split()[1] if l.startswith("DONE ") else None
    out, crashes = vp.run_cases(exe, lines, kl, ko, timeout=cx.pick(150, 1500))
    for cl, rc, err in crashes:
        cid = cl.split()[1] if cl.startswith("CASE") else cl
        cx.violation("triangulate-crash", "TriangulateIdx crashed or hung (rc=%s) on case %s: %s" % (rc, cid, err[-200:]), {"case": cl[:20000]})
    res = parse_harness(out)

    # -- driver input
    dl = []
    chk_key = {}
    for c in cases:
        r = res.get(c["id"])
        if not r or len(r) < 4:
            continue
        nv = sum(len(p) for p in c["polys"])
        seen = {}
        for v in range(4):
            tk = (tuple(r[v]["tris"]), r[v]["eps"])
            if tk in seen:
                chk_key[(c["id"], v)] = seen[tk]
                continue
            key = "%s/%d" % (c["id"], v)
            seen[tk] = key
            chk_key[(c["id"], v)] = key
            ip, tolsq = scale_case(c["polys"], r[v]["eps"])
            toks = ["CHK", key, hexz(tolsq), str(len(ip))]
            for p in ip:
                toks.append(str(len(p)))
                for (i, x, y) in p:
                    toks += [str(i), hexz(x), hexz(y)]
            toks.append(str(len(r[v]["tris"])))
            for t in r[v]["tris"]:
                toks += [str(t[0]), str(t[1]), str(t[2])]
            dl.append(" ".join(toks))
        idxs = " ".join(str(len(p)) + " " + " ".join(str(i) for (i, _, _) in p) for p in c["polys"])
        if hook and nv <= REPLAY_MAXV:
            for v in (1, 2):
                ev = r[v].get("ev")
                if ev is None:
                    continue
                if v == 2 and r[1].get("ev") == ev:
                    continue
                dl.append("RPL %s/%d %d %s %s" % (c["id"], v, len(c["polys"]), idxs, " ".join(ev)))
        dl.append("CVX %s %d %s" % (c["id"], len(c["polys"]), idxs))
        if r[1].get("hp") is not None and nv <= REPLAY_MAXV:
            dl.append("HPR %s %d %s %d %s" % (c["id"], len(c["polys"]), idxs, len(r[1]["tris"]),
                                               " ".join("%d %d %d" % t for t in r[1]["tris"])))
    # the extracted list functions are not tail recursive: give the driver an unlimited stack (65k-vertex corpus polygons)
    rc2, dout, derr = vp.sh2(["bash", "-c", "ulimit -s unlimited 2>/dev/null || true; exec '%s'" % drv],
                             input="\n".join(dl) + "\n", timeout=cx.pick(170, 1700))
    if rc2 != 0:
        cx.broke("corr:C10/model-driver", "extracted checker/model driver exited %d: %s" % (rc2, derr[-400:]))
    V, MT, MG, MS, MC, MH = {}, {}, {}, {}, {}, {}
    for l in dout.splitlines():
        t = l.split()
        if t[0] == "V":
            V[t[1]] = t[2:]
        elif t[0] == "MT":
            MT[t[1]] = t[2:]
        elif t[0] == "MG":
            MG[t[1]] = t[2:]
        elif t[0] == "MS":
            MS[t[1]] = list(map(int, t[2:]))
        elif t[0] == "MC":
            MC[t[1]] = t[2:]
        elif t[0] == "MH":
            MH[t[1]] = t[2:]

    # -- judge
    dist, nontriv, seen_cases = {}, 0, set()
    stats = {"checked_outputs": 0, "replayed": 0, "replay_ok": 0, "convex_fast_path": 0, "convex_model_ok": 0,
             "variants_identical": 0, "theorem_hypotheses_hold": 0, "corpus_count_ok": 0, "ccw_bad_corpus": 0}
    nbroke = 0

    def broke(name, desc):
        nonlocal nbroke
        nbroke += 1
        if nbroke <= 4:
            cx.broke(name, desc)

    for c in cases:
        cid = c["id"]
        r = res.get(cid)
        if not r or len(r) < 4:
            if not any(cl.startswith("CASE " + cid + " ") for cl, _, _ in crashes):
                broke("corr:C10/harness#%s" % cid, "harness printed no result for the case")
            continue
        dist[c["tag"]] = dist.get(c["tag"], 0) + 1
        nv = sum(len(p) for p in c["polys"])
        replay = {"case": case_line(c)[:60000], "tag": c["tag"], "nvert": nv}
        rejected = False
        for v in range(4):
            rv = r[v]
            vd = V.get(chk_key.get((cid, v)))
            if vd is None:
                broke("corr:C10/checker#%s/%d" % (cid, v), "checker printed no verdict")
                continue
            cons, idx, ch, ar, cnt, ccw = [x == "1" for x in vd[:6]]
            expected, nbad = int(vd[6]), int(vd[7])
            vrep = dict(replay, variant=v, triangles=rv["tris"][:400], eps=rv["eps"])
            if not cons:
                broke("gen:C10/input-positions#%s" % cid, "generator produced inconsistent indices/positions")
                continue
            stats["checked_outputs"] += 1
            if not rv["pair"]:
                rejected = True
                cx.violation("halfedge-pairing-not-reciprocal", "HalfedgeTriangulation pairing is not reciprocal with swapped endpoints (case %s variant %d)" % (cid, v), vrep)
            if not rv["api"]:
                rejected = True
                cx.violation("triangulateidx-differs-from-halfedges", "TriangulateIdx returned other triangles than TriangulateIdxHalfedges (case %s)" % cid, vrep)
            if not idx:
                rejected = True
                cx.violation("tri-index-invalid", "a returned triangle uses an index that is not an input vertex (case %s variant %d)" % (cid, v), vrep)
            if not ch:
                rejected = True
                cx.violation("tri-chain-identity", "sum of triangle boundaries != sum of input contour edges: some input edge is missing/duplicated or an interior edge is unmatched (case %s variant %d, %d triangles)" % (cid, v, len(rv["tris"])), vrep)
            if not ar:
                rejected = True
                cx.violation("tri-area-sum", "triangle areas do not sum to the polygon area exactly (case %s variant %d)" % (cid, v), vrep)
            if c["corpus"]:
                if len(rv["tris"]) == c["expected"]:
                    stats["corpus_count_ok"] += 1
                else:
                    rejected = True
                    cx.violation("tri-count-corpus", "corpus polygon %s: %d triangles, the corpus file records %d (variant %d)" % (cid, len(rv["tris"]), c["expected"], v), vrep)
                if not ccw:
                    stats["ccw_bad_corpus"] += 1
            else:
                if not cnt:
                    rejected = True
                    cx.violation("tri-count", "%d triangles returned, V-2+2h-2(o-1) = %d (case %s variant %d)" % (len(rv["tris"]), expected, cid, v), vrep)
                if not ccw:
                    rejected = True
                    cx.violation("tri-not-ccw", "%d returned triangle(s) are clockwise beyond 2*epsilon, evaluated exactly (case %s variant %d)" % (nbad, cid, v), vrep)
        # rotation invariance of the count
        if c.get("rot_of") and res.get(c["rot_of"]) and len(res[c["rot_of"]]) == 4:
            for v in (0, 1):
                if len(r[v]["tris"]) != len(res[c["rot_of"]][v]["tris"]):
                    rejected = True
                    cx.violation("rotation-changes-count", "rotating the contours' vertex lists / permuting the contours changes the triangle count: %d vs %d (case %s, variant %d)"
                                 % (len(r[v]["tris"]), len(res[c["rot_of"]][v]["tris"]), cid, v), dict(replay, original=c["rot_of"]))
        # variants: same code path => identical output
        if r[1]["tris"] != r[2]["tris"] or r[1]["eps"] != r[2]["eps"]:
            cx.violation("reuse-changes-result", "a reused PolygonTriangulator returns a different triangulation than a fresh one (case %s)" % cid,
                         dict(replay, fresh=r[1]["tris"][:400], reused=r[2]["tris"][:400]))
            rejected = True
        elif r[0]["tris"] != r[3]["tris"]:
            cx.violation("reuse-changes-result", "a reused PolygonTriangulator returns a different triangulation than a fresh one with allowConvex (case %s)" % cid,
                         dict(replay, fresh=r[0]["tris"][:400], reused=r[3]["tris"][:400]))
            rejected = True
        else:
            stats["variants_identical"] += 1
        # allowConvex: either the ear-clip path was taken (identical to variant 1) or the strip model must match
        if r[0]["tris"] != r[1]["tris"]:
            stats["convex_fast_path"] += 1
            mc = MC.get(cid)
            want = None if (mc is None or mc[0] == "undefined") else [tuple(map(int, mc[1 + 3 * i:4 + 3 * i])) for i in range(int(mc[0]))]
            if want == r[0]["tris"]:
                stats["convex_model_ok"] += 1
            elif not rejected:
                broke("corr:C10/triangulate_convex#%s" % cid, "allowConvex output differs from the ear-clip output and from the TriangulateConvex model")
        elif hook and r[0].get("ev") is not None and len(r[0]["ev"]) <= 1 and len(r[0]["tris"]) > 0:
            # fast path taken and identical to ear clipping by coincidence (triangles): still compare with the model
            stats["convex_fast_path"] += 1
            mc = MC.get(cid)
            want = None if (mc is None or mc[0] == "undefined") else [tuple(map(int, mc[1 + 3 * i:4 + 3 * i])) for i in range(int(mc[0]))]
            if want == r[0]["tris"]:
                stats["convex_model_ok"] += 1
            elif not rejected:
                broke("corr:C10/triangulate_convex#%s" % cid, "fast path output differs from the TriangulateConvex model")
        # hash pairing of HalfedgeTriangulation vs the AddHalfedge model (theorem pairing_reciprocal)
        if cid in MH and r[1].get("hp") is not None:
            stats["pairing_compared"] = stats.get("pairing_compared", 0) + 1
            if MH[cid] == r[1]["hp"]:
                stats["pairing_model_ok"] = stats.get("pairing_model_ok", 0) + 1
            elif not rejected:
                broke("corr:C10/add_halfedge_pairing#%s" % cid, "pairedHalfedge array differs from the ported AddHalfedge model")
        # replay correspondence
        for v in (1, 2):
            key = "%s/%d" % (cid, v)
            mt = MT.get(key)
            if mt is None:
                continue
            stats["replayed"] += 1
            ok = mt[0] == "ok"
            n = int(mt[1])
            mtris = [tuple(map(int, mt[2 + 3 * i:5 + 3 * i])) for i in range(n)]
            mg = MG.get(key, [])
            if ok and mtris == r[v]["tris"] and mg == r[v].get("pg"):
                stats["replay_ok"] += 1
                ms = MS.get(key)
                # executable hypotheses of theorem earclip_contract_partial, on the state that equals the implementation's
                if ms and len(ms) >= 9 and ms[6] == 0 and ms[7] == 1 and ms[8] == 1:
                    stats["theorem_hypotheses_hold"] += 1
                elif not rejected:
                    broke("cert:C10/earclip_contract_hypotheses#%s" % key,
                          "a replayed run violates a hypothesis of earclip_contract_partial (nbad, rings_closed, init_ok) = %s" % (ms[6:9] if ms else None))
            elif not rejected:
                what = mt[0] if not ok else ("triangle list differs" if mtris != r[v]["tris"] else "final polygon_ links differ")
                broke("corr:C10/earclip_replay#%s" % key, "extracted model replaying the traced decisions does not reproduce the implementation: %s" % what)
        sig = hashlib.sha256(case_line(c).encode()).hexdigest()
        if sig not in seen_cases:
            seen_cases.add(sig)
            if len(c["polys"]) > 1 or any(has_reflex([(x, y) for (_, x, y) in p]) for p in c["polys"]):
                nontriv += 1
    if nbroke > 4:
        cx.broke("corr:C10/more", "%d further correspondence breaks suppressed" % (nbroke - 4))
    if not hook:
        cx.notes.append("trace hook unavailable (%s): decision replay SKIPPED, oracle part ran" % cx.cov.get("hook"))
        cx.cov["replay"] = "skipped"
        if cpp is None:
            cx.broke("corr:C10/hook-does-not-apply", "hooks/C10.patch no longer applies to src/polygon.cpp: the decision replay of EarClip could not run (%s)" % cx.cov.get("hook"))
    cx.cov.update({"evaluations": stats["checked_outputs"], "distinct_nontrivial": nontriv,
                   "rule": "seeded polygon families + test/polygons corpus, 4 variants each (allowConvex x fresh/reused); non-trivial = has a hole/second contour or a reflex vertex; distinct by full input bit pattern",
                   "distribution": dist, "corpus_cases": ncorpus, "generated_cases": len(cases) - ncorpus, "stats": stats})
    for c in cases[:1] + cases[ncorpus:ncorpus + 2]:
        r = res.get(c["id"])
        if r:
            cx.sample({"case": c["id"], "tag": c["tag"], "nvert": sum(len(p) for p in c["polys"]), "ntri": len(r[1]["tris"]),
                       "verdict": V.get(chk_key.get((c["id"], 1))), "first_triangles": r[1]["tris"][:4]})
