"""C08 — MeshGL export and re-import is lossless.
proof (index/run/tangent structure of export and import) + field-wise
round-trip comparison of the real export of the real re-import."""
import os, random, re, sys
import vp

sys.path.insert(0, os.path.join(vp.ROOT, "translate"))
import c09_ladder, c08_obj

LEVEL = "proof"
META = {
    "level": "proof",
    "technique": "Coq proof about a Gallina model of GetMeshGLImpl's run sort / property-vertex duplication / tangent copy and of the import's "
                 "merge map and run->triRef assignment + field-wise round-trip harness on generated programs",
    "text": "Theorems: merge_vectors_restore (the duplication loop's merge vectors send every exported corner to an injective representative of "
            "its position vertex, for all corner sequences), runs_roundtrip (per-triangle originalID/run transform/flags/faceID are unchanged by "
            "export-import-export, all Impls and start IDs), roundtrip_tangent_refuted (the pinned exporter permutes triangles but not tangents; "
            "witness replayed on the real code) and roundtrip_tangent_fixed for the fixed exporter, runs_roundtrip_with_empty_runs (trailing runs without triangles come back with the same attributes in order), export_tables_accepted (no run-table rung of the importer's ladder - table regenerated from src/impl.h - fires on a table the exporter emits). Tie: programs producing multi-run meshes, "
            "instances, back-side runs, empty runs (operands contributing no face), property seams, normals, tangents; m2 = Manifold(m.GetMeshGL64()); the two exports are compared as "
            "canonical per-triangle records of bit patterns (positions, triangle set, run attributes, faceID, per-corner properties, per-edge "
            "tangents), plus status, tolerance, Refine(2), merge vectors alone, Merge() after stripping, the float path and OBJ text.",
    "note": "roundtrip_records_partial / roundtrip_consistent model the import's merge map, degenerate-triangle drop, run -> triRef assignment, "
            "DedupePropVerts (a map q, soundness as hypothesis), SortGeometry (vertex / property-vertex / face permutation oracles, tangents travelling "
            "with their face) on denormalised triangles (numeric payloads are abstract identifiers) and prove the per-triangle records equal up to a "
            "triangle permutation; NOT modelled (hypotheses, exercised by the harness): CreateHalfedges' pairing and opposed-pair removal, IsManifold, "
            "CleanupTopology being a no-op, SetNormalsAndCoplanar. merge_rederives_partial is at the level of the union-find partition (collider = oracle "
            "with C14's exactness, union-find = C13's sequential model); that every seam duplicate is an open-edge vertex is not proved. OBJ: "
            "obj_decimal_digits_determine_double over rationals, tied to the precision/notation read from WriteOBJ. Normal channels are skipped in the bit "
            "comparison when the run carries the hasNormals flag.",
}

FIELDS = ["positions", "triangles", "runs_ok", "empty_runs_ok", "numruns", "faceid", "props_ok", "tangent", "tangent_len", "tol", "refine_same",
          "merged_manifold", "merge_rederived", "f32_positions", "f32_tris", "obj_struct"]
KEY = {"tangent": "tangent-order-lost", "refine_same": "tangent-order-lost"}


def parse(l):
    d = {}
    for tok in l.split()[2:]:
        if "=" in tok:
            k, v = tok.split("=", 1)
            d[k] = int(v)
        else:
            d[tok] = 1
    return d


def run(cx):
    cx.assumptions += [
        "the Coq model abstracts numeric payloads to identifiers and covers export (run sort, property-vertex duplication, tangent copy) and the "
        "import's merge map / run->triRef assignment; the rest of the import pipeline is only exercised by the harness",
        "normal channels (runs flagged hasNormals) are not compared bit-for-bit (renormalisation rounding is allowed by the property)",
        "programs are drawn from 26 templates with random offsets; meshes of a few hundred triangles",
    ]
    # the importer's rung table, regenerated from src/impl.h (shared with C09): theorem export_tables_accepted
    # needs it to contain no rung that rejects a run table the exporter can emit
    gen = os.path.join(vp.COQ, "Gen")
    translate_ok = True
    try:
        c09_ladder.emit(c09_ladder.translate(vp.REPO), os.path.join(gen, "Ladder.v"))
    except Exception as e:
        translate_ok = False
        cx.broke("translate:c09_ladder", "the ingest constructor is no longer recognised: %s" % str(e)[:500])
        with open(os.path.join(gen, "Ladder.v"), "w") as f:
            f.write("(* FALLBACK: translation failed; reference (patched) table *)\nFrom MV Require Import Codec.IngestDefs.\n"
                    "Definition table : list item := patched_table.\n")
    obj_ok_translate = True
    try:
        prec, sci = c08_obj.translate(vp.REPO)
        c08_obj.emit(prec, sci, os.path.join(gen, "ObjPrecision.v"))
        cx.cov["obj_writer_format"] = {"precision": prec, "scientific": sci}
    except Exception as e:
        obj_ok_translate = False
        cx.broke("translate:c08_obj", "WriteOBJ's float format is no longer recognised: %s" % str(e)[:400])
        c08_obj.emit(16, True, os.path.join(gen, "ObjPrecision.v"))
    for ext in (".vo", ".glob", ".vos", ".vok"):
        try:
            os.remove(os.path.join(vp.COQ, "Codec", "ExportIngestEval" + ext))
        except OSError:
            pass
    cx.prove(extra_targets=["Codec/ExportIngestEval.vo"])
    log = open(os.path.join(vp.BUILD, "logs", "coq_C08.log")).read()
    m = re.search(r"accepts_export_current\s*=\s*(true|false)", log)
    accepts = (m.group(1) == "true") if m else None
    cx.cov["accepts_export_tables(Gen.Ladder.table)"] = accepts
    m = re.search(r"import_honours_backside_current\s*=\s*(true|false)", log)
    honours = (m.group(1) == "true") if m else None
    cx.cov["import_honours_backside_without_transform(Gen.Ladder)"] = honours
    m = re.search(r"obj_format_current\s*=\s*(true|false)", log)
    obj_format_ok = (m.group(1) == "true") if m else None
    cx.cov["obj_format_ok(Gen.ObjPrecision)"] = obj_format_ok
    exe = vp.build_harness("c08_roundtrip", "seq", link_lib=True)
    rng = random.Random(cx.seed * 8191 + 8)
    n = cx.pick(300, 6000)
    lines = ["C %d %d %d" % (i, i if i < 32 else rng.randrange(26), rng.randrange(1 << 30)) for i in range(n)]
    # LARGE re-imports: the exporter's mesh padded with unused vertices so that the importer's vertex count straddles
    # 2^18 (the only size threshold on the import/export path: CreateHalfedges switches from sorting to bucketing there;
    # the other size constants in impl.cpp/sort.cpp/impl.h are autoPolicy sequential/parallel cut-offs).  Templates with
    # property seams (merge vectors), runs, tangents and plain meshes.
    K = 1 << 18
    big = [(6, K - 1), (6, K), (6, K + 1), (7, K + 7), (11, K + 7), (0, K + 7), (4, K + 7), (20, K + 7), (7, K - 3)]
    if not cx.quick():
        big += [(t, K + 7) for t in range(21)] + [(6, 2 * K + 1), (7, 3 * K)]
    for j, (tmpl, pad) in enumerate(big):
        lines.append("C %d %d %d %d" % (n + j, tmpl, 4242 + j, pad))
    # hand-edited exports: runTransform dropped (optional field; absent = identity) from exports whose run transforms are all
    # the identity (templates 21..25 never transform an operand; 16 has an inner part and identity transforms too)
    for tmpl in (21, 22, 23, 24, 25, 16, 9):
        lines.append("C %d %d %d 0 1" % (len(lines), tmpl, 777 + tmpl))
    kl = lambda l: l.split()[1]
    ko = lambda l: l.split()[1] if l.startswith("C ") else None
    out, crashes = vp.run_cases(exe, lines, kl, ko, timeout=1500, max_restarts=4)
    for cl, rc, err in crashes:
        cx.violation("roundtrip-crash", "round trip program crashed (rc=%s): %s" % (rc, err[-200:]), {"case": cl})
    dist = {"multi_run": 0, "props": 0, "tangents": 0, "merges": 0, "empty_runs": 0, "skipped": 0}
    nontriv, seen = 0, set()
    obj_lossy = obj_other = 0
    per_field_fail = {}
    for l in out.splitlines():
        if not l.startswith("C "):
            continue
        d = parse(l)
        cid = l.split()[1]
        if "SKIP" in d:
            dist["skipped"] += 1
            continue
        dist["multi_run"] += d["runs"] >= 2
        dist["props"] += d["props"] > 0
        dist["tangents"] += d["tangents"]
        dist["merges"] += d["merges"] > 0
        dist["empty_runs"] += d.get("empties", 0) > 0
        sig = (d["prog"], d["tris"], d["runs"], d["merges"])
        if sig not in seen:
            seen.add(sig)
            if d["runs"] >= 2 or d["merges"] > 0 or d["tangents"] or d.get("empties", 0):
                nontriv += 1
        case = lines[int(cid)]
        dist["large_reimport"] = dist.get("large_reimport", 0) + (d.get("padded", 0) >= (1 << 18))
        if d.get("st2", 0) != 0:
            if d.get("empties", 0) > 0 and d["st2"] == 9:
                cx.violation("empty-run-rejected",
                             "the export of a NoError Manifold has %d run(s) without triangles (an operand that contributed no face) and is "
                             "rejected on re-import with RunIndexWrongLength" % d["empties"], {"case": case, "program": d["prog"], "line": l})
            elif d.get("tan_nonfinite", 0) > 0 and d["st2"] == 11:
                cx.violation("nonfinite-tangent-export",
                             "a NoError Manifold exports %d non-finite tangent values (SmoothOut on sharp geometry); its own export is rejected on "
                             "re-import with InvalidConstruction while the original refines with status %d" % (d["tan_nonfinite"], d["refine_st1"]),
                             {"case": case, "program": d["prog"], "line": l})
            else:
                big_in = d.get("padded", 0) >= (1 << 18)
                cx.violation("large-reimport-status" if big_in else "reimport-status",
                             "re-import of the export%s has status %d" % (" (padded with unused vertices to %d vertices: large-mesh import path)" % d["padded"] if big_in else "", d["st2"]),
                             {"case": case, "line": l})
            continue
        bad = [f for f in FIELDS if d.get(f, 1) != 1]
        dist["identity_only_backside"] = dist.get("identity_only_backside", 0) + (d["prog"] in (21, 22, 23, 24, 25))
        if d.get("dropped_rt") == 1:
            dist["runtransform_dropped"] = dist.get("runtransform_dropped", 0) + 1
            if "runs_ok" in bad or "props_ok" in bad:
                cx.violation("runflags-lost-without-runtransform",
                             "a MeshGL64 with runFlags but no runTransform (all transforms identity) is re-imported with different run flags "
                             "(back-side / normals bit lost)", {"case": case, "program": d["prog"], "line": l})
                bad = [f for f in bad if f not in ("runs_ok", "props_ok")]
        for f in bad:
            per_field_fail[f] = per_field_fail.get(f, 0) + 1
        others = [f for f in bad if f not in ("tangent", "refine_same")]
        if "tangent" in bad or ("refine_same" in bad and d["tangents"]):
            cx.violation("tangent-order-lost",
                         "tangents are not attached to the same directed edges after export/re-import (%d runs); Refine(2): status %d before, %d after the trip"
                         % (d["runs"], d["refine_st1"], d["refine_st2"]), {"case": case, "program": d["prog"], "line": l})
        elif "refine_same" in bad:
            others.append("refine_same")
        for f in others:
            cx.violation("roundtrip-" + f, "field `%s` differs between export and export-of-reimport" % f, {"case": case, "program": d["prog"], "line": l})
        if d.get("f32_st", 0) != 0:
            cx.violation("roundtrip-f32-status", "Manifold(GetMeshGL()) has status %d" % d["f32_st"], {"case": case, "line": l})
        if d.get("obj_differ", 0) > 0:
            if d["obj_differ"] == d["obj_differ_small"]:
                obj_lossy += 1
                if obj_lossy == 1:
                    cx.violation("obj-small-coordinate-lossy",
                                 "WriteOBJ/ReadOBJ changed %d coordinates, all with |x| < 1e-3 (std::fixed, precision 19 keeps fewer than 17 significant digits there)"
                                 % d["obj_differ"], {"case": case, "program": d["prog"], "line": l})
            else:
                obj_other += 1
                cx.violation("obj-lossy", "WriteOBJ/ReadOBJ changed %d coordinates, %d of them with |x| >= 1e-3" % (d["obj_differ"], d["obj_differ"] - d["obj_differ_small"]),
                             {"case": case, "line": l})
    # obligation of theorem export_tables_accepted on the regenerated table
    cx.obligations += 1
    if accepts and translate_ok:
        cx.discharged += 1
    elif translate_ok:
        if not any(k == "empty-run-rejected" for k, _, _ in cx.violations):
            cx.broke("obligation:accepts_export_tables", "Gen.Ladder.table contains a rung that rejects run tables the exporter emits "
                     "(or the evaluation did not run: %r) and no concrete program was found" % accepts)
        cx.notes.append("accepts_export_tables Gen.Ladder.table = %r" % accepts)
    # obligation of theorem runs_roundtrip_without_runtransform: the importer honours the back-side bit when runTransform is absent
    cx.obligations += 1
    if honours and translate_ok:
        cx.discharged += 1
    elif translate_ok:
        if not any(k == "runflags-lost-without-runtransform" for k, _, _ in cx.violations):
            cx.broke("obligation:import_honours_backside_without_transform", "the importer's run loop ignores the back-side bit of runFlags when "
                     "runTransform is absent (%r) and no export demonstrating the loss was found" % honours)
    # obligation of theorem obj_decimal_digits_determine_double on the constants read from WriteOBJ
    cx.obligations += 1
    if obj_format_ok and obj_ok_translate:
        cx.discharged += 1
    elif obj_ok_translate:
        if not any(k.startswith("obj-") for k, _, _ in cx.violations):
            cx.broke("obligation:obj_format_ok", "WriteOBJ's precision/notation does not guarantee 17 significant digits (%r) and no lossy round trip was found" % obj_format_ok)
    cx.cov.update({"evaluations": len(lines), "distinct_nontrivial": nontriv,
                   "rule": "seeded programs from 26 templates; non-trivial = >= 2 runs or merge vectors (property seam) or tangents or empty runs; distinct by (template, triangles, runs, merges)",
                   "distribution": dist, "fields_compared": FIELDS, "field_failures": per_field_fail,
                   "obj_roundtrips_lossy_below_1e-3": obj_lossy, "obj_roundtrips_lossy_other": obj_other})
    for l in out.splitlines()[:3]:
        cx.sample({"line": l[:400]})
