"""C13 — parallel primitives and lock-free containers equal their sequential spec.
Coq theorems over list-level ports of parallel.h quantified over all legal TBB
schedules (coq/Par), tied to /repo by (a) real-TBB runs of every template with
1..16 threads, (b) a seeded schedule simulator (harness/verif_sched.h) whose
logged schedules are accepted by the extracted legality predicates and replayed
by the extracted model, (c) real threads on DisjointSets / HashTableD."""
import os, random, re, threading, time
import vp

LEVEL = "proof"
META = {
    "level": "proof",
    "technique": "Coq proofs over ports of parallel.h / disjoint_sets.h / hashtable.h for all legal TBB schedules and all thread interleavings + schedule-simulator / real-TBB / real-thread correspondence with the extracted models + std:: oracle",
    "text": "Coq theorems (Properties_C13), for every input and every schedule accepted by the legality predicates of Par/Sched.v: stable_sort_spec, "
            "merge_rec_spec, radix_sort_spec (+ radix_pass_spec; buffer-level refinement radix_prefix_sum_spec / radix_shuffle_refines / "
            "lsb_radix_sort_buffers_refine / histogram_any_split), scan_protocol_spec, scan_spec, inclusive_scan_spec, scan_spec_inplace and "
            "inclusive_scan_spec_inplace (one shared buffer, read-before-store), copy_if_spec, copy_if_scan_body_spec, remove_if_spec, unique_spec, "
            "reduce_spec (every init), all_of_spec, for_each_family, reduce_sites_pass_identities. Lock-free containers, for ANY number of threads and "
            "ANY interleaving of their atomic load/CAS steps: uf_partition (when all unite/find calls have returned, same root <=> equivalence closure "
            "of the united pairs; the (rank,id) parent order holds in every reachable configuration), uf_sequential_terminates (fuel n+1), hash_insert "
            "(at quiescence every Insert that did not see Full() has its key in exactly one slot, found by operator[], with the claimer's value), "
            "hash_used_accounting, hash_probe_terminates. Tie: every template with ExecutionPolicy::Par, out of place and in place, under real TBB "
            "(1..16 threads, source thresholds and a threshold-substituted copy of parallel.h) and under the seeded schedule simulator; compared with "
            "std:: in-process; every logged schedule must pass the extracted legal_* predicates and the extracted model run under it must reproduce the "
            "output (for LSB_radix_sort: the flag and both buffers); DisjointSets/HashTableD run with 1-3 real threads: one-thread runs equal the "
            "extracted models word for word, concurrent runs partition-for-partition / key set / probe invariant.",
    "note": "Trusted: Coq kernel, extraction, std:: algorithms modelled by their specification (merge, stable_sort of a block, lower/upper_bound on sorted "
            "runs, reduce on a block), list-level abstraction of mergeRec/mergeSortRec buffer indices (a two-buffer model is executed, not proved) and of "
            "SortedRange's two arrays (flags are modelled), the informal argument that Sched.legal_* contain every behaviour TBB documents, sequentially "
            "consistent atomics (the code's acq_rel/relaxed orders are not modelled). Partial: lock-freedom of unite/find under interleaving as a "
            "statement about executions (uf_above_decreases_partial names the gap). Three defects found by this check were fixed upstream (fc899df2, 8dafdd9e, 1f3be2f4).",
}

SMALL_THR, SMALL_MAXBUF = 4, 8
ALGS_MODEL = ["sort_cmp", "sort_less", "sort_u32", "lsb_radix", "sort_u64", "sort_sz", "sort_i32", "sort_i64", "mergerec", "reduce", "treduce", "count_if", "all_of",
              "incl_scan", "excl_scan", "exclusive_scan-inplace", "inclusive_scan-inplace", "transform-inplace", "copy_if", "remove_if", "remove", "unique", "for_each", "for_each_n", "transform",
              "copy", "copy_n", "fill", "sequence", "gather", "scatter"]
IDENT = {0: 0, 1: -(2 ** 60), 2: 2 ** 60, 3: 0}     # within OCaml's 63-bit ints; identities on the generated value domain [0, 2^62)


def read_consts():
    src = open(os.path.join(vp.REPO, "src/parallel.h")).read()
    m1 = re.search(r"constexpr\s+size_t\s+kSeqThreshold\s*=\s*([0-9.e]+)\s*;", src)
    m2 = re.search(r"constexpr\s+size_t\s+MAX_BUFFER_SIZE\s*=\s*1\s*<<\s*(\d+)\s*;", src)
    thr = int(float(m1.group(1))) if m1 else None
    mb = (1 << int(m2.group(1))) if m2 else None
    return src, m1, m2, thr, mb


def write_small_header(src, m1, m2):
    d = os.path.join(vp.BUILD, "c13gen")
    os.makedirs(d, exist_ok=True)
    s = src[:m1.start()] + "constexpr size_t kSeqThreshold = %d;" % SMALL_THR + src[m1.end():]
    s = re.sub(r"constexpr\s+size_t\s+MAX_BUFFER_SIZE\s*=\s*1\s*<<\s*\d+\s*;", "constexpr size_t MAX_BUFFER_SIZE = %d;" % SMALL_MAXBUF, s)
    import hashlib
    p = os.path.join(d, "parallel_small_%s.h" % hashlib.sha256((vp.REPO + s).encode()).hexdigest()[:12])   # per repo tree: concurrent checks must not share it
    if not os.path.exists(p) or open(p).read() != s:
        tmp = p + ".%d.tmp" % os.getpid()
        open(tmp, "w").write(s)
        os.replace(tmp, p)
    return p


def keys(rng, n, style):
    if style == 0: return [rng.randrange(3) for _ in range(n)]                 # heavy duplicates
    if style == 1: return sorted(rng.randrange(max(1, n // 2) + 1) for _ in range(n))
    if style == 2: return sorted((rng.randrange(n + 1) for _ in range(n)), reverse=True)
    if style == 3: return [5] * n
    if style == 4: return [rng.randrange(1 << 20) for _ in range(n)]
    return [rng.randrange(10) for _ in range(n)]


def make_case(rng, cid, alg, n, threads, dump, known_probe=False):
    style = rng.randrange(6)
    x = keys(rng, n, style)
    p1, p2, y = 0, 0, None
    if alg in ("reduce", "treduce"):
        p2 = rng.randrange(4)
        p1 = IDENT[p2] if (rng.random() < 0.8 or alg == "treduce" and p2 in (1, 2)) else rng.randrange(1, 20)
        if p2 == 0 and alg == "treduce": x = [v % 1000 for v in x]
        if p2 == 3: x = [v if rng.random() < 0.5 else 0 for v in x]
    elif alg in ("count_if", "copy_if", "remove_if"):
        p1 = rng.choice([1, 2, 3, 7])
    elif alg == "all_of":
        p1 = rng.choice([x[rng.randrange(n)] if n else 1, -1, -1])
    elif alg == "remove":
        p1 = x[rng.randrange(n)] if n and rng.random() < 0.8 else -1
    elif alg in ("excl_scan", "exclusive_scan-inplace"):
        p2 = rng.randrange(4)
        p1 = rng.randrange(-5, 100)
        if p2 == 3: x = [v if rng.random() < 0.5 else 0 for v in x]
    elif alg in ("for_each", "for_each_n", "transform", "transform-inplace", "fill"):
        p1 = rng.randrange(-3, 50)
    elif alg == "gather":
        m = rng.choice([0, 1, n, n + 3, 2 * n + 1]) if n else 0
        y = [rng.randrange(n) for _ in range(m)] if n else []
    elif alg == "scatter":
        y = list(range(n)); rng.shuffle(y)
    elif alg == "mergerec":
        x = sorted(x)
        m = rng.choice([0, 1, n, max(0, n - 1), n + 2, 3 * n + 1])
        y = sorted(keys(rng, m, style))
    elif alg == "unique":
        x = sorted(x) if rng.random() < 0.7 else x
    elif alg in ("sort_u32", "sort_i32", "lsb_radix"):
        x = [v * rng.choice([1, 257, 65537]) % (1 << 31) for v in x]
    elif alg in ("sort_u64", "sort_sz", "sort_i64"):
        x = [v * rng.choice([1, 257, (1 << 33) + 5]) % (1 << 62) for v in x]
    if alg in ("sort_i32", "sort_i64"):
        x = [v - rng.choice([0, 2, 1 << 20]) if rng.random() < 0.6 else v for v in x]
    seed = rng.randrange(1, 1 << 30)
    line = "CASE %d %s %d %d %d %d %d N %d %s" % (cid, alg, seed, threads, p1, p2, dump, len(x), " ".join(map(str, x)))
    if y is not None:
        line += " M %d %s" % (len(y), " ".join(map(str, y)))
    return dict(id=cid, alg=alg, n=len(x), p1=p1, p2=p2, x=x, threads=threads, seed=seed, line=line.rstrip())


def classify(c, maxbuf):
    """violation key for an implementation result that differs from the std:: algorithm.
    The three defects found on the pinned tree (fixed by fc899df2, 8dafdd9e, 1f3be2f4) keep
    their specific keys so that a regression is recognisable."""
    if c.get("probe"):
        return c["probe"]
    if c["alg"] in ("reduce", "treduce") and c["p1"] != IDENT[c["p2"]]:
        return "reduce-nonidentity-init"
    if c["alg"] == "unique" and any(c["x"][k - 1] == c["x"][k] for k in range(maxbuf, c["n"], maxbuf)):
        return "unique-chunk-boundary-duplicate"
    if c["alg"] in ("sort_i32", "sort_i64") and any(v < 0 for v in c["x"]):
        return "radix-signed-negative"
    return c["alg"] + "-differs-from-std"


def parse_R(out):
    res, mism, sched = {}, {}, {}
    for l in out.splitlines():
        if l.startswith("R "):
            t = l.split(" ", 4)
            res[t[1]] = (t[3], t[4] if len(t) > 4 else "")
        elif l.startswith("MISMATCH "):
            mism[l.split()[1]] = l
        elif l.startswith("SCHED "):
            sched.setdefault(l.split(" ", 2)[1], []).append(l)
    return res, mism, sched


class Stages:
    """wall and CPU (user+sys of this process and its children) per stage -> evidence"""
    def __init__(self, cx):
        self.cx, self.rows = cx, []
        self.t = time.time(); self.c = self.cpu()
    @staticmethod
    def cpu():
        t = os.times()
        return t[0] + t[1] + t[2] + t[3]
    def mark(self, name):
        now, c = time.time(), self.cpu()
        self.rows.append({"stage": name, "wall_s": round(now - self.t, 1), "cpu_s": round(c - self.c, 1)})
        self.cx.log("stage %-18s wall %6.1fs cpu %6.1fs" % (name, now - self.t, c - self.c))
        self.t, self.c = now, c
        self.cx.cov["stage_times"] = self.rows


def run(cx):
    st = Stages(cx)
    cx.assumptions += [
        "std::merge, std::stable_sort (on a block), std::lower_bound/upper_bound (on sorted runs), std::copy, std::reduce (on a block, associative op) are modelled by their specification",
        "list-level model: buffer index arithmetic of mergeRec/mergeSortRec is abstracted (a two-buffer model msort_buf is executed in the correspondence, not proved)",
        "Sched.legal_for/legal_reduce/legal_scan/legal_invoke are argued (not proved) to contain every behaviour TBB documents; every schedule the simulator produces is checked against them",
        "lock-free containers: proved for a sequentially consistent interleaving semantics of the atomic steps; weak-memory effects are outside the model (real-thread runs only)",
        "integer inputs only; schedule-dependent floating point results belong to C04",
    ]
    src, m1, m2, thr, maxbuf = read_consts()
    cx.cov["constants_from_source"] = {"kSeqThreshold": thr, "MAX_BUFFER_SIZE": maxbuf}
    okc = thr is not None and maxbuf is not None
    cx.obligation("translate:parallel.h thresholds", okc and thr >= 2,
                  "kSeqThreshold/MAX_BUFFER_SIZE not found in parallel.h or kSeqThreshold < 2 (mergeRec would not terminate: merge_rec_threshold_one_refuted)")
    # translator: in-tree reduce call sites
    gen = os.path.join(vp.COQ, "Gen", "ReduceSites.v")
    os.makedirs(os.path.dirname(gen), exist_ok=True)
    rc, out = vp.sh(["python3", os.path.join(vp.ROOT, "translate/c13_sites.py"), vp.REPO, gen])
    sites = [l for l in out.splitlines() if l.startswith("SITE")]
    cx.cov["reduce_sites"] = sites
    cx.obligation("translate:c13_sites", rc == 0 and len(sites) >= 1, "translator failed: " + out[-300:])
    for s in sites:
        bad = "OpUnknown" in s or "IOther" in s
        cx.obligation("reduce-site:" + s.split()[1], not bad,
                      "call site passes an init that is not recognised as the identity of its op (reduce re-seeds every split body with init): " + s)
    st.mark('translate')
    cx.prove()
    st.mark('coq proofs')
    if not okc:
        return
    small_h = write_small_header(src, m1, m2)
    exes, errs = {}, []

    def build(tag, name, variant, extra):
        try:
            exes[tag] = vp.build_harness(name, variant, link_lib=False, extra=extra)
        except vp.BuildError as e:
            errs.append(str(e))
    small = ['-DC13_PARALLEL_H="%s"' % small_h, "-DC13_SMALL=%s" % vp.file_hash([small_h])]
    ths = [threading.Thread(target=build, args=a) for a in (
        ("sim", "c13_par", "sim", small), ("par_small", "c13_par", "par", small),
        ("par_real", "c13_par", "par", []), ("uf", "c13_uf", "par", []))]
    for t in ths: t.start()
    # the extraction and the OCaml build run while the four harness variants compile
    mls = vp.coq_extract("ExtractC13", ["c13_model.ml"])
    drv = vp.ocaml_build("c13_driver", mls + [os.path.join(vp.ROOT, "extract/c13_driver.ml")])
    for t in ths: t.join()
    if errs:
        raise vp.BuildError(errs[0])
    st.mark('extract+builds')

    rng = random.Random(cx.seed * 104729 + 13)
    cid = [0]

    def nid():
        cid[0] += 1
        return cid[0]
    t, mb = SMALL_THR, SMALL_MAXBUF
    small_lens = sorted(set([0, 1, 2, 3, t - 1, t, t + 1, 2 * t + 3, 10 * t + 7, mb - 1, mb, mb + 1, 2 * mb + 3, 10 * mb + 7, 19, 33]))
    reps = cx.pick(2, 40)
    sim_cases, pars_cases, real_cases = [], [], []
    for alg in ALGS_MODEL:
        for n in small_lens:
            for _ in range(reps):
                sim_cases.append(make_case(rng, nid(), alg, n, rng.choice([1, 2, 4, 8]), 1))
            pars_cases.append(make_case(rng, nid(), alg, n, rng.choice([1, 2, 3, 5, 8, 16]), 1))
    # real thresholds: t-1, t, t+1, 2t+3, 10t+7 for the thresholds in the source
    for alg in ALGS_MODEL:
        tt = maxbuf if alg == "unique" else (thr // 4 if alg in ("sort_u32", "sort_i32") else thr // 8 if alg in ("sort_u64", "sort_sz", "sort_i64") else thr)
        lens = [tt - 1, tt, tt + 1, 2 * tt + 3, 10 * tt + 7]
        if cx.quick() and alg not in ("sort_cmp", "excl_scan", "copy_if", "reduce", "sort_u32", "for_each"):
            lens = [tt - 1, tt + 1, 2 * tt + 3]
        if alg == "unique": lens = [maxbuf - 1, maxbuf, maxbuf + 5, 2 * maxbuf + 3] + ([10 * maxbuf + 7] if not cx.quick() else [])
        if alg in ("sort_cmp", "sort_less", "mergerec"): lens += [2 * thr + 3]
        for n in lens:
            for th in ([rng.choice([2, 3, 5, 8, 16])] if cx.quick() else [1, 2, 3, 5, 8, 16]):
                c = make_case(rng, nid(), alg, n, th, 0)
                real_cases.append(c)
    # regression probes for the three defects found on the pinned tree (now fixed): must agree with std::
    probes = []
    ones = "CASE %d reduce 1 16 10 0 1 N %d %s" % (nid(), 20 * thr, " ".join(["1"] * (20 * thr)))
    probes.append(dict(id=cid[0], alg="reduce", n=20 * thr, p1=10, p2=0, x=[], threads=16, seed=1, line=ones, probe="reduce-nonidentity-init"))
    uq = "CASE %d unique 1 4 0 0 0 N %d %s" % (nid(), maxbuf + 1, " ".join(["7"] * (maxbuf + 1)))
    probes.append(dict(id=cid[0], alg="unique", n=maxbuf + 1, p1=0, p2=0, x=[], threads=4, seed=1, line=uq, probe="unique-chunk-boundary-duplicate"))
    ng = "CASE %d sort_i32 1 4 0 0 1 N 6 3 -1 2 -5 0 7" % nid()
    probes.append(dict(id=cid[0], alg="sort_i32", n=6, p1=0, p2=0, x=[3, -1, 2, -5, 0, 7], threads=4, seed=1, line=ng, probe="radix-signed-negative"))

    st.mark('generate cases')
    kl = lambda l: l.split()[1] if l.startswith("CASE") else None
    ko = lambda l: l.split()[1] if l.startswith("R ") else None
    outs = {}

    def runner(tag, exe, cases):
        for attempt in range(4):      # another check process may be re-linking the same cached binary
            try:
                outs[tag] = vp.run_cases(exe, [c["line"] for c in cases], kl, ko, timeout=1200)
                return
            except OSError as e:
                cx.log("retrying %s: %s" % (tag, e))
                time.sleep(5)
        outs[tag] = ("", [("<harness %s could not be executed>" % tag, -1, "")])
    jobs = [("sim", exes["sim"], sim_cases), ("par_small", exes["par_small"], pars_cases),
            ("par_real", exes["par_real"], real_cases + probes)]
    ths = [threading.Thread(target=runner, args=j) for j in jobs]
    for th in ths: th.start()
    for th in ths: th.join()

    stats = {"sim": 0, "par_small": 0, "par_real": 0, "model_compared": 0, "schedules_checked": 0, "illegal": 0}
    dist, seen, nontriv = {}, set(), 0
    bycase = {}
    for tag, _, cases in jobs:
        out, crashes = outs[tag]
        for cl, rc, err in crashes:
            cx.violation("template-crash", "parallel.h template crashed or hung (rc=%s) in variant %s: %s" % (rc, tag, err[-200:]),
                         {"variant": tag, "case": cl[:2000], "thresholds": "small" if tag != "par_real" else "source"})
        res, mism, sched = parse_R(out)
        mbx = maxbuf if tag == "par_real" else SMALL_MAXBUF
        for c in cases:
            k = str(c["id"])
            stats[tag] += 1
            dist[c["alg"]] = dist.get(c["alg"], 0) + 1
            if k not in res:
                if not any(cl.split()[1] == k for cl, _, _ in crashes if cl.startswith("CASE")):
                    cx.broke("corr:C13/%s#case %s" % (c["alg"], k), "no output from harness variant " + tag)
                continue
            ok, rest = res[k]
            c["impl"], c["sched"], c["tag"] = rest, sched.get(k, []), tag
            bycase[k] = c
            if ok == "ok=0":
                key = classify(c, mbx)
                cx.violation(key, "%s(Par) differs from the std:: algorithm (%s, variant %s, %d threads / schedule seed %d): %s" %
                             (c["alg"], "n=%d" % c["n"], tag, c["threads"], c["seed"], mism.get(k, "")[:160]),
                             {"variant": tag, "thresholds": {"kSeqThreshold": thr if tag == "par_real" else SMALL_THR,
                                                             "MAX_BUFFER_SIZE": maxbuf if tag == "par_real" else SMALL_MAXBUF},
                              "case": c["line"][:4000], "schedule": c["sched"][:20]})
            ck = (c["alg"], tuple(c["x"][:200]), c["p1"], c["p2"], tuple(c["sched"]))
            if ck not in seen:
                seen.add(ck)
                multi = any(" N " in s for s in c["sched"]) or any(s.split()[2] == "SCAN" and " S " in s for s in c["sched"]) or tag != "sim"
                if c["n"] >= 2 and len(set(c["x"])) < c["n"] + (0 if c["alg"].startswith("sort") else 1) and multi:
                    nontriv += 1
    for p in probes:
        c = bycase.get(str(p["id"]))
        cx.cov.setdefault("regression_probes", []).append({"key": p["probe"], "ran": bool(c), "regressed": any(v[0] == p["probe"] for v in cx.violations)})
    # model: sim cases under their logged schedule, par_small cases under the trivial schedule
    inp = ["PARAMS %d %d" % (SMALL_THR, SMALL_MAXBUF)]
    for c in sim_cases + pars_cases:
        if "impl" not in c: continue
        inp.append(c["line"])
        inp += c["sched"]
        inp.append("END %d" % c["id"])
    inp.append("PARAMS %d %d" % (thr, maxbuf))
    pc = bycase.get(str(probes[2]["id"]))
    st.mark('harness runs')
    rc, mout, merr = vp.sh2([drv], input="\n".join(inp) + "\n", timeout=1500)
    if rc != 0:
        cx.broke("corr:C13/model-driver", "model driver exited %d: %s" % (rc, merr[-300:]))
        cx.log("MODEL DRIVER FAILED rc=%d %s" % (rc, merr[-200:]))
    mres = {}
    for l in mout.splitlines():
        if l.startswith("R "):
            tk = l.split(" ", 4)
            mres[tk[1]] = (tk[3], tk[4] if len(tk) > 4 else "")
        elif l.startswith("ILLEGAL"):
            stats["illegal"] += 1
    nm = 0
    for c in sim_cases + pars_cases:
        k = str(c["id"])
        if "impl" not in c or k not in mres: continue
        legal, rest = mres[k]
        stats["schedules_checked"] += len(c["sched"])
        if legal != "legal=1":
            cx.broke("sched:C13/illegal-schedule#case %s" % k, "a schedule logged by the simulator is rejected by Sched.legal_*: %s" % " | ".join(c["sched"])[:300])
        if rest == "SKIP": continue
        stats["model_compared"] += 1
        if rest != c["impl"]:
            nm += 1
            if nm <= 3:
                cx.broke("corr:C13/%s#case %s" % (c["alg"], k), "model (under the logged schedule) and implementation differ (%s): impl=%s model=%s case=%s" %
                         (c["tag"], c["impl"][:120], rest[:120], c["line"][:160]))
    stats["model_mismatches"] = nm
    st.mark('model run+compare')
    containers(cx, exes["uf"], drv, rng, stats)
    st.mark('containers')
    cx.cov.update({"evaluations": stats["sim"] + stats["par_small"] + stats["par_real"] + stats.get("uf", 0) + stats.get("ht", 0),
                   "distinct_nontrivial": nontriv,
                   "rule": "distinct (alg, input, params, schedule); non-trivial = n >= 2, duplicate keys present (sorts) and a schedule with >= 1 split / split-off scan body (sim) or a real-TBB run",
                   "distribution": dist, "stats": stats})
    for c in (sim_cases[5], sim_cases[len(sim_cases) // 2], pars_cases[7]):
        if "impl" in c:
            cx.sample({"case": c["line"][:200], "schedule": c["sched"][:3], "impl": c["impl"][:160], "model": mres.get(str(c["id"]), ("", ""))[1][:160]})


def containers(cx, exe, drv, rng, stats):
    """real threads on DisjointSets / HashTableD against a sequential reference in the harness and the
    extracted sequential models (Par/Containers.v): one-thread runs must give the model's words exactly"""
    lines, meta = [], {}
    cid = 0
    ncases = cx.pick(40, 3000)
    for k in range(ncases):
        cid += 1
        n = rng.choice([2, 3, 4, 6, 10, 40])
        th = 1 if k % 4 == 0 else rng.choice([2, 3])
        m = rng.choice([2, 4, 8, 3 * n])
        pairs = []
        for i in range(m):
            a, b = rng.randrange(n), rng.randrange(n)
            pairs += [(a, b)]
            if rng.random() < 0.5 and len(pairs) < m: pairs += [(b, a)]     # the mirrored union in another thread
        pairs = pairs[:m]
        rounds = 1 if th == 1 else (300 if n <= 6 else 40)
        lines.append("UF %d %d %d %d %d %s" % (cid, n, th, rounds, len(pairs), " ".join("%d %d" % p for p in pairs)))
        meta[str(cid)] = dict(line=lines[-1], n=n, th=th, pairs=pairs)
    # mirrored unions racing in two threads: (2k,2k+1) in thread 0 against (2k+1,2k) in thread 1
    for _ in range(cx.pick(12, 200)):
        cid += 1
        n = rng.choice([8, 16, 32, 64])
        ks = list(range(n // 2)); rng.shuffle(ks)
        pairs = []
        for k in ks:
            pairs += [(2 * k, 2 * k + 1), (2 * k + 1, 2 * k)]
        lines.append("UF %d %d 2 400 %d %s" % (cid, n, len(pairs), " ".join("%d %d" % p for p in pairs)))
        meta[str(cid)] = dict(line=lines[-1], n=n, th=2, pairs=pairs)
    for k in range(cx.pick(60, 1500)):
        cid += 1
        lg = rng.choice([2, 3, 5, 8])
        m = rng.choice([1, 3, (1 << lg) // 2, 1 << lg, 3 << lg])
        univ = rng.choice([4, 1 << lg, 1 << 20])
        ks = [rng.randrange(univ) * rng.choice([1, 1 << lg]) for _ in range(m)]
        th = 1 if k % 3 == 0 else rng.choice([2, 3])
        lines.append("HT %d %d %d %d %s" % (cid, lg, th, len(ks), " ".join(map(str, ks))))
        meta[str(cid)] = dict(line=lines[-1], th=th, keys=ks, size=1 << lg)
    kl = lambda l: l.split()[1]
    ko = lambda l: l.split()[1] if l[:2] in ("U ", "H ") else None
    out, crashes = vp.run_cases(exe, lines, kl, ko, timeout=900)
    for cl, rc, err in crashes:
        key = "unionfind-hang-or-crash" if cl.startswith("UF") else "hashtable-hang-or-crash"
        cx.violation(key, "concurrent %s did not return (rc=%s; parent-pointer cycle or crash)" % ("unite/find" if cl.startswith("UF") else "Insert", rc),
                     {"case": cl[:1000], "note": "replay: feed this line to harness c13_uf (real threads; repeat if the race does not fire)"})
    bad = set()
    for l in out.splitlines():
        t = l.split()
        mt = meta.get(t[1], {}) if len(t) > 1 else {}
        if t[0] == "U":
            stats["uf"] = stats.get("uf", 0) + 1
            mt["labels"] = t[t.index("LABELS") + 1:]
            if t[2] != "ok=1":
                bad.add(t[1])
                cx.violation("unionfind-partition-differs" if "ORD=1" in l else "unionfind-rank-order-broken",
                             "concurrent unite/find result differs from the sequential partition or breaks the (rank,id) order: " + l[:200],
                             {"case": mt.get("line", "")[:1000], "output": l[:400]})
        elif t[0] == "A":
            mt["words"] = t[2:]
        elif t[0] == "HH":
            mt["hashes"] = t[3:]
        elif t[0] == "HA":
            mt["arr"] = t[2:]
        elif t[0] == "H":
            stats["ht"] = stats.get("ht", 0) + 1
            mt["full"] = "full=1" in l
            if t[2] != "ok=1":
                bad.add(t[1])
                cx.violation("hashtable-insert-lost-or-duplicated", "concurrent Insert: key missing, duplicated or wrong value: " + l,
                             {"case": mt.get("line", "")[:1000], "output": l})
    # extracted sequential models
    minp = []
    for k, mt in meta.items():
        if "pairs" in mt and "words" in mt:
            minp.append("UFM %s %d %d %s" % (k, mt["n"], len(mt["pairs"]), " ".join("%d %d" % p for p in mt["pairs"])))
        elif "keys" in mt and "arr" in mt and "hashes" in mt:
            idx = {kk: i for i, kk in enumerate(sorted(set(mt["keys"])))}
            mt["idx"] = idx
            arr = ["-1" if v == "-1" else str(idx.get(int(v), 999999)) for v in mt["arr"]]
            minp.append("HTM %s %d 1 %d %s ARR %s" % (k, mt["size"], len(mt["keys"]),
                                                      " ".join("%d %s" % (idx[kk], hh) for kk, hh in zip(mt["keys"], mt["hashes"])), " ".join(arr)))
            mt["arr_idx"] = arr
    rc, mout, merr = vp.sh2([drv], input="\n".join(minp) + "\n", timeout=900)
    if rc != 0:
        cx.broke("corr:C13/container-model-driver", "model driver exited %d: %s" % (rc, merr[-300:]))
    nm = {"uf_words_exact": 0, "uf_partition": 0, "ht_array_exact": 0, "ht_invariant": 0, "ht_keyset": 0}
    for l in mout.splitlines():
        t = l.split()
        mt = meta.get(t[1])
        if mt is None or t[1] in bad: continue
        if t[0] == "A":
            words = t[2:]
            if words == ["NONE"]:
                cx.broke("corr:C13/unionfind#case %s" % t[1], "sequential union-find model ran out of fuel: " + mt["line"][:200]); continue
            par = [int(x) for x in words[1::2]]
            def root(i):
                while par[i] != i: i = par[i]
                return i
            roots = [root(i) for i in range(mt["n"])]
            lab = [str(min(j for j in range(mt["n"]) if roots[j] == roots[i])) for i in range(mt["n"])]
            nm["uf_partition"] += 1
            if lab != mt.get("labels"):
                cx.broke("corr:C13/unionfind-partition#case %s" % t[1], "model partition %s differs from implementation %s: %s" % (lab[:20], mt.get("labels", [])[:20], mt["line"][:200]))
            if mt["th"] == 1:
                nm["uf_words_exact"] += 1
                if words != mt["words"]:
                    cx.broke("corr:C13/unionfind-words#case %s" % t[1], "one-thread run: (rank,parent) words differ: model %s impl %s: %s" % (words[:24], mt["words"][:24], mt["line"][:200]))
        elif t[0] == "HM":
            if t[2:] == ["NONE"]:
                cx.broke("corr:C13/hashtable#case %s" % t[1], "sequential Insert model ran out of fuel: " + mt["line"][:200]); continue
            marr = t[3:]
            if mt["th"] == 1:
                nm["ht_array_exact"] += 1
                if marr != mt["arr_idx"]:
                    cx.broke("corr:C13/hashtable-array#case %s" % t[1], "one-thread run: key array differs: model %s impl %s: %s" % (marr[:20], mt["arr_idx"][:20], mt["line"][:200]))
            elif not mt.get("full"):
                nm["ht_keyset"] += 1
                if sorted(x for x in marr if x != "-1") != sorted(x for x in mt["arr_idx"] if x != "-1"):
                    cx.broke("corr:C13/hashtable-keys#case %s" % t[1], "stored key set differs from the model although the table is not Full: " + mt["line"][:200])
        elif t[0] == "HC":
            nm["ht_invariant"] += 1
            if t[2] != "1":
                cx.violation("hashtable-probe-invariant-broken", "after concurrent Inserts a stored key is not found at its slot by the probe sequence (ht_inv fails on the implementation's array)",
                             {"case": mt["line"][:1000], "array": mt.get("arr", [])[:300]})
    stats["containers_model"] = nm
