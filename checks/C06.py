"""C06 — shared objects may be used from many threads: no data race, same answers.
proof of the locking protocol (generic lockset theorems + table regenerated from
the sources) + ThreadSanitizer runs of generated multi-threaded client programs
as the witness finder, every thread's answers compared with a serial run."""
import concurrent.futures, json, os, random, re, sys
import vp

sys.path.insert(0, os.path.join(vp.ROOT, "translate"))

LEVEL = "proof"
META = {
    "level": "proof",
    "technique": "Coq proof of the lockset protocol (data-race freedom in the happens-before sense + deadlock freedom for all interleavings of any number of threads) "
                 "+ lock table regenerated from the C++ sources and accepted by the proved-sound checker + ThreadSanitizer differential runs",
    "text": "Coq theorems lockset_drf / lockset_no_data_race / no_deadlock: for any number of threads executing Acq/Rel/scoped_lock/Rd/Wr/atomic events under "
            "plain and recursive mutexes, if every plain access holds a guard of its location (reads one, writes all) and nested acquisitions climb a rank, then in "
            "every interleaving any two conflicting accesses of different threads are ordered by a release/acquire of a common guard, and no reachable state is a "
            "deadlock. table_threads_safe lifts this to client threads that are arbitrary call sequences of the methods of a class-level table on arbitrary objects; "
            "table_ok = lockset_ok(table) is re-established by vm_compute on the table translate/c06_locks.py regenerates from manifold.cpp, csg_tree.cpp, "
            "cross_section.cpp, subdivision.cpp, utils.h and the headers on every run (per method: guard scopes, guarded-field reads/writes, atomic ops, callees "
            "inlined under held locks). harness/c06_race.cpp (ThreadSanitizer build, PAR off) runs generated 2-8 thread programs over shared lazy "
            "Manifolds/CrossSections/ExecutionContexts and compares every answer (export hashes up to mesh-ID renaming) with a serial run; ReserveIDs ranges must be disjoint.",
    "note": "Protocol-level proof: the model is sequentially consistent interleavings - it cannot exhibit weak-memory effects, nor races inside TBB (PAR is off in the "
            "TSan build), the allocator, std::mutex or shared_ptr control blocks. 'Same answers as a serial run' is NOT proved (serial_equivalence of DESIGN is left "
            "out); it is only tested. Trusted: the token-level translator (its abstraction of guard scopes, freshness/ownership exemptions listed with reasons in the "
            "evidence, distinct reference variables of one call denoting distinct objects), TSan as witness finder, std::mutex/atomic linearizability.",
}

TSAN_ENV = {"TSAN_OPTIONS": "halt_on_error=0 report_signal_unsafe=0 exitcode=0 second_deadlock_stack=1"}


# ------------------------------------------------------------------ generator
def thresholds_2d():
    """2-D size thresholds read from the sources (the generator sizes its big CrossSections above all of them)."""
    out = {}
    for f in ("src/boolean2.h", "src/boolean2.cpp", "src/tree2d.h", "src/tree2d.cpp", "src/cross_section.cpp"):
        try:
            txt = open(os.path.join(vp.REPO, f)).read()
        except OSError:
            continue
        for m in re.finditer(r"constexpr\s+(?:int|size_t)\s+(k\w*(?:Threshold|Min|GrainSize))\s*=\s*(\d+)\s*;", txt):
            out[m.group(1)] = int(m.group(2))
    return out


def gen_big2d(rng, cid, reps, thr):
    """Several client threads inside 2-D Booleans of big shared lazy CrossSections at once."""
    need = max([v for k, v in thr.items() if v <= 4096] + [1024])        # edges per Boolean (both operands together)
    # strips per operand: 4 edges each, two operands per Boolean -> need/8 strips put the Boolean just at the threshold;
    # short strips keep the number of overlapping edge boxes (and the cost under TSan) moderate but well above 2 pairs
    n0 = need // 8 + rng.randint(15, 40)
    ln = rng.choice([4, 6, 8])
    setup = ["xstrips %d 1 %d 0.5 %d" % (n0, ln, rng.choice([1, 0])),
             "xstrips %d 0.75 %d 0.25 %d" % (n0 + rng.randint(5, 30), ln, rng.choice([-1, 0]))]
    T = rng.randint(3, 6)
    progs = []
    for t in range(T):
        ops = []
        for _ in range(rng.randint(2, 3)):
            i = rng.randrange(2)
            r = rng.random()
            if r < 0.85:
                ops.append("xbig %s %d %d %d" % (rng.choice("+-^"), i, i if rng.random() < 0.7 else 1 - i, rng.randint(1, 3)))
            elif r < 0.93:
                ops.append("xoff %d %s" % (i, rng.choice(["0.125", "-0.0625"])))
            else:
                ops.append("xq %s %d" % (rng.choice(["area", "nv", "polys"]), i))
        progs.append(ops)
    line = "CASE %s %d 0 | %s | %s" % (cid, reps, ",".join(setup), " | ".join(",".join(p) for p in progs))
    return {"id": cid, "line": line, "threads": T, "loose": False, "progs": progs, "setup": setup, "big2d": True,
            "edges_per_boolean_at_least": 8 * n0}


def gen_case(rng, cid, reps):
    loose = rng.random() < 0.2
    setup, kinds = [], []          # kinds[i] = ('m', op or None) / ('x',) / ('c',)
    mi, xi, ci = [], [], []

    def add(op, kind):
        setup.append(op)
        kinds.append(kind)
        (mi if kind[0] == "m" else xi if kind[0] == "x" else ci).append(len([k for k in kinds if k[0] == kind[0]]) - 1)

    nleaf = rng.randint(3, 5)
    for _ in range(nleaf):
        if rng.random() < 0.3:
            add("sph %d %d %d %d %d" % (rng.randint(1, 2), rng.choice([8, 12, 16]), rng.randint(0, 2), rng.randint(0, 2), rng.randint(0, 2)), ("m", None))
        else:
            add("cube %d %d %d %d %d %d" % (rng.randint(1, 3), rng.randint(1, 3), rng.randint(1, 3), rng.randint(0, 2), rng.randint(0, 2), rng.randint(0, 2)), ("m", None))
    mops = [k[1] for k in kinds if k[0] == "m"]
    for _ in range(rng.randint(3, 6)):
        n = len(mops)
        r = rng.random()
        if r < 0.7:
            for _try in range(20):
                op = rng.choice("+-^")
                i, j = rng.randrange(n), rng.randrange(n)
                # strict cases: never nest an op node under a parent it could be collapsed into (collapse depends on
                # use_count() and is legitimately schedule dependent; it changes triangulation detail, not the solid)
                bad = mops[i] == op or mops[j] == op or (op == "-" and mops[j] == "+") or i == j
                if not bad:
                    break
            else:
                continue
            add("bool %s %d %d" % (op, i, j), ("m", op))
            mops.append(op)
        elif r < 0.9:
            i = rng.randrange(n)
            add("tr %d %d %d %d" % (i, rng.randint(-1, 1), rng.randint(-1, 1), rng.randint(-1, 1)), ("m", mops[i]))
            mops.append(mops[i])
        else:
            i = rng.randrange(n)
            add("sc %d %d" % (i, rng.choice([-1, 1])), ("m", mops[i]))
            mops.append(mops[i])
    nx = 0
    for _ in range(rng.randint(2, 3)):
        if rng.random() < 0.5:
            add("xsq %d %d %d %d" % (rng.randint(1, 3), rng.randint(1, 3), rng.randint(0, 2), rng.randint(0, 2)), ("x",))
        else:
            add("xci %d %d %d %d" % (rng.randint(1, 2), rng.choice([8, 12]), rng.randint(0, 2), rng.randint(0, 2)), ("x",))
        nx += 1
    for _ in range(rng.randint(1, 2)):
        if rng.random() < 0.5:
            add("xtr %d %d %d" % (rng.randrange(nx), rng.randint(-2, 2), rng.randint(-2, 2)), ("x",))
        else:
            add("xbool %s %d %d" % (rng.choice("+-^"), rng.randrange(nx), rng.randrange(nx)), ("x",))
        nx += 1
    nc = 2
    add("ctx", ("c",))
    add("ctx", ("c",))
    nm = len(mops)
    derived = [i for i, o in enumerate(mops) if o is not None] or [0]
    T = rng.randint(2, 8)
    progs = []
    for t in range(T):
        ops = []
        for _ in range(rng.randint(3, 6)):
            r = rng.random()
            if r < 0.25:
                ops.append("q %s %d" % (rng.choice(["numtri", "vol", "bbox", "status", "mesh", "genus"]), rng.choice(derived) if rng.random() < 0.8 else rng.randrange(nm)))
            elif r < 0.33:
                ops.append("cp %d" % rng.choice(derived))
            elif r < 0.40:
                ops.append("as %d" % rng.choice(derived))
            elif r < 0.50:
                i, j = rng.randrange(nm), rng.randrange(nm)
                for _try in range(10):
                    op = rng.choice("+-^")
                    if not (mops[i] == op or mops[j] == op or (op == "-" and mops[j] == "+")):
                        break
                ops.append("ex %s %d %d %d" % (op, i, j, rng.randint(-1, 1)))
            elif r < 0.62:
                i, j = rng.choice(derived), rng.randrange(nm)
                for _try in range(10):
                    op = rng.choice("+-^")
                    if not (mops[i] == op or mops[j] == op or (op == "-" and mops[j] == "+")):
                        break
                ops.append("exc %s %d %d %d %d" % (op, i, j, rng.randint(-1, 1), rng.randrange(nc)))
            elif r < 0.74:
                ops.append("qc %d %d" % (rng.choice(derived), rng.randrange(nc)))
            elif r < 0.78:
                ops.append("rid %d" % rng.randint(1, 5))
            elif r < 0.82:
                ops.append("poll %d %d" % (rng.randrange(nc), rng.randint(5, 40)))
            elif r < 0.90:
                ops.append("xq %s %d" % (rng.choice(["area", "nv", "bounds", "polys", "nc"]), rng.randrange(nx)))
            elif r < 0.93:
                ops.append(rng.choice(["xcp %d", "xas %d"]) % rng.randrange(nx))
            elif r < 0.96:
                ops.append("xex %s %d %d %d" % (rng.choice("+-^"), rng.randrange(nx), rng.randrange(nx), rng.randint(-1, 1)))
            elif r < 0.98:
                ops.append("xtol %d" % rng.randrange(nx))
            else:
                ops.append("xext %d %d" % (rng.randrange(nx), rng.randint(1, 2)))
        progs.append(ops)
    if loose:
        progs[rng.randrange(T)].insert(rng.randint(0, 2), "cancel %d" % rng.randrange(nc))
    line = "CASE %d %d %d | %s | %s" % (cid, reps, int(loose), ",".join(setup), " | ".join(",".join(p) for p in progs))
    return {"id": cid, "line": line, "threads": T, "loose": loose, "progs": progs, "setup": setup}


# ------------------------------------------------------------------ TSan report parsing
def short_fn(frame):
    m = re.search(r"#\d+ (.*?) (?:/|<null>|\.\./|\()", frame + " (")
    fn = m.group(1) if m else frame
    fn = re.sub(r"\(.*$", "", fn)
    fn = re.sub(r"<[^<>]*>", "", fn)
    fn = re.sub(r"<[^<>]*>", "", fn)
    return fn.replace("manifold::", "").strip()


def parse_tsan(err):
    """-> list of dicts {kind, case, rep, stacks:[[frames]], fns:[top manifold fn per stack], freed:bool, text}"""
    reports = []
    cur_case, cur_rep = None, None
    pos = 0
    for m in re.finditer(r"^@@CASE (\S+) (\S+)$|^WARNING: ThreadSanitizer: ([^\n(]*)", err, flags=re.M):
        if m.group(1):
            cur_case, cur_rep = m.group(1), m.group(2)
            continue
        start = m.start()
        end = err.find("==================", start)
        block = err[start:end if end > 0 else len(err)]
        kind = m.group(3).strip()
        stacks, cur = [], None
        for ln in block.split("\n"):
            if re.match(r"^  \S", ln):          # section header ("  Write of size ...", "  Previous read ...", "  Mutex ...", "  Location ...")
                cur = None
                if re.match(r"^  (Write|Read|Previous|Atomic)", ln, flags=re.I):
                    cur = []
                    stacks.append(cur)
            elif cur is not None and re.match(r"^\s+#\d+ ", ln):
                cur.append(ln.strip())
        fns, freed = [], False
        for st in stacks[:2]:
            top = None
            for fr in st:
                if "operator delete" in fr or "_M_destroy" in fr or "::deallocate" in fr:
                    freed = True
                in_repo = (" " + vp.REPO + "/src/") in fr or (" " + vp.REPO + "/include/") in fr
                if in_repo and not re.match(r"#\d+ (std::|__gnu_cxx::|void std::|operator )", fr) and "ConcurrentSharedPtr" not in fr and top is None:
                    top = short_fn(fr)
            fns.append(top)
        reports.append({"kind": kind, "case": cur_case, "rep": cur_rep, "fns": fns, "freed": freed, "text": block[:6000]})
    return reports


def report_key(r):
    fns = [f or "?" for f in r["fns"]]
    s = set(fns)
    if r["kind"].startswith("heap-use-after-free") and "CsgOpNode::NumLeaves" in s:
        return "numleaves-walks-freed-opnode"
    if r["kind"].startswith("heap-use-after-free"):
        return "use-after-free:" + "|".join(sorted(s))
    if r["kind"].startswith("lock-order-inversion"):
        return "lock-order-inversion"
    if "CsgOpNode::NumLeaves" in s:
        # NumLeaves reads cache_ without the guard (vs the guarded publish in ToLeafNode) ...
        if s == {"CsgOpNode::NumLeaves", "CsgOpNode::ToLeafNode"} and not r["freed"]:
            return "numleaves-reads-cache-unguarded"
        # ... and walks raw CsgOpNode pointers that a concurrent reduction frees (reports against operator delete,
        # ~CsgOpNode, or whatever object reuses the freed block)
        return "numleaves-walks-freed-opnode"
    if s <= {"CsgOpNode::ToLeafNode", "ImplToLeaf", "ErrorLeaf"}:
        return "toleafnode-cancel-writes-cache-unguarded"
    if "CrossSection::GetPaths" in s and s & {"CrossSection::GetTolerance", "CrossSection::Simplify", "CrossSection::SetTolerance", "CrossSection::Hull"}:
        return "crosssection-tolerance-read-unguarded"
    return "tsan:" + "|".join(sorted(s))


# ------------------------------------------------------------------ the check
def run(cx):
    cx.assumptions += [
        "executions are sequentially consistent interleavings; happens-before = program order + release->later acquire of the same mutex (atomics add no edge); weak-memory effects are outside the model",
        "races inside TBB (PAR is off in the TSan build so that every synchronisation is visible), the allocator, std::mutex and shared_ptr control blocks are outside the model; TSan is the only witness finder for them",
        "'every thread observes the serial answers' is tested (answer hashes vs a serial run), not proved (DESIGN's serial_equivalence is left out)",
        "translator abstraction: RAII guards are held from their declaration to the end of the enclosing block; lambdas run inside their defining scope; "
        "distinct reference expressions of one call denote distinct objects; fields of objects under construction / local values / destructors' last owners "
        "are not shared (each exemption is listed with its reason in evidence.exempt_accesses)",
        "CrossSection::tolerance_ reads that follow GetPaths() on the same object are justified by publish-once, not by the lockset theorem (listed as 'published' exemptions)",
    ]
    import c06_locks
    # ---- translator (every run, before the proofs)
    info = None
    try:
        info = c06_locks.run(vp.REPO, os.path.join(vp.COQ, "Gen", "LockTable.v"), os.path.join(vp.BUILD, "c06_locktable.json"))
    except (c06_locks.TranslateError, KeyError, IndexError, ValueError, OSError) as e:
        cx.broke("translate:c06_locks", "translator could not classify the sources: %r" % (e,))
    problems = []
    if info:
        for h in info["header_checks"]:
            cx.obligation("table:" + h["name"], h["ok"], "declaration changed: %s (%s)" % (h["name"], h["detail"]))
        cx.obligation("table:compose-owned-nodes", info["owned_check"]["ok"], "CsgLeafNode::Compose may now see shared nodes: " + info["owned_check"]["detail"])
        cx.obligation("table:compose-snapshots-meshIDCounter-once", info["compose_counter_reads"] == 1,
                      "CsgLeafNode::Compose reads meshIDCounter_ %d times (two reads can disagree under cross-thread CSG)" % info["compose_counter_reads"])
        cx.obligation("table:lock-rank-acyclic", not info["rank_cyclic"] and not info["same_kind_nesting"],
                      "nested acquisitions do not follow a strict order: edges %s same-kind %s" % (info["nesting_edges"], info["same_kind_nesting"]))
        bad_static = [e for e in info["static_state"] if not e["ok"]]
        guarded_ok = all(any(f == "Partition.cache" for f in c06_locks.FIELD) for e in info["static_state"] if e["category"] == "guarded")
        cx.obligation("table:no_unsynchronised_static_state", not bad_static and guarded_ok,
                      "function-local static / static member / namespace-scope variable that is neither thread_local, atomic, const, a mutex, "
                      "a struct of atomics, nor guarded by a lock of the table: " +
                      "; ".join("%s %s (%s:%d)" % (e["type"], e["name"], e["file"], e["line"]) for e in bad_static[:6]))
        cx.cov["static_state"] = {"scanned": len(info["static_state"]),
                                  "by_category": {c: sum(1 for e in info["static_state"] if e["category"] == c)
                                                  for c in sorted(set(e["category"] for e in info["static_state"]))},
                                  "non_const": [{k: e[k] for k in ("file", "line", "name", "type", "category") if k in e} | ({"reason": e["reason"]} if e.get("reason") else {})
                                                for e in info["static_state"] if e["category"] != "const"]}
        names = set(m["name"] for m in info["methods"])
        need = ["Manifold::Manifold(Manifold&other)", "Manifold::operator=", "Manifold::LoadPNode", "Manifold::GetCsgLeafNode", "CsgLeafNode::GetImpl",
                "CsgLeafNode::Transform", "CsgOpNode::ToLeafNode", "CsgOpNode::NumLeaves", "CrossSection::GetPaths", "Partition::GetCachedPartition",
                "CsgLeafNode::Compose", "Manifold::Status"]
        missing = [x for x in need if x not in names]
        cx.obligation("table:anchored-methods-present", not missing, "methods the property anchors name are no longer found: %s" % missing)
        seen = set()
        for p in info["problems"]:
            k = (p["line"], p["kind"], p["what"])
            if k not in seen:
                seen.add(k)
                problems.append(p)
        cx.cov["lock_table"] = {"methods": len(info["methods"]), "events": sum(len(m["events"]) for m in info["methods"]),
                                "rank": info["rank"], "nesting_edges": info["nesting_edges"],
                                "exempt_accesses": len(info["exempt"]),
                                "exempt_reasons": sorted(set(e["reason"].split(":")[0] for e in info["exempt"])),
                                "translator_diagnostics": problems[:20]}
    # ---- proofs
    nbroke = len(cx.broken)
    table_vo = os.path.join(vp.COQ, "Properties_C06_Table.vo")
    for ext in (".vo", ".vos", ".vok", ".glob"):
        try:
            os.remove(table_vo[:-3] + ext)
        except OSError:
            pass
    ok_main = cx.prove(extra_targets=["Properties_C06_Table.vo"] if info else [])       # one make for both files
    log = open(os.path.join(vp.BUILD, "logs", "coq_C06.log")).read()
    main_vo_ok = os.path.exists(os.path.join(vp.COQ, "Properties_C06.vo"))
    ok_table = bool(info) and os.path.exists(table_vo)
    table_thms = ["table_ok", "library_threads_safe"]
    cx.obligations += len(table_thms)
    cx.cov["theorems"] = (cx.cov.get("theorems") or []) + ["Properties_C06_Table." + t for t in table_thms]
    if ok_table:
        cx.discharged += len(table_thms)
    if not ok_main and main_vo_ok:
        # only the table file failed: the generic theorems are discharged
        cx.discharged += len(cx.cov["theorems"]) - len(table_thms)
        cx.broken = [b for b in cx.broken[:nbroke]] + [b for b in cx.broken[nbroke:] if not b[0].startswith("coq:Properties_C06")]
        if not ok_table and not info:
            cx.broke("coq:Properties_C06_Table", "table obligation could not be built")
    if info and not ok_table:
        # say what the table rejects
        for p in problems[:12]:
            cx.broke("table_ok:%s:%d" % (p["method"], p["line"]), "lockset_ok(Gen.LockTable.table) = false: %s in %s (src line %d)" % (p["what"], p["method"], p["line"]))
        if not problems:
            cx.broke("table_ok", "lockset_ok(Gen.LockTable.table) = false but the Python mirror found nothing - translator/checker mismatch")
    if info and ok_table and problems:
        cx.broke("table_ok:mirror", "Coq accepts the table but the Python mirror reports %s" % problems[:3])

    # ---- dynamic: ThreadSanitizer + answers vs serial
    exe = vp.build_harness("c06_race", "tsan", link_lib=True)
    rng = random.Random(cx.seed * 1000003 + 6)
    ncases = cx.pick(40, 500)
    reps = cx.pick(3, 6)
    if not ok_table:
        ncases, reps = cx.pick(60, 900), cx.pick(3, 8)      # search: the table obligation broke, spend more on finding a witness
    cases = [gen_case(rng, i, reps) for i in range(ncases)]
    thr = thresholds_2d()
    cx.cov["thresholds_2d_from_source"] = thr
    cx.obligation("translate:2-D thresholds readable", thr.get("kEdgePairBvhThreshold", 0) > 0,
                  "kEdgePairBvhThreshold not found in src/boolean2.h: the big-CrossSection programs can no longer be sized: %r" % thr)
    nbig = cx.pick(6, 60)
    cases += [gen_big2d(rng, "b%d" % i, reps, thr) for i in range(nbig)]
    # corpus: the witness of F8 first
    corpus = ["CASE c0 %d 0 | cube 2 2 2 0 0 0,cube 2 2 2 1 1 1,cube 2 2 2 1 0 1,bool ^ 0 1,bool + 3 2,cube 3 3 3 0 0 1,bool - 4 5,tr 4 1 0 0,bool ^ 6 7,ctx "
              "| q numtri 4,q mesh 6 | qc 8 0,q vol 8 | qc 6 0,cp 7 | poll 0 50" % max(reps, 4),
              "CASE c1 %d 0 | xsq 2 2 1 1,xci 1 12 1 0,xtr 0 1 1,ctx | xq area 2,xtol 0,xq polys 0 | xtol 2,xq area 0,xcp 2 | xex + 0 2 1,xtol 0,xtol 2 | xq nv 2,xas 0" % max(reps, 4),
              "CASE c2 %d 1 | sph 2 32 0 0 0,sph 2 32 1 1 1,sph 2 32 1 0 1,bool ^ 0 1,bool + 3 2,sph 3 32 0 0 1,bool - 4 5,tr 4 1 0 0,bool ^ 6 7,ctx,ctx "
              "| q numtri 4,q mesh 6 | qc 8 0,q vol 8 | poll 0 30,cancel 0 | qc 6 1,cp 7 | qc 8 0" % max(reps, 4)]
    lines = [c["line"] for c in cases if c.get("big2d")] + corpus + [c["line"] for c in cases if not c.get("big2d")]
    bycase = {"c0": {"line": corpus[0], "threads": 4, "loose": False}, "c1": {"line": corpus[1], "threads": 4, "loose": False},
              "c2": {"line": corpus[2], "threads": 5, "loose": True}}
    for c in cases:
        bycase[str(c["id"])] = c
    nchunk = min(8, max(1, vp.NPROC // 2))
    chunks = [lines[k::nchunk] for k in range(nchunk)]
    kl = lambda l: l.split()[1] if l.startswith("CASE") else None
    ko = lambda l: l.split()[1] if l[:2] in ("B ", "D ", "R ") else None

    def run_chunk(ch):
        # stderr (TSan reports) is needed too: run directly, fall back to run_cases when the process dies
        rc, out, err = vp.sh2([exe], input="\n".join(ch) + "\n", timeout=1500, env=TSAN_ENV)
        crashes = []
        if rc != 0:
            out2, crashes = vp.run_cases(exe, ch, kl, ko, timeout=1500, env=TSAN_ENV)
            out = out2
        return out, err, crashes

    outs, errs, crashes = [], [], []
    with concurrent.futures.ThreadPoolExecutor(max_workers=nchunk) as pool:
        for out, err, cr in pool.map(run_chunk, chunks):
            outs.append(out)
            errs.append(err)
            crashes += cr
    for cl, rc, err in crashes:
        cid = kl(cl) or "?"
        cx.violation("crash-under-concurrent-use", "harness died (rc=%s) while running client threads: %s" % (rc, err[-300:]),
                     {"case": cl, "threads": bycase.get(cid, {}).get("threads"), "seed": cx.seed})
    # answers
    n_ans = n_runs = n_diff = 0
    nontriv = set()
    dist = {"threads": {}, "loose": 0, "ops": {}}
    base = {}
    for out in outs:
        for l in out.splitlines():
            w = l.split()
            if not w:
                continue
            if w[0] == "B":
                base[(w[1], w[2], w[3])] = w[4]
            elif w[0] == "R":
                cid, rep, t, k, a = w[1], w[2], w[3], w[4], w[5]
                c = bycase.get(cid, {})
                if c.get("loose") and (a == "C" or base.get((cid, t, k)) == "C"):
                    continue
                n_diff += 1
                op = "?"
                if "progs" in c:
                    try:
                        op = c["progs"][int(t)][int(k)].split()[0]
                    except Exception:
                        pass
                cx.violation("answer-differs-from-serial:" + op,
                             "thread %s op #%s (%s) answered %s, the serial run %s" % (t, k, op, a, base.get((cid, t, k))),
                             {"case": c.get("line"), "threads": c.get("threads"), "rep": rep, "seed": cx.seed, "thread": t, "op_index": k})
            elif w[0] == "D":
                cid = w[1]
                n_runs += 1
                n_ans += int(w[3])
                c = bycase.get(cid, {})
                if w[5] == "0":
                    cx.violation("reserveids-ranges-overlap", "ReserveIDs returned overlapping ranges to concurrent callers",
                                 {"case": c.get("line"), "threads": c.get("threads"), "rep": w[2], "seed": cx.seed})
                if len(w) > 6 and w[6] == "0":
                    cx.violation("progress-not-a-number-or-negative", "ExecutionContext::Progress() polled from another thread returned NaN/negative",
                                 {"case": c.get("line"), "threads": c.get("threads"), "rep": w[2], "seed": cx.seed})
    for c in cases:
        dist["threads"][c["threads"]] = dist["threads"].get(c["threads"], 0) + 1
        dist["loose"] += int(c["loose"])
        kinds = set()
        for p in c["progs"]:
            for o in p:
                k = o.split()[0]
                dist["ops"][k] = dist["ops"].get(k, 0) + 1
                kinds.add(k)
        # non-trivial: some thread evaluates through a context (NumLeaves path) or copies/derives while another queries a shared lazy op node
        if (kinds & {"qc", "exc"}) and (kinds & {"q", "cp", "as", "ex"}):
            nontriv.add(c["line"].split("|", 1)[1])
        # ... or at least two threads run a 2-D Boolean above the BVH threshold on shared lazy operands
        if c.get("big2d") and sum(1 for p in c["progs"] if any(o.startswith("xbig") for o in p)) >= 2:
            nontriv.add(c["line"].split("|", 1)[1])
    # sanitizer reports
    allrep = []
    for err in errs:
        allrep += parse_tsan(err)
    by_key = {}
    unattributed = 0
    for r in allrep:
        if not any(r["fns"]):
            unattributed += 1
            continue
        by_key.setdefault(report_key(r), []).append(r)
    for key, rs in sorted(by_key.items()):
        r = rs[0]
        c = bycase.get(r["case"], {})
        cx.violation(key, "ThreadSanitizer: %s between %s and %s (%d report(s) in this run)" % (r["kind"], r["fns"][0], r["fns"][1] if len(r["fns"]) > 1 else "?", len(rs)),
                     {"case": c.get("line"), "threads": c.get("threads"), "rep": r["rep"], "seed": cx.seed,
                      "how": "build harness/c06_race.cpp as the tsan variant, feed the case line on stdin with TSAN_OPTIONS='halt_on_error=0 report_signal_unsafe=0'",
                      "report": r["text"][:3500]})
    if unattributed:
        cx.notes.append("%d sanitizer report(s) had no manifold:: frame in either stack and were not reported as violations" % unattributed)
    cx.cov.update({"evaluations": n_runs, "answers_compared": n_ans, "answers_differing": n_diff,
                   "distinct_nontrivial": len(nontriv),
                   "rule": "seeded generator of (shared pool setup, 2-8 thread programs); every case is run serially once (baseline) and `reps` times concurrently on fresh "
                           "pools under ThreadSanitizer; non-trivial = some thread evaluates through an ExecutionContext (NumLeaves/ToLeafNode with ctx) while another "
                           "queries/copies/derives from a shared lazy op node; distinct by setup+programs",
                   "distribution": dist, "cases": len(lines), "big2d_cases": sum(1 for c in cases if c.get("big2d")), "repetitions_per_case": reps,
                   "tsan_reports": len(allrep), "tsan_report_keys": {k: len(v) for k, v in by_key.items()},
                   "not_modelled": ["weak memory", "TBB internals (PAR off under TSan)", "allocator", "std::mutex / shared_ptr control block internals"]})
    cx.sample({"case": corpus[0]})
    if cases:
        cx.sample({"case": cases[0]["line"][:600]})
        cx.sample({"case": cases[min(7, len(cases) - 1)]["line"][:600]})
