"""C15 -- cancellation is all-or-nothing at every point; progress is monotone and ends at 1.
Coq proof over an executable model of the cancellation protocol + a translator that regenerates the
site table from /repo/src on every run + exhaustive/sampled cancel injection at the k-th IsCancelled
check through the source hook hooks/C15.patch (guarded by MANIFOLD_VERIF)."""
import json, os, random, re, sys
import vp

sys.path.insert(0, os.path.join(vp.ROOT, "translate"))
import c15_sites
import c15_prog

LEVEL = "proof"
META = {
    "level": "proof",
    "technique": "Coq proof over an executable model of the cancellation/progress protocol + structured program table regenerated from source (statement "
                 "structure of every ctx-aware function incl. the object-level ones; accepted by a proved-sound abstract interpreter evaluated in Coq) + cancel "
                 "injection at every k-th check through a guarded hook; logged words checked for membership in the table's path language and by the extracted automaton",
    "text": "Theorems: paths_are_disciplined (table_ok t = true -> every path word of every API function denoted by the table obeys the discipline wok: soundness "
            "of the abstract interpreter over sequence/branch/loop/call/return/break/continue), partial_never_escapes (table_ok t -> for every path w of every API "
            "function, every cancel point k, serial or parallel, every order in which parallel chunks reach their check: the result is the complete uncancelled result "
            "or Cancelled-and-empty; instantiated on the regenerated tables of the seq and par configurations as pinned_partial_never_escapes), "
            "partial_never_escapes_sticky_flag, missing_check_lets_partial_escape, progress_bounds and progress_complete about the current code (numerators reset "
            "first, K credits per reduction, completion top-up: done<=total at every point of every evaluation, monotone, done=total after every uncancelled completion, "
            "trees and DAGs), reset_order_matters, cancelled_is_sticky; the pre-fix DAG refutation (22/33) is kept as an Example. Generated obligations evaluated by Coq: "
            "table_ok for seq and par (53 functions, 12 API roots), phase_counts_match (11/6/13/5), completion_topup, reset_order_ok. Tie: for generated programs "
            "(deferred trees incl. shared sub-expressions, BatchBoolean, Refine*, Hull, Minkowski*, FromMeshGL, Smooth, LevelSet) the uncancelled run is recorded and its "
            "site word must be a path of the API root in the generated grammar; then cancel is injected at the k-th check (seq: quick <=40 per program incl. first/last "
            "occurrences of sites, thorough all k up to 1500; real-TBB par: 6 per program in quick, 300 in thorough) and status, emptiness, export hash, operand hashes, "
            "(done,total) at every check, re-query, a second evaluation through the cancelled context and a rebuild with a fresh context are compared with the reference; "
            "the extracted automaton must classify every logged word consistently with the observed outcome; the extracted reduction counter predicts (done,total).",
    "note": "Trusted: Coq kernel, extraction, the token-level translator for the table itself (statement tree, check kinds, 'declarations are neutral', the allow-lists: "
            "15 raw-level statements and ~40 object-level handle-forwarding statements, one justification each), the hook. Object-level functions are in the grammar; what "
            "remains assumed there is that the allow-listed statements forward a Cancelled handle/status (C09) - exercised for every injected k. Operand immutability is "
            "checked dynamically only (proved under C05). In par runs the log is ordered by check count, not time: monotonicity of Progress is compared in seq only.",
}

ROOT_OF = {"status": "Manifold::GetCsgLeafNode", "refine": "Manifold::Refine", "reflen": "Manifold::RefineToLength",
           "reftol": "Manifold::RefineToTolerance", "hull": "Manifold::Hull", "minksum": "Manifold::MinkowskiSum",
           "minkdiff": "Manifold::MinkowskiDifference", "frommesh": "ExecutionContext::FromMeshGL", "frommesh64": "ExecutionContext::FromMeshGL",
           "smooth": "ExecutionContext::Smooth", "levelset": "ExecutionContext::LevelSet"}
KCODE = {"LoopEntry": "E", "LoopChunk": "C", "AbortP": "P", "AbortF": "F", "Observe": "O"}
CANCELLED = 14


def hook_present():
    try:
        return "VerifCancelController" in open(os.path.join(vp.REPO, "src/execution_impl.h")).read()
    except OSError:
        return False


# ---------------------------------------------------------------- programs
def model_expr(defs, pre=()):
    """Model expression (with impl ids) of the last def; returns (string, is_dag).  Defs evaluated beforehand
    (pre) are cached op nodes: one leaf for NumLeaves, no reductions."""
    counter = [0]
    roots = []
    pre_idx = {int(x.rstrip("c")) for x in pre}

    def fresh():
        counter[0] += 1
        return counter[0]

    def parse(s, p):
        c = s[p]
        if c == "$":
            q = p + 1
            while q < len(s) and s[q].isdigit(): q += 1
            return ("L",), q
        if c == "#":
            q = p + 1
            while q < len(s) and s[q].isdigit(): q += 1
            return roots[int(s[p + 1:q])], q
        if c in "+-^" or c == "B":
            q = p + (2 if c == "B" else 1)
            assert s[q] == "("
            q += 1
            kids = []
            while True:
                k, q = parse(s, q)
                kids.append(k)
                if s[q] == ",":
                    q += 1
                    continue
                break
            assert s[q] == ")"
            q += 1
            if c == "B":
                return (("O", fresh(), kids) if len(kids) > 1 else kids[0]), q
            node = kids[0]
            for k in kids[1:]:
                node = ("O", fresh(), [node, k])
            return node, q
        if c in "TSR":
            assert s[p + 1] == "("
            e, q = parse(s, p + 2)
            q = s.index(")", q) + 1
            return e, q          # a transformed op node shares impl_ (same id, same kids); a leaf stays a leaf
        raise ValueError("bad expr " + s)

    for d in defs:
        n, q = parse(d, 0)
        assert q == len(d), d
        roots.append(("L",) if len(roots) in pre_idx else n)
    seen, dag = [], [False]

    def show(n):
        if n[0] == "L":
            return "L"
        if n[1] in seen:
            dag[0] = True
        seen.append(n[1])
        return "O%d(%s)" % (n[1], ",".join(show(k) for k in n[2]))
    return show(roots[-1]), dag[0]


def programs(rng, tier_quick):
    def off():
        return rng.choice(["0.25", "0.3", "0.4", "0.5", "0.35"])
    P = []

    def add(name, final, ops, defs, pre=()):
        P.append(dict(name=name, final=final, ops=ops, defs=defs, pre=list(pre)))
    seg = rng.choice([32, 40, 48])
    add("tree3", "status", ["cube:1:1:1:0:0:0", "cube:1:1:1:%s:%s:%s" % (off(), off(), off()), "sphere:0.7:%d:0.2:0:0" % seg], ["-(+($0,$1),$2)"])
    add("dag_f1", "status", ["cube:1:1:1:0:0:0", "cube:1:1:1:%s:0.5:0.5" % off()], ["+($0,$1)", "^(#0,T(#0,%s,0,0))" % off()])
    add("dag2", "status", ["cube:1:1:1:0:0:0", "sphere:0.6:16:0.5:0.5:0.5", "cube:2:0.3:0.3:-0.5:0.2:0.2"],
        ["+($0,$1)", "-(#0,$2)", "+(#1,T(#0,%s,0.1,0))" % off()])
    add("batch4", "status", ["cube:1:1:1:0:0:0", "cube:1:1:1:%s:0:0" % off(), "cube:1:1:1:5:5:5", "sphere:0.5:16:5.2:5:5"], ["B+($0,$1,$2,$3)"])
    add("isect3", "status", ["sphere:1:%d:0:0:0" % seg, "cube:1.2:1.2:1.2:-0.1:-0.1:-0.1", "cyl:2:0.6:24:0.2:0.2:-1"], ["B^($0,$1,$2)"])
    # pre-evaluated shared sub-expressions held through second handles; the shared node is an earlier operand of a parent whose
    # later, non-collapsible sibling is still to be computed: its (cached) frame is on the stack while the sibling's Boolean runs
    shared_ops = ["cube:1:1:1:0:0:0", "cube:1:1:1:%s:%s:0.2" % (off(), off()), "sphere:1:%d:3:0:0" % rng.choice([24, 32]), "sphere:1:%d:3.%s:0:0" % (rng.choice([24, 32]), rng.choice("3456"))]
    add("pre_shared", "status", shared_ops, ["+($0,$1)", "^($2,$3)", "+(#0,#1)"], pre=[rng.choice(["0", "0c"])])
    add("pre_shared_sub", "status", shared_ops, ["+($0,$1)", "^($2,$3)", "-(#0,#1)"], pre=[rng.choice(["0c", "0"])])
    add("pre_partial", "status", shared_ops + ["cube:1:1:1:6:0:0", "tet:0.8:6.2:0.2:0.2"],
        ["+($0,$1)", "-($4,$5)", "^($2,$3)", "B+(#0,#1,#2)"], pre=[rng.choice(["0", "1", "0c", "1c"])])
    # differences with several subtrahends collapsed into one Subtract node: the subtrahend union B u C is the expensive part,
    # so most cancel points fall inside it (an empty/Cancelled merged subtrahend must not turn into "nothing to subtract")
    sg = rng.choice([40, 48])
    diff_ops = ["cube:2:2:2:-0.5:-0.5:-0.5", "sphere:1:%d:0.5:0.5:0.5" % sg, "sphere:1:%d:1.%s:0.5:0.6" % (sg, rng.choice("0123"))]
    add("diff_chain", "status", diff_ops, ["-($0,$1,$2)"])
    add("diff_union", "status", diff_ops, ["-($0,+($1,$2))"])
    add("diff_batch", "status", diff_ops, ["B-($0,$1,$2)"])
    add("refine_leaf", "refine:3", ["sphere:1:48:0:0:0"], ["$0"])
    add("refine_tree", "refine:2", ["cube:1:1:1:0:0:0", "cube:1:1:1:%s:%s:0.5" % (off(), off())], ["+($0,$1)"])
    add("reflen", "reflen:0.2", ["cube:1:1:1:0:0:0", "tet:0.8:0.2:0.2:0.2"], ["-($0,$1)"])
    add("reftol", "reftol:0.02", ["smoothsphere:1:12"], ["$0"])
    add("hull_tree", "hull", ["sphere:1:32:0:0:0", "cube:1:1:1:0.8:0:0"], ["+($0,$1)"])
    add("hull_leaf", "hull", ["sphere:1:64:0:0:0"], ["$0"])
    add("mink_cc", "minksum:0", ["cube:1:1:1:0:0:0", "sphere:0.3:8:0:0:0"], ["$1", "$0"])
    add("mink_nc", "minksum:0", ["cube:1:1:1:0:0:0", "cube:0.6:0.6:2:0.2:0.2:-0.5", "tet:0.2:0:0:0"], ["$2", "-($0,$1)"])
    add("minkdiff", "minkdiff:0", ["cube:2:2:2:0:0:0", "sphere:0.2:6:0:0:0"], ["$1", "$0"])
    add("frommesh", "frommesh", ["sphere:1:%d:0:0:0" % seg], ["$0"])
    add("frommesh64", "frommesh64", ["cube:1:1:1:0:0:0", "sphere:0.6:24:0.5:0.5:0.5"], ["+($0,$1)"])
    add("smooth", "smooth", ["sphere:1:16:0:0:0"], ["$0"])
    add("levelset", "levelset:sphere:0.25", ["cube:1:1:1:0:0:0"], ["$0"])
    if not tier_quick:
        add("levelset_blob", "levelset:blob:0.2", ["cube:1:1:1:0:0:0"], ["$0"])
        add("tree_big", "status", ["sphere:1:64:0:0:0", "sphere:1:64:%s:0:0" % off(), "cyl:3:0.4:48:0:0:-1.5", "cube:1:1:1:0.2:0.2:0.2"],
            ["-(+($0,$1),+($2,$3))"])
        add("dag3", "status", ["sphere:1:32:0:0:0", "cube:1:1:1:0.3:0.3:0.3"], ["^($0,$1)", "+(#0,T(#0,0.4,0,0))", "-(#1,R(#0,30))"])
        for i in range(6):
            add("rtree%d" % i, "status", ["cube:1:1:1:0:0:0", "cube:1:1:1:%s:%s:%s" % (off(), off(), off()), "sphere:0.6:24:%s:0:0" % off(), "tet:1:0:0:0"],
                [rng.choice(["+(-($0,$1),^($2,$3))", "^(+($0,$1),+($2,$3))", "-($0,B+($1,$2,$3))", "B+(^($0,$1),-($2,$3),$0)"])])
    for p in P:
        p["expr"], p["dag"] = model_expr(p["defs"], p.get("pre", ()))
    return P


def case_line(cid, k, p):
    pre = p.get("pre") or []
    return "CASE %s %d %s O %d %s D %d %s" % (cid, k, p["final"], len(p["ops"]), " ".join(p["ops"]), len(p["defs"]), " ".join(p["defs"])) + \
           (" E %d %s" % (len(pre), " ".join(pre)) if pre else "")


HANDLES = {}      # (id, k) -> [(j, kind, fields...)] ; filled by parse_out


def parse_out(text):
    R, W, PW = {}, {}, {}
    for l in text.splitlines():
        t = l.split()
        if not t:
            continue
        if t[0] == "R":
            R[(t[1], int(t[2]))] = dict(x.split("=") for x in t[3:])
        elif t[0] == "H":
            HANDLES[(t[1], int(t[2]))] = [tuple(x.split(":")) for x in t[3:]]
        elif t[0] == "W":
            W[(t[1], int(t[2]))] = [(m.group(1), m.group(2) == "!", int(m.group(3))) for m in (re.match(r"(.*?)(!?)\*(\d+)$", x) for x in t[3:])]
        elif t[0] == "P":
            PW[(t[1], int(t[2]))] = [(int(a), int(b), int(c)) for a, b, c in (re.match(r"(-?\d+)/(-?\d+)\*(\d+)$", x).groups() for x in t[3:])]
    return R, W, PW


def run_parallel(exe, lines, kl, ko, timeout, workers=8):
    """vp.run_cases on `workers` interleaved slices of the case list (independent processes)."""
    from concurrent.futures import ThreadPoolExecutor
    parts = [lines[i::workers] for i in range(workers)]
    parts = [x for x in parts if x]
    with ThreadPoolExecutor(max_workers=len(parts) or 1) as ex:
        res = list(ex.map(lambda part: vp.run_cases(exe, part, kl, ko, timeout=timeout, max_restarts=4), parts))
    return "".join(r[0] for r in res), [c for r in res for c in r[1]]


def choose_ks(word, N, cap, rng):
    if N <= cap:
        return list(range(1, N + 1))
    ks, pos = {1, N, max(1, N - 1), 2}, 0
    first, last = {}, {}
    for tag, _, cnt in word:
        first.setdefault(tag, pos + 1)
        last[tag] = pos + cnt
        pos += cnt
    must = sorted(set(first.values()) | set(last.values()))
    rng.shuffle(must)
    for k in must:
        if len(ks) < cap * 2 // 3:
            ks.add(k)
    while len(ks) < cap:
        ks.add(rng.randrange(1, N + 1))
    return sorted(ks)


def replay(cx):
    """bin/check C15 --replay f : re-run one stored (program, k) and its uncancelled reference on the real code."""
    d = json.load(open(cx.replay_mode))
    rep = d.get("replay") or {}
    line, variant = rep.get("program"), rep.get("variant", "seq")
    if not line or not hook_present():
        cx.broke("replay", "nothing to replay (no program in the file, or the hook is not applied to %s)" % vp.REPO)
        return
    exe = vp.build_harness("c15_cancel", variant, link_lib=True, extra=["-DVERIF_HAS_HOOK"])
    t = line.split()
    ref = " ".join(t[:2] + ["0"] + t[3:])
    rc, out, err = vp.sh2([exe], input=ref + "\n" + line + "\n", timeout=600)
    R, W, PW = parse_out(out)
    r0, r = R.get((t[1], 0)), R.get((t[1], int(t[2])))
    print("reference :", r0)
    print("k=%s      :" % t[2], r)
    print("site word :", " ".join("%s%s*%d" % (a, "!" if b else "", c) for a, b, c in W.get((t[1], int(t[2])), []))[-600:])
    print("progress  :", " ".join("%d/%d*%d" % x for x in PW.get((t[1], int(t[2])), []))[-300:])
    if r0 and r and int(t[2]) > 0:
        st, empty = int(r["st"]), int(r["empty"])
        if not ((st == CANCELLED and empty == 1) or (st == int(r0["st"]) and r["h"] == r0["h"])):
            cx.violation(d.get("key", "replayed"), "replayed: status %d, hash %s vs reference %s" % (st, r["h"], r0["h"]), rep)
    if r0 and int(r0["st"]) == 0 and r0["done"] != r0["total"]:
        cx.violation(d.get("key", "replayed"), "replayed: uncancelled evaluation ends with %s/%s" % (r0["done"], r0["total"]), rep)


# ---------------------------------------------------------------- run
def run(cx):
    if cx.replay_mode:
        return replay(cx)
    cx.assumptions += [
        "translator (translate/c15_sites.py): token-level path analysis decides which statements can follow a ctx-aware call before the next aborting check; "
        "declarations, releases, returns of callees and 14 allow-listed statements (each with a justification in the translator) count as neutral",
        "object-level functions (SimpleBoolean, BatchBoolean, BatchUnion, ToLeafNode, GetCsgLeafNode, Minkowski, MakeSmoothImpl) are closed by status propagation "
        "(a Cancelled object is forwarded by every consumer, property C09); this is exercised for every injected k, not proved here",
        "the theorem is about path words obeying word_ok; 'sites_ok on the table implies word_ok on every path' is the translator's claim, cross-checked by "
        "running the extracted automaton on every logged word",
        "cancel is injected by the MANIFOLD_VERIF hook in IsCancelled (hooks/C15.patch): the k-th check on the registered context is the first to read true",
    ]
    # 1. translator -> Gen/CancelSites.v and the obligation files
    gen = os.path.join(vp.COQ, "Gen")
    os.makedirs(gen, exist_ok=True)
    try:
        tr = c15_sites.translate(vp.REPO, os.path.join(gen, "CancelSites.v"))
    except (c15_sites.TranslateError, Exception) as e:
        tr = None
        cx.broke("translate:c15_sites", "the site translator cannot parse the current sources: %r" % (e,))
    pr = None
    if tr is not None:
        try:
            pr = c15_prog.translate(vp.REPO, os.path.join(gen, "CancelProg.v"))
        except Exception as e:
            cx.broke("translate:c15_prog", "the structured translator cannot parse the current sources: %r" % (e,))
    inst = ("Theorem pinned_partial_never_escapes : forall (f : string) (w : list tok2), paths table_%s f w ->\n"
            "  forall (par : bool) (sched : nat -> nat -> nat) (k : nat),\n"
            "  exists r0, exec2 never par sched w = Complete r0 /\\ Forall (Forall (eq true)) r0 /\\\n"
            "    (exec2 (cancel_at k) par sched w = Complete r0 \\/ exec2 (cancel_at k) par sched w = CancelledEmpty).\n"
            "Proof. exact (table_all_or_nothing table_%s table_is_ok). Qed.\n")
    hdr2 = "From MV Require Import Proto.CancelModel Proto.CancelPathDefs Proto.CancelPathModel Gen.CancelProg.\n"
    obl = {
        "CancelProgOkSeq": hdr2 + "Lemma table_is_ok : table_ok table_seq = true.\nProof. vm_compute. reflexivity. Qed.\n" + inst % ("seq", "seq"),
        "CancelProgOkPar": hdr2 + "Lemma table_is_ok : table_ok table_par = true.\nProof. vm_compute. reflexivity. Qed.\n" + inst % ("par", "par"),
        "CancelPhasesOk": "Lemma phases_ok : phase_counts_match phase_table = true /\\ k_phases_per_boolean = boolean_phase_sites /\\ completion_topup = true.\n"
                          "Proof. repeat split; vm_compute; reflexivity. Qed.\n",
        "CancelPoisonOk": "Lemma poison_ok : poison_all_frames = true /\\ poison_guarded = true.\nProof. split; vm_compute; reflexivity. Qed.\n",
        "CancelResetOk": "Lemma reset_ok : reset_order_ok reset_order_tree false = true /\\ reset_order_ok reset_order_factory false = true /\\\n"
                         "  List.length reset_order_tree = 4 /\\ List.length reset_order_factory = 4.\nProof. repeat split; vm_compute; reflexivity. Qed.\n",
    }
    for stale in ("CancelSitesOkSeq", "CancelSitesOkPar"):
        for ext in (".v", ".vo", ".glob", ".vos", ".vok"):
            try:
                os.remove(os.path.join(gen, stale + ext))
            except OSError:
                pass
    for name, body in obl.items():
        txt = "(* GENERATED by checks/C15.py: obligation on the regenerated table. *)\nFrom Coq Require Import List String ZArith.\n" \
              "From MV Require Import Proto.CancelDefs Gen.CancelSites.\n" + body
        p = os.path.join(gen, name + ".v")
        if not os.path.exists(p) or open(p).read() != txt:
            open(p, "w").write(txt)
    cx.log("translators done")
    cx.prove()
    if tr is not None:
        todo = [n for n in obl if pr is not None or not n.startswith("CancelProg")]
        for name in obl:
            for ext in (".vo", ".glob", ".vos", ".vok"):
                try:
                    os.remove(os.path.join(gen, name + ext))
                except OSError:
                    pass
        vp.coq_make(["Gen/%s.vo" % n for n in todo], timeout=900)
        def why(cfg):
            c = pr["configs"][cfg] if pr else None
            return "table_ok table_%s = false: %s" % (cfg, "; ".join(c["fails"][:6]) if c else "no table")
        desc = {
            "CancelProgOkSeq": why("seq"), "CancelProgOkPar": why("par"),
            "CancelPhasesOk": "phase credits per pipeline differ from the constants, or the completion top-up is missing: %r topup=%r" % (tr["phase_table"], tr["topup"]),
            "CancelPoisonOk": "ToLeafNode's cancel branch must write the Cancelled leaf into every frame's op node that has NO cache_ and only into those "
                              "(cancel_preserves_evaluated needs the guard `if (!frame->op_node->cache_)`): %r" % (tr.get("poison"),),
            "CancelResetOk": "progress counters are not reset numerators-first: %r" % (tr["reset_order"],),
        }
        for name in obl:
            cx.obligation("table:" + name, os.path.exists(os.path.join(gen, name + ".vo")), desc[name])
        for cfg in ("seq", "par"):
            if tr["configs"][cfg]["unknown_checks"]:
                cx.broke("translate:unknown-check-sites", "IsCancelled sites the translator cannot classify: %s" % tr["configs"][cfg]["unknown_checks"][:8])
            if pr is not None:
                c = pr["configs"][cfg]
                if c["ok"] != os.path.exists(os.path.join(gen, "CancelProgOk%s.vo" % cfg.capitalize())):
                    cx.broke("translate:mirror-%s" % cfg, "the translator's Python mirror of table_ok (%s) disagrees with Coq" % c["ok"])
        cx.cov["site_table"] = {cfg: dict(check_sites=len(tr["configs"][cfg]["checks"]),
                                          **({"functions": pr["configs"][cfg]["functions"], "api_roots": pr["configs"][cfg]["roots"],
                                              "closed_callees": len(pr["configs"][cfg]["closed"]), "open_callees": len(pr["configs"][cfg]["open"]),
                                              "statement_counts": pr["configs"][cfg]["counts"]} if pr else {})) for cfg in ("seq", "par")}
        cx.cov["phase_table"] = tr["phase_table"]
        cx.cov["reset_order"] = tr["reset_order"]
        cx.cov["completion_topup_in_GetCsgLeafNode"] = tr["topup"]

    cx.log("table obligations done")
    # 2. dynamic part
    if not hook_present():
        cx.broke("hook:C15", "hooks/C15.patch (MANIFOLD_VERIF countdown in IsCancelled, src/execution_impl.h) is not applied to %s: "
                 "cancel injection at the k-th check was not run; only the proofs and the table obligations were checked" % vp.REPO)
        cx.cov.update({"evaluations": 0, "distinct_nontrivial": 0, "rule": "hook absent", "distribution": {}})
        return
    mls = None
    for attempt in range(3):      # other checks share coq/: a Makefile generated while a neighbour's scratch file existed fails once
        try:
            mls = vp.coq_extract("ExtractC15", ["c15_model.ml"])
            break
        except vp.BuildError:
            if attempt == 2:
                raise
            import time
            time.sleep(3)
    drv = vp.ocaml_build("c15_driver", mls + [os.path.join(vp.ROOT, "extract/c15_driver.ml")])
    # seq: deterministic, every comparison applies.  par (real TBB): chunk checks race, N and the word vary between runs; the
    # outcome classes, stickiness, rebuild and the done<=total bound are compared, a small sample in quick, a large one in thorough.
    variants = ["seq", "par"] if os.environ.get("VERIF_C15_PAR", "1") != "0" else ["seq"]
    totals = {"evaluations": 0, "nontrivial": 0, "dist": {}, "samples": 0}
    for variant in variants:
        dynamic(cx, tr, drv, variant, totals, pr)
        cx.log("dynamic %s done: %d runs so far" % (variant, totals["evaluations"]))
    ign = [k for k in os.environ.get("VERIF_C15_IGNORE", "").split(",") if k]
    if ign:      # self-validation aid only (mutant runs before a finding is listed in known_findings.txt); never set by bin/check
        cx.notes.append("violation keys dropped by VERIF_C15_IGNORE: %s" % ign)
        cx.violations = [v for v in cx.violations if v[0] not in ign]
    cx.cov.update({"evaluations": totals["evaluations"], "distinct_nontrivial": totals["nontrivial"],
                   "rule": "one evaluation = one program run with cancel injected at check k; non-trivial = 1 <= k <= N (the flag is read true by some check); "
                           "distinct by (program, variant, k)",
                   "distribution": totals["dist"]})


def dynamic(cx, tr, drv, variant, totals, pr=None):
    exe = vp.build_harness("c15_cancel", variant, link_lib=True, extra=["-DVERIF_HAS_HOOK"])
    rng = random.Random(cx.seed * 1000003 + 15 + (7 if variant == "par" else 0))
    progs = programs(rng, cx.quick())
    kinds = tr["configs"][variant]["checks"] if tr else {}
    env = {"TBB_NUM_THREADS": "4"}
    kl = lambda l: (l.split()[1] + "/" + l.split()[2]) if l.startswith("CASE") else None
    ko = lambda l: (l.split()[1] + "/" + l.split()[2]) if l[:2] in ("R ", "W ", "P ", "H ") else None

    # reference runs (twice: the reference must be reproducible)
    ref_lines = [case_line(p["name"], 0, p) for p in progs]
    out, crashes = vp.run_cases(exe, ref_lines + ref_lines, kl, ko, timeout=900)
    for cl, rc, err in crashes:
        cx.violation("crash-uncancelled", "uncancelled context-observed evaluation crashed (rc=%s): %s" % (rc, err[-200:]), {"case": cl, "variant": variant})
    R0, W0, P0 = parse_out(out)
    refs = {}
    for p in progs:
        r = R0.get((p["name"], 0))
        if r is None or "N" not in r:
            cx.broke("corr:C15/ref %s" % p["name"], "no reference output (%s)" % (r,))
            continue
        refs[p["name"]] = r
    # determinism of the reference: run_cases output has each ref twice; parse_out kept the last; compare with the first
    first = {}
    for l in out.splitlines():
        t = l.split()
        if t and t[0] == "R" and (t[1], int(t[2])) not in first:
            first[(t[1], int(t[2]))] = dict(x.split("=") for x in t[3:])
    for p in progs:
        a, b = first.get((p["name"], 0)), refs.get(p["name"])
        if a and b and (a["h"], a["st"], a["N"] if variant == "seq" else "") != (b["h"], b["st"], b["N"] if variant == "seq" else ""):
            cx.broke("corr:C15/nondeterministic-reference %s" % p["name"], "two uncancelled runs differ: %s vs %s" % (a, b))
            refs.pop(p["name"], None)

    # the uncancelled site word of every program must be (the projection of) a path of its API root in the generated grammar
    if pr is not None and variant == "seq":
        an, pg, roots, _ = pr["configs"]["seq"]["_prog"]
        nonmem = 0
        for p in progs:
            word = W0.get((p["name"], 0))
            if word is None or p["name"] not in refs:
                continue
            tags = [t for t, _, c in word for _ in range(c)]
            rks = [k for k in roots if an.fns[k]["name"] == ROOT_OF[p["final"].split(":")[0]]]
            res = [c15_prog.Matcher(pg, kinds).run(k, tags) for k in rks]
            if not any(r[0] for r in res):
                nonmem += 1
                far = max([r[1][0] for r in res] or [0])
                cx.broke("corr:C15/path-membership %s" % p["name"], "the logged uncancelled site word (%d checks) is not a path of %s in the generated table; "
                         "matched %d checks, next sites %s" % (len(tags), ROOT_OF[p["final"].split(":")[0]], far, tags[far:far + 4]))
        totals["dist"]["seq/path-membership"] = {"words": len(refs), "not-member": nonmem}

    # Level B tie: predicted (done,total) of uncancelled tree/DAG evaluations
    xin = "".join("X %s %s\n" % (p["name"], p["expr"]) for p in progs if p["final"] == "status")
    rc, xout, xerr = vp.sh2([drv], input=xin, timeout=300)
    pred = {l.split()[1]: tuple(map(int, l.split()[2:5])) for l in xout.splitlines() if l.startswith("X ")}
    Kb = (tr or {}).get("consts", {}).get("kPhasesPerBoolean") or 11
    for p in progs:
        r = refs.get(p["name"])
        if not r:
            continue
        done, total = int(r["done"]), int(r["total"])
        if p["final"] == "status":
            w, tb, red = pred.get(p["name"], (0, -1, -1))
            if tr and tr.get("topup"):
                red = tb          # GetCsgLeafNode tops donePhases up to totalPhases on an uncancelled completion (progress_complete_with_topup)
            if (done, total) != (Kb * red, Kb * tb):
                cx.broke("corr:C15/reductions %s" % p["name"], "model predicts done/total = %d/%d, implementation ended with %d/%d (expr %s)"
                         % (Kb * red, Kb * tb, done, total, p["expr"]))
        if int(r["st"]) == 0 and done != total:
            key = "progress-shared-subexpr-below-1" if p["dag"] else "progress-below-1-at-completion"
            cx.violation(key, "uncancelled evaluation finished with Progress() = %d/%d < 1 (%s; %s)" % (done, total, p["final"],
                         "sub-expression shared between parents: NumLeaves counts it per parent, it is reduced once" if p["dag"] else "tree"),
                         {"program": case_line(p["name"], 0, p), "variant": variant, "done": done, "total": total})
        check_progress_word(cx, p, 0, P0.get((p["name"], 0), []), variant, completed=True)

    # cancel injection
    cap = 40 if cx.quick() else 1500      # thorough: every k when N <= 1500, else 1500 sampled incl. first/last of every site
    lines, plan = [], {}
    for p in progs:
        r = refs.get(p["name"])
        if not r:
            continue
        N = int(r["N"])
        ks = choose_ks(W0.get((p["name"], 0), []), N, cap, rng)
        if variant == "par":
            rng.shuffle(ks)
            ks = sorted(ks[:(6 if cx.quick() else 300)])
        plan[p["name"]] = ks
        lines += [case_line(p["name"], k, p) for k in ks]
    out, crashes = run_parallel(exe, lines, kl, ko, 1500, workers=(8 if variant == "seq" else 3))
    for cl, rc, err in crashes:
        t = cl.split()
        cx.violation("crash-on-cancel-" + t[3].split(":")[0], "evaluation crashed or hung (rc=%s) with cancel injected at check %s: %s" % (rc, t[2], err[-200:]),
                     {"case": cl, "variant": variant})
    R, W, PW = parse_out(out)

    # automaton on every logged word
    ain, unknown = [], set()
    for (name, k), word in list(W.items()) + [((n, 0), w) for (n, _), w in W0.items()]:
        toks = []
        if variant == "par":      # the log is in check-count order, not in real-time order: the flag itself is monotone in time
            word = [x for x in word if not x[1]] + [x for x in word if x[1]]
        for tag, seen, cnt in word:
            kd = kinds.get(tag)
            if kd is None:
                unknown.add(tag)
                kd = "Observe"
            toks.append("%s%d*%d" % (KCODE[kd], 1 if seen else 0, cnt))
        ain.append("A %s %d %s" % (name, k, " ".join(toks)))
    if unknown:
        cx.broke("corr:C15/unknown-site", "checks logged at sites that are not in the generated table: %s" % sorted(unknown)[:8])
    rc, aout, aerr = vp.sh2([drv], input="\n".join(ain) + "\n", timeout=600)
    verdict = {(l.split()[1], int(l.split()[2])): l.split()[3] for l in aout.splitlines() if l.startswith("V ")}

    byname = {p["name"]: p for p in progs}
    mism = 0
    for name, ks in plan.items():
        p, ref = byname[name], refs[name]
        opk = p["final"].split(":")[0]
        d = totals["dist"].setdefault("%s/%s" % (variant, opk), {"runs": 0, "cancelled": 0, "complete": 0})
        if verdict.get((name, 0)) != "complete":
            cx.broke("corr:C15/automaton %s k=0" % name, "automaton verdict on the uncancelled word is %s" % verdict.get((name, 0)))
        for k in ks:
            r = R.get((name, k))
            if r is None or "st" not in r:
                continue
            totals["evaluations"] += 1
            totals["nontrivial"] += 1
            d["runs"] += 1
            replay = {"program": case_line(name, k, p), "variant": variant, "k": k, "N_uncancelled": int(ref["N"]), "observed": r, "reference": ref}
            st, empty = int(r["st"]), int(r["empty"])
            if st == CANCELLED and empty == 1:
                cls = "cancelled"
            elif st == int(ref["st"]) and r["h"] == ref["h"]:
                cls = "complete"
            else:
                cls = "partial"
            d["cancelled" if cls == "cancelled" else "complete"] += 1 if cls != "partial" else 0
            if cls == "partial":
                cx.violation("partial-result-escapes-" + opk,
                             "%s with cancel injected at check %d of %d returned status %d, %s tris, export hash %s: neither the uncancelled result (%s) nor empty+Cancelled"
                             % (p["final"], k, int(ref["N"]), st, r["nt"], r["h"], ref["h"]), replay)
            if r["ops"] != "1":
                cx.violation("operand-modified", "an already evaluated operand changed (export hash) during a cancelled %s" % p["final"], replay)
            if int(r["requery"]) != st:
                cx.violation("cancel-not-sticky-requery", "querying the result again changed its status from %d to %s" % (st, r["requery"]), replay)
            if int(r["ctxc"]) == 1:
                if int(r["other"]) != CANCELLED or int(r["otherfm"]) != CANCELLED:
                    cx.violation("cancelled-context-does-not-short-circuit", "after Cancel took effect, another evaluation through the same context returned status %s / FromMeshGL %s"
                                 % (r["other"], r["otherfm"]), replay)
                if int(r["again"]) != CANCELLED and (cls == "cancelled" or opk != "status"):
                    cx.violation("cancelled-context-does-not-short-circuit", "repeating %s through the cancelled context returned status %s" % (p["final"], r["again"]), replay)
            if cls == "cancelled" and int(r["root"]) not in (-1, CANCELLED, int(ref["root"])):
                cx.violation("cancel-not-sticky-expression", "the expression's own status after the cancelled evaluation is %s" % r["root"], replay)
            if int(r["rb"]) != int(ref["st"]) or r["rbh"] != ref["h"]:
                cx.violation("rebuild-differs", "rebuilding the expression from the operands with a fresh context gave status %s hash %s, reference %s %s"
                             % (r["rb"], r["rbh"], ref["st"], ref["h"]), replay)
            href = {(h[0], h[1]): h[2:] for h in HANDLES.get((name, 0), [])}
            pre_idx = {x.rstrip("c") for x in (p.get("pre") or [])}
            for h in HANDLES.get((name, k), []):
                want = href.get((h[0], h[1]))
                if want is None or h[2:] == want:
                    continue
                if h[1] == "1":
                    cx.violation("rebuild-from-evaluated-handle-differs", "after the cancelled %s, (handle #%s + cube) evaluated with a fresh context gave status %s hash %s, "
                                 "reference status %s hash %s" % (p["final"], h[0], h[2], h[3], want[0], want[1]), replay)
                elif h[0] in pre_idx:
                    cx.violation("evaluated-operand-modified", "handle #%s (%s) was evaluated before the context evaluation; after the cancelled evaluation it reports "
                                 "status %s, %s tris, hash %s (before: status %s, %s tris, hash %s)" % (h[0], p["defs"][int(h[0])], h[2], h[3], h[4], want[0], want[1], want[2]), replay)
                elif not (int(h[2]) == CANCELLED and h[3] == "0"):
                    cx.violation("live-handle-modified", "handle #%s (%s) is neither its reference value nor Cancelled after the cancelled evaluation: status %s, %s tris"
                                 % (h[0], p["defs"][int(h[0])], h[2], h[3]), replay)
            check_progress_word(cx, p, k, PW.get((name, k), []), variant, completed=(cls == "complete" and int(r["ctxc"]) == 0), replay=replay)
            # automaton verdict vs observed class
            v = verdict.get((name, k))
            okv = (v == "complete" and cls == "complete") or (v == "final" and cls == "cancelled") or \
                  (v == "escape" and cls in ("complete", "partial")) or (v == "final" and cls == "complete" and False)
            if not okv:
                mism += 1
                if mism <= 3:
                    cx.broke("corr:C15/automaton %s k=%d" % (name, k), "automaton verdict %s, observed outcome %s (status %d, empty %d)" % (v, cls, st, empty))
            if v == "escape":
                totals["dist"].setdefault("%s/automaton-escape" % variant, {"runs": 0, "same-as-reference": 0})
                e = totals["dist"]["%s/automaton-escape" % variant]
                e["runs"] += 1
                e["same-as-reference"] += int(cls == "complete")
            if totals["samples"] < 5 and k in (ks[len(ks) // 2], ks[0]):
                totals["samples"] += 1
                cx.sample({"program": case_line(name, k, p)[:300], "variant": variant, "N": int(ref["N"]), "k": k, "outcome": cls, "automaton": v,
                           "status": st, "done/total": "%s/%s" % (r["done"], r["total"])})
    totals["dist"].setdefault("%s/automaton-mismatches" % variant, mism)


def check_progress_word(cx, p, k, pw, variant, completed, replay=None):
    """(done,total) at every check.  Progress() = 1 if total == 0 else done/total: never above 1, never decreasing
    once the evaluation has scheduled work (the idle 0/0 state before the first reset is not part of it)."""
    rep = replay or {"program": case_line(p["name"], k, p), "variant": variant, "k": k}
    opk = p["final"].split(":")[0]
    started, prev = False, None
    for done, total, cnt in pw:
        if done < 0 or (total > 0 and done > total) or (total == 0 and done > 0):
            cx.violation("progress-above-1", "Progress() = %d/%d > 1 during %s" % (done, total, p["final"]), rep)
            return
        if total > 0:
            started = True
        if not started:
            continue
        cur = (done, total) if total > 0 else (1, 1)
        if variant != "par" and prev is not None and cur[0] * prev[1] < prev[0] * cur[1]:      # par: racing loads, order of the log is not time order
            key = "progress-restarts-minkowski" if opk.startswith("mink") else "progress-decreases"
            cx.violation(key, "Progress() dropped from %d/%d to %d/%d inside one %s call (counters are reset per internal batch)"
                         % (prev[0], prev[1], done, total, p["final"]), rep)
            return
        prev = cur
