"""C17 — constructors and transforms produce the solid their parameters define.
translation_validation + proved index arithmetic:
  * Coq theorems (Properties_C17.v) about the ported Extrude/Revolve index
    generation, shape/tet tables (regenerated from the sources), segment
    counts, affine algebra, sind/cosd at multiples of 90;
  * correspondence of the extracted models with /repo's code (raw triVerts
    before CreateHalfedges, GetCircularSegments, sind/cosd bit patterns);
  * oracle: exact winding classification (Geo/WindingDefs, extracted) of
    GetMeshGL64 outputs at sample points against the analytic predicates."""
import math, os, random, re, struct
from fractions import Fraction
import vp

LEVEL = "translation_validation"
META = {
    "level": "translation_validation",
    "technique": "Coq proofs of the Extrude/Revolve index arithmetic, tables and affine/sind kernels + extracted-model correspondence "
                 "+ exact winding-number classification of outputs against analytic predicates",
    "text": "Coq theorems extrude_chain/extrude_closed/revolve_chain (for every list of contour sizes / axis-vertex patterns, every division count, cone or "
            "not, full or partial: indices in range and boundary chain = difference of the end contours, so with a chain-correct cap triangulation the "
            "triangle list is closed), extrude_scale_after_twist (the per-division 2x2 map, re-read symbolically from the source statements on every run, is "
            "scale-after-twist as documented), shape_tables_closed and tet_tables_consistent on tables regenerated from src/impl.cpp and src/sdf.cpp on every run, "
            "encode_decode, circular_segments_spec, affine_action, flip_on_negative_det_partial, sind_cosd_exact (PrimFloat port of sind/cosd with the "
            "math::sin/cos kernels, all k in [-720,720]) and rot90_exact. The extracted models are compared with /repo's raw triVerts (captured before "
            "CreateHalfedges), GetCircularSegments and sind/cosd bit patterns on parameter sweeps. Geometry: Cube, Tetrahedron, Sphere, Cylinder, Extrude, "
            "Revolve, LevelSet and Translate/Rotate/Scale/Mirror/Transform/Warp outputs are classified with the extracted exact winding number at sample "
            "points outside the faceting band against the analytic predicate (winding 1 inside, 0 outside), volume scaling by |det|, exact 90-degree "
            "rotations of integer meshes, InvalidConstruction for invalid arguments. Parameters are drawn jointly (stratified: twist x anisotropic scale x "
            "divisions; radiusLow x radiusHigh x center; polygon kind x partial angle x segment source; chains of 1-4 transforms) and every output vertex is "
            "compared (1e-12) with the documented image of an input vertex (Extrude levels, Cylinder rings, Revolve slices, composed transform point maps); "
            "Extrude slices next to each division level are classified against the exact level polygon.",
    "note": "Trusted: Coq kernel + vm_compute, primitive floats, extraction, translators (regex over the literal tables), harness macros capturing triVerts, "
            "Python evaluation of the analytic predicates and bands (floating point, 26-direction robustness test). Not proved: that the floating-point "
            "coordinates realise the analytic solid (validated on sampled points only); pushing the triangulator contract through startPoses/endPoses "
            "(revolve_closed_partial); translation part of the volume identity; LevelSet beyond its tables.",
}

INVALID = 11  # Manifold::Error::InvalidConstruction


# ------------------------------------------------------------------ helpers
def d2bits(x):
    return struct.unpack("<Q", struct.pack("<d", x))[0]


def bits2frac(u):
    x = struct.unpack("<d", struct.pack("<Q", u))[0]
    if x != x or x in (float("inf"), float("-inf")):
        return None
    return Fraction(*x.as_integer_ratio())


def hexz(n):
    return ("-" if n < 0 else "") + "%x" % abs(n)


def fmt(x):
    return repr(float(x))


def pip(poly, x, y):
    """even-odd point in polygon (float)"""
    c = False
    n = len(poly)
    for i in range(n):
        x1, y1 = poly[i]
        x2, y2 = poly[(i + 1) % n]
        if (y1 > y) != (y2 > y):
            if x < x1 + (y - y1) * (x2 - x1) / (y2 - y1):
                c = not c
    return c


DIRS = [(a, b, c) for a in (-1, 0, 1) for b in (-1, 0, 1) for c in (-1, 0, 1) if (a, b, c) != (0, 0, 0)]


def robust(pred, p, band):
    """True / False when pred is constant on p and 26 points at distance `band`, else None."""
    v = pred(p)
    for f in (1.0, 0.5, 0.25, 0.1, 0.03):
        for d in DIRS:
            n = math.sqrt(d[0] ** 2 + d[1] ** 2 + d[2] ** 2)
            q = (p[0] + f * band * d[0] / n, p[1] + f * band * d[1] / n, p[2] + f * band * d[2] / n)
            if pred(q) != v:
                return None
    return v


def mat_mul(a, b):     # 3x4 affine as (3x3 rows, t)
    A, ta = a
    B, tb = b
    M = [[sum(A[i][k] * B[k][j] for k in range(3)) for j in range(3)] for i in range(3)]
    t = [sum(A[i][k] * tb[k] for k in range(3)) + ta[i] for i in range(3)]
    return (M, t)


def det3(M):
    return (M[0][0] * (M[1][1] * M[2][2] - M[1][2] * M[2][1]) - M[0][1] * (M[1][0] * M[2][2] - M[1][2] * M[2][0])
            + M[0][2] * (M[1][0] * M[2][1] - M[1][1] * M[2][0]))


def inv_apply(a, p):
    M, t = a
    d = det3(M)
    q = [p[i] - t[i] for i in range(3)]
    adj = [[(M[(j + 1) % 3][(i + 1) % 3] * M[(j + 2) % 3][(i + 2) % 3] - M[(j + 1) % 3][(i + 2) % 3] * M[(j + 2) % 3][(i + 1) % 3])
            for j in range(3)] for i in range(3)]
    return tuple(sum(adj[i][j] * q[j] for j in range(3)) / d for i in range(3))


IDENT = ([[1.0, 0, 0], [0, 1.0, 0], [0, 0, 1.0]], [0.0, 0.0, 0.0])


def op_matrix(op):
    k = op[0]
    if k == "T":
        return (IDENT[0], list(map(float, op[1:4])))
    if k == "S":
        return ([[float(op[1]), 0, 0], [0, float(op[2]), 0], [0, 0, float(op[3])]], [0.0, 0.0, 0.0])
    if k == "R":
        cx, sx = math.cos(math.radians(op[1])), math.sin(math.radians(op[1]))
        cy, sy = math.cos(math.radians(op[2])), math.sin(math.radians(op[2]))
        cz, sz = math.cos(math.radians(op[3])), math.sin(math.radians(op[3]))
        rx = ([[1, 0, 0], [0, cx, -sx], [0, sx, cx]], [0.0] * 3)
        ry = ([[cy, 0, sy], [0, 1, 0], [-sy, 0, cy]], [0.0] * 3)
        rz = ([[cz, -sz, 0], [sz, cz, 0], [0, 0, 1]], [0.0] * 3)
        return mat_mul(rz, mat_mul(ry, rx))
    if k == "M":
        n = list(map(float, op[1:4]))
        l2 = sum(x * x for x in n)
        return ([[(1.0 if i == j else 0.0) - 2 * n[i] * n[j] / l2 for j in range(3)] for i in range(3)], [0.0] * 3)
    if k == "X":
        m = list(map(float, op[1:13]))   # column major
        return ([[m[3 * c + r] for c in range(3)] for r in range(3)], [m[9], m[10], m[11]])
    if k == "W":
        if op[1] == 0:
            return ([[1, 0, 0.25], [0, 1, 0], [0, 0, 1]], [0.0] * 3)
        return ([[2, 0, 0], [-1, 0.5, 0], [0, 0, 1]], [1.0, 0.0, 3.0])
    raise ValueError(op)


def op_text(op):
    return " ".join([op[0]] + [fmt(x) if op[0] != "W" else str(x) for x in op[1:]])


# ------------------------------------------------------- Quality replication
def py_circ(radius, angle=10.0, length=1.0, explicit=0):
    """(explicit, m) the Coq model takes: m = integer part of fmin(nSegA, nSegL)."""
    nSegA = int(360.0 / angle)
    nSegL = 2.0 * abs(radius) * math.pi / length
    return explicit, int(math.floor(min(float(nSegA), nSegL)))


def model_circ(explicit, m):
    if explicit > 0:
        return explicit
    n = m + 3
    n -= n % 4
    return max(n, 4)


# ------------------------------------------------------------ case builders
def star(rng, n, r0, r1, cx=0.0, cy=0.0):
    pts = []
    for i in range(n):
        a = 2 * math.pi * i / n
        r = r0 if i % 2 == 0 else r1
        r *= 1 + 0.1 * rng.random()
        pts.append((round(cx + r * math.cos(a), 3), round(cy + r * math.sin(a), 3)))
    return pts


def zigzag(flags, rng):
    """CCW simple polygon in x >= 0: right side up, left chain (top to bottom) on the axis (flag False) or at x=1."""
    m = len(flags)
    pts = [(3.0, -1.0), (3.0, float(m))]
    for i, f in enumerate(flags):
        pts.append(((1.0 + 0.25 * rng.randrange(3)) if f else 0.0, float(m - 1 - i)))
    return pts


def clip_flags(poly):
    """replicates the clipping loop of Manifold::Revolve on one polygon -> list of flags (x > 0) or None"""
    n = len(poly)
    i = 0
    while i < n and poly[i][0] < 0:
        i += 1
    if i == n:
        return None
    out, start = [], i
    while True:
        if poly[i][0] >= 0:
            out.append(poly[i][0] > 0)
        nxt = 0 if i + 1 == n else i + 1
        if (poly[nxt][0] < 0) != (poly[i][0] < 0):
            out.append(False)
        i = nxt
        if i == start:
            break
    return out


def clip_poly(poly):
    """the clipped polygon of Manifold::Revolve (same arithmetic for the inserted axis points)"""
    n = len(poly)
    i = 0
    while i < n and poly[i][0] < 0:
        i += 1
    if i == n:
        return []
    out, start = [], i
    while True:
        if poly[i][0] >= 0:
            out.append(poly[i])
        nxt = 0 if i + 1 == n else i + 1
        if (poly[nxt][0] < 0) != (poly[i][0] < 0):
            y = poly[nxt][1] - poly[nxt][0] * (poly[i][1] - poly[nxt][1]) / (poly[i][0] - poly[nxt][0])
            out.append((0.0, y))
        i = nxt
        if i == start:
            break
    return out


def match_verts(expected, got, tol):
    """greedy one-to-one matching within tol (max norm); returns (#unmatched expected, first unmatched, #got)"""
    used = [False] * len(got)
    miss, first = 0, None
    for e in expected:
        hit = -1
        for k, g in enumerate(got):
            if not used[k] and abs(g[0] - e[0]) <= tol and abs(g[1] - e[1]) <= tol and abs(g[2] - e[2]) <= tol:
                hit = k
                break
        if hit < 0:
            miss += 1
            first = first or e
        else:
            used[hit] = True
    return miss, first


def polys_text(ps):
    return "%d " % len(ps) + " ".join("%d " % len(p) + " ".join("%s %s" % (fmt(x), fmt(y)) for x, y in p) for p in ps)


# =========================================================== index correspondence
def index_cases(rng, cx):
    ext, rev = [], []
    cid = 0
    for n in range(3, 10):
        for nd in range(0, 5):
            for cone in (0, 1):
                ext.append(dict(id="e%d" % cid, nd=nd, cone=cone, twist=rng.choice([0, 0, 30, 90, -45]), sizes=[n])); cid += 1
    for _ in range(cx.pick(60, 400)):
        k = rng.choice([2, 2, 3, 4])
        ext.append(dict(id="e%d" % cid, nd=rng.randrange(5), cone=rng.randrange(2), twist=rng.choice([0, 15, 180]),
                        sizes=[rng.randrange(3, 10) for _ in range(k)])); cid += 1
    degs = [360.0, 400.0, 90.0, 180.0, 270.0, 45.0, 359.0]
    for seg in range(3, 13):
        for deg in degs[:cx.pick(4, 7)]:
            np_ = rng.choice([1, 1, 2])
            polys = []
            for j in range(np_):
                m = rng.randrange(1, 7)
                fl = [rng.random() < 0.55 for _ in range(m)]
                if j == 0 and seg % 3 == 0:
                    fl = [False] * m if seg % 2 else [True] * m
                p = zigzag(fl, rng)
                p = [(x, y + 10.0 * j) for x, y in p]
                polys.append(p)
            rev.append(dict(id="r%d" % cid, seg=seg, deg=deg, polys=polys)); cid += 1
    # polygons crossing the axis (clipping inserts axis vertices)
    for _ in range(cx.pick(20, 100)):
        n = rng.randrange(3, 9)
        p = star(rng, n, 2.0, 1.2, cx=rng.choice([0.0, 0.5, -0.5, 1.0]), cy=0.0)
        rev.append(dict(id="r%d" % cid, seg=rng.randrange(3, 13), deg=rng.choice(degs), polys=[p])); cid += 1
    # default segment count (circularSegments <= 2)
    for deg in (360.0, 180.0, 90.0, 30.0):
        rev.append(dict(id="r%d" % cid, seg=0, deg=deg, polys=[zigzag([True, False, True], rng)])); cid += 1
    return ext, rev


def parse_dump(line):
    t = line.split()
    d = dict(id=t[1], status=int(t[3]), captured=int(t[5]), nv=int(t[7]), numvert=int(t[9]), numtri=int(t[11]))
    v = list(map(int, t[13:]))
    d["tris"] = [tuple(v[i:i + 3]) for i in range(0, len(v), 3)]
    return d


def run_index(cx, exe, drv, rng):
    ext, rev = index_cases(rng, cx)
    lines, mlines, meta = [], [], {}
    for c in ext:
        lines.append("EXT %s %d %d %s %d %s" % (c["id"], c["nd"], c["cone"], fmt(c["twist"]), len(c["sizes"]), " ".join(map(str, c["sizes"]))))
        mlines.append("EXT %s %d %d %d %s" % (c["id"], c["nd"], c["cone"], len(c["sizes"]), " ".join(map(str, c["sizes"]))))
        meta[c["id"]] = c
    for c in rev:
        flags = [clip_flags(p) for p in c["polys"]]
        flags = [f for f in flags if f is not None]
        deg = min(c["deg"], 360.0)
        full = deg == 360.0
        if c["seg"] > 2:
            nd = c["seg"]
        else:
            radius = max([0.0] + [x for p in c["polys"] for x, _ in p])
            nd = max(1, int(model_circ(*py_circ(radius)) * deg / 360))
        c["nd"], c["full"], c["flags"] = nd, full, flags
        lines.append("REV %s %d %s %s" % (c["id"], c["seg"], fmt(c["deg"]), polys_text(c["polys"])))
        if flags and nd >= 1:
            mlines.append("REV %s %d %d %d %s" % (c["id"], nd, int(full), len(flags),
                                                 " ".join("%d " % len(f) + " ".join(str(int(b)) for b in f) for f in flags)))
        meta[c["id"]] = c
    kl = lambda l: l.split()[1]
    ko = lambda l: l.split()[1] if l[:3] in ("EXT", "REV") else None
    out, crashes = vp.run_cases(exe, lines, kl, ko, timeout=150)
    for cl, rc, err in crashes:
        cx.violation("constructor-crash", "Extrude/Revolve crashed (rc=%s): %s" % (rc, err[-200:]), {"case": cl})
    rc, mout, merr = vp.sh2([drv], input="\n".join(mlines) + "\n", timeout=600)
    if rc != 0:
        cx.broke("corr:C17/model-driver", "driver exited %d: %s" % (rc, merr[-300:]))
    model = {}
    for l in mout.splitlines():
        t = l.split(" | ")[0].split()
        v = list(map(int, t[3:]))
        model[t[1]] = (int(t[2]), [tuple(v[i:i + 3]) for i in range(0, len(v), 3)])
    impl = {}
    for l in out.splitlines():
        if l[:3] in ("EXT", "REV"):
            d = parse_dump(l)
            impl[d["id"]] = d
    # oracle on every implementation list: boundary chain 0 (every directed edge matched by its reverse) with indices in range
    clines = ["CLOSED %s %d %s" % (i, d["nv"], " ".join("%d %d %d" % t for t in d["tris"])) for i, d in impl.items() if d["captured"] and d["tris"]]
    rc, cout, cerr = vp.sh2([drv], input="\n".join(clines) + "\n", timeout=600)
    closed = {l.split()[1]: l.split()[2] == "1" for l in cout.splitlines() if l.startswith("CLOSED")}
    mism, nontriv, dist = 0, 0, {"extrude": 0, "extrude_cone": 0, "extrude_multi": 0, "revolve_full": 0, "revolve_partial": 0, "revolve_axis_verts": 0}
    for i, c in meta.items():
        d = impl.get(i)
        if d is None:
            cx.broke("corr:C17/index#%s" % i, "no output from the implementation")
            continue
        isext = i.startswith("e")
        if isext:
            dist["extrude_cone" if c["cone"] else "extrude"] += 1
            dist["extrude_multi"] += int(len(c["sizes"]) > 1)
        else:
            dist["revolve_full" if c["full"] else "revolve_partial"] += 1
            dist["revolve_axis_verts"] += int(any(not b for f in c["flags"] for b in f))
        replay = {"case": next(l for l in lines if l.split()[1] == i), "impl": d["tris"][:60], "status": d["status"]}
        if i not in model:
            continue
        nv, sides = model[i]
        # (the pipeline after CreateHalfedges may drop unreferenced vertices and, in Revolve, CleanupTopology duplicates pinched
        #  axis vertices: the post-pipeline vertex count is only bounded by nv + #axis vertices)
        grow = 0 if isext else sum(1 for f in c["flags"] for b in f if not b)
        ok_oracle = d["status"] == 0 and closed.get(i, False) and 0 < d["numtri"] <= len(d["tris"]) and d["numvert"] <= d["nv"] + grow
        if not ok_oracle:
            cx.violation(("extrude" if isext else "revolve") + "-index-not-closed",
                         "%s: triVerts handed to CreateHalfedges is not a closed chain over its vertices or the result was "
                         "rejected (status %d, closed %s, numtri %d/%d, verts %d/%d)" % (
                             "Extrude" if isext else "Revolve", d["status"], closed.get(i), d["numtri"], len(d["tris"]), d["numvert"], d["nv"]), replay)
        if d["nv"] != nv or d["tris"][:len(sides)] != sides:
            mism += 1
            if ok_oracle and mism <= 3:
                cx.broke("corr:C17/%s#%s" % ("ext_sides" if isext else "rev_polys", i),
                         "model and implementation differ: nv %d/%d impl=%s model=%s" % (d["nv"], nv, d["tris"][:12], sides[:12]))
        else:
            nontriv += 1
    cx.cov["index"] = {"cases": len(meta), "agree": nontriv, "mismatch": mism, "distribution": dist}
    cx.sample({"case": lines[5], "impl": out.splitlines()[5][:200] if out else ""})
    return len(meta), nontriv


# =========================================================== segments & sind
def run_seg(cx, exe, drv, rng):
    cases = []
    settings = [(-1, -1, -1), (5.0, -1, -1), (-1, 0.1, -1), (-1, -1, 7), (-1, -1, 2), (-1, -1, 0), (0.0, 0.0, -1), (37.0, 3.0, -1),
                (1.0, 0.01, -1), (360.0, -1, -1), (400.0, 1.0, -1), (-5.0, -2.0, -3), (10.0, 1.0, 3)]
    radii = [0.0, 0.1, 0.5, 1.0, 2.0, 3.0, 10.0, 100.0, -4.0, 1e6, 0.6366197723675814, 1e-9]
    for s in settings:
        for r in radii:
            cases.append((s, r))
    for _ in range(cx.pick(200, 3000)):
        cases.append(((rng.choice([-1, rng.uniform(0.5, 90)]), rng.choice([-1, rng.uniform(0.01, 5)]), rng.choice([-1, -1, rng.randrange(0, 40)])),
                      rng.uniform(0, 50)))
    lines, mlines, exp = [], [], {}
    for k, (s, r) in enumerate(cases):
        angle = s[0] if (s[0] != -1 and s[0] > 0) else 10.0
        length = s[1] if (s[1] != -1 and s[1] > 0) else 1.0
        expl = s[2] if (s[2] != -1 and not (s[2] < 3 and s[2] != 0)) else 0
        e, m = py_circ(r, angle, length, expl)
        lines.append("SEG s%d %s %s %d %s" % (k, fmt(s[0]) if s[0] != -1 else "-1", fmt(s[1]) if s[1] != -1 else "-1", s[2], fmt(r)))
        mlines.append("SEG s%d %d %d 0" % (k, e, m))
        e0, m0 = py_circ(r)
        mlines.append("SEG t%d %d %d 0" % (k, e0, m0))
    rc, out, err = vp.sh2([exe], input="\n".join(lines) + "\n", timeout=300)
    rc2, mout, merr = vp.sh2([drv], input="\n".join(mlines) + "\n", timeout=300)
    mod = {l.split()[1]: int(l.split()[2]) for l in mout.splitlines() if l.startswith("SEG")}
    bad = 0
    for l in out.splitlines():
        if not l.startswith("SEG"):
            continue
        t = l.split()
        k = t[1][1:]
        got, got0 = int(t[2]), int(t[3])
        if got != mod.get("s" + k) or got0 != mod.get("t" + k):
            bad += 1
            s, r = cases[int(k)]
            # oracle = the documented rule itself
            cx.violation("circular-segments-rule", "GetCircularSegments(%r) with settings %r = %d (after reset %d); documented rule gives %s / %s" % (
                r, s, got, got0, mod.get("s" + k), mod.get("t" + k)), {"settings": s, "radius": r, "got": got, "after_reset": got0})
    if rc != 0 or rc2 != 0 or len(mod) != 2 * len(cases):
        cx.broke("corr:C17/circ_segments", "harness/driver failed: %s %s" % (err[-200:], merr[-200:]))
    cx.cov["segments"] = {"cases": len(cases), "mismatch": bad}
    return len(cases)


def run_sind(cx, exe, rng):
    xs = [90.0 * k for k in range(-9, 10)] + [15.0 * k for k in range(-30, 31)] + [0.5, -0.5, 1e-30, -1e-30, 44.99999999999999, 45.0,
          45.00000000000001, 135.0, 225.0, 1e10, 123456.789, 720.0, 3600.0, 90.0 * 2 ** 40, -0.0]
    xs += [rng.uniform(-1000, 1000) for _ in range(cx.pick(300, 600))]
    xs += [float(rng.randrange(-2000, 2000)) for _ in range(cx.pick(200, 300))]
    lines = ["SIND x%d %s" % (i, float(x).hex()) for i, x in enumerate(xs)]
    rc, out, err = vp.sh2([exe], input="\n".join(lines) + "\n", timeout=300)
    rows = []
    for l in out.splitlines():
        if l.startswith("SIND"):
            t = l.split()
            rows.append((int(t[1][1:]), t[2], t[3], t[4]))
    if rc != 0 or len(rows) != len(xs):
        cx.broke("corr:C17/sind-harness", "harness failed: %s" % err[-200:])
        return 0
    # spec oracle: independent libm
    for i, hx, hs, hc in rows:
        x = xs[i]
        s, c = float.fromhex(hs), float.fromhex(hc)
        if abs(x) <= 1e6:
            es, ec = math.sin(math.radians(x)), math.cos(math.radians(x))
            if x == round(x) and x % 90 == 0:
                k = int(round(x)) // 90
                es, ec = [0.0, 1.0, 0.0, -1.0][k % 4], [1.0, 0.0, -1.0, 0.0][k % 4]
                if s != es or c != ec:
                    cx.violation("sind-multiple-of-90-inexact", "sind(%r)=%r cosd=%r, expected exactly %r %r" % (x, s, c, es, ec), {"x": x, "sind": hs, "cosd": hc})
                    continue
            if abs(s - es) > 1e-9 or abs(c - ec) > 1e-9:
                cx.violation("sind-wrong-value", "sind(%r)=%r cosd(%r)=%r but sin/cos of the angle are %r %r" % (x, s, x, c, es, ec), {"x": x, "sind": hs, "cosd": hc})

    def lit(h):
        if "nan" in h:
            return "nan"
        if "inf" in h:
            return "neg_infinity" if h.startswith("-") else "infinity"
        return "(%s)" % h
    d = os.path.join(vp.BUILD, "c17")
    os.makedirs(d, exist_ok=True)
    body = ";\n ".join("(%s, %s, %s)" % (lit(a), lit(b), lit(c)) for _, a, b, c in rows)
    src = ("From Coq Require Import ZArith Floats List Bool.\nFrom MV Require Import Geo.CtorFloatDefs.\nImport ListNotations.\n"
           "Local Open Scope float_scope.\nDefinition cases : list (float * float * float) := [\n %s].\n"
           "Definition same (a b : float) : bool := ((a =? b) && (1 / a =? 1 / b)) || (is_nan a && is_nan b).\n"
           "Definition bad := filter (fun t : float * float * float => let '(x, s, c) := t in negb (same (sind x) s && same (cosd x) c)) cases.\n"
           "Eval vm_compute in (length bad, map (fun t : float * float * float => fst (fst t)) bad).\n") % body
    p = os.path.join(d, "SindCases.v")
    open(p, "w").write(src)
    rc, log = vp.sh(["coqc", "-Q", vp.COQ, "MV", "-w", "-all", p], cwd=d, timeout=600)
    m = re.search(r"=\s*\((\d+)%nat,\s*(.*?)\)\s*:", log, flags=re.S)
    if rc != 0 or not m:
        cx.broke("corr:C17/sind-model", "vm_compute comparison did not run: %s" % log[-400:])
        return 0
    nbad = int(m.group(1))
    cx.obligation("corr:C17/sind bit patterns (PrimFloat model = implementation on %d inputs)" % len(rows), nbad == 0,
                  "%d inputs where the PrimFloat port of sind/cosd and the implementation differ bitwise: %s" % (nbad, " ".join(m.group(2).split())[:300]))
    cx.cov["sind"] = {"cases": len(rows), "bitwise_mismatch": nbad}
    return len(rows)


# =========================================================== geometry oracle
def geo_cases(rng, cx):
    C = []

    def add(base, pred, band, ops=(), vol=None, invalid=False, tag="", lvl_tol=None, size=1.0):
        C.append(dict(id="g%d" % len(C), base=base, pred=pred, band=band, ops=list(ops), vol=vol, invalid=invalid, tag=tag, lvl_tol=lvl_tol, size=size))

    def rand_ops():
        ops = []
        for _ in range(rng.randrange(1, 5)):
            k = rng.choice("TRSMXW")
            if k == "T":
                ops.append(("T", rng.uniform(-3, 3), rng.uniform(-3, 3), rng.uniform(-3, 3)))
            elif k == "R":
                ops.append(("R", rng.choice([0.0, 90.0, 200.0, round(rng.uniform(-360, 360), 1), round(rng.uniform(-360, 360), 1)]), round(rng.uniform(-180, 180), 1),
                            rng.choice([135.0, 225.0, round(rng.uniform(-720, 720), 1), round(rng.uniform(-720, 720), 1)])))
            elif k == "S":
                ops.append(("S", rng.choice([1.0, -1.0, 2.0, 0.5]), rng.uniform(0.5, 2), rng.choice([1.0, -1.5, 3.0])))
            elif k == "M":
                if rng.random() < 0.5:
                    ops.append(("M", round(rng.uniform(-2, 2), 2) or 1.0, round(rng.uniform(-2, 2), 2), round(rng.uniform(-2, 2), 2)))
                else:
                    ops.append(("M", rng.choice([1.0, 0.0, 0.3]), rng.choice([0.0, 1.0, -2.0]), rng.choice([0.0, 1.0, 0.7]) or 1.0))
            elif k == "X":
                while True:
                    m = [rng.uniform(-2, 2) for _ in range(12)]
                    M = [[m[3 * c + r] for c in range(3)] for r in range(3)]
                    if abs(det3(M)) > 0.3:
                        break
                ops.append(("X",) + tuple(round(x, 3) for x in m))
            else:
                ops.append(("W", rng.randrange(2)))
        return ops

    # --- cube
    for center in (0, 1):
        for _ in range(cx.pick(3, 12)):
            s = [rng.choice([1.0, 2.0, 0.5, round(rng.uniform(0.1, 4), 2)]) for _ in range(3)]
            lo = [-x / 2 if center else 0.0 for x in s]
            hi = [x / 2 if center else x for x in s]
            pred = (lambda lo, hi: lambda p: all(lo[i] < p[i] < hi[i] for i in range(3)))(lo, hi)
            add("CUBE %s %s %s %d" % (fmt(s[0]), fmt(s[1]), fmt(s[2]), center), pred, 1e-9 * max(s), rand_ops() if rng.random() < 0.7 else (),
                vol=s[0] * s[1] * s[2], tag="cube", size=max(s))
    # --- tetrahedron
    tet = lambda p: min(p[0] + p[1] + p[2], -p[0] - p[1] + p[2], -p[0] + p[1] - p[2], p[0] - p[1] - p[2]) > -1
    for _ in range(cx.pick(3, 10)):
        add("TET", tet, 1e-9, rand_ops() if rng.random() < 0.7 else (), vol=8.0 / 3.0, tag="tetrahedron", size=1.0)
    # --- sphere
    for _ in range(cx.pick(5, 20)):
        r = rng.choice([1.0, 0.5, round(rng.uniform(0.2, 5), 2)])
        seg = rng.choice([0, 3, 4, 5, 8, 12, 13, 16])
        n = (seg + 3) // 4 if seg > 0 else model_circ(*py_circ(r)) // 4
        band = r * (1 - math.cos(1.3 * (math.pi / 2) / n)) + 1e-9 * r
        add("SPH %s %d" % (fmt(r), seg), (lambda r: lambda p: p[0] ** 2 + p[1] ** 2 + p[2] ** 2 < r * r)(r), band,
            rand_ops() if rng.random() < 0.5 else (), tag="sphere", size=r)
    # --- cylinder / frustum / cones
    cyl_strata = [(r, c) for r in ("apexbottom", "apextop", "frustum_up", "frustum_down", "neg", "equal") for c in (0, 1)]
    for k in range(cx.pick(14, 40)):
        h = round(rng.uniform(0.5, 3), 2)
        kind, center = cyl_strata[k] if k < len(cyl_strata) else (rng.choice(["apexbottom", "apextop", "frustum_up", "frustum_down", "neg", "equal"]), rng.randrange(2))
        a_, b_ = sorted([round(rng.uniform(0.2, 1.0), 2), round(rng.uniform(1.1, 2.2), 2)])
        rl, rh = {"apexbottom": (0.0, b_), "apextop": (b_, 0.0), "frustum_up": (a_, b_), "frustum_down": (b_, a_), "neg": (a_, -1.0), "equal": (b_, b_)}[kind]
        seg = rng.choice([0, 3, 4, 5, 7, 12, 16])
        rhe = rh if rh >= 0 else rl
        n = seg if seg > 2 else model_circ(*py_circ(max(rl, rhe)))
        z0 = -h / 2 if center else 0.0

        def pred(p, h=h, rl=rl, rhe=rhe, z0=z0, n=n):
            a = (p[2] - z0) / h
            if not (0 < a < 1):
                return False
            R = rl + (rhe - rl) * a
            # regular n-gon with a vertex on +x, circumradius R
            th = math.atan2(p[1], p[0]) % (2 * math.pi / n)
            rho = math.hypot(p[0], p[1])
            return rho * math.cos(th - math.pi / n) < R * math.cos(math.pi / n)
        add("CYL %s %s %s %d %d" % (fmt(h), fmt(rl), fmt(rh), seg, center), pred, 1e-9 * max(h, rl, rhe),
            rand_ops() if rng.random() < 0.4 else (), vol=None, tag=("cylinder_" if rl and rhe else "cone_") + kind, size=max(h, rl, rhe))
        ring = [(math.cos(2 * math.pi * i / n), math.sin(2 * math.pi * i / n)) for i in range(n)]
        C[-1]["verts"] = ([(rl * x, rl * y, z0) for x, y in ring] if rl else [(0.0, 0.0, z0)]) + \
                         ([(rhe * x, rhe * y, z0 + h) for x, y in ring] if rhe else [(0.0, 0.0, z0 + h)])
    # --- extrude: (twist, scaleTop.x, scaleTop.y, nDivisions, height) drawn JOINTLY; documented semantics
    # (src/constructors.cpp doc comment: "Note that scale is applied after twist"): the vertex of level i is
    #   S(alpha) * R(alpha*twist) * p,  z = height*alpha,  alpha = i/(nDivisions+1),  S = diag(lerp(1, max(scaleTop,0), alpha))
    strata = [("tw", "aniso"), ("tw", "aniso"), ("tw", "uni"), ("0", "aniso"), ("0", "one"), ("tw", "cone"), ("tw", "zerox"), ("tw", "zeroy"),
              ("tw", "neg"), ("0", "cone")]
    for k in range(cx.pick(14, 60)):
        st = strata[k] if k < len(strata) else (rng.choice(["tw", "tw", "0"]), rng.choice(["aniso", "aniso", "uni", "one", "cone", "zerox", "zeroy"]))
        n = rng.randrange(3, 9)
        polys = [star(rng, n, 2.0, rng.choice([2.0, 1.0, 1.4]))]
        if rng.random() < 0.25:
            polys.append(star(rng, rng.randrange(3, 6), 0.8, 0.5, cx=5.0, cy=1.0))
        if rng.random() < 0.2:
            polys = [[(-1.0, -0.5), (1.0, -0.5), (1.0, 0.5), (-1.0, 0.5)]]
        h = round(rng.uniform(0.5, 3), 2)
        nd = rng.randrange(0, 7)
        twist = 0.0 if st[0] == "0" else rng.choice([90.0, -90.0, 45.0, 180.0, round(rng.uniform(-200, 200), 1)])
        u, v = round(rng.uniform(0.3, 2.2), 2), round(rng.uniform(0.3, 2.2), 2)
        sx, sy = {"aniso": (u, v if v != u else u + 0.5), "uni": (u, u), "one": (1.0, 1.0), "cone": (0.0, rng.choice([0.0, -2.0])),
                  "zerox": (0.0, v), "zeroy": (u, 0.0), "neg": (-1.0, v)}[st[1]]
        ex, ey = max(sx, 0.0), max(sy, 0.0)
        d = nd + 1
        cone = ex == 0.0 and ey == 0.0
        levels, verts = [], []
        for i in range(d + 1):
            al = i / float(d)
            ph = math.radians(al * twist)
            c_, s_ = math.cos(ph), math.sin(ph)
            if (al * twist) % 90 == 0:
                q = int((al * twist) // 90) % 4
                c_, s_ = [1.0, 0.0, -1.0, 0.0][q], [0.0, 1.0, 0.0, -1.0][q]
            a0, a1 = 1 + (ex - 1) * al, 1 + (ey - 1) * al
            lev = [[(a0 * (c_ * x - s_ * y), a1 * (s_ * x + c_ * y)) for x, y in pl] for pl in polys]
            levels.append(lev)
            if i == d and cone:
                verts += [(0.0, 0.0, h)] * len(polys)
            else:
                verts += [(x, y, h * al) for pl in lev for x, y in pl]
        allp = [q for lev in levels for pl in lev for q in pl]
        Rmax = max(math.hypot(x, y) for x, y in allp)
        Emax = max(math.hypot(pl[i][0] - pl[i - 1][0], pl[i][1] - pl[i - 1][1]) for lev in levels for pl in lev for i in range(len(pl)))
        Dmax = max([0.0] + [math.hypot(levels[i + 1][a][b][0] - levels[i][a][b][0], levels[i + 1][a][b][1] - levels[i][a][b][1])
                            for i in range(d) for a in range(len(polys)) for b in range(len(polys[a]))])
        dphi = abs(math.radians(twist)) / d
        ds = (max(abs(ex - 1), abs(ey - 1)) / d) if (ex != ey or twist != 0.0) else 0.0
        band = 2 * (Rmax * dphi * dphi / 4 + Emax * ((dphi if twist else 0.0) + ds) / 2) + 1e-9 * Rmax
        # slices just above / below every division level: the cross-section there is the level polygon up to t*(edge + displacement)
        tt = 1.0 / 64
        band2 = 1.5 * tt * (Emax + Dmax) + 1e-9 * Rmax
        extra = []
        for i in range(d + 1):
            if i == d and cone:
                continue
            for sgn in (1, -1):
                if (i == 0 and sgn < 0) or (i == d and sgn > 0):
                    continue
                z = h * (i / float(d)) + sgn * tt * h / d
                lev = levels[i]
                xs_ = [x for pl in lev for x, _ in pl]
                ys_ = [y for pl in lev for _, y in pl]
                if any(min(max(x for x, _ in pl) - min(x for x, _ in pl), max(y for _, y in pl) - min(y for _, y in pl)) < 8 * band2 for pl in lev):
                    continue      # (nearly) collapsed level polygon: the 2-D robustness test cannot see a sliver
                got = 0
                for _t in range(40):
                    if got >= 3:
                        break
                    x = round(rng.uniform(min(xs_) - 0.2, max(xs_) + 0.2) * 256) / 256
                    y = round(rng.uniform(min(ys_) - 0.2, max(ys_) + 0.2) * 256) / 256
                    ins = sum(pip(pl, x, y) for pl in lev) % 2 == 1
                    ok = True
                    for f in (1.0, 0.5, 0.25, 0.1):
                        for dx, dy in ((1, 0), (-1, 0), (0, 1), (0, -1), (.7, .7), (-.7, .7), (.7, -.7), (-.7, -.7)):
                            if (sum(pip(pl, x + f * band2 * dx, y + f * band2 * dy) for pl in lev) % 2 == 1) != ins:
                                ok = False
                    if ok:
                        extra.append(((x, y, z), 1 if ins else 0))
                        got += 1

        def pred(p, polys=polys, h=h, twist=twist, ex=ex, ey=ey):
            a = p[2] / h
            if not (0 < a < 1):
                return False
            s0, s1 = 1 + (ex - 1) * a, 1 + (ey - 1) * a
            if s0 <= 0 or s1 <= 0:
                return False
            x, y = p[0] / s0, p[1] / s1
            ph = -math.radians(twist * a)
            return sum(pip(pl, x * math.cos(ph) - y * math.sin(ph), x * math.sin(ph) + y * math.cos(ph)) for pl in polys) % 2 == 1
        ops = rand_ops() if rng.random() < 0.25 else ()
        add("EXTR %s %d %s %s %s %s" % (fmt(h), nd, fmt(twist), fmt(sx), fmt(sy), polys_text(polys)), pred, band, ops,
            tag="extrude" + ("_twist" if twist else "") + ("_aniso" if ex != ey else "") + ("_cone" if cone else ""), size=max(Rmax, 1.0))
        C[-1]["verts"] = verts
        C[-1]["extra"] = extra if not ops else []
        C[-1]["nogeneral"] = dphi > 0.7 or band > 0.5 * Rmax
    # --- revolve: (polygon kind incl. axis-crossing) x (full / partial angle) x (default / explicit segments) drawn jointly
    rev_strata = [(pk, dg, sg) for pk in ("zigzag", "crossing", "offaxis") for dg in ("full", "partial") for sg in ("default", "explicit")]
    for k in range(cx.pick(14, 48)):
        pk, dg, sg = rev_strata[k] if k < len(rev_strata) else (rng.choice(["zigzag", "crossing", "offaxis"]), rng.choice(["full", "partial"]),
                                                                rng.choice(["default", "explicit"]))
        if pk == "zigzag":
            poly = zigzag([rng.random() < 0.5 for _ in range(rng.randrange(1, 5))], rng)
        else:
            poly = star(rng, rng.randrange(3, 8), 1.5, 1.0, cx=rng.choice([0.5, 0.0, -0.3]) if pk == "crossing" else rng.choice([2.0, 2.5]))
        seg = 0 if sg == "default" else rng.choice([3, 4, 5, 6, 9, 12])
        deg = rng.choice([360.0, 500.0]) if dg == "full" else rng.choice([180.0, 90.0, 270.0, 45.0, 10.0, round(rng.uniform(5, 355), 1)])
        de = min(deg, 360.0)
        radius = max([0.0] + [x for x, _ in poly])
        nd = seg if seg > 2 else max(1, int(model_circ(*py_circ(radius)) * de / 360))
        if radius <= 0:
            continue
        dphi = math.radians(de) / nd
        band = 1.5 * radius * (1 - math.cos(dphi / 2)) + 1e-9 * max(radius, 1.0)

        def pred(p, poly=poly, de=de):
            rho = math.hypot(p[0], p[1])
            if de < 360.0:
                th = math.atan2(p[1], p[0]) % (2 * math.pi)
                if not (0 < th < math.radians(de)):
                    return False
            return pip(poly, rho, p[2])
        add("REVO %d %s %s" % (seg, fmt(deg), polys_text([poly])), pred, band, rand_ops() if rng.random() < 0.3 else (),
            tag="revolve" + ("_partial" if de < 360 else "") + ("_crossing" if min(x for x, _ in poly) < 0 else "") + ("_defaultseg" if seg == 0 else ""),
            size=max(radius, 3.0))
        cl = clip_poly(poly)
        nsl = nd if de == 360.0 else nd + 1
        ev, kinds = [], []
        for j, (x, y) in enumerate(cl):
            for sl in range(nsl):
                if sl == 0 or x > 0:
                    ph = math.radians(sl * (de / nd))
                    ev.append((x * math.cos(ph), x * math.sin(ph), y))
                    # axis vertices may be duplicated (pinched apex split by CleanupTopology); an axis vertex whose two
                    # neighbours are axis vertices too is referenced by no side triangle and may be dropped
                    kinds.append("pos" if x > 0 else ("axis_free" if cl[j - 1][0] == 0 and cl[(j + 1) % len(cl)][0] == 0 else "axis"))
        C[-1]["verts"] = ev
        C[-1]["vkinds"] = kinds
        C[-1]["nogeneral"] = dphi > 1.3
    # --- level sets
    for _ in range(cx.pick(5, 16)):
        k = rng.randrange(4)
        a, b, c = round(rng.uniform(0.6, 1.0), 2), round(rng.uniform(0.5, 0.9), 2), round(rng.uniform(0.3, 0.6), 2)
        edge = rng.choice([0.2, 0.25, 0.3])
        level = rng.choice([0.0, 0.0, 0.1, -0.1])
        tol = rng.choice([-1.0, 1e-3, 1e-5])
        if k == 3:      # keep the lens (intersection of the two balls, inset by level) at least 0.7 thick
            c = round(max(0.05, min(c, (a + b - 2 * max(level, 0.0) - 0.7) / 2)), 2)
        ball = lambda p, ctr, r: r - math.sqrt((p[0] - ctr) ** 2 + p[1] ** 2 + p[2] ** 2)
        if k == 0:
            f = lambda p, a=a: ball(p, 0.0, a)
        elif k == 1:
            f = lambda p, a=a, b=b, c=c: min(a - abs(p[0]), b - abs(p[1]), c - abs(p[2]))
        elif k == 2:
            f = lambda p, a=a, b=b, c=c: max(ball(p, -c, a), ball(p, c, b))
        else:
            f = lambda p, a=a, b=b, c=c: min(ball(p, -c, a), ball(p, c, b))
        add("LVL %d %s %s %s -2.0 2.0 %s %s %s" % (k, fmt(a), fmt(b), fmt(c), fmt(edge), fmt(level), fmt(tol)),
            (lambda f, level: lambda p: f(p) > level)(f, level), 1.75 * edge, (), tag="levelset%d" % k, lvl_tol=tol if tol > 0 else None, size=2.0)
    # --- exact rotations by multiples of 90 of integer meshes
    for _ in range(cx.pick(6, 40)):
        s = [rng.randrange(1, 6) for _ in range(3)]
        t = [rng.randrange(-4, 5) for _ in range(3)]
        r = [90 * rng.randrange(-8, 9) for _ in range(3)]
        lo = t
        hi = [t[i] + s[i] for i in range(3)]
        ops = [("T", float(t[0]), float(t[1]), float(t[2])), ("R", float(r[0]), float(r[1]), float(r[2]))]
        pred = (lambda lo, hi: lambda p: all(lo[i] < p[i] < hi[i] for i in range(3)))([0, 0, 0], s)
        C.append(dict(id="g%d" % len(C), base="CUBE %d %d %d 0" % tuple(s), pred=pred, band=1e-9, ops=ops, vol=float(s[0] * s[1] * s[2]), invalid=False,
                      tag="rot90", lvl_tol=None, size=float(max(s)), rot90=(s, t, r)))
    # --- invalid arguments
    inv = ["CUBE -1 1 1 0", "CUBE 0 0 0 1", "CUBE 1 -0.5 1 1", "CYL 0 1 1 8 0", "CYL -1 1 1 8 0", "CYL 1 -1 1 8 0", "CYL 1 0 0 8 0", "CYL 1 0 -1 8 1",
           "SPH 0 8", "SPH -1 8", "EXTR 1 0 0 1 1 0", "EXTR 0 0 0 1 1 1 3 0 0 1 0 0 1", "EXTR -1 0 0 1 1 1 3 0 0 1 0 0 1",
           "REVO 8 360 1 3 -1 0 -2 1 -3 0", "REVO 8 360 0"]
    for b in inv:
        add(b, None, 0, (), invalid=True, tag="invalid")
    return C


def run_geo(cx, exe, drv, rng):
    cases = geo_cases(rng, cx)
    lines = ["GEO %s %s%s" % (c["id"], c["base"], "".join(" ; " + op_text(o) for o in c["ops"])) for c in cases]
    kl = lambda l: l.split()[1]
    ko = lambda l: l.split()[1] if l.startswith("GEO") or l.startswith("MESH") else None
    out, crashes = vp.run_cases(exe, lines, kl, ko, timeout=900)
    for cl, rc, err in crashes:
        cx.violation("constructor-crash", "constructor/transform crashed (rc=%s): %s" % (rc, err[-200:]), {"case": cl})
    geo, mesh, dev = {}, {}, {}
    for l in out.splitlines():
        t = l.split()
        if l.startswith("GEO"):
            geo[t[1]] = dict(status=int(t[3]), empty=int(t[5]), numtri=int(t[9]), volume=float.fromhex(t[11]), basevolume=float.fromhex(t[13]))
        elif l.startswith("MESH"):
            nv, nt = int(t[3]), int(t[4])
            vs = [int(x, 16) for x in t[5:5 + 3 * nv]]
            ts = list(map(int, t[5 + 3 * nv:5 + 3 * nv + 3 * nt]))
            mesh[(t[1], t[2])] = (vs, ts)
        elif l.startswith("LVLDEV"):
            dev[t[1]] = float.fromhex(t[2])
    wl, winfo = [], {}
    dist, nontriv, npts, nvert = {}, 0, 0, 0
    for c, line in zip(cases, lines):
        g = geo.get(c["id"])
        replay = {"case": line}
        if g is None:
            cx.broke("corr:C17/geo#%s" % c["id"], "no output for %s" % line[:200])
            continue
        dist[c["tag"]] = dist.get(c["tag"], 0) + 1
        if c["invalid"]:
            if g["status"] != INVALID or not g["empty"]:
                cx.violation("invalid-arguments-not-rejected", "invalid arguments gave status %d empty %d (expected InvalidConstruction, empty): %s" % (
                    g["status"], g["empty"], c["base"]), replay)
            else:
                nontriv += 1
            continue
        if g["status"] != 0 or g["empty"]:
            cx.violation("valid-arguments-rejected-or-empty", "valid arguments gave status %d empty %d: %s" % (g["status"], g["empty"], line[:200]), replay)
            continue
        stage = "final" if c["ops"] else "base"
        if (c["id"], stage) not in mesh or (c["ops"] and (c["id"], "base") not in mesh):
            cx.broke("corr:C17/geo#%s" % c["id"], "mesh output missing for %s" % line[:200])
            continue
        vs, ts = mesh[(c["id"], stage)]
        fr = [bits2frac(u) for u in vs]
        if any(f is None for f in fr):
            cx.violation("non-finite-vertex", "output has a non-finite vertex: %s" % line[:200], replay)
            continue
        # vertex level: every vertex of the constructor's mesh is the documented image of an input vertex (and vice versa)
        bvs0 = mesh[(c["id"], "base")][0]
        bfl = [struct.unpack("<d", struct.pack("<Q", u))[0] for u in bvs0]
        bpts = [tuple(bfl[i:i + 3]) for i in range(0, len(bfl), 3)]
        if c.get("verts") is not None and all(x == x for x in bfl):
            tolv = 1e-12 * max(1.0, c["size"])
            # every output vertex is the documented image of an input vertex, one-to-one; every image occurs.  Revolve only:
            # an axis image may occur several times (pinched apex duplicated) and an axis image no side triangle refers to may be absent
            nvert += 1
            kinds = c.get("vkinds") or ["pos"] * len(c["verts"])
            strict = [e for e, k in zip(c["verts"], kinds) if k == "pos"]
            axis = [(e, k) for e, k in zip(c["verts"], kinds) if k != "pos"]
            used = [False] * len(bpts)
            missing = []
            for e in strict:
                hit = next((k for k, g in enumerate(bpts) if not used[k] and max(abs(g[t] - e[t]) for t in range(3)) <= tolv), -1)
                if hit < 0:
                    missing.append(e)
                else:
                    used[hit] = True
            hitaxis = [0] * len(axis)
            offending = []
            for k, g in enumerate(bpts):
                if used[k]:
                    continue
                h = next((a for a, (e, _) in enumerate(axis) if max(abs(g[t] - e[t]) for t in range(3)) <= tolv), -1)
                if h < 0:
                    offending.append(g)
                else:
                    hitaxis[h] += 1
            # (coincident axis images, e.g. the duplicate the clipping inserts next to an on-axis input vertex, count together)
            for a, (e, kd) in enumerate(axis):
                if kd == "axis" and hitaxis[a] == 0 and not any(hitaxis[b2] for b2, (e2, _) in enumerate(axis)
                                                                  if max(abs(e2[t] - e[t]) for t in range(3)) <= tolv):
                    missing.append(e)
            if missing or offending:
                cx.violation("vertices-differ-from-documented-" + c["tag"].split("_")[0],
                             "%d of %d output vertices are not the documented image of an input vertex within %g and %d of %d documented images "
                             "do not occur (first offending %r, first missing %r): %s" % (
                                 len(offending), len(bpts), tolv, len(missing), len(c["verts"]), (offending or [None])[0], (missing or [None])[0], line[:160]),
                             dict(replay, offending=offending[:8], missing=missing[:8], documented=c["verts"][:40], output_vertices=bpts[:40]))
        # transform chain
        T = IDENT
        for o in c["ops"]:
            T = mat_mul(op_matrix(o), T)
        fro = math.sqrt(sum(x * x for r in T[0] for x in r))
        band = c["band"] * max(1.0, fro) + 1e-9 * (1 + max(abs(x) for x in T[1]))
        pred = (lambda T, base: lambda p: base(inv_apply(T, p)))(T, c["pred"]) if c["ops"] else c["pred"]
        xs = [float(f) for f in fr]
        if c["ops"] and all(x == x for x in bfl):
            # the transformed mesh's vertices are the documented point map (ops applied in call order) of the base vertices
            fpts = [tuple(xs[i:i + 3]) for i in range(0, len(xs), 3)]
            img = [tuple(sum(T[0][r][k] * q[k] for k in range(3)) + T[1][r] for r in range(3)) for q in bpts]
            tolt = 1e-11 * max(1.0, fro, max(abs(x) for x in T[1])) * max(1.0, c["size"])
            miss, first = match_verts(img, fpts, tolt)
            nvert += 1
            if miss or len(fpts) != len(img):
                cx.violation("transform-vertices-differ-from-point-map",
                             "%d of %d base vertices are not mapped to an output vertex by the documented composition of %s (tol %g, first %r): %s" % (
                                 miss, len(img), [o[0] for o in c["ops"]], tolt, first, line[:160]), dict(replay, missing=first))
        lo = [min(xs[i::3]) for i in range(3)]
        hi = [max(xs[i::3]) for i in range(3)]
        ext = max(hi[i] - lo[i] for i in range(3)) or 1.0
        step = 2.0 ** (math.floor(math.log2(ext)) - 9)
        pts, exp = [], []
        tries = 0
        want = cx.pick(40, 120)
        if c.get("nogeneral"):
            want = 0
        for q, e in c.get("extra") or []:
            pts.append(q)
            exp.append(e)
            want += 1
        while len(pts) < want and tries < want * 12:
            tries += 1
            p = tuple(round((lo[i] - 0.1 * ext + rng.random() * 1.2 * (hi[i] - lo[i] + 1e-12) ) / step) * step for i in range(3))
            if tries % 3 == 0:      # aim near the surface: a vertex plus a small offset
                v = rng.randrange(len(xs) // 3)
                p = tuple(round((xs[3 * v + i] + rng.uniform(-1, 1) * (band * 3 + ext * 0.03)) / step) * step for i in range(3))
            r = robust(pred, p, band)
            if r is None:
                continue
            pts.append(p)
            exp.append(1 if r else 0)
        den = 1
        for f in fr:
            den = max(den, f.denominator)
        pf = [Fraction(*float(x).as_integer_ratio()) for p in pts for x in p]
        for f in pf:
            den = max(den, f.denominator)
        iv = [int(f * den) for f in fr]
        ip = [int(f * den) for f in pf]
        tri = []
        for k in range(0, len(ts), 3):
            for j in range(3):
                tri += iv[3 * ts[k + j]:3 * ts[k + j] + 3]
        wl.append("WIND %s %d %d %s %s" % (c["id"], len(ts) // 3, len(pts), " ".join(map(hexz, tri)), " ".join(map(hexz, ip))))
        winfo[c["id"]] = (c, line, pts, exp, den, g, T, len(ts) // 3)
        if c["ops"]:
            bvs, bts = mesh[(c["id"], "base")]
            bfr = [bits2frac(u) for u in bvs]
            if all(f is not None for f in bfr):
                bden = max([1] + [f.denominator for f in bfr])
                biv = [int(f * bden) for f in bfr]
                btri = []
                for k in range(0, len(bts), 3):
                    for j in range(3):
                        btri += biv[3 * bts[k + j]:3 * bts[k + j] + 3]
                wl.append("WIND %s_b %d 0 %s" % (c["id"], len(bts) // 3, " ".join(map(hexz, btri))))
                winfo[c["id"] + "_b"] = bden
    rc, wout, werr = vp.sh2([drv], input="\n".join(wl) + "\n", timeout=1500)
    if rc != 0:
        cx.broke("corr:C17/winding-driver", "driver exited %d: %s" % (rc, werr[-300:]))
    res = {}
    for l in wout.splitlines():
        t = l.split()
        if t and t[0] == "WIND":
            res[t[1]] = (int(t[2], 16), list(map(int, t[3:])))
    rot_lines, rot_info = [], {}
    for cid, info in winfo.items():
        if cid.endswith("_b"):
            continue
        c, line, pts, exp, den, g, T, ntri = info
        replay = {"case": line}
        if cid not in res:
            cx.broke("corr:C17/winding#%s" % cid, "no classification output")
            continue
        vol6, ws = res[cid]
        npts += len(pts)
        wrong = [(pts[i], ws[i], exp[i]) for i in range(len(pts)) if ws[i] != exp[i]]
        if wrong:
            p, w, e = wrong[0]
            cx.violation("solid-differs-from-analytic-" + c["tag"].split("_")[0],
                         "%d of %d sample points outside the faceting band are classified differently from the analytic solid "
                         "(first: point %r winding %d expected %d): %s" % (len(wrong), len(pts), p, w, e, line[:160]),
                         dict(replay, point=p, winding=w, expected=e, band=c["band"]))
        elif any(exp) and not all(exp):
            nontriv += 1
        vol = Fraction(vol6, 6 * den ** 3)
        if vol <= 0 and not c.get("nogeneral"):   # (large twist per division may self-intersect: documented as the caller's responsibility)
            cx.violation("volume-not-positive", "signed volume %s <= 0 (orientation not outward): %s" % (float(vol), line[:160]), replay)
        if c["ops"] and (cid + "_b") in res:
            bvol = Fraction(res[cid + "_b"][0], 6 * winfo[cid + "_b"] ** 3)
            dt = abs(det3(T[0]))
            if abs(float(vol) - dt * float(bvol)) > 1e-9 * max(1.0, dt * abs(float(bvol))):
                cx.violation("volume-not-scaled-by-det", "volume %r != |det| %r * base volume %r: %s" % (float(vol), dt, float(bvol), line[:160]), replay)
        if c["vol"] is not None and not c["ops"]:
            if abs(float(vol) - c["vol"]) > 1e-9 * max(1.0, c["vol"]):
                cx.violation("volume-differs-from-analytic", "volume %r, analytic %r: %s" % (float(vol), c["vol"], line[:160]), replay)
        if c["lvl_tol"] is not None and cid in dev and dev[cid] > c["lvl_tol"] * (1 + 1e-6) + 1e-12:
            cx.violation("levelset-vertex-outside-tolerance", "max |sdf(v)-level| = %r > tolerance %r: %s" % (dev[cid], c["lvl_tol"], line[:160]), replay)
        if c.get("rot90"):
            s, t, r = c["rot90"]
            q = [((a // 90) % 4) for a in r]
            cs = [[1, 0, -1, 0][k] for k in q]
            sn = [[0, 1, 0, -1][k] for k in q]
            corners = [(t[0] + (s[0] if i & 4 else 0), t[1] + (s[1] if i & 2 else 0), t[2] + (s[2] if i & 1 else 0)) for i in range(8)]
            rot_lines.append("ROT %s %d %d %d %d %d %d %s" % (cid, cs[0], sn[0], cs[1], sn[1], cs[2], sn[2], " ".join("%d %d %d" % p for p in corners)))
            vs, _ = mesh[(cid, "final")]
            rot_info[cid] = (sorted(tuple(vs[i:i + 3]) for i in range(0, len(vs), 3)), line)
    if rot_lines:
        rc, rout, rerr = vp.sh2([drv], input="\n".join(rot_lines) + "\n", timeout=300)
        for l in rout.splitlines():
            t = l.split()
            v = list(map(int, t[2:]))
            want = sorted(tuple(d2bits(float(x)) & 0x7fffffffffffffff if x == 0 else d2bits(float(x)) for x in v[i:i + 3]) for i in range(0, len(v), 3))
            got, line = rot_info[t[1]]
            got = sorted(tuple(u & 0x7fffffffffffffff if (u & 0x7fffffffffffffff) == 0 else u for u in p) for p in got)
            if got != want:
                cx.violation("rotation-by-90-not-exact", "Rotate by multiples of 90 degrees of an integer box is not bit-exact: %s" % line[:160],
                             {"case": line, "got": [[struct.unpack('<d', struct.pack('<Q', u))[0] for u in p] for p in got][:8]})
            else:
                nontriv += 1
    cx.cov["geometry"] = {"cases": len(cases), "sample_points_classified": npts, "vertex_level_checks": nvert, "distribution": dist}
    cx.sample({"case": lines[0][:300], "result": geo.get(cases[0]["id"])})
    return len(cases), nontriv


def run_findings2(cx, exe2):
    lines = ["GEO n1 REVO 5 -90.0 1 3 1.0 0.0 2.0 1.0 1.0 2.0", "GEO n2 REVO 5 0.0 1 3 1.0 0.0 2.0 1.0 1.0 2.0"]
    rc, out, err = vp.sh2([exe2], input="\n".join(lines) + "\n", timeout=120)
    for l in out.splitlines():
        t = l.split()
        if l.startswith("GEO") and len(t) > 11:
            status, empty, vol = int(t[3]), int(t[5]), float.fromhex(t[11])
            if not (status == INVALID and empty) and vol <= 0:
                cx.violation("revolve-nonpositive-angle-not-rejected",
                             "Revolve with revolveDegrees <= 0 is neither rejected nor normalised: status %d, empty %d, volume %r "
                             "(negative = inside-out surface)" % (status, empty, vol), {"case": lines[0 if t[1] == "n1" else 1], "volume": vol})
                break


def run_findings(cx, exe):
    """arguments the proofs force us to look at: nDivisions = 0 in Revolve, nDivisions < 0 in Extrude"""
    lines = ["REV f1 0 20.0 1 3 1.0 0.0 2.0 1.0 1.0 2.0", "EXT f2 -2 0 0.0 1 3", "EXT f3 -1 0 0.0 1 4"]
    rc, out, err = vp.sh2([exe], input="\n".join(lines) + "\n", timeout=120)
    got = {l.split()[1]: parse_dump(l) for l in out.splitlines() if l[:3] in ("EXT", "REV")}
    d = got.get("f1")
    if d is None or rc != 0:
        cx.violation("constructor-crash", "Revolve/Extrude probe crashed: %s" % err[-200:], {"cases": lines})
        return
    if d["status"] == 0 and d["numtri"] == 0:
        cx.violation("revolve-small-angle-empty",
                     "Revolve(triangle, circularSegments=0, revolveDegrees=20) returns an EMPTY manifold with status NoError: "
                     "nDivisions = GetCircularSegments(radius)*revolveDegrees/360 truncates to 0, dPhi = inf, vertices NaN",
                     {"case": lines[0], "numtri": d["numtri"], "nv": d["nv"]})
    for k in ("f2", "f3"):
        d = got.get(k)
        if d and d["status"] != INVALID and (d["numtri"] > 0 or any(x < 0 for t in d["tris"] for x in t)):
            cx.violation("extrude-negative-divisions-not-rejected",
                         "Extrude with nDivisions < 0 is not rejected: status %d, triVerts handed to CreateHalfedges %s (negative vertex indices are "
                         "out-of-bounds reads)" % (d["status"], d["tris"][:4]), {"case": lines[1 if k == "f2" else 2], "tris": d["tris"]})
            break


def run(cx):
    cx.assumptions += [
        "index models take contour sizes / axis-vertex flags only; the cap triangulation is a hypothesis (contract of C10) in extrude_closed / revolve_closed_partial",
        "coordinates: not proved; decided on sampled points by the extracted exact winding number against floating-point analytic predicates, points "
        "kept only when the predicate is constant on 26 directions at the band distance (chord error / grid cell / 1e-9)",
        "sind/cosd: PrimFloat port covers the |xr| <= pi/4 kernels sind reaches; remquo modelled by exact dyadic arithmetic (glibc low-3-bit quotient)",
        "GetCircularSegments: integer rule proved; the floating-point part (360/angle, 2 r pi / length, fmin, +3, truncation) is replicated in Python",
        "flip_on_negative_det_partial: no translation; revolve_closed_partial: cap contract stated on the emitted (mapped) triangles",
    ]
    import importlib.util
    spec = importlib.util.spec_from_file_location("c17_shapes", os.path.join(vp.ROOT, "translate", "c17_shapes.py"))
    tr = importlib.util.module_from_spec(spec)
    spec.loader.exec_module(tr)
    try:
        info = tr.emit(vp.REPO, os.path.join(vp.COQ, "Gen", "C17Shapes.v"))
        cx.cov["translated_tables"] = info
        cx.obligation("translate:c17_shapes (impl.cpp shape tables, sdf.cpp tetTri0/tetTri1, Extrude 2x2 map)", True)
    except Exception as e:
        cx.obligation("translate:c17_shapes (impl.cpp shape tables, sdf.cpp tetTri0/tetTri1, Extrude 2x2 map)", False, "translator failed: %s" % e)
    cx.prove()
    mls = vp.coq_extract("ExtractC17", ["c17_model.ml"])
    drv = vp.ocaml_build("c17_driver", mls + [os.path.join(vp.ROOT, "extract/c17_driver.ml")])
    exe = vp.build_harness("c17_index", "seq", link_lib=True)
    exe2 = vp.build_harness("c17_shapes", "seq", link_lib=True)
    rng = random.Random(cx.seed * 7919 + 17)
    cx.log("built model driver and harnesses")
    n1, t1 = run_index(cx, exe, drv, rng)
    cx.log("index correspondence: %d cases, %d agree" % (n1, t1))
    n2 = run_seg(cx, exe, drv, rng)
    n3 = run_sind(cx, exe, rng)
    cx.log("segments %d cases, sind %d cases" % (n2, n3))
    n4, t4 = run_geo(cx, exe2, drv, rng)
    cx.log("geometry oracle: %d cases, %d non-trivial" % (n4, t4))
    run_findings(cx, exe)
    run_findings2(cx, exe2)
    cx.cov.update({"evaluations": n1 + n2 + n3 + n4, "distinct_nontrivial": t1 + t4,
                   "rule": "index cases: non-trivial = model and implementation agree on a non-empty triangle list; geometry cases: non-trivial = sample "
                           "points on both sides of the surface were classified (or an invalid-argument case was rejected, or a 90-degree rotation was bit-exact)"})
