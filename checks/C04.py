"""C04 — results are bit-identical across schedules, thread counts and backends.

Two parts, reported separately in the evidence:
 (1) PROOF of the normalisation layer (coq/Par/Normalise*.v, Properties_C04.v)
     + translator translate/c04_idioms.py -> coq/Gen/Idioms.v and the
     obligation all_combines_normalised;
 (2) EXPLORATION of the end-to-end claim: byte hashes of GetMeshGL64 /
     ToPolygons / Triangulate for threshold-straddling programs under the seq
     build, the par build (real TBB, arenas of 1,2,3,5,8,16 threads x reps)
     and the sim build (seeded schedule simulator harness/verif_sched.h)."""
import os, re, sys, time, importlib.util, json
from concurrent.futures import ThreadPoolExecutor
import vp

LEVEL = "proof"
META = {
    "level": "proof",
    "technique": "Coq proof of the determinism idioms (sort-after-combine, EdgePos order, ReorderHalfedges, heap with serials, unique slots) "
                 "+ source translator checking every combine/atomic/concurrent site + hash exploration across seq/par/sim builds, arenas and seeds",
    "text": "Proved for all inputs and all schedules (Properties_C04.v, 24 theorems, no axioms; the generated table also requires every union-find whose roots reach an output to have its unite calls in a fixed order): any stable sort of any combinable outcome (arbitrary "
            "leaf->worker assignment, leaf order, combine_each order) is one list when the comparator separates the records (Intersect12_: no hypothesis, "
            "payload is a function of (edge,face)); necessity of that hypothesis by a refuted example; EdgePos::operator< strict total order given distinct "
            "collisionIds and canonical buckets for locked runs; ReorderHalfedges erases per-triangle slot rotation (unique-minimum hypothesis, shown necessary); "
            "BatchBoolean pop order unique for every heap layout; distinct-slot writes commute; composition. The translator scans src/ for every "
            "tbb::combinable/combine_each, AtomicAdd, concurrent container, mutex append and task_group (about 40 sites) and fails all_combines_normalised when a "
            "site has no recognised normalisation. The END-TO-END claim is explored, not proved: byte hashes of all MeshGL64 fields / ToPolygons / Triangulate "
            "of threshold-straddling programs must agree between seq, par (1,2,3,5,8,16 threads x reps) and sim (64/2000 seeds) builds.",
    "note": "Gaps, each split into a proved part and a dynamically tied hypothesis: (1) AppendWholeEdges slot order -> Face2Tri: AssembleHalfedges (ported) is proved "
            "slot-order independent for faces with distinct startVerts (it starts at the smallest startVert); remaining hypothesis = triangulator equivariant under idx relabelling "
            "(harness c04_tri; rotations/contour order do change triangulations, so the canonical start is load bearing); pinched faces leak (refuted example). "
            "(2) Winding03_: component map and w03 proved interleaving independent given 'winding constant per component' (harness c04_wind checks it at every vertex). "
            "(3) whole-program determinism is exploration only. "
            "Trusted: Coq kernel, the translator's regex rules, g++/TBB, FNV hash of the exported arrays. Findings made by this check: Hull (quickhull slot "
            "cursor; fixed 5855daa0), CalculateCurvature (atomic floating-point sums; fixed 2d2f6599), LevelSet (vertex/triangle cursors; known finding "
            "levelset-cursor-order, still schedule dependent).",
}

ROOT = vp.ROOT

# program id -> (kind, a, b, c, tiers, sim?, what it straddles)
PROGRAMS = [
    ("sc64", "sphcube", 64, 23, 1, "q", True, "Boolean below every threshold (2k tris)"),
    ("sc100", "sphcube", 100, 23, 1, "q", True, "Boolean, 15k halfedges > kSeqThreshold 1e4; collider > 512 leaves"),
    ("sc100i", "sphcube", 100, 41, 2, "q", True, "Intersect variant"),
    ("sc100u", "sphcube", 100, 11, 0, "q", False, "Add variant"),
    ("sc260", "sphcube", 260, 23, 1, "q", False, "101k halfedges > 1e5 (sort.cpp, impl.cpp, FlagStore n>1e5)"),
    ("ss128", "sphsph", 128, 0, 0, "q", True, "many collisions: p1q2 > kParallelThreshold 128, i12 sort"),
    ("ss420", "sphsph", 420, 0, 1, "t", False, "i12 >= 1e5 path; 260k tris"),
    ("sc420", "sphcube", 420, 23, 1, "t", False, "88k tris, 265k halfedges"),
    ("curv160", "curv", 160, 0, 0, "q", True, "CalculateCurvature, 12800 tris > 1e4"),
    ("curv64", "curv", 64, 0, 0, "q", True, "CalculateCurvature below threshold"),
    ("normals", "normals", 100, 23, 0, "q", False, "CalculateNormals on a Boolean result"),
    ("ls30", "levelset", 30, 0, 0, "q", True, "LevelSet small"),
    ("ls44", "levelset", 44, 0, 0, "q", True, "LevelSet 26k verts (parallel grid passes)"),
    ("ls64", "levelset", 64, 0, 0, "t", False, "LevelSet 56k verts"),
    ("ref3", "refine", 40, 3, 0, "q", False, "Refine(3) of a Boolean: 8.5k -> 76k tris"),
    ("smooth", "smooth", 12, 0, 0, "q", False, "SmoothOut + Refine(12): smoothing.cpp 1e4 thresholds"),
    ("reflen", "reflen", 40, 0, 0, "q", False, "RefineToLength"),
    ("batch40", "batch", 40, 1, 0, "q", True, "BatchBoolean of 40 parts: task_group + heap"),
    ("batch9", "batch", 9, 2, 0, "q", True, "BatchBoolean 9 parts"),
    ("batchsub", "batchsub", 30, 1, 0, "q", False, "BatchBoolean Subtract"),
    ("batch200", "batch", 200, 3, 0, "t", False, "BatchBoolean of 200 parts"),
    ("hull3k", "hull", 3000, 1, 1, "q", True, "Hull of 3000 points on a sphere (9k halfedges..)"),
    ("hull20k", "hull", 20000, 1, 1, "t", False, "Hull of 20000 points on a sphere"),
    ("hullin", "hull", 20000, 2, 0, "q", False, "Hull of 20000 points in a cube (few extreme)"),
    ("mink", "mink", 12, 0, 0, "q", True, "Minkowski sum, non-convex x convex (autoPolicy 100)"),
    ("minkd", "mink", 8, 0, 1, "q", False, "Minkowski difference"),
    ("decomp", "decomp", 20, 24, 0, "q", True, "Compose + Decompose (union-find labels)"),
    ("cloud", "cloud", 12000, 60, 0, "q", False, "12000 tiny tetrahedra at 60 sites via MeshGL: 48000 verts/tris with massive Morton-code ties > 1e4 (stability of the parallel merge sort decides the export order)"),
    ("cloud5k", "cloud", 5000, 20, 0, "q", True, "same, 20000 verts (just above where an unstable merge shows)"),
    ("cloudbool", "cloudbool", 12000, 60, 0, "q", False, "the cloud through a Boolean (Subtract a cube)"),
    ("farbox", "farbox", 160, 20000, 0, "q", True, "Sphere(160) + a far-away tetrahedron: 6402 verts / 12800 tris share a handful of Morton cells; then Refine(2)"),
    ("farbox400", "farbox", 400, 50000, 0, "t", False, "same with 80k tris"),
    ("cscloud", "cscloud", 6000, 30, 0, "q", False, "6000 tiny squares at 30 sites: CrossSection union, Offset, Extrude (2-D sort ties)"),
    ("tricloud", "tricloud", 6000, 30, 0, "q", False, "Triangulate 6000 tiny squares at 30 sites"),
    ("pinch", "pinch", 100, 0, 0, "q", True, "two pockets touching along an edge cut into a block (self-touching face boundaries), P > 1e4 halfedges so face slots are handed out in parallel"),
    ("pinchr", "pinch", 100, 45, 0, "q", True, "same, second operand rotated 45 degrees"),
    ("tp2k", "tetpairs", 2000, 1, 0, "q", True, "2000 pairs of tetrahedra sharing an edge AND its two vertices (even-manifold, not 2-manifold import; 48k halfedges > 1e4: DedupeEdges parallel branch)"),
    ("tp45k", "tetpairs", 45000, 1, 0, "q", False, "45000 such pairs: 270000 verts >= 2^18 (CreateHalfedges bucketed branch with AtomicAdd slots), 360000 tris > 1e5, shuffled"),
    ("tp45ks", "tetpairs", 45000, 0, 0, "t", False, "control: same solids with their own copies of the edge vertices (2-manifold)"),
    ("tp90k", "tetpairs", 90000, 1, 0, "t", False, "90000 pairs"),
    ("tp300", "tetpairs", 300, 1, 0, "q", True, "300 pairs: below every threshold"),
    ("soup64", "soup", 64, 1e-6, 4e-7, "q", True, "MeshGL64::Merge on a 2048-triangle soup (6144 jittered open vertices > kSequentialThreshold 512, clusters of ~6), then Manifold(mesh): mergeFrom/mergeTo and the export"),
    ("soup128", "soup", 128, 1e-6, 4e-7, "q", True, "same, 8192 triangles / 24576 open vertices"),
    ("soup16", "soup", 16, 1e-6, 4e-7, "q", True, "same, 384 open vertices (below 512)"),
    ("soup256", "soup", 256, 1e-6, 4e-7, "t", False, "same, 32768 triangles / 98304 open vertices"),
    ("rc60", "refcube", 60, 10, 0, "q", True, "Cube.Refine(60) + rotated/translated Cube.Refine(60): 2 x 129600 halfedges, raw result > 1e5 halfedges (FlagStore::run_par, n > 1e5) with thousands of flagged collapsible edges"),
    ("rc60s", "refcube", 60, 10, 1, "q", True, "same, Subtract"),
    ("rc60i", "refcube", 60, 7, 2, "q", False, "same, Intersect, other angle"),
    ("rc100", "refcube", 100, 10, 0, "t", False, "Cube.Refine(100) pair, Add (360000 halfedges each)"),
    ("rc100s", "refcube", 100, 10, 1, "t", False, "Cube.Refine(100) pair, Subtract"),
    ("rc100i", "refcube", 100, 10, 2, "t", False, "Cube.Refine(100) pair, Intersect"),
    ("dedupe", "dedupe", 100, 0, 0, "q", True, "MeshGL import with a 4-manifold edge, 15k halfedges > 1e4: DedupeEdges/SplitPinchedVerts par paths"),
    ("dedupe_s", "dedupe", 32, 0, 0, "q", True, "same below 1e4"),
    ("simplify", "simplify", 100, 23, 0.02, "q", False, "Simplify of a Boolean"),
    ("split", "split", 100, 31, 0, "q", False, "Split"),
    ("warp", "warp", 100, 17, 0, "q", False, "Warp then Intersect"),
    ("extrude", "extrude", 400, 8, 0, "q", True, "Extrude of a 1600-vertex comb (triangulation of a big polygon)"),
    ("revolve", "revolve", 300, 64, 0, "q", False, "Revolve"),
    ("project", "project", 100, 20, 0, "q", True, "Project/Slice: 2-D Boolean with > 1024 edges"),
    ("cscomb", "cscomb", 300, 1, 0, "q", True, "CrossSection BatchBoolean of 300 rectangles + Offset (Boolean2 > 1024 / 512 thresholds)"),
    ("cscomb_s", "cscomb", 40, 1, 0, "q", True, "same, small"),
    ("cscirc", "cscircles", 150, 1, 0, "q", True, "150 circles union, Hull, Simplify"),
    ("cscirc_t", "cscircles", 1500, 1, 0, "t", False, "1500 circles"),
    ("csxor", "csxor", 300, 0, 0, "q", False, "2-D intersect/subtract of two combs"),
    ("tri600", "tri", 600, 1, 0, "q", True, "Triangulate comb with 600 teeth + 600 holes"),
    ("tri60", "tri", 60, 0, 0, "q", True, "Triangulate small comb"),
]

# which program KIND exposes which flagged call site (one violation key per call site, whatever the program size)
KIND_KEY = {"hull": "hull-slot-cursor-order", "curv": "curvature-atomic-fp-sum", "levelset": "levelset-cursor-order"}


def load_translator():
    spec = importlib.util.spec_from_file_location("c04_idioms", os.path.join(ROOT, "translate", "c04_idioms.py"))
    m = importlib.util.module_from_spec(spec)
    spec.loader.exec_module(m)
    return m


def prog_line(p):
    return "P %s %s %s %s %s" % (p[0], p[1], p[2], p[3], p[4])


def parse(out):
    """-> {(id, rep): (hash, {field: hash}, nv, nt)}"""
    res = {}
    for l in out.splitlines():
        if not l.startswith("H "):
            continue
        head, _, tail = l.partition("|")
        t = head.split()
        fields = dict(x.split("=", 1) for x in tail.split())
        res[(t[1], int(t[2]))] = (t[3], fields, t[4], t[5])
    return res


def run_config(exe, args, lines, timeout):
    rc, out, err = vp.sh2([exe] + args, input="\n".join(lines) + "\n", timeout=timeout)
    return rc, out, err


def run(cx):
    cx.assumptions += [
        "PROVED: normalisation layer only (Properties_C04.v); the stable sort is specified (sorted + equivalent elements keep their order), so the theorems cover std::stable_sort and parallel.h's merge/radix sort provided those meet the specification (C13)",
        "NAMED GAP 1 (AppendWholeEdges slot order -> Face2Tri): PROVED that AssembleHalfedges (ported) yields the same contours (contents, order, rotation) for every slot order when the face's startVerts are distinct (it starts from the smallest startVert, not the first slot); NOT proved, tied dynamically (harness c04_tri): TriangulateIdxHalfedges is equivariant under relabelling PolyVert::idx; pinched faces (a startVert twice in one face) do leak slot order (refuted example) and are covered only by exploration",
        "parallel_merge_sort_meets_stable_spec imports C13's model of parallel.h's merge sort (Par/ParDefs.merge_sort, Par/SortModel.v); its tie to the source is C13's correspondence plus the StableMergeBounds row of the generated table (token-level check of the two bound calls in mergeRec)",
        "NAMED GAP 2 (Winding03_): PROVED on top of C13's uf_partition that the vertex->component map is interleaving independent and the w03 array too IF the kernel's winding is constant on each component; that hypothesis is geometric, NOT proved, tied dynamically (harness c04_wind evaluates Kernel02 at every vertex of every component and compares with Boolean3's arrays)",
        "hypotheses visible in the theorems: comparator separates the records (shown necessary by sort_after_combine_without_injective_key_refuted); distinct collisionIds / locked runs; unique smallest startVert per triangle (shown necessary); distinct serials",
        "edgePos / NumVert are integers in the model (finite non-NaN doubles embed order-isomorphically)",
        "EXPLORED, not proved: whole-program bit-identity; coverage is the program list in coverage.exploration",
        "translator rules are token-level regular expressions over comment-stripped sources (trusted); a site without a rule fails the obligation",
    ]
    t_all = time.time()
    # ------------------------------------------------------------ translator
    tr = load_translator()
    rows, cmps = tr.run(vp.REPO, os.path.join(vp.COQ, "Gen", "Idioms.v"))
    bad = [r for r in rows if r["norm"] in ("NotNormalised", "UnstableSort")]
    flagged = [r for r in rows if r["norm"].startswith("Flagged")]
    cx.cov["sites"] = {"total": len(rows), "by_normalisation": {}, "flagged": [
        "%s:%d %s" % (r["file"], r["line"], r["what"]) for r in flagged]}
    for r in rows:
        k = r["norm"].split(" ")[0]
        cx.cov["sites"]["by_normalisation"][k] = cx.cov["sites"]["by_normalisation"].get(k, 0) + 1
    cx.cov["sites"]["allow_list"] = sorted(set(r["norm"] for r in rows if r["norm"].startswith("Allowed")))
    cx.cov["comparators_from_source"] = cmps
    cx.obligation("all_combines_normalised", not bad and len(rows) >= 20,
                  "combine/atomic/concurrent sites without a recognised normalisation: " +
                  "; ".join("%s:%d %s -> %s (%s)" % (r["file"], r["line"], r["what"][:50], r["norm"], r["detail"][:90]) for r in bad[:6])
                  if bad else "translator found only %d sites (parse failure?)" % len(rows))
    cx.log("translator: %d sites, %d not normalised, %d flagged" % (len(rows), len(bad), len(flagged)))

    # ---------------------------------------------------------------- proofs
    cx.prove()
    cx.cov["proof_part"] = {"theorems": list(cx.cov.get("theorems", [])), "partial": ["face2tri_single_triangle_slot_order_partial"],
                            "refuted_examples": ["sort_after_combine_without_injective_key_refuted", "reorder_halfedges_without_unique_min_refuted"]}

    # ----------------------------------------------------------- exploration
    thorough = not cx.quick()
    progs = [p for p in PROGRAMS if p[5] == "q" or thorough]
    lines = [prog_line(p) for p in progs]
    sim_lines = [prog_line(p) for p in progs if p[6]]
    exe_seq = vp.build_harness("c04_det", "seq", link_lib=True)
    exe_par = vp.build_harness("c04_det", "par", link_lib=True, extra=["-DC04_PAR"])
    exe_sim, sim_note = None, None
    sched_h = os.path.join(ROOT, "harness", "verif_sched.h")
    if os.environ.get("C04_SKIP_SIM"):
        sim_note = "sim part skipped on request (C04_SKIP_SIM set; used only while testing mutants)"
    elif os.path.exists(sched_h):
        # a failing whole-library build costs minutes: remember the failure for this exact (sources, simulator) state
        marker = os.path.join(vp.BUILD, "c04_sim_fail-%s.txt" % vp.file_hash(vp.repo_sources() + [sched_h]))
        if os.path.exists(marker):
            sim_note = open(marker).read()
        else:
            try:
                exe_sim = vp.build_harness("c04_det", "sim", link_lib=True)
            except vp.BuildError as e:
                m = re.search(r"[^\n]*error:[^\n]*", str(e))
                sim_note = "sim build (harness/verif_sched.h substituted for TBB) does not compile for the whole library: " + (m.group(0) if m else str(e)[-300:]).replace("\n", " ")
                with open(marker, "w") as f:
                    f.write(sim_note)
    else:
        sim_note = "harness/verif_sched.h (C13's schedule simulator) does not exist; part (iii) skipped"
    if sim_note:
        cx.notes.append(sim_note)
        cx.log(sim_note[:200])

    reps = cx.pick(2, 5)
    threads = [1, 2, 3, 5, 8, 16]
    nseeds = cx.pick(64, 2000)
    configs = [("seq", exe_seq, [], lines)]
    for t in threads:
        configs.append(("par/threads=%d" % t, exe_par, ["threads=%d" % t, "reps=%d" % reps], lines))
    if exe_sim:
        per = cx.pick(4, 40)       # seeds per process (reps inside one process)
        base = cx.seed * 100000
        for s in range(0, nseeds, per):
            configs.append(("sim/seed=%d+%d" % (base + s, per), exe_sim, ["seed=%d" % (base + s), "reps=%d" % per], sim_lines))
    results = {}
    t0 = time.time()

    def job(c):
        name, exe, args, ls = c
        return name, run_config(exe, args, ls, timeout=cx.pick(170, 1500))
    # par configs use many threads themselves: run them one after the other; seq+sim in a pool
    pool_cfgs = [c for c in configs if not c[0].startswith("par/")]
    par_cfgs = [c for c in configs if c[0].startswith("par/")]
    with ThreadPoolExecutor(max_workers=max(2, vp.NPROC - 4)) as ex:
        futs = [ex.submit(job, c) for c in pool_cfgs]
        for c in par_cfgs:
            n, r = job(c)
            results[n] = r
        for f in futs:
            n, r = f.result()
            results[n] = r
    # a configuration that hit its timeout is re-run alone with a generous limit before it counts
    # (the machine may be heavily loaded; a genuine hang still ends as a broken obligation)
    retried = []
    for c in configs:
        if results[c[0]][0] == 124:
            retried.append(c[0])
            results[c[0]] = run_config(c[1], c[2], c[3], timeout=cx.pick(900, 3000))
    if retried:
        cx.notes.append("re-run alone after a timeout under load: " + ", ".join(retried))
    cx.log("exploration: %d configurations in %.1fs (%d re-run after timeout)" % (len(configs), time.time() - t0, len(retried)))

    # compare
    ref = parse(results["seq"][1])
    evals, diffs = 0, {}
    crashed = []
    per_prog = {p[0]: {"configs": 0, "distinct_hashes": set(), "nonseq_hashes": set()} for p in progs}
    for name, (rc, out, err) in results.items():
        got = parse(out)
        if rc != 0:
            crashed.append((name, rc, (err or out)[-300:]))
        for (pid, rep), (h, fields, nv, nt) in got.items():
            evals += 1
            if pid not in per_prog:
                continue
            per_prog[pid]["configs"] += 1
            per_prog[pid]["distinct_hashes"].add(h)
            if name != "seq":
                per_prog[pid]["nonseq_hashes"].add(h)
            r = ref.get((pid, 0))
            # keep one witness per program, preferring a simulated schedule (replayable from its seed)
            if r and r[0] != h and (pid not in diffs or (name.startswith("sim/") and not diffs[pid][0].startswith("sim/"))):
                df = sorted(k for k in fields if r[1].get(k) != fields[k])
                diffs[pid] = (name, rep, h, r[0], df)
    for name, rc, tail in crashed:
        if name.startswith("sim/"):
            cx.broke("corr:C04/sim-run", "sim build run %s exited %s: %s" % (name, rc, tail))
        else:
            cx.violation("det-harness-crash", "harness exited %s under %s: %s" % (rc, name, tail), {"config": name})
    pmap = {p[0]: p for p in progs}
    found_keys = set()
    for pid, (name, rep, h, h0, df) in sorted(diffs.items()):
        # all non-seq runs agree with each other -> a pure backend (seq vs par/sim code path) difference;
        # otherwise the export depends on the schedule
        backend_only = len(per_prog[pid]["nonseq_hashes"]) == 1
        key = KIND_KEY.get(pmap[pid][1], ("backend-differs-" if backend_only else "hash-differs-") + pmap[pid][1])
        found_keys.add(key)
        cx.violation(key, "program %s (%s): export differs between seq build and %s (rep %d): fields %s; %d distinct hashes over %d runs" % (
            pid, pmap[pid][7], name, rep, ",".join(df), len(per_prog[pid]["distinct_hashes"]), per_prog[pid]["configs"]),
            {"program": prog_line(pmap[pid]), "harness": "harness/c04_det.cpp", "config_a": "seq build, no arguments", "config_b": name,
             "hash_a": h0, "hash_b": h, "differing_fields": df, "rep_b": rep,
             "deterministic": name.startswith("sim/"),
             "note": ("sim build: single-threaded seeded schedule, run `c04_det seed=<S> reps=<rep_b+1>` with S from config_b and read repetition rep_b"
                      if name.startswith("sim/") else "real TBB: schedule is not controlled; differs within a few repetitions"),
             "how": "echo '<program>' | build/h-c04_det-<variant>-*/c04_det [threads=N reps=R | seed=S reps=R]"})
    # flagged sites must be confirmed by a concrete differing hash, otherwise they are a broken obligation
    for r in flagged:
        key = re.search(r'"(.*)"', r["norm"]).group(1)
        if key not in found_keys:
            cx.broke("site-flagged:" + key, "%s:%d %s is schedule dependent by reading (%s) but the exploration found no differing hash this run" % (
                r["file"], r["line"], r["what"], r["detail"]))
    nontriv = sum(1 for p in progs if per_prog[p[0]]["configs"] >= 3)
    cx.cov.update({
        "evaluations": evals, "distinct_nontrivial": nontriv,
        "rule": "one evaluation = one program under one configuration/repetition, hashed over every exported field; non-trivial = program ran under >= 3 configurations; "
                "programs straddle autoPolicy thresholds 100, 128, 512, 1024, 1e4, 1e5 found by grep (see exploration.programs)",
        "distribution": {"configurations": len(configs), "par_threads": threads, "par_reps": reps,
                         "sim_seeds": nseeds if exe_sim else 0, "programs": len(progs), "sim_programs": len(sim_lines) if exe_sim else 0},
        "exploration": {"programs": {p[0]: {"line": prog_line(p), "straddles": p[7], "configs": per_prog[p[0]]["configs"],
                                            "distinct_hashes": len(per_prog[p[0]]["distinct_hashes"])} for p in progs},
                        "differing_programs": sorted(diffs), "sim": ("ran" if exe_sim else "skipped: " + (sim_note or ""))},
    })
    for pid in list(diffs)[:3]:
        cx.sample({"program": prog_line(pmap[pid]), "differs_in": diffs[pid][4], "config": diffs[pid][0]})
    cx.sample({"program": prog_line(pmap["sc260"]), "hash_all_configs": sorted(per_prog["sc260"]["distinct_hashes"])})
    cx.sample({"site_table_head": rows[:3]})

    gap_ties(cx)


def gap_ties(cx):
    """Dynamic ties for the hypotheses the gap theorems leave open."""
    # gap 1: the triangulator must be equivariant under a relabelling of PolyVert::idx
    exe = vp.build_harness("c04_tri", "seq", link_lib=True)
    ncase = cx.pick(600, 6000)
    rc, out, err = vp.sh2([exe, str(cx.seed), str(ncase)], timeout=cx.pick(120, 900))
    rows = [l for l in out.splitlines() if l.startswith("T ")]
    bad = [l for l in rows if "relabel=ok" not in l]
    if rc != 0 or len(rows) != ncase:
        cx.broke("tie:C04/triangulator-harness", "c04_tri exited %s after %d/%d cases: %s" % (rc, len(rows), ncase, (err or "")[-200:]))
    cx.obligation("tie:C04/triangulator-idx-relabel-equivariant", not bad and len(rows) == ncase,
                  "TriangulateIdxHalfedges output changes when only the idx labels of the same polygons are permuted (slot numbers are schedule dependent): " + "; ".join(bad[:3]))
    stat = lambda k: sum(1 for l in rows if (" %s=0" % k) in l)
    cx.cov["gap1_triangulator"] = {
        "cases": len(rows), "relabel_equivariant": len(rows) - len(bad),
        "rotation_changes_triangle_sequence": stat("rot_seq"), "rotation_changes_triangle_set": stat("rot_set"),
        "contour_order_changes_triangle_sequence": stat("ord_seq"), "contour_order_changes_triangle_set": stat("ord_set"),
        "reading": "rotation / contour order DO change the triangulation on inputs with ties, so AssembleHalfedges' canonical start (smallest startVert, "
                   "proved slot independent for faces with distinct startVerts) is load bearing; relabelling idx alone never changed the output"}
    # gap 2: winding constant on every component, evaluated at every vertex with the library's Kernel02
    exe = vp.build_harness("c04_wind", "seq", link_lib=True)
    ncase = cx.pick(600, 12000)
    rc, out, err = vp.sh2([exe, str(cx.seed), str(ncase)], timeout=cx.pick(120, 900))
    rows = [l for l in out.splitlines() if l.startswith("W ")]
    bad = [l for l in rows if "nonconst=0 mismatch=0" not in l]
    if rc != 0 or len(rows) != ncase:
        cx.broke("tie:C04/winding-harness", "c04_wind exited %s after %d/%d cases: %s" % (rc, len(rows), ncase, (err or "")[-200:]))
    cx.obligation("tie:C04/winding-constant-per-component", not bad and len(rows) == ncase,
                  "Kernel02's winding is not the same at every vertex of a component (so the result depends on which union-find root a schedule ends with), or differs from Boolean3's w03_/w30_: " + "; ".join(bad[:3]))
    comps = sum(int(re.search(r"compsP=(\d+)", l).group(1)) + int(re.search(r"compsQ=(\d+)", l).group(1)) for l in rows)
    cx.cov["gap2_winding"] = {"boolean_pairs": len(rows), "components_checked_at_every_vertex": comps, "violations": len(bad)}
    cx.cov["evaluations"] = cx.cov.get("evaluations", 0) + len(rows) + cx.cov["gap1_triangulator"]["cases"]
