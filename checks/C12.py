"""C12 — Offset, Hull, Decompose and Simplify of CrossSections mean what they say.
translation_validation: proved kernels (ported SimplifyRing / HullImpl /
DecomposeByContainment, offset decision lemmas over R) + verified exact
checkers run on what the library returns + correspondence of the ported
functions with the C++ on integer inputs."""
import math, os, random, struct
from fractions import Fraction
import vp

LEVEL = "translation_validation"
META = {
    "level": "translation_validation",
    "technique": "Coq-proved kernels (lazy-heap SimplifyRing, monotone-chain HullImpl, DecomposeByContainment over oracles; offset join "
                 "decisions over R) + extracted exact checkers on library outputs + extracted-model correspondence on integer inputs",
    "text": "Coq: the ported SimplifyRing (heap as a list, stamps) for every deviation function into Q and every tolerance terminates within 3n+1 pops, "
            "returns an in-order subsequence, keeps >= 3 vertices, and on exit either 3 vertices remain or every kept vertex deviates >= tol from the "
            "line through its cyclic neighbours in the output; the ported HullImpl (lexicographic sort + monotone chains with exact orientation) returns, for EVERY point list, "
            "a strictly convex CCW polygon of distinct input points containing every input point, or < 3 points iff the input is collinear/too small "
            "(hull2_convex_contains, unbounded), and hull2_check is a sound certificate for library outputs; the ported "
            "DecomposeByContainment equals its specification (each positive ring heads one component, a hole joins the first positive ring on its "
            "smallest-containing-parent chain, every ring in at most one component, areas add up over the kept rings unconditionally and over all "
            "rings when containment implies smaller |area| and every hole is contained in some ring); the miter/convex/round-join/square-cap "
            "expressions of OffsetContour mean what the comments say over R, join vertices stay within bound(join)*|delta| of the corner, and for a "
            "convex polygon the rectangles swept by the edges lie inside the half-planes of the offset ring. Run time: the three ports are compared output-for-output with /repo's static functions "
            "on integer inputs; offset_check/mono_check/regular_out_check/hull2_check/decomp_check/ring checks (extracted, exact integer arithmetic on "
            "bit patterns) judge CrossSection::Offset/Hull/Decompose/Simplify outputs at sample points.",
    "note": "Not proved: that Offset's output region is the metric offset (decided per sample point only, outside a band of chord error + 10 eps); "
            "the remaining gap is stated in Properties_C12.v (g1-g3). Trusted: Coq kernel, "
            "extraction, real-number axioms of the Coq standard library for the offset lemmas, the harness and the Python scaling of bit patterns "
            "to integers, the y-up half-open ray rule of Wind2Defs at points on the boundary.",
}

JT = {"square": 0, "round": 1, "miter": 2, "bevel": 3}


# ------------------------------------------------------------------ numbers
def d2bits(x):
    return "%016x" % struct.unpack("<Q", struct.pack("<d", float(x)))[0]


def bits2d(s):
    return struct.unpack("<d", struct.pack("<Q", int(s, 16)))[0]


def hx(n):
    return ("-%x" % -n) if n < 0 else ("%x" % n)


def scale_of(vals):
    """smallest power of two S such that every double in vals times S is an integer"""
    k = 0
    for v in vals:
        d = Fraction(v).denominator
        k = max(k, d.bit_length() - 1)
    return 1 << k


def to_int(v, S):
    f = Fraction(v) * S
    assert f.denominator == 1
    return f.numerator


def isqrt_ceil(n):
    r = math.isqrt(n)
    return r if r * r == n else r + 1


def ring_tok(r, S):
    return "%d %s" % (len(r), " ".join(hx(to_int(x, S)) + " " + hx(to_int(y, S)) for x, y in r))


def rings_tok(rs, S):
    return "%d %s" % (len(rs), " ".join(ring_tok(r, S) for r in rs))


def ring_bits(r):
    return "%d %s" % (len(r), " ".join(d2bits(x) + " " + d2bits(y) for x, y in r))


def parse_rings(toks, pos):
    k = int(toks[pos]); pos += 1
    out = []
    for _ in range(k):
        n = int(toks[pos]); pos += 1
        r = [(bits2d(toks[pos + 2 * i]), bits2d(toks[pos + 2 * i + 1])) for i in range(n)]
        pos += 2 * n
        out.append(r)
    return out, pos


def q8(x):
    return round(x * 256) / 256.0


def q16(x):
    return round(x * 65536) / 65536.0


# ------------------------------------------------------------------ integer-regime generators
def init_devs(ring):
    """the code's deviation2 of every vertex of the untouched ring, exactly"""
    n, out = len(ring), []
    for i in range(n):
        P, V, N = ring[i - 1], ring[i], ring[(i + 1) % n]
        pn = (N[0] - P[0], N[1] - P[1])
        l2 = pn[0] * pn[0] + pn[1] * pn[1]
        c = (V[0] - P[0]) * pn[1] - (V[1] - P[1]) * pn[0]
        out.append(Fraction(c * c, l2) if l2 > 0 else Fraction(0))
    return out


def gen_simp(rng, cid):
    mode = rng.randrange(9)
    n = rng.choice([3, 4, 5, 6, 8, 10, 14, 20, 30])
    R = 60
    if mode == 0:      # lattice rectangle with many collinear boundary points (ties everywhere)
        w, h = rng.randrange(2, 12), rng.randrange(2, 12)
        ring = [(x, 0) for x in range(w)] + [(w, y) for y in range(h)] + [(x, h) for x in range(w, 0, -1)] + [(0, y) for y in range(h, 0, -1)]
        keep = [p for p in ring if rng.random() < 0.7]
        ring = keep if len(keep) >= 4 else ring
    elif mode == 1:    # convex-ish polygon on a circle, integer rounded
        ring = [(30 + int(25 * math.cos(2 * math.pi * i / n) + rng.randrange(-1, 2)), 30 + int(25 * math.sin(2 * math.pi * i / n) + rng.randrange(-1, 2))) for i in range(n)]
    elif mode == 2:    # zig-zag with small teeth
        ring = [(2 * i, rng.randrange(0, 3)) for i in range(n)] + [(2 * n, 30), (0, 30)]
    elif mode == 3:    # duplicates and back-tracking
        ring = [(rng.randrange(R), rng.randrange(R)) for _ in range(n)]
        for _ in range(rng.randrange(3)):
            i = rng.randrange(len(ring))
            ring.insert(i, ring[i])
    elif mode == 4:    # tiny coordinates: many equal deviations
        ring = [(rng.randrange(4), rng.randrange(4)) for _ in range(n)]
    elif mode == 6:    # saw with identical teeth: every tooth tip / valley has the same deviation
        k, h = rng.randrange(2, 12), rng.randrange(1, 4)
        ring = [(2 * i, (i % 2) * h) for i in range(2 * k + 1)] + [(4 * k, 10 + h), (0, 10 + h)]
    elif mode == 7:    # lattice octagon with the symmetry of the square: all eight deviations equal
        a, b = rng.randrange(1, 8), rng.randrange(9, 24)
        ring = [(a, 0), (b, 0), (b + a, a), (b + a, b), (b, b + a), (a, b + a), (0, b), (0, a)]
        r0 = rng.randrange(8)
        ring = ring[r0:] + ring[:r0]
        if rng.random() < 0.5:      # subdivide every edge at its midpoint-ish lattice point: ties among collinear points too
            ring = [q for i, p in enumerate(ring) for q in (p, ((p[0] + ring[(i + 1) % 8][0]) // 2, (p[1] + ring[(i + 1) % 8][1]) // 2))
                    if True]
    elif mode == 8:    # staircase: equal steps, all corners tie
        k, st = rng.randrange(2, 9), rng.randrange(1, 4)
        ring = []
        for i in range(k):
            ring += [(i * st, i * st), ((i + 1) * st, i * st)]
        ring += [(k * st, k * st), (0, k * st + 3)]
    else:
        ring = [(rng.randrange(R), rng.randrange(R)) for _ in range(n)]
    num = rng.choice([0, 1, 1, 2, 3, 4, 6, 8, 12, 20, 40, 400])
    den = rng.choice([1, 2, 4, 4, 8])
    return dict(id=cid, ring=ring, num=num, den=den)


def gen_hull(rng, cid):
    mode = rng.randrange(7)
    n = rng.choice([0, 1, 2, 3, 3, 4, 5, 6, 8, 12, 20, 40])
    if mode == 0:
        pts = [(rng.randrange(4), rng.randrange(4)) for _ in range(n)]              # many duplicates / collinear
    elif mode == 1:
        a, b = rng.randrange(1, 5), rng.randrange(-4, 5)
        pts = [(t, 30 + (b * t) // 1) if a == 1 else (a * t, 30 + b * t) for t in [rng.randrange(12) for _ in range(n)]]  # all collinear
    elif mode == 2:
        pts = [(rng.randrange(64), rng.randrange(64)) for _ in range(n)]
    elif mode == 3:    # clusters
        cs = [(rng.randrange(8, 56), rng.randrange(8, 56)) for _ in range(3)]
        pts = [(c[0] + rng.randrange(-2, 3), c[1] + rng.randrange(-2, 3)) for c in [rng.choice(cs) for _ in range(n)]]
    elif mode == 4:    # rectangle boundary + interior: collinear points on hull edges, equal x columns
        pts = [(rng.choice([0, 10]), rng.randrange(11)) for _ in range(n // 2)] + [(rng.randrange(11), rng.choice([0, 10])) for _ in range(n - n // 2)]
        pts += [(rng.randrange(1, 10), rng.randrange(1, 10)) for _ in range(rng.randrange(4))]
    elif mode == 5:    # one point repeated / two points
        p, q = (rng.randrange(9), rng.randrange(9)), (rng.randrange(9), rng.randrange(9))
        pts = [rng.choice([p, q]) for _ in range(n)]
    else:              # points on a circle (all extreme) plus centre
        pts = [(32 + int(30 * math.cos(i)), 32 + int(30 * math.sin(i))) for i in range(n)] + [(32, 32)]
    rng.shuffle(pts)
    return dict(id=cid, pts=pts)


def sq(x0, y0, x1, y1, ccw=True):
    r = [(x0, y0), (x1, y0), (x1, y1), (x0, y1)]
    return r if ccw else r[::-1]


def gen_deco(rng, cid):
    """nested squares / triangles forests on the integer lattice; every ring is distinct"""
    rings = []
    flags = {"regular": True}

    def flip(ccw):
        if rng.random() < 0.88:
            return not ccw
        flags["regular"] = False
        return ccw

    def nest(x0, y0, x1, y1, depth, ccw):
        shape = rng.randrange(3)
        if shape == 0 or x1 - x0 < 4:
            r = sq(x0, y0, x1, y1, True)
        elif shape == 1:
            r = [(x0, y0), (x1, y0), (x1, y1), ((x0 + x1) // 2, y1), (x0, y1)]
        else:
            r = [(x0, y0), (x1, y0), (x1, y1), (x0, y1), (x0, (y0 + y1) // 2)]
        rings.append(r if ccw else r[::-1])
        if depth <= 0 or x1 - x0 < 6:
            return
        k = rng.randrange(3)
        if k == 0:
            return
        if k == 1:
            nest(x0 + 1, y0 + 1, x1 - 1, y1 - 1, depth - 1, flip(ccw))
        else:
            xm = (x0 + x1) // 2
            nest(x0 + 1, y0 + 1, xm - 1, y1 - 1, depth - 1, flip(ccw))
            nest(xm + 1, y0 + 1, x1 - 1, y1 - 1, depth - 1, flip(ccw))

    x = 0
    for _ in range(rng.randrange(1, 4)):
        w = rng.choice([4, 8, 14, 20, 30])
        top = rng.random() < 0.92
        if not top:
            flags["regular"] = False
        nest(x, 0, x + w, w, rng.randrange(5), top)
        x += w + rng.randrange(1, 3)
    if rng.random() < 0.3:                   # hole touching its outline at a vertex
        rings.append([(x, 0), (x + 8, 0), (x + 8, 8), (x, 8)])
        rings.append([(x, 0), (x + 2, 4), (x + 4, 2)])   # clockwise
    if rng.random() < 0.2:                   # orphan hole
        flags["regular"] = False
        rings.append(sq(x + 20, 0, x + 22, 2, False))
    if rng.random() < 0.2:                   # degenerate rings that the keep-filter drops
        rings.append([(x + 30, 0), (x + 31, 0)])
        rings.append([(x + 30, 5), (x + 33, 5), (x + 36, 5)])
    rng.shuffle(rings)
    return dict(id=cid, rings=rings, regular=flags["regular"])


def gen_touch(rng, cid, k):
    """regularized configurations whose rings TOUCH at a vertex: a plate A with a hole H whose apex lies on A's bottom
    edge, and a thin U-shaped bracket B (smaller area, bigger bbox than H) whose spike tip is that same point.
    Every ring's stored first vertex is rotated explicitly (k drives the rotation of H and B)."""
    w = rng.choice([8, 10, 12, 16])
    ox, oy = 3, 4
    xm = ox + rng.randrange(3, w - 2)
    a = rng.randrange(1, min(xm - ox, ox + w - xm))
    hh = rng.randrange(2, w - 2)
    H = [(xm, oy), (xm - a, oy + hh), (xm + a, oy + hh)]
    if rng.random() < 0.4:
        H = [(xm, oy), (xm - a, oy + hh), (xm, oy + hh + 1), (xm + a, oy + hh)]
    A = [(ox, oy), (xm, oy), (ox + w, oy), (ox + w, oy + w), (ox, oy + w)]
    ya = oy + hh + 1 + rng.randrange(0, 3)
    B = [(ox - 2, oy - 3), (ox + w + 2, oy - 3), (ox + w + 2, ya), (ox + w + 1, ya), (ox + w + 1, oy - 2), (xm + 1, oy - 2),
         (xm, oy), (xm - 1, oy - 2), (ox - 1, oy - 2), (ox - 1, ya), (ox - 2, ya)]
    kind = rng.randrange(5)
    rings = {0: [A, H, B], 1: [A, H], 2: [A, B], 3: [A, H, B], 4: [A, H, B]}[kind]
    if kind == 3 and a >= 2 and hh >= 4:        # an island inside the hole, not touching anything
        rings = rings + [[(xm, oy + hh - 2), (xm + 1, oy + hh - 2), (xm + 1, oy + hh - 1), (xm, oy + hh - 1)]]
    if kind == 4 and xm - a - ox >= 3:          # a second hole of A that touches nothing
        rings = rings + [[(ox + 1, oy + w - 3), (ox + 1, oy + w - 1), (ox + 2, oy + w - 1), (ox + 2, oy + w - 3)]]
    M = 40
    q = rng.randrange(4)
    rot = [lambda p: p, lambda p: (M - p[1], p[0]), lambda p: (M - p[0], M - p[1]), lambda p: (p[1], M - p[0])][q]
    out = []
    for idx, r in enumerate(rings):
        r = [rot(p) for p in r]
        off = (k + idx * 3) % len(r) if idx != 1 else k % len(r)     # the hole's start vertex runs through all its vertices
        out.append(r[off:] + r[:off])
    rng.shuffle(out)
    return dict(id=cid, rings=out, regular=True, touching=True)


def strict_inside(p, r):
    """exact: p strictly inside ring r (p not on the boundary); p, r integer points"""
    n, ins = len(r), False
    for i in range(n):
        a, b = r[i], r[(i + 1) % n]
        cr = (b[0] - a[0]) * (p[1] - a[1]) - (b[1] - a[1]) * (p[0] - a[0])
        if cr == 0 and min(a[0], b[0]) <= p[0] <= max(a[0], b[0]) and min(a[1], b[1]) <= p[1] <= max(a[1], b[1]):
            return False
        if (a[1] > p[1]) != (b[1] > p[1]):
            # p.x < a.x + (b.x-a.x)(p.y-a.y)/(b.y-a.y)
            lhs, rhs = (p[0] - a[0]) * (b[1] - a[1]), (b[0] - a[0]) * (p[1] - a[1])
            if (lhs < rhs) if b[1] > a[1] else (lhs > rhs):
                ins = not ins
    return ins


def interior_sample(r, scale):
    """a point strictly inside ring r given in coordinates multiplied by `scale` (scale divisible by 3):
    the centroid of a vertex triple that falls strictly inside"""
    rs = [(scale * x, scale * y) for x, y in r]
    n = len(r)
    for i in range(n):
        for j in (1, 2, 3):
            tri = (r[i - 1], r[i], r[(i + j) % n])
            c = (scale // 3 * (tri[0][0] + tri[1][0] + tri[2][0]), scale // 3 * (tri[0][1] + tri[1][1] + tri[2][1]))
            if strict_inside(c, rs):
                return c
    return None


def area2(r):
    return sum(r[i][0] * r[(i + 1) % len(r)][1] - r[(i + 1) % len(r)][0] * r[i][1] for i in range(len(r)))


# ------------------------------------------------------------------ API-regime generators (doubles on a dyadic grid)
def poly_shapes(rng, cx, cy, rad):
    kind = rng.randrange(7)
    n = rng.choice([3, 4, 5, 6, 8, 11])
    if kind == 0:      # convex
        a0 = rng.random() * 6.28
        return [[(q8(cx + rad * math.cos(a0 + 2 * math.pi * i / n)), q8(cy + rad * (0.5 + 0.5 * rng.random()) * math.sin(a0 + 2 * math.pi * i / n))) for i in range(n)]]
    if kind == 1:      # star: reflex corners and spikes
        m = rng.choice([3, 4, 5, 7])
        inner = rad * rng.choice([0.15, 0.4, 0.7])
        return [[(q8(cx + (rad if i % 2 == 0 else inner) * math.cos(math.pi * i / m)), q8(cy + (rad if i % 2 == 0 else inner) * math.sin(math.pi * i / m))) for i in range(2 * m)]]
    if kind == 2:      # rectangle with collinear extra vertices
        w, h = q8(rad), q8(rad * rng.choice([0.3, 0.6, 1.0]))
        r = [(cx - w, cy - h), (cx, cy - h), (cx + w / 2, cy - h), (cx + w, cy - h), (cx + w, cy + h), (cx, cy + h), (cx - w, cy + h), (cx - w, cy)]
        return [r]
    if kind == 3:      # L / comb shape (reflex right angles)
        w = q8(rad)
        t = q8(rad * rng.choice([0.25, 0.5]))
        return [[(cx - w, cy - w), (cx + w, cy - w), (cx + w, cy - w + t), (cx - w + t, cy - w + t), (cx - w + t, cy + w), (cx - w, cy + w)]]
    if kind == 4:      # frame: outline with a hole
        w = q8(rad)
        t = q8(rad * rng.choice([0.2, 0.5, 0.8]))
        return [sq(cx - w, cy - w, cx + w, cy + w), sq(cx - t, cy - t, cx + t, cy + t, False)]
    if kind == 5:      # thin sliver triangle: very sharp corners
        return [[(q8(cx - rad), q8(cy)), (q8(cx + rad), q8(cy - rad * 0.06)), (q8(cx + rad), q8(cy + rad * 0.06))]]
    # random simple-ish polygon: radial with noise
    return [[(q8(cx + rad * (0.4 + 0.6 * rng.random()) * math.cos(2 * math.pi * i / n)), q8(cy + rad * (0.4 + 0.6 * rng.random()) * math.sin(2 * math.pi * i / n))) for i in range(n)]]


def gen_region(rng):
    polys = []
    k = rng.choice([1, 1, 1, 2, 3])
    for _ in range(k):
        cx, cy = q8(34 + 12 * rng.random()), q8(34 + 12 * rng.random())
        rad = rng.choice([1.0, 2.0, 4.0, 6.0])
        polys += poly_shapes(rng, cx, cy, rad)
    return polys


def sample_points(rng, inp, delta, bound, count):
    """points on a 2^-16 grid: near the expected offset boundary of every vertex/edge, and uniform"""
    pts = []
    ad = abs(delta)
    fs = [0.0, 0.3, 0.8, 0.95, 0.99, 1.01, 1.05, 1.2, bound * 0.97, bound * 1.03, bound * 1.3]
    for r in inp:
        n = len(r)
        for i in range(n):
            (px, py), (vx, vy), (nx, ny) = r[i - 1], r[i], r[(i + 1) % n]
            ex, ey = vx - px, vy - py
            L = math.hypot(ex, ey)
            if L == 0:
                continue
            ox, oy = ey / L, -ex / L                      # right normal (outward of the solid)
            for t in (0.5, rng.random(), 0.02, 0.98):
                mx, my = px + t * ex, py + t * ey
                for f in rng.sample(fs, 4):
                    for sgn in (1, -1):
                        pts.append((mx + sgn * f * ad * ox, my + sgn * f * ad * oy))
            for _ in range(4):                            # around the vertex
                a = rng.random() * 2 * math.pi
                f = rng.choice(fs)
                pts.append((vx + f * ad * math.cos(a), vy + f * ad * math.sin(a)))
    xs = [x for r in inp for x, _ in r]; ys = [y for r in inp for _, y in r]
    if xs:
        lo, hi = min(xs) - bound * ad - 0.5, max(xs) + bound * ad + 0.5
        lo2, hi2 = min(ys) - bound * ad - 0.5, max(ys) + bound * ad + 0.5
        for _ in range(count // 3):
            pts.append((lo + (hi - lo) * rng.random(), lo2 + (hi2 - lo2) * rng.random()))
    rng.shuffle(pts)
    return [(q16(x), q16(y)) for x, y in pts[:count]]


# ------------------------------------------------------------------ the check
def _drop_heading_axiom(cx):
    """vp.parse_assumptions reads the heading word of a second consecutive 'Axioms:' block of coqc's output as an
    axiom called 'Axioms' (this file has several theorems over R, so several blocks).  Remove that artefact - and
    only that - from what cx.prove() recorded; real axiom names are left to the allow-list check."""
    fixed = []
    for n, d in cx.broken:
        if n == "coq:axioms" and ":" in d:
            head, names = d.rsplit(":", 1)
            rest = [a.strip() for a in names.split(",") if a.strip() and a.strip() != "Axioms"]
            if not rest:
                continue
            d = head + ": " + ", ".join(rest)
        fixed.append((n, d))
    cx.broken[:] = fixed
    ax = cx.cov.get("axioms_reported_by_Print_Assumptions")
    if ax:
        cx.cov["axioms_reported_by_Print_Assumptions"] = [a for a in ax if a != "Axioms"]
    cx.cov["trusted_base"] = [t for t in cx.cov.get("trusted_base", []) if t != "axiom: Axioms"]


def run(cx):
    cx.assumptions += [
        "Offset: the metric statement is decided only at the generated sample points and only outside the band "
        "[|delta| - chord_error - 10 eps, bound(join)*|delta| + 10 eps] around the input boundary (eps = GetTolerance() of the result); "
        "bound = 1 (round, bevel), sqrt 2 (square), max(miter limit, sqrt 2) (miter)",
        "Hull: the exact strict-convexity/containment certificate is applied to inputs on a dyadic grid on which the library's "
        "floating-point orientation test is exact; general point sets are only covered up to rounding of that test (not checked)",
        "Simplify: 'no vertex closer than tolerance' is tested exactly against tolerance*(1-1e-9) - 1e-12 (the library compares a rounded "
        "squared deviation with the rounded tolerance^2)",
        "correspondence regime: integer coordinates below 2^6..2^7 and tolerances k/2^j, where every product/quotient comparison the C++ makes is exact",
        "the monotone chain is proved for exact orientation signs over Z; the library evaluates the sign in doubles, exact only when the products do not round "
        "(the regime of the generated Hull inputs); outputs are certificate-checked in any case",
    ]
    cx.prove()
    _drop_heading_axiom(cx)
    mls = vp.coq_extract("ExtractC12", ["c12_model.ml"])
    drv = vp.ocaml_build("c12_driver", mls + [os.path.join(vp.ROOT, "extract/c12_driver.ml")])
    exe = vp.build_harness("c12_xsec", "seq", link_lib=True)
    cx.log("built harness and driver")
    st = dict(evals=0, nontriv=set(), dist={})

    def bump(k, n=1):
        st["dist"][k] = st["dist"].get(k, 0) + n

    def run_both(hlines, dlines):
        kl = lambda l: l.split()[1] if l.strip() else None
        out_h, crashes = vp.run_cases(exe, hlines, kl, kl, timeout=900)
        rc, out_d, err = vp.sh2([drv], input="\n".join(dlines) + "\n", timeout=900)
        if rc != 0:
            cx.broke("corr:C12/model-driver", "driver exited %d: %s" % (rc, err[-300:]))
        H = {l.split()[1]: l.split() for l in out_h.splitlines() if l.strip()}
        D = {l.split()[1]: l.split() for l in out_d.splitlines() if l.strip()}
        return H, D, crashes

    def drive(dlines):
        rc, out_d, err = vp.sh2([drv], input="\n".join(dlines) + "\n", timeout=1500)
        if rc != 0:
            cx.broke("corr:C12/model-driver", "driver exited %d: %s" % (rc, err[-300:]))
        return {l.split()[1]: l.split() for l in out_d.splitlines() if l.strip()}

    corr_integer(cx, rng=random.Random(cx.seed * 7919 + 12), run_both=run_both, drive=drive, st=st, bump=bump)
    cx.log("integer-regime correspondence done")
    api_checks(cx, random.Random(cx.seed * 104729 + 12), exe, drive, st, bump)
    cx.cov.update({"evaluations": st["evals"], "distinct_nontrivial": len(st["nontriv"]),
                   "programs": st["evals"],
                   "disagreements_checked": sum(cx.cov.get("correspondence_mismatches", {}).values()),
                   "rule": "seeded generators; integer regime: rings/point sets/ring forests on a small lattice (ties, duplicates, collinear runs, clusters, nested "
                           "and orphan holes) compared output-for-output with the extracted ports, non-trivial = SimplifyRing removes some but not all removable "
                           "vertices / hull has >=3 vertices and drops a point / forest has a hole; API regime: regularized cross-sections (convex, star, collinear, "
                           "comb, frame, sliver, multi-component) x delta of both signs x 4 join types x segments, judged by the exact checkers, non-trivial = at least "
                           "one sample point judged must-be-inside and one must-be-outside (Offset) / checker ran on a >=3-vertex output; distinct by full case content",
                   "distribution": st["dist"]})


def corr_integer(cx, rng, run_both, drive, st, bump):
    nS, nH, nD = cx.pick(500, 6000), cx.pick(500, 6000), cx.pick(300, 3000)
    simp = [gen_simp(rng, "s%d" % i) for i in range(nS)]
    hull = [gen_hull(rng, "h%d" % i) for i in range(nH)]
    deco = [gen_deco(rng, "d%d" % i) if i % 3 else gen_touch(rng, "d%d" % i, i // 3) for i in range(nD)]
    rins = vp.build_harness("c12_rins", "seq", link_lib=True)
    hl, dl = [], []
    ir = lambda r: "%d %s" % (len(r), " ".join("%d %d" % p for p in r))
    xr = lambda r: "%d %s" % (len(r), " ".join(hx(x) + " " + hx(y) for x, y in r))
    for c in simp:
        hl.append("SIMP %s %d %d %s" % (c["id"], c["num"], c["den"], ir(c["ring"])))
        dl.append("SIMP %s %s %s %s" % (c["id"], hx(c["num"] ** 2), hx(c["den"] ** 2), xr(c["ring"])))
    for c in hull:
        hl.append("HULL %s %s" % (c["id"], ir(c["pts"])))
        dl.append("HULL %s %s" % (c["id"], xr(c["pts"])))
    for c in deco:
        kept = [r for r in c["rings"] if len(r) >= 3 and area2(r) != 0]
        c["kept_idx"] = [i for i, r in enumerate(c["rings"]) if len(r) >= 3 and area2(r) != 0]
        hl.append("DECO %s %d %s" % (c["id"], len(c["rings"]), " ".join(ir(r) for r in c["rings"])))
        dl.append("DECO %s %d %s" % (c["id"], len(kept), " ".join(xr(r) for r in kept)))
    rl = []
    for c in deco:
        kept = [c["rings"][i] for i in c["kept_idx"]]
        rl.append("RINS r%s %d %s" % (c["id"], len(kept), " ".join(ir(r) for r in kept)))
        dl.append("RINS r%s %d %s" % (c["id"], len(kept), " ".join(xr(r) for r in kept)))
    H, D, crashes = run_both(hl, dl)
    for cl, rc, err in crashes:
        cx.violation("xsec-crash", "harness crashed (rc=%s) on %s: %s" % (rc, cl[:80], err[-200:]), {"case": cl})
    kl = lambda l: l.split()[1] if l.strip() else None
    out_r, crashes_r = vp.run_cases(rins, rl, kl, kl, timeout=900)
    for cl, rc, err in crashes_r:
        cx.violation("xsec-crash", "RingInside harness crashed (rc=%s) on %s: %s" % (rc, cl[:80], err[-200:]), {"case": cl})
    RI = {l.split()[1]: l.split()[2:] for l in out_r.splitlines() if l.strip()}
    st["evals"] += len(hl)
    oracle_lines, pending = [], []
    mism = {"SIMP": 0, "HULL": 0, "DECO": 0, "RINGINSIDE": 0}
    for c in deco:
        a, b = RI.get("r" + c["id"]), D.get("r" + c["id"])
        if a is None or b is None:
            cx.broke("corr:C12/ring_inside#%s" % c["id"], "no RingInside verdicts (impl=%s model=%s)" % (a is not None, b is not None)); continue
        if a != b[2:]:
            mism["RINGINSIDE"] += 1
            if mism["RINGINSIDE"] <= 3:
                kept = [c["rings"][i] for i in c["kept_idx"]]
                cx.broke("corr:C12/ring_inside#%s" % c["id"], "BoxInside&&RingInside verdicts differ from the ported exact test (all vertices in the closed ring): "
                         "rings=%s impl=%s model=%s" % (kept, " ".join(a[1:]), " ".join(b[3:])))
    for c in simp:
        h, d = H.get(c["id"]), D.get(c["id"])
        if h is None or d is None:
            cx.broke("corr:C12/simplify_ring#%s" % c["id"], "no output (impl=%s model=%s)" % (h is not None, d is not None)); continue
        hv = [int(x) for x in h[2:]]
        dv = None if d[2] == "NONE" else [int(d[2])] + [int(x, 16) if not x.startswith("-") else -int(x[1:], 16) for x in d[3:]]
        m = hv[0]
        bump("simplify n<=4" if len(c["ring"]) <= 4 else "simplify n>4")
        dv0 = init_devs(c["ring"])
        if len(dv0) > 3 and dv0.count(min(dv0)) >= 2:
            bump("simplify min deviation tied")
            if 3 <= m < len(c["ring"]):
                bump("simplify min deviation tied and vertices removed")
        if 3 < m < len(c["ring"]):
            st["nontriv"].add(("S", tuple(c["ring"]), c["num"], c["den"]))
        out_ring = list(zip(hv[1::2], hv[2::2]))
        # property oracle on the implementation's own output, always
        oracle_lines.append("SCHK %s %s %s %s %s" % (c["id"], hx(c["num"] ** 2), hx(c["den"] ** 2), xr(c["ring"]), xr(out_ring)))
        # second oracle: is every vertex of the INPUT ring already >= tol away from the line through its neighbours?
        oracle_lines.append("SCHK %sin %s %s %s %s" % (c["id"], hx(c["num"] ** 2), hx(c["den"] ** 2), xr(c["ring"]), xr(c["ring"])))
        c["removed"] = len(c["ring"]) - m
        pending.append(("S", c, hv != dv, h, d))
        if hv != dv:
            mism["SIMP"] += 1
    for c in hull:
        h, d = H.get(c["id"]), D.get(c["id"])
        if h is None or d is None:
            cx.broke("corr:C12/hull2#%s" % c["id"], "no output"); continue
        hv = [int(x) for x in h[2:]]
        dv = [int(d[2])] + [int(x, 16) if not x.startswith("-") else -int(x[1:], 16) for x in d[3:]]
        out = list(zip(hv[1::2], hv[2::2]))
        if len(out) >= 3 and len(set(c["pts"])) > len(out):
            st["nontriv"].add(("H", tuple(c["pts"])))
        bump("hull |out|>=3" if len(out) >= 3 else "hull degenerate")
        oracle_lines.append("HCHK %s %s %s" % (c["id"], xr(c["pts"]), xr(out)))
        pending.append(("H", c, hv != dv, h, d))
        if hv != dv:
            mism["HULL"] += 1
    for c in deco:
        h, d = H.get(c["id"]), D.get(c["id"])
        if h is None or d is None:
            cx.broke("corr:C12/decompose#%s" % c["id"], "no output"); continue
        hv = [int(x) for x in h[2:]]
        dv = [int(x) for x in d[2:]]
        # model indices are over kept rings: map back to input indices
        def remap(v):
            out, pos = [v[0]], 1
            for _ in range(v[0]):
                k = v[pos]; out.append(k)
                out += [c["kept_idx"][j] for j in v[pos + 1:pos + 1 + k]]
                pos += 1 + k
            return out
        try:
            dv = remap(dv)
        except IndexError:
            dv = None
        comps, pos = [], 1
        for _ in range(hv[0]):
            k = hv[pos]; comps.append(hv[pos + 1:pos + 1 + k]); pos += 1 + k
        if any(len(cc) > 1 for cc in comps):
            st["nontriv"].add(("D", tuple(tuple(r) for r in c["rings"])))
        bump("decompose comps=%d" % min(len(comps), 4))
        # oracle: exact decomp_check with one sample strictly inside every kept ring's own band + lattice half-points
        whole = [c["rings"][i] for i in c["kept_idx"]]
        samples = set()
        for r in c["rings"]:
            if len(r) >= 3:
                xs = [p[0] for p in r]; ys = [p[1] for p in r]
                samples.add((12 * min(xs) + 3, 12 * min(ys) + 3)); samples.add((6 * (min(xs) + max(xs)) + 3, 12 * min(ys) + 3))
                samples.add((12 * max(xs) - 3, 12 * max(ys) - 3))
                if area2(r) != 0:
                    ip = interior_sample(r, 12)          # strictly inside this ring (never a vertex / boundary point)
                    if ip is not None:
                        samples.add(ip)
        if c.get("touching"):
            bump("decompose touching-at-a-vertex configurations")
        sc = lambda r: [(12 * x, 12 * y) for x, y in r]
        bad_idx = any(i < 0 for cc in comps for i in cc)
        oracle_lines.append("DCHK %s %d %s %d %s %d %s" % (
            c["id"], len(whole), " ".join(xr(sc(r)) for r in whole), len(comps),
            " ".join("%d %s" % (len(cc), " ".join(xr(sc(c["rings"][i])) for i in cc)) for cc in comps),
            len(samples), " ".join(hx(x) + " " + hx(y) for x, y in sorted(samples))))
        pending.append(("D", c, hv != dv or bad_idx, h, d))
        if not c["regular"]:
            oracle_lines.pop()          # nesting that no regularized cross-section has: correspondence only
        if hv != dv:
            mism["DECO"] += 1
    O = drive(oracle_lines)
    reported = {"S": 0, "H": 0, "D": 0}
    for kind, c, differs, h, d in pending:
        o = O.get(c["id"])
        if kind == "S":
            ok = o is not None and o[2] == "1" and o[3] == "1"
            if not ok:
                key = "simplify-not-subsequence" if (o and o[2] != "1") else "simplify-vertex-below-tolerance"
                cx.violation(key, "SimplifyRing output rejected by the exact ring checker (subsequence=%s, deviation>=tol=%s): ring=%s tol=%d/%d out=%s"
                             % (o and o[2], o and o[3], c["ring"], c["num"], c["den"], " ".join(h[2:])), {"case": c, "impl": " ".join(h)})
            elif c.get("removed", 0) > 0 and O.get(c["id"] + "in", [0, 0, 0, "0"])[3] == "1":
                cx.violation("simplify-removed-vertex-not-below-tolerance",
                             "SimplifyRing deleted %d vertices although every vertex of the input ring is at least the tolerance away from the line through "
                             "its neighbours (only vertices closer than the tolerance may go): ring=%s tol=%d/%d out=%s"
                             % (c["removed"], c["ring"], c["num"], c["den"], " ".join(h[2:])), {"case": c, "impl": " ".join(h)})
            elif differs and reported["S"] < 3:
                reported["S"] += 1
                cx.broke("corr:C12/simplify_ring#%s" % c["id"], "model and SimplifyRing differ (output passes the ring checker): ring=%s tol=%d/%d impl=%s model=%s"
                         % (c["ring"], c["num"], c["den"], " ".join(h[2:]), " ".join(d[2:])))
        elif kind == "H":
            ok = o is not None and o[2] == "1"
            if not ok:
                cx.violation("hull-not-convex-hull", "HullImpl output rejected by hull2_check: pts=%s out=%s" % (c["pts"], " ".join(h[2:])),
                             {"case": c, "impl": " ".join(h)})
            elif differs and reported["H"] < 3:
                reported["H"] += 1
                cx.broke("corr:C12/hull2#%s" % c["id"], "model and HullImpl differ (output passes hull2_check): pts=%s impl=%s model=%s"
                         % (c["pts"], " ".join(h[2:]), " ".join(d[2:])))
        else:
            ok = (o is not None and o[2] == "1") or not c["regular"]
            if not ok:
                cx.violation("decompose-components-wrong", "DecomposeByContainment output rejected by decomp_check (areas / hole in outline / components disjoint): "
                             "rings=%s impl=%s" % (c["rings"], " ".join(h[2:])), {"case": c, "impl": " ".join(h)})
            elif differs and reported["D"] < 3:
                reported["D"] += 1
                cx.broke("corr:C12/decompose#%s" % c["id"], "model and DecomposeByContainment differ (output passes decomp_check): rings=%s impl=%s model=%s"
                         % (c["rings"], " ".join(h[2:]), " ".join(d[2:])))
    cx.cov["correspondence_mismatches"] = mism
    cx.cov["traces_validated_against_impl"] = len(pending) - sum(mism.values())
    cx.sample({"simplify_case": simp[5], "impl": " ".join(H.get(simp[5]["id"], []))})
    cx.sample({"hull_case": hull[7], "impl": " ".join(H.get(hull[7]["id"], []))})
    cx.sample({"decompose_case": deco[3], "impl": " ".join(H.get(deco[3]["id"], []))})


def api_checks(cx, rng, exe, drive, st, bump):
    nO, nHu, nDe, nSi = cx.pick(70, 1500), cx.pick(120, 2000), cx.pick(50, 800), cx.pick(80, 1500)
    lines, meta = [], {}
    # ---- Offset: pairs delta1 < delta2 on the same region
    for i in range(nO):
        polys = gen_region(rng)
        jt = rng.choice(["round", "round", "miter", "square", "bevel"])
        segs = rng.choice([3, 4, 6, 8, 12, 16, 24])
        ml = rng.choice([2.0, 2.0, 2.5, 3.0, 4.0, 1.0])
        sign = rng.choice([1, 1, -1])
        d1 = rng.choice([2, 3, 4, 6, 8, 12, 16, 24]) / 16.0
        d2 = d1 + rng.choice([1, 2, 4, 8]) / 16.0
        da, db = (d1, d2) if sign > 0 else (-d2, -d1)        # da < db
        for tag, dl in (("a", da), ("b", db)):
            cid = "o%d%s" % (i, tag)
            lines.append("OFF %s %s %d %s %d %d %s" % (cid, d2bits(dl), JT[jt], d2bits(ml), segs, len(polys), " ".join(ring_bits(r) for r in polys)))
            meta[cid] = dict(kind="OFF", polys=polys, jt=jt, segs=segs, ml=ml, delta=dl, pair=i)
    # ---- Hull on dyadic grids (exact predicate regime)
    for i in range(nHu):
        c = gen_hull(rng, "x")
        g = rng.choice([1.0, 0.5, 0.125, 1.0 / 1024])
        off = rng.choice([0.0, -20.0, 1000.0])
        pts = [(off + g * x, off + g * y) for x, y in c["pts"]]
        cid = "u%d" % i
        lines.append("HULLAPI %s %s" % (cid, ring_bits(pts)))
        meta[cid] = dict(kind="HULLAPI", pts=pts)
    # ---- Decompose of regularized multi-component regions with holes
    for i in range(nDe):
        polys = []
        for _ in range(rng.choice([1, 2, 3, 4])):
            cxx, cyy = q8(30 + 20 * rng.random()), q8(30 + 20 * rng.random())
            polys += poly_shapes(rng, cxx, cyy, rng.choice([1.0, 2.0, 4.0]))
        if i % 3 == 0:                              # rings touching at a vertex (plate + cut-out + bracket), any rotation / scale
            g = rng.choice([1.0, 0.5, 0.25])
            polys = [[(20.0 + g * x, 18.0 + g * y) for x, y in r] for r in gen_touch(rng, "t", i // 3)["rings"]]
        if i % 3 != 0 and rng.random() < 0.5:       # island inside a frame's hole
            polys += [sq(8.0, 8.0, 20.0, 20.0), sq(10.0, 10.0, 18.0, 18.0, False), sq(12.0, 12.0, 16.0, 16.0), sq(13.0, 13.0, 15.0, 15.0, False)]
        cid = "e%d" % i
        lines.append("DECOAPI %s %d %s" % (cid, len(polys), " ".join(ring_bits(r) for r in polys)))
        meta[cid] = dict(kind="DECOAPI", polys=polys)
    # ---- Simplify through the public API
    for i in range(nSi):
        polys = gen_region(rng)
        # add near-collinear vertices on every edge
        noisy = []
        for r in polys:
            nr = []
            for j in range(len(r)):
                a, b = r[j], r[(j + 1) % len(r)]
                nr.append(a)
                for _ in range(rng.randrange(3)):
                    t = rng.random()
                    e = rng.choice([0.0, 2 ** -8, -2 ** -8, 2 ** -5, 2 ** -12])
                    nr.append((q16(a[0] + t * (b[0] - a[0]) + e), q16(a[1] + t * (b[1] - a[1]) - e)))
            noisy.append(nr)
        tol = rng.choice([0.0, 2 ** -10, 2 ** -6, 0.01, 0.05, 0.25, 1.0])
        cid = "m%d" % i
        lines.append("SIMPAPI %s %s %d %s" % (cid, d2bits(tol), len(noisy), " ".join(ring_bits(r) for r in noisy)))
        meta[cid] = dict(kind="SIMPAPI", polys=noisy, tol=tol)
    kl = lambda l: l.split()[1] if l.strip() else None
    out_h, crashes = vp.run_cases(exe, lines, kl, kl, timeout=900)
    for cl, rc, err in crashes:
        cx.violation("xsec-crash", "harness crashed (rc=%s) on %s: %s" % (rc, cl[:60], err[-200:]), {"case": cl})
    st["evals"] += len(lines)
    H = {l.split()[1]: l.split() for l in out_h.splitlines() if l.strip()}
    cx.log("library ran %d API cases" % len(lines))
    dl, info = [], {}
    for cid, m in meta.items():
        h = H.get(cid)
        if h is None:
            cx.broke("corr:C12/api#%s" % cid, "no output from the harness for " + m["kind"]); continue
        if m["kind"] == "OFF":
            tol = bits2d(h[2])
            inp, pos = parse_rings(h, 4)
            out, pos = parse_rings(h, pos + 1)
            m.update(inp=inp, out=out, tol=tol)
        elif m["kind"] == "HULLAPI":
            out, _ = parse_rings(h, 2)
            m.update(out=out)
        elif m["kind"] == "DECOAPI":
            inp, pos = parse_rings(h, 3)
            nc = int(h[pos]); pos += 1
            comps = []
            for _ in range(nc):
                rs, pos = parse_rings(h, pos)
                comps.append(rs)
            m.update(inp=inp, comps=comps)
        else:
            tol_in = bits2d(h[2])
            inp, pos = parse_rings(h, 4)
            out, pos = parse_rings(h, pos + 1)
            m.update(inp=inp, out=out, tol_in=tol_in)
    # ---- build exact checker inputs
    for cid, m in meta.items():
        if "out" not in m and "comps" not in m:
            continue
        if m["kind"] == "OFF":
            inp, out, delta = m["inp"], m["out"], m["delta"]
            ad = abs(delta)
            eps = max(m["tol"], 1e-13)
            slack = 10 * eps
            ml = m["ml"] if (math.isfinite(m["ml"]) and m["ml"] >= 2.0) else 2.0
            bound = {"round": 1.0, "bevel": 1.0, "square": math.sqrt(2.0) * (1 + 1e-9), "miter": max(ml, math.sqrt(2.0)) * (1 + 1e-9)}[m["jt"]]
            chord = ad * (1 - math.cos(math.pi / m["segs"])) * (1 + 1e-9) if m["jt"] == "round" else 0.0
            samples = sample_points(rng, inp, delta, bound, cx.pick(70, 200))
            m["samples"] = samples
            vals = [v for r in inp + out for p in r for v in p] + [v for p in samples for v in p]
            S = scale_of(vals)
            r_in = Fraction(ad) - Fraction(chord) - Fraction(slack)
            r_out = Fraction(bound) * Fraction(ad) + Fraction(slack)
            Tin = 0 if r_in <= 0 else int((r_in * S) ** 2)                       # floor
            Tout = -int(-((r_out * S) ** 2) // 1)                                # ceil
            R = isqrt_ceil(max(Tin, Tout)) + 1
            Ts = -int(-((Fraction(slack) * S) ** 2) // 1)
            m.update(S=S, Ts=Ts, Rs=isqrt_ceil(Ts) + 1)
            dl.append("OCHK %s %d %d %s %s %s %s %s %d %s" % (
                cid, 1 if delta > 0 else 0, 1 if m["jt"] == "round" else 0, hx(Tin), hx(Tout), hx(R),
                rings_tok(inp, S), rings_tok(out, S), len(samples), " ".join(hx(to_int(x, S)) + " " + hx(to_int(y, S)) for x, y in samples)))
            dl.append("REG r%s %s %s" % (cid, hx(Ts), rings_tok(out, S)))
        elif m["kind"] == "HULLAPI":
            pts, out = m["pts"], m["out"]
            hull = out[0] if out else []
            S = scale_of([v for p in pts + hull for v in p])
            dl.append("HCHK %s %s %s" % (cid, ring_tok(pts, S), ring_tok(hull, S)))
        elif m["kind"] == "DECOAPI":
            inp, comps = m["inp"], m["comps"]
            samples = []
            for r in inp:
                for j in range(len(r)):
                    a, b, c = r[j - 1], r[j], r[(j + 1) % len(r)]
                    samples.append((q16((a[0] + b[0] + c[0]) / 3 + 2 ** -9), q16((a[1] + b[1] + c[1]) / 3 + 2 ** -10)))
            for _ in range(20):
                samples.append((q16(8 + 45 * rng.random()), q16(8 + 45 * rng.random())))
            samples = samples[:cx.pick(60, 200)]
            allc = [r for c in comps for r in c]
            S = scale_of([v for r in inp + allc for p in r for v in p] + [v for p in samples for v in p])
            whole = inp if len(inp) >= 2 else inp
            dl.append("DCHK %s %s %d %s %d %s" % (cid, rings_tok(whole, S), len(comps), " ".join(rings_tok(c, S) for c in comps),
                                                  len(samples), " ".join(hx(to_int(x, S)) + " " + hx(to_int(y, S)) for x, y in samples)))
        else:
            inp, out = m["inp"], m["out"]
            tol = m["tol"] if m["tol"] != 0 else m["tol_in"]
            tl = Fraction(tol) * (1 - Fraction(1, 10 ** 9)) - Fraction(1, 10 ** 12)
            t2 = tl * tl if tl > 0 else Fraction(0)
            S = scale_of([v for r in inp + out for p in r for v in p])
            tn, td = (t2 * S * S).numerator, (t2 * S * S).denominator
            # match every output ring with the first later input ring it is a subsequence of (rings keep their order)
            def is_sub(o, r):
                it = iter(r)
                return all(any(p == q for q in it) for p in o)
            j, pairs, unmatched = 0, [], 0
            for o in out:
                k = j
                while k < len(inp) and not is_sub(o, inp[k]):
                    k += 1
                if k == len(inp):
                    unmatched += 1
                    pairs.append((o, inp[j] if j < len(inp) else []))
                else:
                    pairs.append((o, inp[k])); j = k + 1
            m["pairs"] = pairs
            for k, (o, r) in enumerate(pairs):
                dl.append("SCHK %s_%d %s %s %s %s" % (cid, k, hx(tn), hx(td), ring_tok(r, S), ring_tok(o, S)))
    # ---- monotonicity on the nested pairs
    byp = {}
    for cid, m in meta.items():
        if m["kind"] == "OFF" and "out" in m:
            byp.setdefault(m["pair"], {})[cid[-1]] = (cid, m)
    for i, pr in byp.items():
        if "a" in pr and "b" in pr:
            (ca, ma), (cb, mb) = pr["a"], pr["b"]
            if ma["inp"] != mb["inp"]:
                continue
            samples = ma["samples"] + mb["samples"]
            S = scale_of([v for r in ma["out"] + mb["out"] for p in r for v in p] + [v for p in samples for v in p])
            slack = 10 * max(ma["tol"], mb["tol"], 1e-13)
            Ts = -int(-((Fraction(slack) * S) ** 2) // 1)
            dl.append("MONO p%d %s %s %s %s %d %s" % (i, hx(isqrt_ceil(Ts) + 1), hx(Ts), rings_tok(ma["out"], S), rings_tok(mb["out"], S),
                                                     len(samples), " ".join(hx(to_int(x, S)) + " " + hx(to_int(y, S)) for x, y in samples)))
    cx.log("running %d exact checker commands" % len(dl))
    O = drive(dl)
    judged_total = 0
    for cid, m in meta.items():
        if m["kind"] == "OFF" and "out" in m:
            o = O.get(cid)
            bump("offset %s %s" % (m["jt"], "grow" if m["delta"] > 0 else "shrink"))
            if o is None or o[2] == "BADPARAMS":
                cx.broke("check:C12/offset_check#%s" % cid, "checker produced no verdict: %s" % (o,)); continue
            judged_total += int(o[4])
            if int(o[4]) >= 2 and m["out"]:
                st["nontriv"].add(("O", cid, tuple(tuple(r) for r in m["polys"]), m["delta"], m["jt"], m["segs"]))
            rep = {"polys_bits": [[(d2bits(x), d2bits(y)) for x, y in r] for r in m["polys"]], "polys": m["polys"], "delta": m["delta"], "join": m["jt"],
                   "miter_limit": m["ml"], "segments": m["segs"]}
            if o[2] != "1":
                s = m["samples"][int(o[3])]
                rep["sample"] = s
                why = {"1": "winding-not-01", "2": "sample-not-covered", "3": "sample-overcovered"}.get(o[5] if len(o) > 5 else "", "sample-misclassified")
                what = {"1": "the output's winding number there is neither 0 nor 1",
                        "2": "it must be inside the result (inside the input / closer than |delta| - chord error - 10 eps to it, resp. farther than that from the complement) but the output's winding there is 0",
                        "3": "it must be outside the result (farther than bound(join)*|delta| + 10 eps from the input, resp. closer than that to the complement) but the output's winding there is 1"}.get(o[5] if len(o) > 5 else "", "")
                cx.violation("offset-%s-%s" % ("grow" if m["delta"] > 0 else "shrink", why),
                             "Offset(delta=%r, %s, ml=%r, segs=%d) at sample point %r: %s" % (m["delta"], m["jt"], m["ml"], m["segs"], s, what), rep)
            r = O.get("r" + cid)
            if r is None or r[2] != "1":
                cx.violation("offset-output-edges-cross", "Offset(delta=%r, %s) output has two edges crossing transversally by more than 10 eps" % (m["delta"], m["jt"]), rep)
        elif m["kind"] == "HULLAPI" and "out" in m:
            o = O.get(cid)
            hull = m["out"][0] if m["out"] else []
            bump("hullapi |out|>=3" if len(hull) >= 3 else "hullapi empty")
            if len(hull) >= 3 and len(set(m["pts"])) > len(hull):
                st["nontriv"].add(("HU", tuple(m["pts"])))
            if o is None or o[2] != "1":
                cx.violation("hull-not-convex-hull", "CrossSection::Hull output rejected by hull2_check: pts=%s out=%s" % (m["pts"], hull),
                             {"pts": m["pts"], "pts_bits": [(d2bits(x), d2bits(y)) for x, y in m["pts"]], "out": hull})
        elif m["kind"] == "DECOAPI" and "comps" in m:
            o = O.get(cid)
            bump("decomposeapi comps=%d" % min(len(m["comps"]), 4))
            if len(m["comps"]) >= 2 or any(len(c) > 1 for c in m["comps"]):
                st["nontriv"].add(("DE", tuple(tuple(r) for r in m["polys"])))
            if o is None or o[2] != "1":
                cx.violation("decompose-components-wrong", "CrossSection::Decompose rejected by decomp_check (areas / hole in outline / disjoint): %d rings -> %s"
                             % (len(m["inp"]), [len(c) for c in m["comps"]]), {"polys": m["polys"], "in": m["inp"], "comps": m["comps"]})
        elif m["kind"] == "SIMPAPI" and "pairs" in m:
            bump("simplifyapi tol=%g" % m["tol"])
            removed = sum(len(r) - len(o) for o, r in m["pairs"])
            if removed > 0 and any(len(o) > 3 for o, _ in m["pairs"]):
                st["nontriv"].add(("SI", tuple(tuple(r) for r in m["polys"]), m["tol"]))
            for k, (o_ring, r) in enumerate(m["pairs"]):
                o = O.get("%s_%d" % (cid, k))
                if o is None or o[2] != "1" or o[3] != "1":
                    key = "simplify-not-subsequence" if (o is None or o[2] != "1") else "simplify-vertex-below-tolerance"
                    cx.violation(key, "CrossSection::Simplify(%r): ring %d rejected (subsequence=%s, deviation>=tol=%s)" % (m["tol"], k, o and o[2], o and o[3]),
                                 {"polys": m["polys"], "tol": m["tol"], "in_ring": r, "out_ring": o_ring})
    for i, pr in byp.items():
        o = O.get("p%d" % i)
        if o is not None and o[2] != "1":
            ma = pr["a"][1]; mb = pr["b"][1]
            cx.violation("offset-not-monotone", "Offset is not monotone in delta: a sample inside Offset(%r) (10 eps from its boundary) is outside Offset(%r), join %s"
                         % (ma["delta"], mb["delta"], ma["jt"]), {"polys": ma["polys"], "delta1": ma["delta"], "delta2": mb["delta"], "join": ma["jt"], "segments": ma["segs"],
                                                                  "miter_limit": ma["ml"]})
    cx.cov["offset_samples_judged"] = judged_total
    ex = next((m for m in meta.values() if m["kind"] == "OFF" and "out" in m), None)
    if ex:
        cx.sample({"offset_case": {"polys": ex["polys"], "delta": ex["delta"], "join": ex["jt"], "segments": ex["segs"], "miter_limit": ex["ml"]},
                   "out_rings": [len(r) for r in ex["out"]], "samples": len(ex.get("samples", []))})
