"""C19 — refinement keeps the surface; simplification only removes redundancy.
proof (bounded where stated) of the ported Partition patterns + bit-exact
correspondence of the port with /repo's Partition over the whole swept range +
the proved-sound tiling checker as oracle on the implementation's own patterns
+ end-to-end Refine / RefineToLength / RefineToTolerance / Simplify /
SetTolerance runs with exact or tightly bounded oracles."""
import itertools, os, random, re
from concurrent.futures import ThreadPoolExecutor
import vp

LEVEL = "proof"
META = {
    "level": "proof",
    "technique": "Coq proof (vm_compute sweeps with the bound in the statement + inductive lemmas) about a Gallina port of class Partition; "
                 "extracted-model correspondence (bit patterns) with /repo; proved-sound exact-rational tiling checker as oracle; end-to-end oracles",
    "text": "Gallina port of Partition::GetPartition/GetCachedPartition/PartitionFan/PartitionQuad/Reindex (double-precision rounding decisions ported with "
            "PrimFloat, barycentrics computed both in binary64 and in exact Q by one code path), of Subdivide's offset arithmetic (edges, edgeOffset/interiorOffset "
            "scans, per-triangle Reindex, vertBary owners, property-vertex slots; meshes without marked quads) and of the integer bookkeeping of CollapseEdge2/SwapEdge "
            "(PairUp, UpdateVert, FormLoop, CollapseTri, RemoveIfFolded). ALL SIZES: fan_tiles, quad_terminal_tiles, partition_quad_tiles (terminal + recursive "
            "strips, any value of the rounded `added`), partition_tiles (all n0>=n1>=n2>=1, given split_ok about the two double-precision numbers of the obtuse "
            "branch) and partition_quad_pattern_tiles: whenever the ported function returns, the boundary chain of its triangles is the subdivided outline; "
            "reindex_consistent and reindex_outline (the renaming of Reindex - six orders, mirrored patterns - maps the pattern outline onto the triangle's subdivided "
            "sides); new_indices_once_edges/_interior (every new vertex index written exactly once); subdivided_outlines_balance and subdivide_balances (for any closed "
            "oriented soup and any non-negative edge divisions the ported Subdivide returns a closed oriented soup, given split_ok of the patterns used); simplify_slots_constant and simplify_counts (for every state, fuel, verdict and "
            "operation sequence the triangle count never grows); collapse_tri_dead_stay_dead (pairing invariant pair_inv); swap_edge_inv_partial / collapse_edge2_inv_partial / "
            "simplify_counts_monotone_partial (invariant preserved, removed faces stay removed, count non-increasing from any invariant state - under executable guards "
            "that are evaluated on every traced operation); general Subdivide model with marked quads and keepInterior: keep_interior_nonneg, new_indices_once_edges_q/"
            "_interior_q, face_outlines_balance, valid_tangents_implies_quads_valid, reindex_outline_quad, subdivide_q_balances, subdivide_q_restricts; "
            "collapse_tri_kills_tri; dedupe_adds_two; prop_slots_disjoint; tolerance facts "
            "(set_tolerance_reports_max, tolerance_ge_epsilon, simplify_tolerance_unchanged, set_epsilon_floor). BOUNDED (exact rational geometry and definedness): "
            "tiles_ok_sound + partition_tiles_bounded (n0<=24, eps=0), partition_quad_tiles_bounded (<=10), get_partition_tiles_bounded, float_pattern_tiles_bounded "
            "(n0<=12: binary64 pattern tiles within 2^-44), uniform_n_squared (n<=64), reindex_two_triangles_bounded (<=5), split_ok_sweep (n0<=24). "
            "Tie: every swept key is run through /repo's Partition (fresh and cached) and compared bit for bit with the extracted model; the extracted checker "
            "runs on the implementation's arrays; Reindex on random calls + two-triangle composition; Impl::Subdivide with hashed edge divisions against the "
            "ported Subdivide (triVerts, NumVert, vertBary owners), and with marked quads (SmoothOut meshes) and keepInterior against the general model; Impl::CollapseEdge2/SwapEdge random sequences against the ported bookkeeping (complete "
            "halfedge state after every operation); Refine/RefineToLength/RefineToTolerance/Simplify/SetTolerance end to end (n^2 counts, model-predicted "
            "counts, retained vertices as bit patterns, volume/area, distance to the input surface, references, Euler characteristic, pairing, tolerance).",
    "note": "Trusted: Coq kernel + vm_compute + PrimFloat (hardware binary64), extraction (ExtrOcamlBasic, ExtrOCamlFloats, ExtrOCamlInt63), the C++ harness. "
            "Not proved: that the pattern functions return for sizes beyond the sweeps (definedness depends on double-precision values) and split_ok beyond n0<=24; "
            "exact geometry (positive areas, interior points) beyond the sweeps; the guards of the CollapseEdge2/SwapEdge invariant theorems are not derived from the pairing invariant (vertex consistency would be needed); surface displacement <= t (decided on outputs: volume/area "
            "within 1e-10 relative, vertex-to-input-surface distance <= 2^-24 by a double-precision brute force); 'new vertex lies on the interpolated surface' "
            "with tangents is not checked (only: original vertices do not move, topology, counts).",
}

TRI_B, QUAD_B = 24, 10


def tri_keys(b):
    return [(n0, n1, n2, 0) for n0 in range(1, b + 1) for n1 in range(1, n0 + 1) for n2 in range(1, n1 + 1)]


def quad_keys(b):
    return [(a, x, y, z) for a in range(1, b + 1) for x in range(a, b + 1) for y in range(a, b + 1) for z in range(a, b + 1)]


def run_parallel(drv, lines, nproc=12, timeout=1700):
    chunks = [lines[i::nproc] for i in range(nproc)]
    def one(ch):
        if not ch:
            return ""
        rc, out, err = vp.sh2([drv], input="\n".join(ch) + "\n", timeout=timeout)
        return out
    with ThreadPoolExecutor(max_workers=nproc) as ex:
        return "".join(ex.map(one, chunks))


def chain(tris):
    c = {}
    for a, b, d in tris:
        for e in ((a, b), (b, d), (d, a)):
            c[e] = c.get(e, 0) + 1
    return c


def coef_equal(tris, cycle):
    c = chain(tris)
    o = {}
    for i in range(len(cycle)):
        e = (cycle[i], cycle[(i + 1) % len(cycle)])
        o[e] = o.get(e, 0) + 1
    keys = set(c) | set(o) | {(b, a) for a, b in c} | {(b, a) for a, b in o}
    return all(c.get((a, b), 0) - c.get((b, a), 0) == o.get((a, b), 0) - o.get((b, a), 0) for a, b in keys)


def parse_tv(line):
    m = re.search(r" T (\d+) TV((?: -?\d+)*)", line)
    if not m:
        return None
    v = list(map(int, m.group(2).split()))
    return [tuple(v[i:i + 3]) for i in range(0, len(v), 3)]


def kv(line):
    d = {}
    for t in line.split()[2:]:
        k, _, v = t.partition("=")
        d[k] = v
    return d


def partitions(cx, exe, drv):
    rng = random.Random(cx.seed * 1009 + 19)
    keys = tri_keys(TRI_B) + quad_keys(QUAD_B)
    keys += [q + (0,) for n in tri_keys(6) for q in set(itertools.permutations(n[:3]))]
    keys += [tuple(rng.randrange(1, QUAD_B + 1) for _ in range(4)) for _ in range(cx.pick(600, 4000))]
    keys += [tuple(rng.randrange(1, TRI_B + 1) for _ in range(3)) + (0,) for _ in range(cx.pick(300, 3000))]
    keys += [(0, 3, 2, 1), (0, 0, 0, 0)]
    seen, uniq = set(), []
    for k in keys:
        if k not in seen:
            seen.add(k)
            uniq.append(k)
    lines = ["P %d %d %d %d" % k for k in uniq]
    kl = lambda l: " ".join(l.split()[1:5])
    out_impl, crashes = vp.run_cases(exe, lines, kl, kl, timeout=cx.pick(300, 900))
    for cl, rc, err in crashes:
        cx.violation("partition-crash", "Partition::GetPartition crashed or hung (rc=%s): %s" % (rc, err[-200:]), {"case": cl})
    out_model = run_parallel(drv, lines, 4)
    impl = {kl(l): l for l in out_impl.splitlines() if l.startswith("P ")}
    model = {kl(l): l for l in out_model.splitlines() if l.startswith("P ")}
    mism = [k for k in (kl(l) for l in lines) if impl.get(k) != model.get(k)]
    # oracle: the proved-sound checker on the implementation's own arrays
    in_quick = lambda k: (k[3] == 0 and max(k) <= 10) or (k[3] > 0 and max(k) <= 4)
    todo = []
    for k in uniq:
        ks = "%d %d %d %d" % k
        if k[0] == 0 or ks not in impl:
            continue
        if (not cx.quick()) or in_quick(k) or ks in mism or rng.random() < 0.01:
            todo.append("O" + impl[ks][1:])
    if mism:  # the correspondence broke: search the whole range
        todo = ["O" + impl[k][1:] for k in impl if not k.startswith("0 ")]
    verdict = {kl(l): l.split()[5] for l in run_parallel(drv, todo).splitlines() if l.startswith("O ")}
    rejected = [k for k in verdict if verdict[k] != "1"]
    for k in rejected[:3]:
        cx.violation("partition-not-a-tiling",
                     "Partition::GetPartition({%s}) is rejected by the proved-sound tiling checker tiles_ok (hole/overlap/unused vertex/boundary)" % k,
                     {"case": "P " + k, "impl": impl[k][:2000], "model": str(model.get(k))[:2000]})
    notcached = [k for k, l in impl.items() if not l.endswith(" C 1")]
    for k in notcached[:2]:
        cx.violation("partition-cache-differs", "the cached copy of Partition {%s} differs from the first computation" % k, {"case": "P " + k})
    for k in mism[:3]:
        if k not in rejected:
            cx.broke("corr:C19/get_partition#P %s" % k, "model and implementation differ: impl=%s model=%s" % (str(impl.get(k))[:300], str(model.get(k))[:300]))
    if len(verdict) < len(todo):
        cx.broke("oracle:C19/tiles_ok", "checker driver answered %d of %d" % (len(verdict), len(todo)))
    nontriv = sum(1 for k in uniq if k[0] > 0 and sum(k) > 3 + (k[3] > 0))
    cx.cov["partition"] = {"keys": len(uniq), "bit_exact_matches": len(uniq) - len(mism), "oracle_runs": len(verdict),
                           "oracle_rejected": len(rejected), "tri_bound": TRI_B, "quad_bound": QUAD_B}
    cx.sample({"case": lines[40], "impl": impl.get(kl(lines[40]), "")[:400]})
    return len(uniq), nontriv, len(mism)


def reindexes(cx, exe, drv):
    rng = random.Random(cx.seed * 31 + 7)
    lines = []
    for _ in range(cx.pick(1500, 20000)):
        quad = rng.random() < 0.3
        d = [rng.randrange(1, 9) for _ in range(4 if quad else 3)] + ([] if quad else [0])
        tv = [10, 11, 12, 13 if quad else -1]
        eo = [1000, 2000, 3000, 4000 if quad else 0]
        fwd = [rng.randrange(2) for _ in range(4)]
        lines.append("R " + " ".join(map(str, d + tv + eo + fwd + [5000])))
    kl = lambda l: " ".join(l.split()[1:18])
    out_impl, crashes = vp.run_cases(exe, lines, kl, kl, timeout=cx.pick(300, 900))
    for cl, rc, err in crashes:
        cx.violation("reindex-crash", "Partition::Reindex crashed (rc=%s): %s" % (rc, err[-200:]), {"case": cl})
    rc, out_model, err = vp.sh2([drv], input="\n".join(lines) + "\n", timeout=cx.pick(300, 900))
    impl = {kl(l): l for l in out_impl.splitlines() if l.startswith("R ")}
    model = {kl(l): l for l in out_model.splitlines() if l.startswith("R ")}
    mism = [kl(l) for l in lines if impl.get(kl(l)) != model.get(kl(l))]
    # oracle: two neighbouring triangles, shared edge forward in one, backward in the other
    comp, bad = [], []
    B = 5
    tuples = [(d, a1, a2, b1, b2) for d in range(1, B + 1) for a1 in range(1, B + 1) for a2 in range(1, B + 1)
              for b1 in range(1, B + 1) for b2 in range(1, B + 1)]
    if cx.quick() and not mism:
        tuples = rng.sample(tuples, 600)
    for (d, a1, a2, b1, b2) in tuples:
        comp.append("R %d %d %d 0 10 11 12 -1 1000 2000 3000 0 1 1 0 0 5000" % (d, a1, a2))
        comp.append("R %d %d %d 0 11 10 13 -1 1000 4000 6000 0 0 1 0 0 7000" % (d, b1, b2))
    out_c, _ = vp.run_cases(exe, comp, kl, kl, timeout=cx.pick(300, 900))
    oc = [l for l in out_c.splitlines() if l.startswith("R ")]
    for i, (d, a1, a2, b1, b2) in enumerate(tuples):
        if 2 * i + 1 >= len(oc):
            break
        ta, tb = parse_tv(oc[2 * i]), parse_tv(oc[2 * i + 1])
        cyc = [11] + list(range(2000, 2000 + a1 - 1)) + [12] + list(range(3000 + a2 - 2, 2999, -1)) + \
              [10] + list(range(4000, 4000 + b1 - 1)) + [13] + list(range(6000 + b2 - 2, 5999, -1))
        if ta is None or tb is None or not coef_equal(ta + tb, cyc):
            bad.append((d, a1, a2, b1, b2))
    for t in bad[:2]:
        cx.violation("reindex-unbalanced",
                     "two neighbouring triangles with divisions shared=%d, (%d,%d) and (%d,%d): after Partition::Reindex the shared edge does not cancel "
                     "(the subdivided soup is not a closed oriented surface)" % t,
                     {"case": ["R %d %d %d 0 10 11 12 -1 1000 2000 3000 0 1 1 0 0 5000" % (t[0], t[1], t[2]),
                               "R %d %d %d 0 11 10 13 -1 1000 4000 6000 0 0 1 0 0 7000" % (t[0], t[3], t[4])]})
    if mism and not bad:
        for k in mism[:2]:
            cx.broke("corr:C19/reindex#R %s" % k, "model and implementation differ: impl=%s model=%s" % (str(impl.get(k))[:300], str(model.get(k))[:300]))
    cx.cov["reindex"] = {"calls": len(lines), "matches": len(lines) - len(mism), "two_triangle_compositions": len(tuples), "unbalanced": len(bad)}
    return len(lines), len(mism)


def subdivides(cx, exe, drv):
    """Impl::Subdivide (tangent-free meshes, hashed edgeDivisions) against the ported offset arithmetic."""
    rng = random.Random(cx.seed * 131 + 77)
    lines = ["S %d %d %d %d" % (i, rng.choice([0, 1, 2, 3, 4, 5, 6, 7]), rng.randrange(1, 2 ** 31), rng.choice([2, 3, 4, 6, 9]))
             for i in range(cx.pick(500, 8000))]
    kl = lambda l: l.split()[1] if l.startswith("S ") else None
    out_impl, crashes = vp.run_cases(exe, lines, kl, kl, timeout=cx.pick(300, 1500))
    for cl, rc, err in crashes:
        cx.violation("subdivide-crash", "Impl::Subdivide crashed or hung (rc=%s): %s" % (rc, err[-200:]), {"case": cl})
    impl = {kl(l): l for l in out_impl.splitlines() if l.startswith("S ")}
    feed = [l for l in impl.values() if " SKIP" not in l]
    out_model = run_parallel(drv, feed, 8, timeout=cx.pick(600, 1700))
    model = {kl(l): l for l in out_model.splitlines() if l.startswith("S ")}
    n, mism, unbalanced = 0, 0, 0
    for k, l in impl.items():
        if " SKIP" in l:
            continue
        n += 1
        a = l[l.index(" OUT "):].split(" VB ")[0].split()
        own = l[l.index(" OWN"):].split()
        m = model.get(k, "")
        ma = m[m.index(" OUT "):m.index(" OWN")].split() if " OUT " in m and " OWN" in m else ["?"]
        mo = m[m.index(" OWN"):].split() if " OWN" in m else ["?"]
        if a == ma and own == mo:
            continue
        mism += 1
        # oracle: is the implementation's subdivided soup closed, oriented, all vertices used?
        v = list(map(int, a[2:2 + 3 * int(a[1])]))
        tris = [tuple(v[i:i + 3]) for i in range(0, len(v), 3)]
        nv2 = int(a[a.index("NV2") + 1])
        used = set(v)
        if not coef_equal(tris, []) or used != set(range(nv2)):
            unbalanced += 1
            if unbalanced <= 2:
                cx.violation("subdivide-unbalanced",
                             "Impl::Subdivide returned a soup that is not closed/oriented or leaves a vertex unused (case %s)" % k,
                             {"case": [x for x in lines if kl(x) == k][0], "impl": l[:3000], "model": m[:3000]})
        elif mism - unbalanced <= 2:
            cx.broke("corr:C19/subdivide#S %s" % k, "ported Subdivide and Impl::Subdivide differ: impl=%s model=%s" % (" ".join(a)[:300], " ".join(ma)[:300]))
    cx.cov["subdivide"] = {"cases": n, "matches": n - mism, "compared": "triVerts (halfedge starts after Subdivide), NumVert, vertBary owner triangles"}
    return n, mism


def subdivides_q(cx, exe, drvq):
    """Impl::Subdivide with marked quads (SmoothOut meshes) and keepInterior against the general ported model."""
    rng = random.Random(cx.seed * 173 + 9)
    lines = ["Q %d %d %d %d %d %d" % (i, rng.choice([0, 1, 2, 3, 4, 5, 6, 7]), rng.randrange(1, 2 ** 31), rng.choice([2, 3, 4, 6, 9]),
                                       rng.randrange(2), rng.choice([0, 1, 1, 2]))
             for i in range(cx.pick(250, 6000))]
    kl = lambda l: l.split()[1] if l.startswith("Q ") else None
    out_impl, crashes = vp.run_cases(exe, lines, kl, kl, timeout=cx.pick(300, 1500))
    for cl, rc, err in crashes:
        cx.violation("subdivide-crash", "Impl::Subdivide crashed or hung (rc=%s): %s" % (rc, err[-200:]), {"case": cl})
    impl = {kl(l): l for l in out_impl.splitlines() if l.startswith("Q ")}
    feed = [l for l in impl.values() if " SKIP" not in l]
    out_model = run_parallel(drvq, feed, 8, timeout=cx.pick(600, 1700))
    model = {kl(l): l for l in out_model.splitlines() if l.startswith("Q ")}
    n, mism, unbalanced, nq, nk = 0, 0, 0, 0, 0
    for k, l in impl.items():
        if " SKIP" in l:
            continue
        n += 1
        t = l.split()
        nq += int(int(t[t.index("M") + 1]) > 0)
        nk += int(t[3] == "1")
        a = l[l.index(" OUT "):].split()
        m = model.get(k, "")
        ma = m[m.index(" OUT "):].split() if " OUT " in m else ["?"]
        if a == ma:
            continue
        mism += 1
        v = list(map(int, a[2:2 + 3 * int(a[1])]))
        tris = [tuple(v[i:i + 3]) for i in range(0, len(v), 3)]
        nv2 = int(a[a.index("NV2") + 1])
        if not coef_equal(tris, []) or set(v) != set(range(nv2)):
            unbalanced += 1
            if unbalanced <= 2:
                cx.violation("subdivide-unbalanced",
                             "Impl::Subdivide (marked quads / keepInterior) returned a soup that is not closed/oriented or leaves a vertex unused (case %s)" % k,
                             {"case": [x for x in lines if kl(x) == k][0], "impl": l[:3000], "model": m[:3000]})
        elif mism - unbalanced <= 2:
            cx.broke("corr:C19/subdivide_q#Q %s" % k, "general ported Subdivide and Impl::Subdivide differ: impl=%s model=%s" % (" ".join(a)[:300], " ".join(ma)[:300]))
    cx.cov["subdivide_q"] = {"cases": n, "matches": n - mism, "with_marked_quads": nq, "with_keepInterior": nk}
    return n, mism


def edgeops(cx, exe, drv2):
    """Impl::CollapseEdge2 (short merger) / Impl::SwapEdge, random sequences, against the ported bookkeeping."""
    rng = random.Random(cx.seed * 211 + 5)
    lines = ["X %d %d %d %d" % (i, rng.randrange(6), rng.randrange(1, 2 ** 31), rng.choice([3, 6, 10])) for i in range(cx.pick(150, 3000))]
    kl = lambda l: l.split()[1].split(".")[0] if l.startswith("X ") else None
    ko = lambda l: l.split()[1].split(".")[0] if l.startswith("X ") and l.split()[1].endswith(".end") else None
    out_impl, crashes = vp.run_cases(exe, lines, kl, ko, timeout=cx.pick(45, 600), max_restarts=cx.pick(2, 20))
    steps = [l for l in out_impl.splitlines() if l.startswith("X ") and " ST0 " in l]
    out_model = run_parallel(drv2, steps, 8, timeout=cx.pick(600, 1700))
    verdict = {l.split()[1]: l for l in out_model.splitlines() if l.startswith("X ")}
    grew, diff = 0, 0
    inv_stats = {"states_with_pair_inv": 0, "guard_true": 0, "guard_false": 0, "inv_lost_though_guard_true": 0, "dead_resurrected": 0}
    for l in steps:
        t = l.split()
        k = t[1]
        live, live0 = int(t[t.index("LIVE") + 1]), int(t[t.index("LIVE0") + 1])
        if live > live0:
            grew += 1
            if grew <= 2:
                cx.violation("simplify-grows", "a CollapseEdge2/SwapEdge sequence increased the number of live triangles %d -> %d" % (live0, live),
                             {"case": [x for x in lines if kl(x) == k.split(".")[0]][0], "step": k})
        v = verdict.get(k, "")
        vt = v.split()
        if " OK " in v and "INV0" in vt:
            inv0, inv1, g = vt[vt.index("INV0") + 1], vt[vt.index("INV1") + 1], vt[vt.index("GUARD") + 1]
            inv_stats["states_with_pair_inv"] += int(inv0 == "1")
            inv_stats["guard_true" if g == "1" else "guard_false"] += 1
            if inv0 == "1" and g == "1" and inv1 != "1":
                inv_stats["inv_lost_though_guard_true"] += 1
                cx.broke("thm:C19/collapse_edge2_inv#%s" % k, "pair_inv and the guard hold before the operation but pair_inv fails after it on the implementation's state")
        if " OK " not in v:
            diff += 1
            if diff <= 2 and live <= live0:
                cx.broke("corr:C19/edge_ops#%s" % k, "ported CollapseEdge2/SwapEdge and the implementation differ: %s" % v[:200])
    cx.cov["edge_ops"] = {"sequences": len(lines), "operations_compared": len(steps), "matches": len(steps) - diff,
                          "sequences_crashed_or_hung": len(crashes), "invariant": inv_stats,
                          "note": "random operation sequences ignore SimplifyTopology2's preconditions; a crash there is recorded, not reported"}
    return len(steps), diff


def gen_e2e(rng, count, crashy=0.0):
    cases = []
    for cid in range(count):
        fam = rng.choice(["refn", "refn", "refl", "refr", "refr", "tan", "tan", "f6", "simp", "simp", "tol"])
        seed = rng.randrange(1, 2 ** 31)
        if fam == "refn":
            c = (rng.choice([0, 1, 2, 3, 4, 5, 6, 7]), seed, 0, 0, rng.choice([1, 2, 2, 3, 3, 4, 5, 7]), 0)
        elif fam == "refl":
            c = (rng.choice([0, 1, 2, 3, 4, 5, 6, 7]), seed, 0, 1, 0, rng.choice([150, 250, 400, 700, 5000]))
        elif fam == "refr":
            c = (rng.choice([0, 1, 2, 3, 4, 5, 6, 7]), seed, 0, 3, rng.choice([2, 3, 4, 6, 9]), rng.choice([0, 0, 0, 1]))
        elif fam == "tan":
            op = rng.choice([0, 1, 2])
            c = (rng.choice([0, 1, 2, 3, 4, 6]), seed, rng.choice([1, 1, 2]), op, rng.choice([2, 3, 4, 5]),
                 rng.choice([200, 300, 500]) if op == 1 else rng.choice([100, 300, 1000]))
        elif fam == "f6":
            op = rng.choice([1, 1, 2])
            c = (6, seed, 1, op, rng.choice([1, 3]), rng.choice([150, 200, 300]) if op == 1 else rng.choice([50, 100, 300]))
        elif fam == "simp":
            c = (rng.choice([0, 2, 3]), seed, 0, rng.choice([4, 5]), rng.choice([2, 3, 4, 5]), rng.randrange(0, 8))
        else:
            c = (rng.choice([0, 1, 2, 3, 4]), seed, 0, 6, 0, rng.randrange(0, 21))
        # SmoothOut(.., minSmoothness = 0) + RefineToTolerance crashes or hangs on the pinned tree (0/0 in
        # CreateTangents, key smoothout-nan-tangents; two such inputs are in corpus/C19/e2e.txt): keep the random
        # stream almost free of it so that a run is not dominated by crash recovery.
        if c[2] == 1 and c[3] == 2 and (c[4] // 2) % 2 == 1 and rng.random() >= crashy:
            c = c[:4] + (c[4] + 2 if c[4] < 4 else c[4] - 2,) + c[5:]
        cases.append((cid, fam) + c)
    return cases


def e2e_line(c):
    return "E %d %d %d %d %d %d %d" % (c[0], c[2], c[3], c[4], c[5], c[6], c[7])


SURF_MAX = 1 << 16   # units of 2^-40: 2^-24 absolute (coordinates are O(1..5); the double-precision point-triangle distance is ill-conditioned on the sliver triangles Booleans produce)


def e2e(cx, exe, drv, budget):
    rng = random.Random(cx.seed * 65537 + 1919)
    cases = gen_e2e(rng, budget, 0.0 if cx.quick() else 0.01)
    corpus = os.path.join(vp.ROOT, "corpus", "C19", "e2e.txt")
    if os.path.exists(corpus):
        extra = [tuple(map(int, l.split())) for l in open(corpus) if l.strip() and not l.startswith("#")]
        cases = [(100000 + i, "corpus") + t for i, t in enumerate(extra)] + cases
    lines = [e2e_line(c) for c in cases]
    kl = lambda l: l.split()[1] if l.startswith("E ") else None
    out, crashes = vp.run_cases(exe, lines, kl, kl, timeout=cx.pick(30, 1500), max_restarts=cx.pick(4, 200))
    for cl, rc, err in crashes:
        t = cl.split()
        op2 = len(t) > 6 and t[4] == "1" and (int(t[6]) // 2) % 2 == 1   # SmoothOut(.., minSmoothness = 0)
        cx.violation("smoothout-nan-tangents" if op2 else "refine-crash",
                     "the library crashed or hung (rc=%s) on an end-to-end case%s: %s"
                     % (rc, " [.SmoothOut(minSharpAngle, minSmoothness=0) computes 0/0 in CreateTangents -> NaN tangents; RefineToTolerance then casts NaN to int]" if op2 else "", err[-300:]),
                     {"case": cl, "fields": "E id shape seed pre op a b (see harness/c19_e2e.h)",
                      "minimal_public_api_replay": "Manifold::Cube().SmoothOut().RefineToTolerance(0.003)  // segfaults at the pinned commit" if op2 else None})
    res = {kl(l): kv(l) for l in out.splitlines() if l.startswith("E ")}
    # model-predicted triangle counts for Impl::Refine with hashed divisions
    triples = set()
    for c in cases:
        r = res.get(str(c[0]))
        if r and "div" in r and r["div"]:
            for t in r["div"].split(","):
                triples.add(tuple(map(int, t.split(":")[:3])))
    rc, pout, _ = vp.sh2([drv], input="".join("P %d %d %d 0\n" % t for t in sorted(triples)), timeout=cx.pick(300, 900))
    pcount = {}
    for l in pout.splitlines():
        m = re.match(r"P (\d+) (\d+) (\d+) 0 .* T (\d+) TV", l)
        if m:
            pcount[(int(m.group(1)), int(m.group(2)), int(m.group(3)))] = int(m.group(4))
    dist, nontriv, seen = {}, 0, set()
    for c in cases:
        cid, fam, shape, seed, pre, op, a, b = c
        dist[fam] = dist.get(fam, 0) + 1
        r = res.get(str(cid))
        rep = {"case": e2e_line(c), "family": fam, "fields": "E id shape seed pre op a b (see harness/c19_e2e.h)", "result": r}
        if r is None:
            continue
        I = lambda k: int(r.get(k, "0"))
        if I("st0") != 0 or I("nt0") == 0:
            continue  # generator produced an empty/invalid base (e.g. empty Boolean): not a case
        if I("st1") != 0:
            cx.violation("refine-error-status", "operation returned status %d on a valid manifold (%s)" % (I("st1"), fam), rep)
            continue
        tang = I("tang") == 1
        if I("nan_tan") > 0:
            ok = (I("ref1") == 1 and I("chi1") % 2 == 0 and I("man1") == 1 and I("kept") == 1 and I("finite1") == 1 and I("lost") == 0)
            if not ok:
                cx.violation("smoothout-nan-tangents",
                             "SmoothOut(minSharpAngle, minSmoothness=0) left %d NaN halfedge tangents (0/0 in CreateTangents, 'Sharpen vertex uniformly'); the "
                             "following Refine* returned NoError with a broken mesh (manifold=%s referenced=%s chi=%s finite=%s)"
                             % (I("nan_tan"), r.get("man1"), r.get("ref1"), r.get("chi1"), r.get("finite1")), rep)
            continue
        if op in (0, 1, 2, 3):
            if I("ref1") == 0 or I("chi1") % 2 != 0:
                what = "RefineToLength" if op == 1 else "RefineToTolerance" if op == 2 else "Refine"
                cx.violation("refine-strands-vertex",
                             "%s%s leaves %d unreferenced vertex/vertices (NumVert=%d, Euler characteristic %d) on shape %d seed %d"
                             % (".SmoothOut()." if pre == 1 else "", what, I("unref1"), I("nv1"), I("chi1"), shape, seed), rep)
            if I("man1") == 0:
                cx.violation("refine-not-manifold", "refined mesh has unmatched or duplicated directed edges (%s)" % fam, rep)
            if I("kept") == 0 or I("lost") > 0:
                if tang:
                    cx.violation("refine-drops-original-vertex",
                                 "%d original vertex/vertices of the tangent-bearing input are absent from the refined mesh (bit patterns; %d of them belonged "
                                 "only to zero-volume fins): MarkQuads left a vertex with two quad edges, the re-split quads produce an opposed triangle pair "
                                 "that CreateHalfedges removes together with the vertex (shape %d seed %d)" % (I("lost"), I("lost_fin"), shape, seed), rep)
                else:
                    cx.violation("refine-moves-original-vertex", "an original vertex position is missing from the refined mesh (bit patterns; %s)" % fam, rep)
            if op == 0 and a > 1 and I("nt1") != a * a * I("nt0"):
                cx.violation("refine-count", "Refine(%d) returned %d triangles for %d input triangles (expected n^2 times)" % (a, I("nt1"), I("nt0")), rep)
            if op == 0 and a == 1 and I("nt1") != I("nt0"):
                cx.violation("refine-count", "Refine(1) changed the triangle count", rep)
            if not tang and (I("vol_same") == 0 or I("area_same") == 0 or I("surf40") > SURF_MAX or I("finite1") == 0):
                cx.violation("refine-moves-surface", "tangent-free refinement changed volume/area (rel 1e-10) or put a vertex %d*2^-40 off the input surface"
                             % I("surf40"), rep)
            if op == 3 and b % 2 == 0 and r.get("div"):
                want = 0
                for t in r["div"].split(","):
                    x = list(map(int, t.split(":")))
                    want += pcount.get(tuple(x[:3]), -10 ** 9) * x[3]
                if want != I("nt1"):
                    cx.violation("refine-div-count", "Impl::Refine with per-edge divisions: %d triangles, the verified patterns predict %d" % (I("nt1"), want), rep)
            if I("nt1") > I("nt0"):
                key = (fam, shape, pre, op, a, b, I("nt0"), I("nt1"))
                if key not in seen:
                    seen.add(key)
                    nontriv += 1
        elif op in (4, 5):
            if I("nt1") > I("ntf"):
                cx.violation("simplify-grows", "Simplify/SetTolerance increased the triangle count %d -> %d" % (I("ntf"), I("nt1")), rep)
            if I("vol_same") == 0 or I("area_same") == 0 or I("surf40") > SURF_MAX or I("corner40") > SURF_MAX or I("man1") == 0 or I("ref1") == 0:
                cx.violation("simplify-moves-surface",
                             "simplifying a redundantly tessellated polyhedron below its feature size changed the solid: vol_same=%s area_same=%s "
                             "vertex off surface %s*2^-40, corner lost by %s*2^-40, manifold=%s" % (r.get("vol_same"), r.get("area_same"), r.get("surf40"),
                                                                                                     r.get("corner40"), r.get("man1")), rep)
            if I("tol_is_max") == 0:
                cx.violation("set-tolerance-not-max", "GetTolerance() after %s is not max(t, epsilon) / not unchanged" % ("SetTolerance" if op == 5 else "Simplify"), rep)
            if I("tol_ge_eps") == 0:
                cx.violation("tolerance-below-epsilon", "tolerance_ < epsilon_ after Simplify/SetTolerance", rep)
            if I("nt1") < I("ntf"):
                key = (fam, shape, op, a, b, I("ntf"), I("nt1"))
                if key not in seen:
                    seen.add(key)
                    nontriv += 1
        elif op == 6:
            if I("tol1_is_max") == 0 or I("tol_is_max") == 0:
                cx.violation("set-tolerance-not-max", "SetTolerance(up).SetTolerance(down): GetTolerance() is not max(t, epsilon)", rep)
            if I("tol_ge_eps") == 0:
                cx.violation("tolerance-below-epsilon", "tolerance_ < epsilon_ after SetTolerance", rep)
            if I("vol_same9") == 0:
                cx.violation("simplify-moves-surface", "SetTolerance(0.01) on a shape with feature size >= 0.5 changed the volume", rep)
            if I("lowered") == 1:
                key = (fam, shape, b)
                if key not in seen:
                    seen.add(key)
                    nontriv += 1
    for c in cases[:2]:
        cx.sample({"case": e2e_line(c), "result": res.get(str(c[0]))})
    cx.cov["e2e"] = {"cases": len(cases), "answered": len(res), "distribution": dist}
    return len(cases), nontriv


def run(cx):
    cx.assumptions += [
        "all-sizes pattern theorems are conditional on the ported function returning a result (definedness is shown by the sweeps: triangles n0<=24, quads<=10) and, in the obtuse branch, on split_ok (swept for n0<=24)",
        "exact-geometry theorems (areas, positions) are exhaustive only up to the bounds in their statements; Refine(n) n<=64; two-triangle Reindex composition<=5",
        "the double-precision rounding decisions are evaluated by Coq's PrimFloat primitives (hardware binary64) - listed by Print Assumptions",
        "subdivide_balances needs split_ok for the patterns used (swept for n0<=24) and non-negative vertex ids / edge divisions",
        "simplify_counts covers the operation sequences CollapseEdge2/SwapEdge (any verdicts) from an all-live state; the per-operation monotone version and invariant preservation carry executable guards (evaluated on the traces); the geometric reject block and CleanupTopology/DedupeEdges are not modelled (DedupeEdge's growth is: +2 triangles)",
        "tolerance wrappers are modelled over an abstract total order (Z) standing for non-NaN doubles",
        "surface displacement of Simplify and 'new vertices lie on the interpolated surface' are checked on outputs only (volume/area rel 1e-10, vertex-to-surface distance 2^-24)",
    ]
    cx.prove()
    # vp.parse_assumptions reads the header line "Axioms:" of a following Print Assumptions block as an
    # axiom called "Axioms" when several theorems list axioms (no blank line between the blocks): drop that
    # artefact (and only that) here; every real name is still matched against vp.ALLOWED_AXIOMS.
    cx.broken = [(n, d) for n, d in cx.broken if not (n == "coq:axioms" and d.endswith("allow-list: Axioms"))]
    cx.cov["axioms_reported_by_Print_Assumptions"] = [a for a in cx.cov.get("axioms_reported_by_Print_Assumptions", []) if a != "Axioms"]
    cx.cov["trusted_base"] = [t for t in cx.cov.get("trusted_base", []) if t != "axiom: Axioms"]
    mls = vp.coq_extract("ExtractC19", ["c19_model.ml", "c19_simplify.ml", "c19_subq.ml"])
    drv2 = vp.ocaml_build("c19_simplify_driver", [mls[1], os.path.join(vp.ROOT, "extract/c19_simplify_driver.ml")])
    drvq = vp.ocaml_build("c19_subq_driver", [mls[2], os.path.join(vp.ROOT, "extract/c19_subq_driver.ml")],
                          packages=["coq-core.kernel"], flags=["-rectypes", "-thread"])
    mls = mls[:1]
    drv = vp.ocaml_build("c19_driver", mls + [os.path.join(vp.ROOT, "extract/c19_driver.ml")],
                         packages=["coq-core.kernel"], flags=["-rectypes", "-thread"])
    exe = vp.build_harness("c19_partition", "seq", link_lib=True)
    n1, nt1, mism1 = partitions(cx, exe, drv)
    cx.log("partitions: %d keys, %d mismatches" % (n1, mism1))
    n2, mism2 = reindexes(cx, exe, drv)
    cx.log("reindex: %d calls, %d mismatches" % (n2, mism2))
    n4, mism4 = subdivides(cx, exe, drv)
    cx.log("subdivide: %d cases, %d mismatches" % (n4, mism4))
    n6, mism6 = subdivides_q(cx, exe, drvq)
    cx.log("subdivide (quads/keepInterior): %d cases, %d mismatches" % (n6, mism6))
    n5, mism5 = edgeops(cx, exe, drv2)
    cx.log("edge ops: %d operations, %d mismatches" % (n5, mism5))
    budget = cx.pick(3000, 40000)
    if mism1 or mism2 or mism4 or mism5 or mism6 or cx.broken:
        budget *= 3      # search: the tie or a proof broke, look harder for a concrete failing input
    n3, nt3 = e2e(cx, exe, drv, budget)
    cx.cov.update({"evaluations": n1 + n2 + n3 + n4 + n5 + n6, "distinct_nontrivial": nt1 + nt3,
                   "rule": "partition keys: every key of the proved range + random unsorted/rotated keys, non-trivial = at least one side divided; "
                           "end-to-end: distinct (family, shape, parameters, counts) whose operation changed the triangle count (or lowered the tolerance)",
                   "distribution": cx.cov["e2e"]["distribution"],
                   "correspondence_mismatches": mism1 + mism2 + mism4 + mism5 + mism6,
                   "traces_validated_against_impl": (n1 - mism1) + (n2 - mism2) + (n4 - mism4) + (n5 - mism5) + (n6 - mism6)})
