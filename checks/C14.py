"""C14 — spatial indices report exactly the overlapping pairs.
proof (certificate form) + correspondence of the ported radix-tree builder and
stack traversal + all-pairs oracle on the implementation's recorded pairs."""
import os, random, re
import vp

LEVEL = "proof"
META = {
    "level": "proof",
    "technique": "Coq proofs (Karras radix-tree well-formedness for all sorted inputs; exactness of the stack traversal, x-sorted sweep and k-d query) + extracted-model correspondence with Collider/boolean2/tree2d + all-pairs oracle",
    "text": "Coq theorems: radix_tree_wf_all - the ported CreateRadixTree (RangeEnd/FindSplit/PrefixLength with index tie-break) yields, for EVERY sorted code list with 2 <= n < 2^30 and any multiset of codes, "
            "a binary tree over leaves 0..n-1 (each once) of depth <= 64; collisions_exact_box/point - for every array set accepted by the proved-sound certificate wf_check (which such trees with union boxes pass) "
            "the ported 64-entry-stack traversal terminates without overflow and records exactly the overlapping (query,leaf) pairs, each once, for all sizes and queries (boxes may be unbounded); "
            "sweep_pairs_exact and kd_query_exact_multiset prove the 2-D x-sorted sweep and the polygon k-d tree exact for all inputs; query_stack_never_overflows proves that QueryTwoDTree's loop over its 64-entry stack arrays never overflows them for any array of < 2^64 points and reports what the recursive traversal reports. The ports are compared array-for-array with /repo's Collider, "
            "boolean2 BVH, CollectIntersectionPairs and QueryTwoDTree on generated inputs (sizes straddling the probe length read from the source, identical codes, degenerate boxes, unbounded and empty queries); "
            "wf_check runs on every tree the implementation builds; recorded pairs are compared with the all-pairs scan.",
    "note": "Trusted: Coq kernel, extraction (ExtrOcamlBasic), the C++ harnesses reading Collider's private arrays, integer-valued boxes standing for doubles (order-isomorphic embedding, +-2^60 for +-infinity). "
            "Not modelled: C++ int overflow in RangeEnd for n > 2^29 leaves; "
"BuildInternalBoxes' atomic arrival counters (modelled as order-independent unions; exercised in the par and sim builds above the thresholds read from collider.h); MortonCode's floating-point part; Collider::Transform: collisions_exact_after_transform (btransform = Box::Transform for axis-aligned matrices on finite non-empty boxes, compared node by node with the implementation); UpdateBoxes through the certificate.",
}


def consts_from_source():
    src = open(os.path.join(vp.REPO, "src/collider.h")).read()
    out = {}
    for name in ("kInitialLength", "kLengthMultiple", "kSequentialThreshold", "kRoot"):
        m = re.search(r"constexpr\s+int\s+%s\s*=\s*(\d+)\s*;" % name, src)
        out[name] = int(m.group(1)) if m else None
    return out


def gen_cases(rng, count, big, kinit=128):
    cases = []
    # sizes aimed at RangeEnd's exponential probe: runs of identical codes longer than kInitialLength
    # (a node inside such a run must grow max_length past the initial value) - taken from the constant
    # the source currently uses, so a retuned constant moves the boundary cases with it
    probe_sizes = [2 * kinit + 1, 2 * kinit + 50, 4 * kinit + 3, kinit + 2]
    for cid in range(count):
        mode = rng.randrange(8)
        if cid < 12:
            n = 2 + cid % 6
        elif 12 <= cid < 12 + 2 * len(probe_sizes):
            n = probe_sizes[(cid - 12) % len(probe_sizes)]
            mode = 1 if cid < 12 + len(probe_sizes) else 9
        elif big and cid % 40 == 0:
            n = rng.choice([127, 128, 129, 511, 512, 513, 600, 1100])
        else:
            n = rng.choice([2, 3, 4, 5, 7, 8, 9, 16, 17, 31, 33, 64, 100]) if rng.random() < 0.5 else rng.randrange(2, 140)
        # Morton codes: many duplicates / all equal / distinct / clustered high bits
        if mode == 0:
            codes = [rng.randrange(4) for _ in range(n)]
        elif mode == 1:
            codes = [rng.choice([0, 5, 2**30 - 1])] * n
        elif mode == 2:
            codes = [rng.randrange(2**30) for _ in range(n)]
        elif mode == 3:
            base = rng.randrange(2**20) << 10
            codes = [base + rng.randrange(8) for _ in range(n)]
        elif mode == 4:
            codes = [rng.choice([0, 1, 2**29, 2**29 + 1, 2**30 - 1]) for _ in range(n)]
        elif mode == 9:
            # distinct codes followed by a long run of one code (and the mirror image)
            k = n // 2 - 1
            codes = list(range(k)) + [k + 5] * (n - k) if rng.random() < 0.5 else [3] * (n - k) + list(range(10, 10 + k))
        else:
            codes = [rng.randrange(1 << rng.randrange(1, 31)) for _ in range(n)]
        codes.sort()
        L = rng.choice([3, 3, 8, 50])
        boxes = []
        for _ in range(n):
            if mode == 1 and rng.random() < 0.5 and boxes:
                boxes.append(boxes[0])        # identical boxes
                continue
            lo = [rng.randrange(L) for _ in range(3)]
            if rng.random() < 0.2:
                hi = lo[:]                     # degenerate (point) box
            else:
                hi = [a + rng.randrange(max(1, L // 2)) for a in lo]
            boxes.append(lo + hi)
        if rng.random() < 0.1:                 # degenerate bounding box: everything in a plane
            boxes = [[b[0], b[1], 1, b[3], b[4], 1] for b in boxes]
        self_ = rng.random() < 0.3 and n <= 1200
        kind = 1 if (rng.random() < 0.25 and not self_) else 0
        if self_ and n <= 1200:
            m, queries = n, [x for b in boxes for x in b]
        else:
            m = rng.choice([1, 2, 5, 20]) if n < 200 else 8
            queries = []
            INF = 1 << 60
            for _ in range(m):
                if kind == 0:
                    lo = [rng.randrange(-1, L + 1) for _ in range(3)]
                    hi = [a + rng.randrange(L) for a in lo]
                    r = rng.random()
                    if r < 0.12:
                        # unbounded but non-empty query boxes: half-spaces, slabs, all of space
                        # (e.g. face boxes grown by an infinite MinGap search length)
                        for k in range(3):
                            if rng.random() < 0.6:
                                lo[k] = -INF
                            if rng.random() < 0.6:
                                hi[k] = INF
                    elif r < 0.16:
                        lo, hi = [INF] * 3, [-INF] * 3      # the empty box Box(): early exit, no pairs
                    queries += lo + hi
                else:
                    queries += [rng.randrange(-1, L + 2), rng.randrange(-1, L + 2)]
        cases.append(dict(id=cid, n=n, m=m, self=int(self_), kind=kind, codes=codes, boxes=boxes, queries=queries))
    return cases


def case_line(c):
    return "CASE %d %d %d %d %d %s %s %s" % (c["id"], c["n"], c["m"], c["self"], c["kind"],
                                            " ".join(map(str, c["codes"])),
                                            " ".join(str(x) for b in c["boxes"] for x in b),
                                            " ".join(map(str, c["queries"])))


def updated_boxes(c):
    nb = []
    for i, b in enumerate(c["boxes"]):
        sh = [(i * 7) % 5 - 2, (i * 3) % 4 - 1, (i % 3) - 1]
        nb.append([b[0] + sh[0], b[1] + sh[1], b[2] + sh[2],
                   b[3] + sh[0] + i % 2, b[4] + sh[1], b[5] + sh[2] + (i // 2) % 2])
    return nb


def transformed_boxes(boxes):
    out = []
    for b in boxes:
        lo = [2 * b[1] + 1, -b[2] + 2, 3 * b[0] + 3]
        hi = [2 * b[4] + 1, -b[5] + 2, 3 * b[3] + 3]
        out.append([min(lo[k], hi[k]) for k in range(3)] + [max(lo[k], hi[k]) for k in range(3)])
    return out


def brute(c, boxes=None):
    out = set()
    bx = boxes if boxes is not None else c["boxes"]
    for q in range(c["m"]):
        if c["kind"] == 0:
            a0, a1, a2, a3, a4, a5 = c["queries"][6 * q:6 * q + 6]
            hit = [l for l, b in enumerate(bx) if b[0] <= a3 and b[3] >= a0 and b[1] <= a4 and b[4] >= a1 and b[2] <= a5 and b[5] >= a2]
        else:
            px, py = c["queries"][2 * q:2 * q + 2]
            hit = [l for l, b in enumerate(bx) if b[0] <= px <= b[3] and b[1] <= py <= b[4]]
        for l in hit:
            if not (c["self"] and q == l):
                out.add((q, l))
    return out


def par_thresholds():
    """The sizes at which collider.h switches to parallel execution, read from the source:
    kSequentialThreshold (queries), and the literal thresholds of the autoPolicy calls in the
    constructor (CreateRadixTree) and UpdateBoxes (BuildInternalBoxes)."""
    src = open(os.path.join(vp.REPO, "src/collider.h")).read()
    m = re.search(r"constexpr\s+int\s+kSequentialThreshold\s*=\s*(\d+)\s*;", src)
    lits = [int(float(x)) for x in re.findall(r"autoPolicy\(NumInternal\(\),\s*([0-9.e]+)\)", src)]
    return (int(m.group(1)) if m else None), sorted(lits)


def gen_large(rng, kseq, lits, thorough):
    """Leaf and query counts on both sides of every parallel threshold of collider.h: these are the
    only cases in which the par / sim builds run CreateRadixTree, BuildInternalBoxes (atomic arrival
    counters), Transform and the query loop in parallel."""
    cases = []
    sizes = []
    for t in lits:
        sizes += [t + 1, t + 2]            # NumInternal = n - 1 = t (sequential) / t + 1 (parallel)
    plan = []
    for i, n in enumerate(sizes):
        plan.append((n, kseq + 1 if i % 2 else kseq, i % 3 == 1))
    plan.append((max(lits[0] + 400, kseq + 300), 0, False))        # self collision, m = n > kSequentialThreshold
    if thorough:
        for _ in range(12):
            plan.append((rng.choice([lits[0] + rng.randrange(2, 3000), lits[-1] + rng.randrange(2, 4000)]), kseq + rng.randrange(1, 400), rng.random() < 0.3))
    for i, (n, m, point) in enumerate(plan):
        mode = i % 4
        if mode == 0:
            codes = [rng.randrange(2**30) for _ in range(n)]
        elif mode == 1:
            codes = [rng.randrange(16) for _ in range(n)]                  # long runs of identical codes
        elif mode == 2:
            base = rng.randrange(2**18) << 12
            codes = [base + rng.randrange(64) for _ in range(n)]
        else:
            k = n // 3
            codes = list(range(k)) + [k + 7] * (n - k)
        codes.sort()
        L = 40 + 20 * (i % 3)
        boxes = []
        for _ in range(n):
            lo = [rng.randrange(L) for _ in range(3)]
            hi = lo[:] if rng.random() < 0.15 else [a + rng.randrange(4) for a in lo]
            boxes.append(lo + hi)
        self_ = m == 0
        kind = 1 if point and not self_ else 0
        if self_:
            m, queries = n, [x for b in boxes for x in b]
        else:
            queries = []
            for _ in range(m):
                if kind == 0:
                    lo = [rng.randrange(-1, L + 1) for _ in range(3)]
                    hi = [a + rng.randrange(5) for a in lo]
                    if rng.random() < 0.03:
                        lo[rng.randrange(3)] = -(1 << 60)
                    queries += lo + hi
                else:
                    queries += [rng.randrange(-1, L + 2), rng.randrange(-1, L + 2)]
        cases.append(dict(id=100000 + i, n=n, m=m, self=int(self_), kind=kind, codes=codes, boxes=boxes, queries=queries))
    return cases


def run(cx):
    cx.assumptions += [
        "collisions_exact_* are stated for every array set accepted by wf_check; radix_tree_wf_all proves that the ported CreateRadixTree produces such a tree for every sorted code list with 2 <= n < 2^30 (unbounded Z arithmetic: the C++ int overflow of max_length for n > 2^29 is outside the model); wf_check is additionally evaluated (extracted) on every tree the implementation builds in this run",
        "leaf boxes and queries are integer valued in the correspondence (finite doubles embed order-isomorphically; min/max/<= are exact)",
        "query_stack_never_overflows: QueryTwoDTree's loop with its explicit stack is modelled literally (query_stk); the stack size and leaf size of the model are compared with tree2d.h on every run; the driver runs the explicit-stack form",
        "sweep_pairs_exact (membership) + sweep_pairs_once (NoDup) give the exact list of the sweep up to order; the oracle compares the exact list",
    ]
    cx.prove()
    consts = consts_from_source()
    cx.cov["constants_from_source"] = consts
    cx.obligation("translate:collider.h constants",
                  consts.get("kInitialLength") is not None and consts.get("kLengthMultiple", 0) and consts["kLengthMultiple"] >= 2
                  and consts["kInitialLength"] >= 1 and consts.get("kRoot") == 1,
                  "could not read kInitialLength/kLengthMultiple/kRoot from collider.h: %r" % consts)
    t2 = open(os.path.join(vp.REPO, "src/tree2d.h")).read()
    stacks = re.findall(r"std::array<[^;]*?,\s*(\d+)>\s+(rectStack|viewStack|levelStack)\s*;", t2)
    leaf = re.findall(r"\.size\(\)\s*<=\s*(\d+)", t2)
    cx.cov["tree2d_stack_sizes"] = stacks
    cx.obligation("translate:tree2d.h stack and leaf sizes match the model (kStackSize = 64, leaf size 8: hypothesis of query_stack_never_overflows)",
                  sorted(n for _, n in stacks) == ["levelStack", "rectStack", "viewStack"] and all(v == "64" for v, _ in stacks)
                  and len(leaf) >= 2 and all(v == "8" for v in leaf) and "stackPointer < 64" in t2,
                  "tree2d.h: stack arrays %r, leaf tests %r" % (stacks, leaf))
    mls = vp.coq_extract("ExtractC14", ["c14_model.ml"])
    drv = vp.ocaml_build("c14_driver", mls + [os.path.join(vp.ROOT, "extract/c14_driver.ml")])
    exe = vp.build_harness("c14_bvh", "seq", link_lib=False)

    rng = random.Random(cx.seed * 7919 + 14)
    kinit, kmult = consts.get("kInitialLength") or 128, consts.get("kLengthMultiple") or 4
    pow2 = lambda v: v >= 1 and (v & (v - 1)) == 0
    cx.obligation("translate:collider.h constants are powers of two (hypothesis of radix_tree_wf_pow2)",
                  pow2(kinit) and pow2(kmult) and kmult >= 2 and kinit <= 2**20,
                  "kInitialLength=%s kLengthMultiple=%s: the binary search in RangeEnd is only proved for powers of two" % (kinit, kmult))
    cases = gen_cases(rng, cx.pick(1500, 40000), True, kinit)
    kseq, lits = par_thresholds()
    cx.cov["parallel_thresholds_from_source"] = {"kSequentialThreshold": kseq, "autoPolicy(NumInternal(), .)": lits}
    cx.obligation("translate:collider.h parallel thresholds", kseq is not None and len(lits) == 2 and 2 <= lits[0] <= lits[1] <= 10**6,
                  "could not read kSequentialThreshold / the autoPolicy thresholds of the constructor and UpdateBoxes from collider.h: %r %r" % (kseq, lits))
    # BuildInternalBoxes' arrival protocol (what makes the bottom-up box pass schedule independent: the model's
    # order-independent union presupposes that exactly the second arrival at a node computes its box):
    # every access to counter_ is the one atomic fetch-add whose first arrival returns; AtomicAdd<int> is an atomic RMW
    csrc = open(os.path.join(vp.REPO, "src/collider.h")).read()
    body = re.search(r"struct BuildInternalBoxes \{(.*?)\n\};", csrc, flags=re.S)
    body = body.group(1) if body else ""
    usrc = open(os.path.join(vp.REPO, "src/utils.h")).read()
    uses = re.findall(r"counter_\[[^\]]*\]", body)
    cx.obligation("translate:collider.h BuildInternalBoxes arrival counter (atomic fetch-add, first arrival returns, second computes the union)",
                  len(uses) == 1 and re.search(r"if\s*\(AtomicAdd\(counter_\[internal\],\s*1\)\s*==\s*0\)\s*return;", body) is not None
                  and re.search(r"inline int AtomicAdd\(int& target, int add\)\s*\{\s*return AtomicRef<int>\(target\)\.fetch_add\(add\);", usrc) is not None
                  and re.search(r"Vec<int> counter\(NumInternal\(\), 0\);", csrc) is not None,
                  "BuildInternalBoxes no longer matches the recognised arrival protocol (accesses to counter_: %r)" % uses)
    large = gen_large(random.Random(cx.seed * 31337 + 1414), kseq or 512, lits if len(lits) == 2 else [1000, 10000], cx.tier == "thorough")
    cases += large
    lines = ["CONST %d %d" % (kinit, kmult), "SPREAD"] + [case_line(c) for c in cases]
    inp = "\n".join(lines) + "\n"
    kl = lambda l: l.split()[1] if l.startswith("CASE") else None
    ko = lambda l: l.split()[1] if l.startswith("P ") else None
    out_impl, crashes = vp.run_cases(exe, lines, kl, ko, timeout=1800)
    for cl, rc, err in crashes:
        cx.violation("collider-crash", "Collider build/query crashed or hung (rc=%s) on a valid sorted-code leaf set: %s" % (rc, err[-200:]),
                     {"case": cl})
    rc2, out_model, err2 = vp.sh2([drv], input=inp, timeout=1800)
    if rc2 != 0:
        cx.broke("corr:C14/model-driver", "model driver exited %d: %s" % (rc2, err2[-400:]))
    impl, cert_lines, parents, after = {}, [], {}, {}
    for l in out_impl.splitlines():
        if l.startswith("A "):
            t = l.split()
            after[t[1]] = list(zip(map(int, t[2::2]), map(int, t[3::2])))
        elif l.startswith("R "):
            impl[l.split(" ", 2)[1]] = l
        elif l.startswith("CERT "):
            cert_lines.append(l)
        elif l.startswith("P "):
            parents[l.split()[1]] = l.split()[2]
        elif l.startswith("SPREAD"):
            impl["SPREAD"] = l
    model = {}
    for l in out_model.splitlines():
        if l.startswith("R "):
            model[l.split(" ", 2)[1]] = l
        elif l.startswith("SPREAD"):
            model["SPREAD"] = l
    # certificate on the implementation's own arrays
    rc3, out_cert, err3 = vp.sh2([drv], input="\n".join(cert_lines) + "\n", timeout=1800)
    certs = {l.split()[1]: l.split()[2] for l in out_cert.splitlines() if l.startswith("W ")}

    # Box::Transform vs the model's btransform (hypothesis of collisions_exact_after_transform): every node box
    # after UpdateBoxes (CERT <id>.u), mapped by btransform with the harness's matrix, must be the node box the
    # implementation holds after Collider::Transform (CERT <id>.t). The matrix of harness/c14_bvh.cpp:
    # x' = 2y + 1, y' = -z + 2, z' = 3x + 3  ->  rows (sel, scale, translation)
    T_ROWS = "1 2 1 2 -1 2 0 3 3"
    cu = {l.split()[1][:-2]: l.split() for l in cert_lines if l.split()[1].endswith(".u")}
    ct = {l.split()[1][:-2]: l.split() for l in cert_lines if l.split()[1].endswith(".t")}
    bt_lines, bt_want = [], {}
    for k in list(cu)[:cx.pick(400, 4000)]:
        if k not in ct:
            continue
        n_k = int(cu[k][2])
        bt_lines.append("BT %s %s %s" % (k, T_ROWS, " ".join(cu[k][3 + 2 * (n_k - 1):])))
        bt_want[k] = ct[k][3 + 2 * (n_k - 1):]
    rc4, out_bt, err4 = vp.sh2([drv], input="\n".join(bt_lines) + "\n", timeout=1800)
    bt_bad = 0
    got_bt = {l.split()[1]: l.split()[2:] for l in out_bt.splitlines() if l.startswith("T ")}
    for k, want_b in bt_want.items():
        if got_bt.get(k) != want_b:
            bt_bad += 1
            if bt_bad <= 2:
                cx.broke("corr:C14/Box::Transform#case %s" % k, "node boxes after Collider::Transform differ from the model's btransform of the boxes before it")
    cx.cov["box_transform_correspondence"] = {"cases": len(bt_want), "mismatches": bt_bad}
    cx.obligation("translate:harness matrix is the one the model rows describe",
                  "mat3x4 m({0.0, 0.0, 3.0}, {2.0, 0.0, 0.0}, {0.0, -1.0, 0.0}, {1.0, 2.0, 3.0});" in open(os.path.join(vp.ROOT, "harness/c14_bvh.cpp")).read(),
                  "harness/c14_bvh.cpp no longer uses the matrix that T_ROWS in checks/C14.py encodes")

    # the guard of Collider::Transform: IsAxisAligned must say yes exactly for matrices whose linear rows have one
    # non-zero entry each (atrans of the model); whenever it says yes, Box::Transform (two corners) must be the exact
    # image hull of the box (all eight corners) - otherwise the kept BVH no longer bounds the transformed leaves
    arng = random.Random(cx.seed * 271 + 1415)
    ax_lines, ax_want = [], {}
    for i in range(cx.pick(600, 6000)):
        rows = []
        for r in range(3):
            mode = arng.randrange(6)
            row = [0, 0, 0]
            if mode <= 2:
                row[arng.randrange(3)] = arng.choice([-3, -2, -1, 1, 2, 5])          # one entry
            elif mode == 3:
                row = [arng.choice([-2, -1, 0, 1, 2]) for _ in range(3)]                # anything
            elif mode == 4:
                j = arng.randrange(3); row[j] = arng.choice([-1, 1, 2]); row[(j + 1 + arng.randrange(2)) % 3] = arng.choice([-2, -1, 1])   # two entries (shear)
            rows.append(row + [arng.randrange(-4, 5)])
        if i % 3 == 0:            # only the last / only one row off: the sharpest cases
            good = [[0, 0, 0, arng.randrange(-3, 4)] for _ in range(3)]
            perm = [0, 1, 2]; arng.shuffle(perm)
            for r in range(3):
                good[r][perm[r]] = arng.choice([-2, -1, 1, 3])
            bad_row = arng.randrange(3)
            if arng.random() < 0.7:
                good[bad_row][(perm[bad_row] + 1 + arng.randrange(2)) % 3] = arng.choice([-2, -1, 1, 2])
            rows = good
        lo = [arng.randrange(-5, 6) for _ in range(3)]
        hi = [a + arng.randrange(0, 6) for a in lo]
        ax_lines.append("AX a%d %s %s" % (i, " ".join(str(x) for r in rows for x in r), " ".join(map(str, lo + hi))))
        ax_want["a%d" % i] = all(sum(1 for x in r[:3] if x == 0) == 2 for r in rows)
    out_ax, crashes_ax = vp.run_cases(exe, ax_lines, lambda l: l.split()[1], lambda l: l.split()[1] if l.startswith("X ") else None, timeout=600)
    ax_n = {"aligned": 0, "not_aligned": 0}
    line_of_ax = {l.split()[1]: l for l in ax_lines}
    for l in out_ax.splitlines():
        t = l.split()
        if t[0] != "X":
            continue
        want = ax_want[t[1]]
        ax_n["aligned" if want else "not_aligned"] += 1
        if int(t[2]) != int(want):
            cx.violation("is-axis-aligned-wrong", "Collider::IsAxisAligned answers %s for a matrix whose linear rows %s one non-zero entry each: Collider::Transform / "
                         "Impl::Transform would %s" % (t[2], "have" if want else "do not all have", "rebuild needlessly" if want else "keep a BVH whose two-corner boxes do not bound the transformed leaves"),
                         {"case": line_of_ax[t[1]], "two_corner_box": t[3:9], "eight_corner_hull": t[9:15]})
        elif int(t[2]) == 1 and t[3:9] != t[9:15]:
            cx.violation("box-transform-not-the-image-hull", "for an axis-aligned matrix Box::Transform differs from the hull of the eight mapped corners", {"case": line_of_ax[t[1]], "two_corner_box": t[3:9], "eight_corner_hull": t[9:15]})
    cx.cov["is_axis_aligned"] = ax_n

    mism, nontriv, seen = 0, 0, set()
    dist = {"n<=8": 0, "n<=64": 0, "n>64": 0, "self": 0, "point": 0, "dupcodes": 0}
    if impl.get("SPREAD") != model.get("SPREAD"):
        cx.broke("corr:C14/spread_bits3", "SpreadBits3 differs from the model on 0..1023")
    for c in cases:
        k = str(c["id"])
        dist["n<=8" if c["n"] <= 8 else "n<=64" if c["n"] <= 64 else "n>64"] += 1
        dist["self"] += c["self"]; dist["point"] += c["kind"]
        dist["dupcodes"] += int(len(set(c["codes"])) < c["n"])
        li = impl.get(k)
        if li is None:
            cx.broke("corr:C14/case %s" % k, "implementation produced no output")
            continue
        # oracle: all-pairs scan against what the implementation recorded
        toks = li.split(" pairs")[1].split()
        got = list(zip(map(int, toks[0::2]), map(int, toks[1::2])))
        want = brute(c)
        if set(got) != want or len(got) != len(set(got)):
            missing = sorted(want - set(got))[:5]
            extra = sorted(set(got) - want)[:5]
            cx.violation("pairs-differ-from-all-pairs-scan",
                         "Collider recorded pairs differ from the all-pairs scan (missing %s, extra %s, dup %d)" % (missing, extra, len(got) - len(set(got))),
                         {"case": case_line(c), "missing": missing, "extra": extra})
        if li != model.get(k):
            mism += 1
            if mism <= 3:
                cx.broke("corr:C14/radix_tree#case %s" % k, "model and implementation differ: impl=%s model=%s" % (li[:300], str(model.get(k))[:300]))
        if not c["self"]:
            ub = updated_boxes(c)
            for suf, bx, what in ((".u", ub, "UpdateBoxes"), (".t", transformed_boxes(ub), "axis-aligned Transform")):
                got2 = after.get(k + suf)
                if got2 is None:
                    cx.broke("corr:C14/%s#case %s" % (what, k), "no output after %s" % what)
                    continue
                want2 = brute(c, bx)
                if set(got2) != want2 or len(got2) != len(set(got2)):
                    cx.violation("pairs-differ-from-all-pairs-scan-after-" + what.split()[-1].lower(),
                                 "after %s the recorded pairs differ from the all-pairs scan over the new boxes (missing %s, extra %s)" % (
                                     what, sorted(want2 - set(got2))[:4], sorted(set(got2) - want2)[:4]), {"case": case_line(c), "after": what})
                if certs.get(k + suf) != "1":
                    cx.broke("cert:C14/wf_check after %s#case %s" % (what, k), "arrays after %s fail the certificate wf_check (internal boxes are not the unions of the new leaf boxes)" % what)
        if certs.get(k) != "1":
            cx.broke("cert:C14/wf_check#case %s" % k, "implementation arrays fail the proved-sound certificate wf_check")
        if parents.get(k) != "1":
            cx.broke("corr:C14/nodeParent#case %s" % k, "nodeParent_ inconsistent with internalChildren_")
        key = (tuple(c["codes"]), tuple(map(tuple, c["boxes"])), tuple(c["queries"]), c["self"], c["kind"])
        if key not in seen:
            seen.add(key)
            if len(want) > 0 and len(want) < c["m"] * c["n"]:
                nontriv += 1
    # ---- parallel execution of the same code: real TBB threads (par) and seeded schedules (sim) on the
    # cases above the thresholds; everything the sequential run printed must come out again (tree and
    # boxes identical, the same set of pairs, each once)
    seq_cert = {l.split()[1]: l for l in cert_lines}
    lines_large = [case_line(c) for c in large]
    par_runs = 0
    for variant, envs in (("par", [None]), ("sim", [{"VERIF_SCHED_SEED": str(cx.seed * 100 + k)} for k in range(cx.pick(2, 6))])):
        try:
            exe_p = vp.build_harness("c14_bvh", variant, link_lib=False, extra=["-DC14_PARALLEL"])
        except vp.BuildError as e:
            cx.broke("corr:C14/%s-build" % variant, "harness does not build in the %s variant: %s" % (variant, str(e)[-300:]))
            continue
        for env in envs:
            out_p, crashes_p = vp.run_cases(exe_p, lines_large, kl, ko, timeout=1800, env=dict(os.environ, **env) if env else None)
            tag = variant + ("" if not env else "/seed=" + env["VERIF_SCHED_SEED"])
            for cl, rc, err in crashes_p:
                cx.violation("collider-crash-parallel", "Collider build/query crashed or hung (rc=%s) in the %s run: %s" % (rc, tag, err[-200:]), {"case": cl[:2000], "run": tag})
            got_r, got_c, got_a = {}, {}, {}
            for l in out_p.splitlines():
                if l.startswith("R "):
                    got_r[l.split(" ", 2)[1]] = l
                elif l.startswith("CERT "):
                    got_c[l.split()[1]] = l
                elif l.startswith("A "):
                    t = l.split()
                    got_a[t[1]] = list(zip(map(int, t[2::2]), map(int, t[3::2])))
            for c in large:
                k = str(c["id"])
                par_runs += 1
                ls, lp = impl.get(k), got_r.get(k)
                if ls is None or lp is None:
                    if not any(k == (kl(cl) or "") for cl, _, _ in crashes_p):
                        cx.broke("corr:C14/parallel#case %s" % k, "no output in the %s run" % tag)
                    continue
                rep = {"case": case_line(c)[:4000] + " ...", "run": tag, "n": c["n"], "m": c["m"]}
                if ls.split(" pairs")[0] != lp.split(" pairs")[0] or seq_cert.get(k) != got_c.get(k):
                    cx.violation("tree-or-boxes-differ-in-parallel", "radix tree / node boxes built in the %s run differ from the sequential run (n=%d)" % (tag, c["n"]), rep)
                tp = lp.split(" pairs")[1].split()
                gp = list(zip(map(int, tp[0::2]), map(int, tp[1::2])))
                ts = ls.split(" pairs")[1].split()
                gs = sorted(zip(map(int, ts[0::2]), map(int, ts[1::2])))
                if gp != gs:
                    sp, ss = set(gp), set(gs)
                    cx.violation("pairs-differ-in-parallel", "pairs recorded in the %s run differ from the sequential run (n=%d, m=%d): missing %s, extra %s, duplicates %d"
                                 % (tag, c["n"], c["m"], sorted(ss - sp)[:4], sorted(sp - ss)[:4], len(gp) - len(sp)), rep)
                if not c["self"]:
                    for suf in (".u", ".t"):
                        if seq_cert.get(k + suf) != got_c.get(k + suf) or sorted(after.get(k + suf, [])) != got_a.get(k + suf):
                            cx.violation("pairs-differ-in-parallel-after-" + ("updateboxes" if suf == ".u" else "transform"),
                                         "after %s the %s run differs from the sequential run (node boxes or recorded pairs; n=%d, m=%d)"
                                         % ("UpdateBoxes" if suf == ".u" else "the axis-aligned Transform", tag, c["n"], c["m"]), rep)
    cx.cov["parallel_runs"] = {"cases_above_thresholds": len(large), "case_runs": par_runs,
                               "sizes": [(c["n"], c["m"], c["self"], c["kind"]) for c in large][:24]}
    cx.cov.update({"evaluations": len(cases), "distinct_nontrivial": nontriv,
                   "rule": "seeded generator over sorted Morton code multisets x integer boxes x queries; non-trivial = some but not all (query,leaf) pairs overlap; distinct by full case content",
                   "distribution": dist, "correspondence_mismatches": mism,
                   "certificates_checked": len(certs), "traces_validated_against_impl": len(cases) - mism})
    cx.sample({"case": case_line(cases[20])[:400], "impl": impl.get("20", "")[:300]})
    cx.sample({"case": case_line(cases[3])[:400], "impl": impl.get("3", "")[:300]})
    twod(cx, drv)


def twod(cx, drv):
    """2-D broad phases (boolean2 BVH = same radix tree + traversal, x-sorted
    sweep) and the polygon k-d tree: correspondence with the extracted model,
    certificate on the BVH, all-pairs oracle on what the implementation reports."""
    exe = vp.build_harness("c14_2d", "seq", link_lib=True)
    rng = random.Random(cx.seed * 104729 + 1402)
    N = cx.pick(600, 15000)
    lines, cases = [], {}
    for k in range(N):
        kind = ("BVH2", "SWEEP", "KD")[k % 3]
        cid = "%s%d" % (kind[0].lower(), k)
        L = rng.choice([3, 6, 20, 200])
        def box():
            lo = [rng.randrange(L), rng.randrange(L)]
            hi = [lo[0] + rng.randrange(max(1, L // 3 + 1)), lo[1] + rng.randrange(max(1, L // 3 + 1))]
            return lo + hi
        if kind == "BVH2":
            n = rng.choice([2, 3, 5, 9, 17, 40, 130]) if k % 60 else rng.choice([600, 1100])
            m = rng.choice([1, 3, 10])
            boxes = [box() for _ in range(n)]
            if rng.random() < 0.15:
                boxes = [boxes[0]] * n          # identical boxes -> identical Morton codes
            qs = [box() for _ in range(m)]
            lines.append("BVH2 %s %d %d %s %s" % (cid, n, m, " ".join(str(x) for b in boxes for x in b), " ".join(str(x) for b in qs for x in b)))
            cases[cid] = ("BVH2", boxes, qs)
        elif kind == "SWEEP":
            n = rng.choice([0, 1, 2, 3, 6, 12, 40, 150]) if rng.random() < 0.5 else rng.randrange(0, 200)
            boxes = [box() for _ in range(n)]
            lines.append("SWEEP %s %d %s" % (cid, n, " ".join(str(x) for b in boxes for x in b)))
            cases[cid] = ("SWEEP", boxes, None)
        else:
            # every size 0..47 once (the recursion of BuildTwoDTree bottoms out at views of <= 8 points, so every
            # small node size and every way of halving into leaves occurs as a whole tree), then sizes spread over
            # 0..600: node sizes n, n/2, n - n/2 - 1, ... then cover all residues around the leaf size
            kdi = k // 3
            if kdi < 48:
                n = kdi
            else:
                r = rng.random()
                n = rng.randrange(0, 96) if r < 0.5 else rng.randrange(96, 600) if r < 0.85 else rng.choice([16, 17, 18, 19, 33, 35, 36, 37, 38, 39, 71, 75, 76, 77, 78, 79, 257])
            m = rng.choice([1, 4, 8])
            pts = [[rng.randrange(L), rng.randrange(L)] for _ in range(n)]
            qs = [box() for _ in range(m)]
            lines.append("KD %s %d %d %s %s" % (cid, n, m, " ".join(str(x) for p in pts for x in p), " ".join(str(x) for b in qs for x in b)))
            cases[cid] = ("KD", pts, qs)
    kl = lambda l: l.split()[1]
    ko = lambda l: l.split()[1] if l[:2] in ("Q2", "S ", "K ") else None
    out_impl, crashes = vp.run_cases(exe, lines, kl, ko, timeout=1800)
    for cl, rc, err in crashes:
        cx.violation("broadphase2d-crash", "2-D broad phase / k-d tree crashed or hung (rc=%s): %s" % (rc, err[-200:]), {"case": cl[:2000]})
    impl, extra_lines = {}, []
    for l in out_impl.splitlines():
        t = l.split(" ", 2)
        if t[0] in ("R", "S", "K", "Q2"):
            impl[(t[0], t[1])] = l
        if t[0] in ("CASE", "CERT"):
            extra_lines.append(l)
    rc, out_model, err = vp.sh2([drv], input="\n".join(lines + extra_lines) + "\n", timeout=1800)
    if rc != 0:
        cx.broke("corr:C14/2d-model-driver", "model driver exited %d: %s" % (rc, err[-300:]))
    model = {}
    for l in out_model.splitlines():
        t = l.split(" ", 2)
        if t[0] in ("R", "S", "K", "W"):
            model[(t[0], t[1])] = l
    mism, nontriv, stats = 0, 0, {"BVH2": 0, "SWEEP": 0, "KD": 0}
    ov = lambda a, b: a[0] <= b[2] and a[2] >= b[0] and a[1] <= b[3] and a[3] >= b[1]
    for cid, (kind, data, qs) in cases.items():
        stats[kind] += 1
        bad_spec = None
        if kind == "BVH2":
            li = impl.get(("Q2", cid), "")
            toks = li.split()[2:]
            got = list(zip(map(int, toks[0::2]), map(int, toks[1::2])))
            want = {(q, l) for q in range(len(qs)) for l in range(len(data)) if ov(qs[q], data[l])}
            if set(got) != want or len(got) != len(want):
                bad_spec = "BVH pairs differ from all-pairs scan: missing %s extra %s" % (sorted(want - set(got))[:4], sorted(set(got) - want)[:4])
            if model.get(("W", cid), "").split()[-1:] != ["1"]:
                cx.broke("cert:C14/2d-wf_check#%s" % cid, "boolean2 BVH arrays fail the certificate wf_check")
            keys = [("R", cid)]
            nontriv += int(0 < len(want) < len(qs) * len(data))
        elif kind == "SWEEP":
            li = impl.get(("S", cid), "")
            toks = li.split()[2:]
            got = list(zip(map(int, toks[0::2]), map(int, toks[1::2])))
            want = [(a, b) for a in range(len(data)) for b in range(a + 1, len(data)) if ov(data[a], data[b])]
            if got != want:
                bad_spec = "sweep pairs differ from the sorted all-pairs scan: got %s.. want %s.." % (got[:5], want[:5])
            keys = [("S", cid)]
            nontriv += int(0 < len(want) < len(data) * (len(data) - 1) // 2)
        else:
            li = impl.get(("K", cid), "")
            parts = li.split(" q")
            tree = list(map(int, parts[0].split()[3:])) if parts and parts[0] else []
            if sorted(tree) != list(range(len(data))):
                bad_spec = "BuildTwoDTree lost or duplicated points"
            for qi, q in enumerate(qs):
                got = sorted(map(int, parts[qi + 1].split())) if len(parts) > qi + 1 else None
                want = sorted(i for i, p in enumerate(data) if q[0] <= p[0] <= q[2] and q[1] <= p[1] <= q[3])
                if got != want:
                    bad_spec = "QueryTwoDTree result differs from the brute-force scan: got %s want %s" % (got, want)
                nontriv += int(0 < len(want) < len(data))
            keys = [("K", cid)]
        if bad_spec:
            cx.violation("broadphase2d-%s-differs-from-scan" % kind.lower(), bad_spec, {"case": [l for l in lines if l.split()[1] == cid][0][:3000]})
        for key in keys:
            a, b = impl.get(key), model.get(key)
            if kind == "KD" and a != b and a is not None and b is not None:
                # tie order of equal coordinates may legitimately differ between two stable sorts only if they are not both stable; compare as sets per query too
                pass
            if a != b:
                mism += 1
                if mism <= 3:
                    cx.broke("corr:C14/2d-%s#%s" % (kind, cid), "model and implementation differ: impl=%s model=%s" % (str(a)[:300], str(b)[:300]))
    cx.cov["twod"] = {"cases": stats, "correspondence_mismatches": mism, "nontrivial": nontriv}
    cx.cov["evaluations"] += len(cases)
    cx.cov["distinct_nontrivial"] += nontriv
    cx.sample({"twod_case": lines[1][:300], "impl": impl.get(("S", lines[1].split()[1]), "")[:200]})
