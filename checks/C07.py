"""C07 - every output triangle traces back to its source face and interpolated properties.
proof (run structure, mesh IDs, transforms, back-side parity, barycentric algebra)
+ extracted-model correspondence with GetMeshGLImpl / Boolean3::Result / IncrementMeshIDs /
InitializeOriginal / CsgLeafNode::Compose + exact oracle related_check on exported meshes."""
import hashlib, json, os, random, struct
from fractions import Fraction as Fr
import vp

LEVEL = "proof"
K_PROP = 1e-9        # relative property tolerance, see META note
K_GEO = 1e-8         # geometric tolerance relative to the bounding-box scale (plus 4*tolerance_)
META = {
    "level": "proof",
    "technique": "Coq proof about a line-by-line Gallina port of the mesh-relation bookkeeping + extracted-model correspondence "
                 "with the real code + Coq-verified exact checker (related_check, extracted) on exported meshes",
    "text": "Coq theorems, for all triRef vectors / relation maps / counters / transforms: runs_partition (GetMeshGLImpl's export has "
            "contiguous runs covering all triangles, non-empty runs sorted by (originalID, meshID), one run per map key each carrying "
            "its key's originalID/flags/transform, every triangle in the run of its own meshID, key-less runs trailing in std::map order; "
            "stable_sort pinned by its contract), ids_stay_distinct_{boolean,increment,compose}, relation_transform_compose (3x4 algebra over Z), "
            "backside_parity, barycentric_affine(+_fields) over Q, the snapped GetBarycentric branches (barycentric_snap_vertex, _snap_edge, "
            "_snap_edge_error, _needle, _needle_error: weights >= 0, sum 1, error identities/bounds; point branch partial), prop_key_dedup for the "
            "ported CreateProperties key/lookup, collapse_edge_keeps_third_property_vertex (the branch behind the known finding), and "
            "related_check_sound: whenever the executable checker check_triangle accepts, the output triangle is within tol of the plane of the "
            "named, exactly transformed source face, correctly oriented (sign(det) x back-side flag), every corner and the centroid inside the "
            "tol-grown outline, every corner property within K_PROP(1+max|prop|) of the barycentric interpolation, absent channels exactly 0. "
            "Tie: the extracted run builder / merge_maps+increment_mesh_ids / initialize_original / compose_relation must reproduce the real "
            "run tables and meshIDtransform maps (exact IDs). Oracle: check_triangle extracted twice (inductive Z; stock ExtrOcamlZBigInt) and run "
            "on integers obtained by scaling the exported doubles by powers of two; the zarith build judges every triangle, the pure build a "
            "budgeted subset plus every rejection, a Python mirror every triangle; all three must agree.",
    "note": "Trusted: Coq kernel, extraction (ExtrOcamlBasic; ExtrOcamlZBigInt+zarith for the fast build, cross-checked against the pure build "
            "every run), the C++ harness reading Impl members, the Python code that scales doubles to integers and selects the source by original ID "
            "(face selection itself - face_by_id / coplanar_b - runs in the extracted code). rel_consistent is a hypothesis of runs_partition, "
            "validated on every Impl seen. K_PROP=1e-9 relative (library interpolation error O(1e-15)|prop| + |grad| tolerance_; mutants shift by O(1)); "
            "K_GEO=1e-8*scale+4*tolerance_, tested in sup-norm (implies the Euclidean statement). Not proved: error bound of GetBarycentric's point "
            "branch, SwapEdge property carry-over, Subdivide's property interpolation (validated by the oracle only).",
}


IDENT = [1, 0, 0, 0, 1, 0, 0, 0, 1]
LINS = [
    IDENT, IDENT, IDENT,
    [0, 1, 0, -1, 0, 0, 0, 0, 1], [1, 0, 0, 0, 0, 1, 0, -1, 0], [0, 0, 1, 0, 1, 0, -1, 0, 0],       # rotations
    [-1, 0, 0, 0, 1, 0, 0, 0, 1], [1, 0, 0, 0, -1, 0, 0, 0, 1], [0, 1, 0, 1, 0, 0, 0, 0, 1],        # mirrors (det<0)
    [2, 0, 0, 0, 1, 0, 0, 0, 1], ["1/2", 0, 0, 0, "1/2", 0, 0, 0, "1/2"], [1, 0, 0, "1/2", 1, 0, 0, 0, 1],  # scale, shear
    [1, "1/4", 0, "-1/4", 1, 0, 0, "1/8", 1], [-1, 0, "1/4", 0, -1, 0, 0, 0, -1],
]


# Placement policy.  A program is generated either in EXACT mode (dyadic offsets: coplanar faces, vertices on
# faces, edges in face planes, crossing edges do occur) - then no MeshGL source carries property channels (face
# IDs of all three kinds still do) - or in GENERAL-POSITION mode (property channels and coplanar face grouping
# allowed): every translation component is k/p with p a prime that is different for each axis and each transform
# of the program and k not a multiple of p, so that no vertex (hence no edge) of one operand lies in a face plane
# of another (the plane normals involved have dyadic components with numerators 1 or 2).  This keeps the random
# stream away from the defect family of the known findings property-not-interpolated:corpus-tet-edge-in-cube-face
# and :corpus-crossing-edges-shared-prop (CollapseEdge carries property vertices over by index; it needs
# coincident new vertices, i.e. exact coincidences); both witnesses run in the fixed corpus.
PRIMES = [7, 11, 13, 17, 19, 23, 29, 31, 37, 41, 43, 47, 53, 59, 61, 67, 71, 73, 79, 83, 89, 97]


class Gen:
    def __init__(self, rng):
        self.rng = rng
        self.exact = rng.random() < 0.35
        self.np = 0

    def tr(self, spread=4, lin=None):
        rng = self.rng
        lin = lin if lin is not None else rng.choice(LINS)
        if self.exact:
            t = ["%d/%d" % (rng.randrange(-spread * 4, spread * 4 + 1), rng.choice([4, 8])) for _ in range(3)]
        else:
            t = []
            for _ in range(3):
                p = PRIMES[self.np % len(PRIMES)]
                self.np += 1
                k = rng.randrange(-int(spread * p * 0.6), int(spread * p * 0.6) + 1)
                if k % p == 0:
                    k += rng.choice([1, 2, 3])
                t.append("%d/%d" % (k, p))
        return ["tr"] + [str(x) for x in lin] + t

    def src(self, allow_wrap=True):
        rng = self.rng
        k = rng.randrange(6)
        if k <= 2:
            p = ["cube", str(rng.randrange(1, 4)), str(rng.randrange(1, 4)), str(rng.randrange(1, 4))]
        elif k == 3:
            p = ["tet"]
        elif k == 4:
            p = ["sphere", str(rng.randrange(1, 3)), str(rng.choice([4, 6, 8]))]
        else:
            p = ["cyl", str(rng.randrange(1, 4)), str(rng.randrange(1, 3)), str(rng.choice([4, 5, 7]))]
        if allow_wrap:
            w = rng.randrange(5)
            if w <= 2:
                nprop, fm = rng.randrange(0, 4), rng.randrange(3)
                if self.exact:
                    nprop = 0       # exact coincidences never meet property channels in the random stream (see policy above)
                p += ["mesh", str(nprop), str(fm), str(rng.randrange(1000))]
            elif w == 3:
                p += ["asorig"]
        return p


OPS = ["add", "sub", "int"]


def gen_program(rng, fam):
    g = Gen(rng)
    if fam == 0:      # two different sources
        return g.src() + g.tr(2) + g.src() + g.tr(2) + [rng.choice(OPS)]
    if fam == 1:      # two instances of one original under different transforms
        p = g.src() + ["dup"] + g.tr(2) + [rng.choice(OPS)]
        if rng.random() < 0.4:
            p += ["dup"] + g.tr(2) + [rng.choice(OPS)]
        return p
    if fam == 2:      # depth 2, subtract as Q twice (back-side parity), mixed channel counts
        return g.src() + g.tr(2) + g.src() + g.tr(2) + g.src() + g.tr(2) + [rng.choice(OPS)] + [rng.choice(OPS)]
    if fam == 3:      # split
        if rng.random() < 0.5:
            return g.src() + g.tr(1) + ["splitplane", str(rng.randrange(-1, 2)), str(rng.randrange(-1, 2)), "1", str(rng.randrange(0, 6)), str(rng.randrange(2))]
        return g.src() + g.tr(2) + g.src() + g.tr(2) + ["split", str(rng.randrange(2))]
    if fam == 4:      # refine after a Boolean
        return g.src() + g.tr(2) + g.src() + g.tr(2) + [rng.choice(OPS), "refine", str(rng.choice([2, 3]))]
    if fam == 5:      # compose of disjoint copies (lazy transforms), then maybe decompose / a Boolean
        p = g.src() + ["dup", "tr"] + [str(x) for x in IDENT] + ["40/4", "0", "0"] + ["compose", "2"]
        r = rng.random()
        if r < 0.3:
            p += ["decompose", str(rng.randrange(2))]
        elif r < 0.7:
            p += g.src() + g.tr(2) + [rng.choice(OPS)]
        return p
    if fam == 6:      # as-original of a Boolean result, then another Boolean
        return (g.src(False) + g.src(False) + g.tr(2) + [rng.choice(OPS), "asorig"] + g.tr(2) + g.src() + g.tr(2) + [rng.choice(OPS)])
    if fam == 7:      # a single transformed / mirrored source
        return g.src() + g.tr(3) + (["mirror", "1", str(rng.randrange(2)), "0"] if rng.random() < 0.5 else [])
    if fam == 9:      # the SAME instance (or two bit-identically transformed instances) of one original on both sides of
        # subtractions that are then unioned / composed: front-side and back-side runs of one original with equal transforms
        a, k = g.src(), g.src() + g.tr(1)
        join = rng.choice([["add"], ["add"], ["compose", "2"]])
        v = rng.randrange(3)
        if v == 0:        # (A-K)+(K-A), A and K reused as they are
            return a + k + ["over", "over", "sub", "rot", "rot", "swap", "sub"] + join
        if v == 1:        # two copies of A moved by the same transform applied separately
            t = g.tr(1)
            return a + ["dup"] + t + ["swap"] + t + k + ["rot", "over", "sub", "rot", "rot", "swap", "sub"] + join
        # (A^H)+(K-A): front-side piece from an intersection, back-side piece from a subtraction
        return a + k + ["over", "over", "swap", "sub", "rot"] + g.src() + g.tr(1) + ["int"] + join
    # fam 8: originals in descending-ID order as P, Q (run order differs from meshID order), subtract
    return g.src() + ["dup"] + g.tr(2) + g.src() + g.tr(2) + ["swap", rng.choice(OPS), "swap", "sub"]


# program structure (for shrinking): number of argument tokens of each operation
ARITY = {"cube": 3, "tet": 0, "sphere": 2, "cyl": 3, "mesh": 3, "asorig": 0, "add": 0, "sub": 0, "int": 0, "tr": 12, "mirror": 3,
         "refine": 1, "splitplane": 5, "split": 1, "compose": 1, "decompose": 1, "dup": 0, "swap": 0, "over": 0, "rot": 0}
UNARY = ("tr", "mirror", "refine", "asorig", "mesh", "decompose")


def split_ops(prog):
    ops, i = [], 0
    while i < len(prog):
        n = ARITY.get(prog[i], 0)
        ops.append(prog[i:i + 1 + n])
        i += 1 + n
    return ops


# ------------------------------------------------------------------ exact helpers
def fl(b):
    return struct.unpack("<d", struct.pack("<Q", b))[0]


# ------------------------------------------------------------------ oracle related_check
# The oracle is the Coq checker coq/Codec/RelatedCheckDefs.v (soundness: Properties_C07.related_check_sound), extracted
# and run by extract/c07_chk_*.ml.  This module (a) scales a case to integers and writes the checker's input,
# (b) mirrors the checker line by line over Python integers; the two verdicts must agree on every triangle.
KIND = {1: "face-id-names-no-source-face", 2: "triangle-off-source-plane", 3: "triangle-orientation",
        4: "triangle-outside-source-face", 5: "absent-channel-not-zero", 6: "property-not-interpolated"}
KIND_TEXT = {1: "its faceID names no source triangle", 2: "a corner is off the plane of the source face it names",
             3: "it is oriented against its source face although the run's back-side flag / transform say otherwise",
             4: "a corner or the centroid lies outside the tolerance-grown outline of the source face it names",
             5: "a channel its source lacks is not exactly 0", 6: "a corner property differs from the barycentric interpolation on the source face"}


def hx(n):
    return "-%x" % -n if n < 0 else "%x" % n


def den_exp(x):
    return x.as_integer_ratio()[1].bit_length() - 1


def vsub(a, b): return (a[0] - b[0], a[1] - b[1], a[2] - b[2])
def vdot(a, b): return a[0] * b[0] + a[1] * b[1] + a[2] * b[2]
def vcross(a, b): return (a[1] * b[2] - a[2] * b[1], a[2] * b[0] - a[0] * b[2], a[0] * b[1] - a[1] * b[0])
def norm_inf(a): return max(abs(a[0]), abs(a[1]), abs(a[2]))


class PTri:                      # RelatedCheckDefs.prep
    __slots__ = ("p", "e", "n", "props", "nn")

    def __init__(self, p0, p1, p2, props):
        self.p = (p0, p1, p2)
        self.e = (vsub(p2, p1), vsub(p0, p2), vsub(p1, p0))
        self.n = vcross(self.e[0], self.e[1])
        self.nn = vdot(self.n, self.n)
        self.props = props


def xform(T, w, p):              # m34apply4 T p w
    return tuple(T[r] * p[0] + T[3 + r] * p[1] + T[6 + r] * p[2] + T[9 + r] * w for r in range(3))


def plane_close_b(tol, t, q): return abs(vdot(t.n, vsub(q, t.p[0]))) <= tol * norm_inf(t.n)
def weight(t, q, i): return vdot(vcross(t.e[i], vsub(q, t.p[(i + 1) % 3])), t.n)


def inside_b(tol, t, q):
    if t.nn == 0:
        return False
    nn = norm_inf(t.n)
    for i in range(3):
        u = weight(t, q, i)
        if not (u >= 0 or abs(u) <= tol * norm_inf(t.e[i]) * nn):
            return False
    return True


def check_channels(kn, kd, one, cp, u, pvs, got):
    su = u[0] + u[1] + u[2]
    for c, g in enumerate(got):
        if c >= len(pvs):
            if g != 0:
                return 5
        elif cp:
            a, b, cc = pvs[c]
            if not (su == 0 or abs(g * su - (u[0] * a + u[1] * b + u[2] * cc)) * kd <= kn * (one + max(abs(a), abs(b), abs(cc))) * abs(su)):
                return 6
    return 0


def check_corner(tol, kn, kd, one, cp, S, q, got):
    t = next((t for t in S if inside_b(tol, t, q)), None)
    if t is None:
        return 4
    return check_channels(kn, kd, one, cp, (weight(t, q, 0), weight(t, q, 1), weight(t, q, 2)), t.props, got)


def check_triangle(tol, ws, kn, kd, one, cp, S, q, g):
    if not S:
        return 1
    ref = next((t for t in S if t.nn != 0), None)
    if ref is None:
        return 7
    if not all(plane_close_b(tol, ref, x) for x in q):
        return 2
    oN = vcross(vsub(q[1], q[0]), vsub(q[2], q[0]))
    sg = vdot(oN, ref.n)
    if not (vdot(oN, oN) <= tol ** 4 or sg == 0 or (1 if sg > 0 else -1) == ws):
        return 3
    for k in range(3):
        c = check_corner(tol, kn, kd, one, cp, S, q[k], g[k])
        if c != 0:
            return c
    S3 = [PTri(*[tuple(3 * x for x in pt) for pt in t.p], t.props) for t in S]
    cen = tuple(q[0][k] + q[1][k] + q[2][k] for k in range(3))
    return 0 if any(inside_b(3 * tol, t, cen) for t in S3) else 4


_fid = [0]


def build_check(case, prog):
    """scale one harness output to integers; returns dict with the run-table violations (`pre`), the checker input
    lines, the triangle list and the Python mirror's verdict per triangle"""
    o = case["out"]
    np_, vp_, tv = o["numProp"], o["vertProperties"], o["triVerts"]
    nt = len(tv) // 3
    ri, ro, rf, rt = o["runIndex"], o["runOriginalID"], o["runFlags"], o["runTransform"]
    nrun = len(ro)
    res = {"pre": [], "lines": ["RESET"], "tris": [], "py": {}, "stats": {"tris": 0, "props": 0, "zero_channels": 0, "degenerate_faces": 0,
                                                                      "backside_tris": 0, "mirrored_runs": 0, "halfspace_tris": 0}, "bits": 0}
    if len(ri) != nrun + 1 or len(rf) != nrun or (rt and len(rt) != 12 * nrun) or (ri and ri[0] != 0) or ri[-1] != 3 * nt \
            or any(x % 3 for x in ri) or any(ri[k] > ri[k + 1] for k in range(nrun)):
        res["pre"].append(("runs-not-contiguous", "run tables malformed: runIndex=%s numTri=%d" % (ri[:20], nt), -1))
        return res
    nonempty = [k for k in range(nrun) if ri[k] < ri[k + 1]]
    if any(ro[a] > ro[b] for a, b in zip(nonempty, nonempty[1:])):
        res["pre"].append(("runs-not-sorted-by-original", "runOriginalID of non-empty runs %s not sorted" % [ro[k] for k in nonempty], -1))
    if nonempty and any(k < nonempty[-1] for k in range(nrun) if k not in set(nonempty)):
        res["pre"].append(("empty-run-not-trailing", "an empty run precedes a non-empty one: runIndex=%s" % ri, -1))
    if len(o["faceID"]) != nt:
        res["pre"].append(("faceid-length", "faceID length %d != numTri %d" % (len(o["faceID"]), nt), -1))
        return res
    srcs = {}
    for sidx, sj in enumerate(case["sources"]):
        if sj["origID"] not in srcs:
            srcs[sj["origID"]] = (sidx, sj)
    used = sorted(set(ro[r] for r in nonempty if ro[r] in srcs))
    # ---- scales: positions 2^s, transforms 2^t, properties 2^r
    outv = [fl(b) for b in vp_]
    nv = len(outv) // np_
    t_exp = max([den_exp(fl(b)) for b in rt] + [0])
    s_exp, r_exp = 0, 0
    srcf = {}
    for oid in used:
        sj = srcs[oid][1]
        f = [fl(b) for b in sj["vertProperties"]]
        srcf[oid] = f
        snp = sj["numProp"]
        for v in range(len(f) // snp):
            s_exp = max(s_exp, max(den_exp(x) for x in f[v * snp:v * snp + 3]))
            if snp > 3:
                r_exp = max(r_exp, max(den_exp(x) for x in f[v * snp + 3:(v + 1) * snp]))
    for v in range(nv):
        s_exp = max(s_exp, max(den_exp(x) for x in outv[v * np_:v * np_ + 3]) - t_exp)
        if np_ > 3:
            r_exp = max(r_exp, max(den_exp(x) for x in outv[v * np_ + 3:(v + 1) * np_]))
    S2, ST2, R2 = 1 << s_exp, 1 << (s_exp + t_exp), 1 << r_exp
    sc = lambda x, m: int(Fr(x) * m)          # exact: m is a multiple of x's denominator
    scale = max([abs(outv[v * np_ + k]) for v in range(nv) for k in range(3)] + [1.0])
    tol = -((-Fr(K_GEO * scale + 4 * max(fl(o["tolerance"]), fl(case["tolerance"]))) * ST2).__floor__())     # ceil
    kn, kd = Fr(K_PROP).limit_denominator(10 ** 12).numerator, Fr(K_PROP).limit_denominator(10 ** 12).denominator
    # ---- sources
    smesh = {}
    for oid in used:
        sidx, sj = srcs[oid]
        f, snp, stv = srcf[oid], sj["numProp"], sj["triVerts"]
        snt = len(stv) // 3
        tris = []
        for t in range(snt):
            P = [tuple(sc(f[stv[3 * t + k] * snp + a], S2) for a in range(3)) for k in range(3)]
            props = [tuple(sc(f[stv[3 * t + k] * snp + 3 + c], R2) for k in range(3)) for c in range(snp - 3)]
            tris.append((P, props))
        st = -((-Fr(max(fl(sj["tolerance"]), 1e-12 * scale)) * S2).__floor__())
        smesh[oid] = (sidx, sj, tris, st)
        toks = ["SRC", str(sidx), str(snt), str(snp - 3), str(len(sj["faceID"]))]
        for P, props in tris:
            toks += [hx(x) for pt in P for x in pt] + [hx(x) for pv in props for x in pv]
        toks += [str(x) for x in sj["faceID"]]
        res["lines"].append(" ".join(toks))
    res["bits"] = max(s_exp + t_exp + int(scale).bit_length(), 1)
    qpos = {}

    def qp(v):
        p = qpos.get(v)
        if p is None:
            p = qpos[v] = tuple(sc(outv[v * np_ + k], ST2) for k in range(3))
        return p

    for r in nonempty:
        oid = ro[r]
        if oid not in srcs:
            res["pre"].append(("run-names-unknown-original", "run %d names originalID %d which is not a source of the program" % (r, oid), ri[r] // 3))
            continue
        sidx, sj, tris, st = smesh[oid]
        T = [sc(fl(b), 1 << t_exp) for b in rt[12 * r:12 * r + 12]] if rt else [x << t_exp for x in (1, 0, 0, 0, 1, 0, 0, 0, 1, 0, 0, 0)]
        det = vdot(tuple(T[0:3]), vcross(tuple(T[3:6]), tuple(T[6:9])))
        if det == 0:
            res["pre"].append(("run-transform-singular", "run %d has a singular transform" % r, ri[r] // 3))
            continue
        back = rf[r] & 1
        ws = (1 if det > 0 else -1) * (-1 if back else 1)
        res["stats"]["mirrored_runs"] += int(det < 0)
        src_ch = sj["numProp"] - 3
        cp = 1 if (np_ > 3 and not (sj["kind"] == "asorig" and src_ch > 0)) else 0
        faces = {}
        for tri in range(ri[r] // 3, ri[r + 1] // 3):
            f = o["faceID"][tri]
            fc = faces.get(f)
            if fc is None:
                _fid[0] += 1
                fid = _fid[0]
                if sj["faceID"]:
                    idx, mode = [t for t in range(len(tris)) if sj["faceID"][t] == f], 0
                else:
                    mode, idx = 1, []
                    if 0 <= f < len(tris):
                        raw = [PTri(P[0], P[1], P[2], props) for P, props in tris]
                        rfp = raw[f]
                        idx = [t for t in range(len(tris)) if all(plane_close_b(st, rfp, x) for x in raw[t].p) and vdot(raw[t].n, rfp.n) > 0]
                        if f in idx:
                            idx = [f] + [t for t in idx if t != f]
                S = [PTri(*[xform(T, S2, pt) for pt in tris[t][0]], tris[t][1]) for t in idx]
                res["lines"].append("FACE %d %d %d %d %s %s %s" % (fid, sidx, mode, f, hx(st), hx(S2), " ".join(hx(x) for x in T)))
                fc = faces[f] = (fid, S)
            fid, S = fc
            vs = [tv[3 * tri + k] for k in range(3)]
            q = [qp(v) for v in vs]
            g = [[sc(outv[v * np_ + 3 + c], R2) for c in range(np_ - 3)] for v in vs]
            tid = "%s#%d" % (case["id"], tri)
            res["lines"].append("TRI %s %d %s %s %s %s %s %d %s %d %s" % (
                tid, fid, hx(tol), hx(ws), hx(kn), hx(kd), hx(R2), cp, " ".join(hx(x) for pt in q for x in pt), np_ - 3,
                " ".join(hx(x) for gg in g for x in gg)))
            code = check_triangle(tol, ws, kn, kd, R2, cp, S, q, g)
            res["tris"].append((tid, tri, r, oid, f))
            res["py"][tid] = code
            st_ = res["stats"]
            st_["tris"] += 1
            st_["backside_tris"] += back
            st_["degenerate_faces"] += int(code == 7)
            st_["halfspace_tris"] += int(sj["kind"] == "halfspace")
            st_["props"] += 3 * min(src_ch, np_ - 3) * cp
            st_["zero_channels"] += 3 * max(0, np_ - 3 - src_ch)
    return res


def verdicts_to_violations(chk, codes):
    out = list(chk["pre"])
    for tid, tri, r, oid, f in chk["tris"]:
        c = codes.get(tid)
        if c in KIND:
            out.append((KIND[c], "triangle %d (run %d, original %d, faceID %d): %s" % (tri, r, oid, f, KIND_TEXT[c]), tri))
    return out


def related_check(case, prog):
    """Python mirror only (used while shrinking); the main stream is judged by the extracted checker."""
    chk = build_check(case, prog)
    case["_stats"] = chk["stats"]
    return verdicts_to_violations(chk, chk["py"])


def run_checker(exe, lines, timeout=1500, workers=1):
    """Feed checker input to an extracted checker build.  The input is cut at RESET lines (cases are independent) into
    `workers` chunks run concurrently.  Never raises: a malformed, missing or error line, a non-zero exit or a timeout
    is returned in `errs` (the caller turns it into cx.broke); returns (rc, {tid: code}, errs)."""
    chunks, cur = [], []
    for l in lines:
        if l == "RESET" and cur:
            chunks.append(cur)
            cur = []
        cur.append(l)
    if cur:
        chunks.append(cur)
    workers = max(1, min(workers, len(chunks)))
    groups = [[] for _ in range(workers)]
    sizes = [0] * workers
    for ch in sorted(chunks, key=len, reverse=True):          # deterministic greedy balancing
        g = sizes.index(min(sizes))
        groups[g] += ch
        sizes[g] += sum(len(x) for x in ch)

    def one(g):
        if not g:
            return 0, "", ""
        return vp.sh2([exe], input="\n".join(g) + "\n", timeout=timeout)

    if workers == 1:
        results = [one(groups[0])]
    else:
        from concurrent.futures import ThreadPoolExecutor
        with ThreadPoolExecutor(max_workers=workers) as ex:
            results = list(ex.map(one, groups))
    codes, errs, rc_all = {}, [], 0
    for rc, out, err in results:
        if rc != 0:
            rc_all = rc
            errs.append("checker exited rc=%s%s %s" % (rc, " (timeout)" if rc == 124 else "", (err or "")[-200:].replace("\n", " ")))
        for l in out.splitlines():
            w = l.split()
            if not w:
                continue
            if w[0] == "V" and len(w) == 3 and w[2].lstrip("-").isdigit():
                codes[w[1]] = int(w[2])
            elif w[0] == "F" and len(w) == 3:
                pass
            else:
                errs.append("malformed checker output line: %r" % l[:120])
    want = [l.split()[1] for l in lines if l.startswith("TRI ")]
    missing = [t for t in want if t not in codes]
    if missing:
        errs.append("%d of %d verdicts missing (first: %s)" % (len(missing), len(want), missing[0]))
    return rc_all, codes, errs


# ------------------------------------------------------------------ correspondence
def rel_lines(rel, handles):
    def h(bits):
        k = tuple(bits)
        if k not in handles:
            handles[k] = len(handles) + 1
        return handles[k]
    m = " ".join("%d %d %d %d %d" % (e[0], e[1], e[2], e[3], h(e[4])) for e in rel["map"])
    t = " ".join("%d %d %d %d" % tuple(x) for x in rel["triRef"])
    return "%d %s" % (len(rel["map"]), m), "%d %s" % (len(rel["triRef"]), t)


def rel_consistent(rel):
    mp = {e[0]: e[1] for e in rel["map"]}
    return all(x[0] >= 0 and mp.get(x[0]) == x[1] for x in rel["triRef"])


def mat_fr(bits):
    return [Fr(fl(b)) for b in bits]


def mat_mul(a, b):
    # a * Mat4(b), column-major 3x4
    out = []
    for c in range(4):
        col = (b[3 * c], b[3 * c + 1], b[3 * c + 2])
        for r in range(3):
            out.append(a[r] * col[0] + a[3 + r] * col[1] + a[6 + r] * col[2] + (a[9 + r] if c == 3 else 0))
    return out


def mat_close(got_bits, exp):
    g = mat_fr(got_bits)
    m = max([abs(x) for x in exp] + [1])
    return all(abs(a - b) <= Fr(1e-12) * m * m for a, b in zip(g, exp))


def run(cx):
    cx.assumptions += [
        "runs_partition assumes rel_consistent (every triRef.meshID is a map key carrying the same originalID, meshID >= 0) and ascending map keys; "
        "both are checked on every Impl the harness dumps (results, Boolean operands and results, Compose nodes)",
        "mesh IDs / original IDs are compared exactly: the harness reads meshIDCounter_ immediately before each Impl-level call",
        "transform products (Impl::Transform, Compose lazy transforms) are compared with the exact rational product within 1e-12 relative, not bit for bit",
        "oracle tolerances: property K_PROP=%g*(1+max|prop|), geometry K_GEO=%g*scale+4*tolerance_; property fields are affine per source face by construction" % (K_PROP, K_GEO),
        "SplitByPlane's internal half-space original (Manifold::Cube(vec3(2),true), first ID reserved inside the call) is registered as a source "
        "by the harness and traced like any other (halfspace_tris in the evidence)",
        "the oracle's verdict is that of the extracted Coq checker; zarith build on all triangles, pure (inductive Z) build on a deterministic "
        "budgeted subset and on every rejected triangle, Python mirror on all: any disagreement is reported as oracle:C07/...",
        "property interpolation is not checked against AsOriginal sources that carry channels (their field is not affine per new face)",
    ]
    cx.prove()
    mls = vp.coq_extract("ExtractC07", ["c07_model.ml"])
    drv = vp.ocaml_build("c07_driver", mls + [os.path.join(vp.ROOT, "extract/c07_driver.ml")])
    exe = vp.build_harness("c07_rel", "seq", link_lib=True)
    # the oracle: extracted Coq checker, pure (inductive Z) and with the stock ExtrOcamlZBigInt directives (zarith)
    rc_pure = vp.coq_extract("ExtractC07R", ["c07_rc_model.ml"])
    rc_big = vp.coq_extract("ExtractC07RB", ["c07_rcb_model.ml"])
    chk = {}
    for flav, mdl, pkgs in (("pure", rc_pure, ()), ("big", rc_big, ("zarith",))):
        comb = os.path.join(vp.BUILD, "ml", "c07_chk_%s.ml" % flav)
        with open(comb, "w") as f:
            f.write(open(os.path.join(vp.ROOT, "extract/c07_chk_pre_%s.ml" % flav)).read() + open(os.path.join(vp.ROOT, "extract/c07_chk_body.ml")).read())
        chk[flav] = vp.ocaml_build("c07_chk_%s" % flav, mdl + [comb], packages=pkgs)
    cx.cov["trusted_base"] += ["ExtrOcamlZBigInt (stock Coq 8.16 directives, zarith 1.12) for the fast build of the checker; "
                               "its verdicts are compared with the pure extraction on a budgeted subset and on every rejection"]

    rng = random.Random(cx.seed * 104729 + 7)
    ncase = cx.pick(300, 4000)
    progs = {}
    # fixed corpus: runs first, every tier, every seed; violations found here are keyed <kind>:corpus-<name>
    corpus = {
        "inst-sub": "cube 2 2 2 dup tr 1 0 0 0 1 0 0 0 1 4/4 2/4 1/4 sub",
        "mesh-int": "cube 2 2 2 mesh 2 1 5 tet mesh 0 0 1 tr 2 0 0 0 2 0 0 0 2 2/4 2/4 2/4 int",
        "compose-decompose": "cube 1 1 1 cube 1 1 1 tr 1 0 0 0 1 0 0 0 1 12/4 0 0 compose 2 decompose 1",
        "mirror-swap-sub": "sphere 1 4 mesh 1 2 3 cube 2 2 2 mesh 3 0 4 tr -1 0 0 0 1 0 0 0 1 2/4 -3/4 -4/4 swap sub",
        # regression for the repaired defect (fixed: 12674512): Compose zero-filled tangents -> Refine recomputed coplanarIDs
        "compose-refine": "cube 1 1 1 cube 1 1 1 tr 1 0 0 0 1 0 0 0 1 12/4 0 0 add refine 2",
        # witness of the known finding: colinear collapse keeps a property vertex interpolated for the removed position
        # the same instance of one original front-side and back-side in one result (symmetric difference, union and compose)
        "symdiff-add": "cube 2 2 2 mesh 1 1 11 cube 2 2 2 tr 1 0 0 0 1 0 0 0 1 1/7 3/11 5/13 over over sub rot rot swap sub add",
        "symdiff-compose": "cube 2 2 2 cube 2 2 2 tr 1 0 0 0 1 0 0 0 1 1/7 3/11 5/13 over over sub rot rot swap sub compose 2",
        "symdiff-same-transform-twice": "cube 2 2 2 mesh 2 2 12 dup tr 0 1 0 -1 0 0 0 0 1 2/7 1/11 1/13 swap tr 0 1 0 -1 0 0 0 0 1 2/7 1/11 1/13 "
                                        "sphere 1 6 tr 1 0 0 0 1 0 0 0 1 3/17 2/19 25/23 rot over sub rot rot swap sub add",
        "tet-edge-in-cube-face": "tet cube 1 1 3 mesh 1 0 860 tr 1 0 0 0 1 0 0 0 1 -4/8 0 4/4 add",
        # second witness of the same CollapseEdge carry-over defect, other branch: two edges of two instances cross exactly; the
        # short-edge collapse of the coincident crossing vertices re-points face 101's corner (property vertex shared with face 102
        # at the removed vertex) to face 102's property vertex of the kept one (2.0 becomes -2.0625)
        "crossing-edges-shared-prop": "tet mesh 1 2 655 dup tr 1 0 0 0 -1 0 0 0 1 -1/8 2/4 0/4 add",
    }
    for name, p in corpus.items():
        progs["c-" + name] = p.split()
    for i in range(ncase):
        progs[str(i)] = gen_program(rng, i % 10)
    search_budget = [0]

    def execute(progs):
        lines = ["CASE %s %s" % (k, " ".join(p)) for k, p in progs.items()]
        kl = lambda l: l.split()[1]
        ko = lambda l: (json.loads(l).get("id") if l.startswith("{") else None)
        out, crashes = vp.run_cases(exe, lines, kl, ko, timeout=1500)
        res = {}
        for l in out.splitlines():
            if l.startswith("{"):
                j = json.loads(l)
                res[j["id"]] = j
        return res, crashes

    cx.log('builds done; running %d programs' % len(progs))
    res, crashes = execute(progs)
    cx.log('harness done')
    for cl, rc, err in crashes:
        cx.violation("relation-program-crash:%s" % hashlib.sha1(cl.split(" ", 2)[-1].encode()).hexdigest()[:10],
                     "program crashed the library (rc=%s): %s" % (rc, err[-200:]), {"program": cl})

    # ---- build driver input
    dl, meta = [], {}
    for k, j in res.items():
        if "error" in j:
            continue
        h = {}
        j["_h"] = h
        m, t = rel_lines(j["rel"], h)
        dl.append("RUNS %s %d %s %s" % (k, 1 if j["rel"]["originalID"] >= 0 else 0, m, t))
        for si, s in enumerate(j["steps"]):
            sid = "%s.%d" % (k, si)
            hh = {}
            s["_h"] = hh
            if s["kind"] == "bool" and not s["emptyP"] and not s["emptyQ"] and (s["R"]["numTri"] > 0 or s["R"]["map"]):
                mp, _ = rel_lines(s["P"], hh)
                mq, _ = rel_lines(s["Q"], hh)
                dl.append("BOOL %s %d %d %s %s" % (sid, s["c0"], 1 if s["op"] == "sub" else 0, mp, mq))
            elif s["kind"] == "increment":
                m2, t2 = rel_lines(s["P"], hh)
                dl.append("INCR %s %d %s %s" % (sid, s["c0"], m2, t2))
            elif s["kind"] == "initorig":
                m2, t2 = rel_lines(s["P"], hh)
                dl.append("INIT %s %d %s %s" % (sid, s["c0"], m2, t2))
            elif s["kind"] == "compose":
                parts = []
                for ni, nd in enumerate(s["nodes"]):
                    m2, t2 = rel_lines(nd["rel"], hh)
                    parts.append("%d %s %s" % (0 if nd["identity"] else (ni + 1) * 100000, m2, t2))
                dl.append("COMP %s %d %d %s" % (sid, s["c0"], len(s["nodes"]), " ".join(parts)))
    cx.log('driver input ready (%d lines)' % len(dl))
    rc, mout, merr = vp.sh2([drv], input="\n".join(dl) + "\n", timeout=1500)
    if rc != 0:
        cx.broke("corr:C07/model-driver", "model driver exited %d: %s" % (rc, merr[-300:]))
    cx.log('model driver done')
    model = {}
    for l in mout.splitlines():
        w = l.split(" ", 2)
        if len(w) >= 2:
            model[(w[0], w[1])] = w[2] if len(w) > 2 else ""

    def parse_map(txt):
        v = txt.split()
        return [tuple(int(x) for x in v[i:i + 5]) for i in range(0, len(v), 5)]

    dist = {"programs": 0, "errors": 0, "bool_steps": 0, "compose_steps": 0, "increment_steps": 0, "initorig_steps": 0, "transform_steps": 0,
            "runs_total": 0, "empty_runs": 0, "backside_runs": 0, "multi_instance": 0, "mixed_channels": 0}
    tot = {}
    nontriv, seen, corr_bad, corr_ok = 0, set(), [], 0
    broken_fns = set()

    def note_broke(name, fn, desc):
        corr_bad.append(name)
        broken_fns.add(fn)
        if len(corr_bad) <= 4:
            cx.broke(name, desc)

    known_keys = set(k for k, _ in vp.known_findings(cx.pid))
    reported = {}

    # ---- oracle pass: the extracted checker (zarith build) judges every triangle of every output; the Python mirror
    # must agree everywhere; the pure build must agree on a deterministic budgeted subset and on every rejection
    all_lines, pure_lines, pure_budget, pure_cost = [], [], cx.pick(1.2e4, 1.2e5), 0.0
    for k in progs:
        j = res.get(k)
        if j is None or "error" in j:
            continue
        c = j["_chk"] = build_check(j, progs[k])
        j["_stats"] = c["stats"]
        all_lines += c["lines"]
        cost = len(c["tris"]) * (c["bits"] / 64.0) ** 2
        if k.startswith("c-") or pure_cost + cost <= pure_budget:
            pure_cost += cost
            c["in_pure"] = True
            pure_lines += c["lines"]
    cx.log("checker input ready (%d lines, %d for the pure build)" % (len(all_lines), len(pure_lines)))
    rcb, codes_big, errs_b = run_checker(chk["big"], all_lines)
    cx.log("extracted checker (zarith build) done")
    if rcb != 0 or errs_b:
        cx.broke("oracle:C07/extracted-checker", "zarith build of the extracted checker failed: rc=%s %s" % (rcb, "; ".join(errs_b[:3])))
    for k in progs:                       # every rejection is re-judged by the pure build
        j = res.get(k)
        c = j.get("_chk") if j else None
        if c and not c.get("in_pure"):
            rej = set(tid for tid, *_ in c["tris"] if codes_big.get(tid) not in (0, 7))
            if rej:
                pure_lines += [l for l in c["lines"] if not l.startswith("TRI") or l.split()[1] in rej]
    # the pure build costs ~10 ms per triangle: its cases are spread over several processes
    rcp, codes_pure, errs_p = run_checker(chk["pure"], pure_lines, timeout=cx.pick(600, 1500), workers=min(8, vp.NPROC))
    cx.log("extracted checker (pure build) done: %d triangles" % len(codes_pure))
    if rcp != 0 or errs_p:
        cx.broke("oracle:C07/pure-checker", "pure (inductive Z) build of the extracted checker failed: rc=%s %s" % (rcp, "; ".join(errs_p[:3])))
    oracle_stats = {"triangles_judged_by_extracted_checker": len(codes_big), "triangles_rejudged_by_pure_extraction": len(codes_pure),
                    "python_mirror_disagreements": 0, "pure_vs_zarith_disagreements": 0}
    for tid, c in codes_pure.items():
        if codes_big.get(tid) != c:
            oracle_stats["pure_vs_zarith_disagreements"] += 1
            if oracle_stats["pure_vs_zarith_disagreements"] <= 2:
                cx.broke("oracle:C07/zarith-vs-pure#%s" % tid, "the two extractions of check_triangle disagree: pure=%s zarith=%s" % (c, codes_big.get(tid)))

    def run_one(prog):
        rc1, out1, _ = vp.sh2([exe], input="CASE x %s\n" % " ".join(prog), timeout=300)
        line = next((l for l in out1.splitlines() if l.startswith("{")), None)
        j1 = json.loads(line) if line else None
        return None if (j1 is None or "error" in j1) else j1

    def kinds_of(prog, extracted=False):
        """run one program through the real code and the oracle (Python mirror while shrinking; the pure extraction of
        the Coq checker when `extracted`): {kind: (description, triangle)}"""
        j1 = run_one(prog)
        if j1 is None:
            return {}
        c1 = build_check(j1, prog)
        codes = c1["py"]
        if extracted:
            _, codes, _ = run_checker(chk["pure"], c1["lines"], timeout=600)
        kinds = {}
        for kind, desc, tri in verdicts_to_violations(c1, codes):
            kinds.setdefault(kind, (desc, tri))
        return kinds

    def shrink(prog, kind):
        """drop unary operations (transforms, mirror, refine, asorig, mesh wrapping, decompose) while the same kind of
        violation persists; the result is the canonical replay the violation key is derived from"""
        ops = split_ops(prog)
        # shortest prefix that still leaves a result on the stack and shows the same kind
        depth, cuts = 0, []
        for n, o in enumerate(ops):
            depth += {"cube": 1, "tet": 1, "sphere": 1, "cyl": 1, "dup": 1, "over": 1, "add": -1, "sub": -1, "int": -1, "split": -1}.get(o[0], 0)
            if o[0] == "compose":
                depth -= int(o[1]) - 1
            if depth >= 1 and n + 1 < len(ops):
                cuts.append(n + 1)
        for n in cuts:
            if kind in kinds_of([t for o in ops[:n] for t in o]):
                ops = ops[:n]
                break
        changed, trials = True, 0
        while changed and trials < 60:
            changed = False
            for idx in range(len(ops) - 1, -1, -1):
                if ops[idx][0] in UNARY:
                    cand = ops[:idx] + ops[idx + 1:]
                    trials += 1
                    if kind in kinds_of([t for o in cand for t in o]):
                        ops, changed = cand, True
                        break
        return [t for o in ops for t in o]

    def oracle(k, j, prog):
        c = j.get("_chk")
        if c is None:                     # search-phase programs: judged by the pure extraction directly
            c = j["_chk"] = build_check(j, prog)
            j["_stats"] = c["stats"]
            _, codes, _ = run_checker(chk["pure"], c["lines"], timeout=600)
        else:
            codes = codes_big
        for tid, *_ in c["tris"]:
            if codes.get(tid) != c["py"].get(tid):
                oracle_stats["python_mirror_disagreements"] += 1
                if oracle_stats["python_mirror_disagreements"] <= 2:
                    cx.broke("oracle:C07/python-mirror#%s" % tid, "extracted checker says %s, Python mirror says %s: %s"
                             % (codes.get(tid), c["py"].get(tid), " ".join(prog)))
        v = verdicts_to_violations(c, codes)
        kinds = {}
        for kind, desc, tri in v:
            kinds.setdefault(kind, (desc, tri))
        for kind, (desc, tri) in kinds.items():
            if k.startswith("c-"):
                key, rp = "%s:corpus-%s" % (kind, k[2:]), prog
            else:
                if reported.get(kind, 0) >= 2:       # at most two distinct programs per kind are shrunk and reported
                    continue
                reported[kind] = reported.get(kind, 0) + 1
                rp = shrink(prog, kind)
                conf = kinds_of(rp, extracted=True)   # the shrunk replay must be rejected by the extracted checker itself
                if kind not in conf:
                    rp, conf = prog, {kind: (desc, tri)}
                desc, tri = conf[kind]
                key = "%s:%s" % (kind, hashlib.sha1(" ".join(rp).encode()).hexdigest()[:10])
            cx.violation(key, desc, {"program": " ".join(rp), "generated_program": " ".join(prog), "triangle": tri,
                                     "replay": "echo 'CASE x %s' | %s" % (" ".join(rp), exe)})
        for a, b in j.get("_stats", {}).items():
            tot[a] = tot.get(a, 0) + b
        return bool(v)

    for k, prog in progs.items():
        j = res.get(k)
        dist["programs"] += 1
        if j is None:
            continue
        if "error" in j:
            dist["errors"] += 1
            continue
        rejected = oracle(k, j, prog)
        o = j["out"]
        # --- run builder correspondence
        mo = model.get(("RUNS", k))
        inv = {v: key for key, v in j["_h"].items()}
        if not rel_consistent(j["rel"]):
            note_broke("corr:C07/rel_consistent#case %s" % k, "rel", "result Impl violates rel_consistent (a triRef meshID is not a map key with the same originalID): %s" % " ".join(prog))
        if mo is None:
            note_broke("corr:C07/get_mesh_runs#case %s" % k, "runs", "model produced no output")
        else:
            f = [x.split() for x in mo.split("|")]
            okmap = f[0] == ["1"]
            m_face, m_ri, m_ro, m_rf = ([int(x) for x in f[i]] for i in (2, 3, 4, 5))
            m_rt = [b for hnd in f[6] for b in (inv[int(hnd)] if int(hnd) in inv else (0x3FF0000000000000, 0, 0, 0, 0x3FF0000000000000, 0, 0, 0, 0x3FF0000000000000, 0, 0, 0))]
            same = (okmap and m_face == o["faceID"] and m_ri == o["runIndex"] and m_ro == o["runOriginalID"] and m_rf == o["runFlags"]
                    and (m_rt == o["runTransform"]))
            if same:
                corr_ok += 1
            elif not rejected:
                which = (["numRun %d vs model %d" % (len(o["runOriginalID"]), len(m_ro))] if len(m_ro) != len(o["runOriginalID"]) else []) + \
                        [n for n, a, b in (("faceID", m_face, o["faceID"]), ("runIndex", m_ri, o["runIndex"]), ("runOriginalID", m_ro, o["runOriginalID"]),
                                           ("runFlags", m_rf, o["runFlags"]), ("runTransform", m_rt, o["runTransform"])) if a != b]
                note_broke("corr:C07/get_mesh_runs#case %s" % k, "runs", "extracted run builder and GetMeshGL64 differ in %s for: %s (impl runOriginalID=%s model=%s)"
                           % (which, " ".join(prog), o["runOriginalID"], m_ro))
        # --- steps
        for si, s in enumerate(j["steps"]):
            sid = "%s.%d" % (k, si)
            invh = {v: key for key, v in s["_h"].items()}
            got_map = [(e[0], e[1], e[2], e[3], tuple(e[4])) for e in s["R"]["map"]]
            if s["kind"] == "bool" and not s["emptyP"] and not s["emptyQ"] and (s["R"]["numTri"] > 0 or s["R"]["map"]):
                dist["bool_steps"] += 1
                mo = model.get(("BOOL", sid), "UNDEFINED")
                ok = False
                if not mo.startswith("UNDEFINED"):
                    f = mo.split("|")
                    exp = [(a, b, c, d, invh.get(e)) for a, b, c, d, e in parse_map(f[2])]
                    ok = int(f[0]) == s["c1"] and exp == got_map and rel_consistent(s["R"]) and rel_consistent(s["P"]) and rel_consistent(s["Q"])
                if ok:
                    corr_ok += 1
                else:
                    note_broke("corr:C07/update_reference+increment#case %s" % sid, "bool",
                               "Boolean3::Result(%s) meshIDtransform differs from merge_maps+increment_mesh_ids: impl keys/orig/back=%s model=%s (c0=%d c1=%d) program: %s"
                               % (s["op"], [e[:3] for e in got_map], mo[:200], s["c0"], s["c1"], " ".join(prog)))
            elif s["kind"] == "increment":
                dist["increment_steps"] += 1
                mo = model.get(("INCR", sid), "UNDEFINED")
                ok = False
                if not mo.startswith("UNDEFINED"):
                    f = mo.split("|")
                    exp = [(a, b, c, d, invh.get(e)) for a, b, c, d, e in parse_map(f[1])]
                    v = [int(x) for x in f[2].split()]
                    ok = int(f[0]) == s["c1"] and exp == got_map and [v[i:i + 4] for i in range(0, len(v), 4)] == s["R"]["triRef"]
                if ok:
                    corr_ok += 1
                else:
                    note_broke("corr:C07/increment_mesh_ids#case %s" % sid, "incr", "IncrementMeshIDs differs from the model: %s" % " ".join(prog))
            elif s["kind"] == "initorig":
                dist["initorig_steps"] += 1
                mo = model.get(("INIT", sid), "")
                f = mo.split("|")
                ok = False
                if len(f) == 3:
                    c1, oid = (int(x) for x in f[0].split())
                    exp = [(a, b, c, d) for a, b, c, d, e in parse_map(f[1])]
                    v = [int(x) for x in f[2].split()]
                    ident = tuple([0x3FF0000000000000, 0, 0, 0, 0x3FF0000000000000, 0, 0, 0, 0x3FF0000000000000, 0, 0, 0])
                    ok = (c1 == s["c1"] and oid == s["R"]["originalID"] and exp == [e[:4] for e in got_map] and all(e[4] == ident for e in got_map)
                          and [v[i:i + 4] for i in range(0, len(v), 4)] == s["R"]["triRef"])
                if ok:
                    corr_ok += 1
                else:
                    note_broke("corr:C07/initialize_original#case %s" % sid, "init", "InitializeOriginal differs from the model: %s" % " ".join(prog))
            elif s["kind"] == "compose":
                dist["compose_steps"] += 1
                mo = model.get(("COMP", sid), "UNDEFINED")
                ok = False
                if not mo.startswith("UNDEFINED"):
                    f = mo.split("|")
                    exp = parse_map(f[1])
                    v = [int(x) for x in f[2].split()]
                    ok = int(f[0]) == s["c1"] and len(exp) == len(got_map) and sorted(v[i:i + 4] for i in range(0, len(v), 4)) == sorted(s["R"]["triRef"])
                    for (a, b, c, d, hsum), g in zip(exp, got_map):
                        ok = ok and (a, b, c, d) == g[:4]
                        ni, hr = hsum // 100000, hsum % 100000
                        relm = mat_fr(invh[hr]) if hr in invh else None
                        if relm is None:
                            ok = False
                        elif ni == 0:
                            ok = ok and tuple(invh[hr]) == g[4]
                        else:
                            ok = ok and mat_close(g[4], mat_mul(mat_fr(s["nodes"][ni - 1]["transform"]), relm))
                if ok:
                    corr_ok += 1
                else:
                    note_broke("corr:C07/compose_relation#case %s" % sid, "compose", "CsgLeafNode::Compose relation differs from the model: %s | model %s | impl %s"
                               % (" ".join(prog), mo[:160], [e[:4] for e in got_map]))
            elif s["kind"] == "transform":
                dist["transform_steps"] += 1
                M = mat_fr(s["mat"])
                ident = s["mat"] == [0x3FF0000000000000, 0, 0, 0, 0x3FF0000000000000, 0, 0, 0, 0x3FF0000000000000, 0, 0, 0]
                pm = s["P"]["map"]
                if s["P"]["numTri"] == 0:      # empty operand: Transform ends in MakeEmpty, which resets the relation (outside the model)
                    continue
                ok = len(pm) == len(got_map) and s["P"]["triRef"] == s["R"]["triRef"]
                for e, g in zip(pm, got_map):
                    ok = ok and tuple(e[:4]) == g[:4] and (tuple(e[4]) == g[4] if ident else mat_close(g[4], mat_mul(M, mat_fr(e[4]))))
                if ok:
                    corr_ok += 1
                else:
                    note_broke("corr:C07/impl_transform#case %s" % sid, "transform", "Impl::Transform relation update differs from transform_ * Mat4(old): %s" % " ".join(prog))
        # --- coverage bookkeeping
        nrun = len(o["runOriginalID"])
        empties = sum(1 for r in range(nrun) if o["runIndex"][r] == o["runIndex"][r + 1])
        dist["runs_total"] += nrun
        dist["empty_runs"] += empties
        dist["backside_runs"] += sum(x & 1 for x in o["runFlags"])
        multi = len(set(o["runOriginalID"])) < nrun
        dist["multi_instance"] += int(multi)
        chans = set(s["numProp"] for s in j["sources"])
        dist["mixed_channels"] += int(len(chans) > 1)
        key = json.dumps([o["triVerts"], o["vertProperties"], o["runIndex"], o["runFlags"]])[:200000]
        if key not in seen:
            seen.add(key)
            if nrun - empties >= 2 and len(o["triVerts"]) > 0:
                nontriv += 1
        if len(cx.cov["samples"]) < 4 and nrun >= 2:
            cx.sample({"program": " ".join(prog), "runIndex": o["runIndex"], "runOriginalID": o["runOriginalID"], "runFlags": o["runFlags"],
                       "numTri": len(o["triVerts"]) // 3, "numProp": o["numProp"], "oracle": j.get("_stats")})

    cx.log('oracle + comparison done')
    # ---- search phase: a correspondence broke and the oracle found nothing: aim extra programs at the broken function
    if corr_bad and not [v for v in cx.violations if v[0] not in known_keys]:
        fam = {"bool": [1, 8, 2], "runs": [9, 8, 2, 5], "compose": [5], "incr": [1, 5], "init": [6], "transform": [7, 1], "rel": [1, 2]}
        fams = sorted(set(x for fn in broken_fns for x in fam.get(fn, [1])))
        extra = {"s%d" % i: gen_program(rng, fams[i % len(fams)]) for i in range(cx.pick(400, 4000))}
        search_budget[0] = len(extra)
        res2, crashes2 = execute(extra)
        for k, prog in extra.items():
            j = res2.get(k)
            if j is not None and "error" not in j:
                oracle(k, j, prog)
            if len([v for v in cx.violations if v[0] not in known_keys]) > 3:
                break

    cx.cov.update({
        "evaluations": dist["programs"] + search_budget[0], "distinct_nontrivial": nontriv,
        "rule": "seeded stack programs (10 families: same original front- and back-side with equal transforms (symmetric differences), two sources, repeated instances of one original, depth-2 with subtracts, split, refine, compose/decompose, "
                "AsOriginal, single transformed/mirrored, descending-ID operands) over cube/tet/sphere/cylinder originals, MeshGL64 imports with 0-3 affine "
                "property channels, user/per-triangle/absent face IDs and reserved original IDs; non-trivial = distinct exported mesh with >= 2 non-empty runs",
        "distribution": dist, "oracle_totals": tot, "oracle_cross_checks": oracle_stats, "correspondence_mismatches": len(corr_bad), "traces_validated_against_impl": corr_ok,
        "k_prop": K_PROP, "k_geo": K_GEO, "search_budget_used": search_budget[0],
    })
