"""C07 - every output triangle traces back to its source face and interpolated properties.
proof (run structure, mesh IDs, transforms, back-side parity, barycentric algebra)
+ extracted-model correspondence with GetMeshGLImpl / Boolean3::Result / IncrementMeshIDs /
InitializeOriginal / CsgLeafNode::Compose + exact oracle related_check on exported meshes."""
import hashlib, json, os, random, struct
from fractions import Fraction as Fr
import vp

LEVEL = "proof"
K_PROP = 1e-9        # relative property tolerance, see META note
K_GEO = 1e-8         # geometric tolerance relative to the bounding-box scale (plus 4*tolerance_)
META = {
    "level": "proof",
    "technique": "Coq proof about a line-by-line Gallina port of the mesh-relation bookkeeping + extracted-model correspondence "
                 "with the real code + exact rational checker (related_check) on exported meshes",
    "text": "Coq theorems, for all triRef vectors / relation maps / counters / transforms: runs_partition (GetMeshGLImpl's export has "
            "contiguous runs covering all triangles, non-empty runs sorted by (originalID, meshID), one run per map key each carrying "
            "its key's originalID/flags/transform, every triangle in the run of its own meshID, key-less runs trailing in std::map order; "
            "stable_sort pinned by its contract), ids_stay_distinct_{boolean,increment,compose} (Q keys shifted by the counter never hit P keys, "
            "IncrementMeshIDs is injective and order preserving, Compose offsets i*snapshot are disjoint and later nodes never overwrite), "
            "relation_transform_compose (stored transform = ordered product, 3x4 algebra over Z), backside_parity, barycentric_affine(+_fields) over Q "
            "(non-snapped GetBarycentric reproduces position and every affine property field, absent channels 0); snapped branches are *_partial. "
            "Tie: the extracted run builder, fed the result Impl's triRef+meshIDtransform read from the real object, must reproduce "
            "runIndex/runOriginalID/runFlags/runTransform(bit patterns)/faceID of GetMeshGL64; extracted merge_maps+increment_mesh_ids, "
            "initialize_original, compose_relation must reproduce meshIDtransform (exact keys from the global counter) of Boolean3::Result, "
            "IncrementMeshIDs, InitializeOriginal, CsgLeafNode::Compose. Oracle related_check (exact rationals from the double bit patterns): "
            "every output triangle lies within tolerance of the plane and inside the tolerance-grown triangles of the source face its "
            "run/faceID name, transformed exactly by the run transform, orientation = sign(det)*(-1 if back-side), each corner property within "
            "K_PROP*(1+max|prop|) of the affine interpolation on that face, exactly 0 for channels the source lacks.",
    "note": "Trusted: Coq kernel, extraction (ExtrOcamlBasic), the C++ harness reading Impl members, Python Fraction arithmetic in the oracle "
            "(the oracle is not extracted; barycentric weights use the formula proved in barycentric_affine). rel_consistent (triangle meshIDs are map keys "
            "carrying the same originalID) is a hypothesis of runs_partition and is validated on every Impl seen. K_PROP=1e-9 relative: interpolation "
            "error of the library is O(1e-15)*|prop| plus |grad|*tolerance_ (~1e-13) from vertex/edge snapping, mutants shift values by O(1). "
            "K_GEO=1e-8*scale+4*tolerance_. Not proved: snapped GetBarycentric branches beyond *_partial, SwapEdge/CollapseEdge/Subdivide ref copying "
            "(validated by the oracle only), property-vertex dedup key.",
}

IDENT = [1, 0, 0, 0, 1, 0, 0, 0, 1]
LINS = [
    IDENT, IDENT, IDENT,
    [0, 1, 0, -1, 0, 0, 0, 0, 1], [1, 0, 0, 0, 0, 1, 0, -1, 0], [0, 0, 1, 0, 1, 0, -1, 0, 0],       # rotations
    [-1, 0, 0, 0, 1, 0, 0, 0, 1], [1, 0, 0, 0, -1, 0, 0, 0, 1], [0, 1, 0, 1, 0, 0, 0, 0, 1],        # mirrors (det<0)
    [2, 0, 0, 0, 1, 0, 0, 0, 1], ["1/2", 0, 0, 0, "1/2", 0, 0, 0, "1/2"], [1, 0, 0, "1/2", 1, 0, 0, 0, 1],  # scale, shear
    [1, "1/4", 0, "-1/4", 1, 0, 0, "1/8", 1], [-1, 0, "1/4", 0, -1, 0, 0, 0, -1],
]


# Placement policy.  A program is generated either in EXACT mode (dyadic offsets: coplanar faces, vertices on
# faces, edges in face planes do occur) - then every property-carrying MeshGL source uses per-triangle faceIDs -
# or in GENERAL-POSITION mode (coplanar face grouping allowed): every translation component is k/p with p a
# prime that is different for each axis and each transform of the program and k not a multiple of p, so that no
# vertex (hence no edge) of one operand lies in a face plane of another (the plane normals involved have dyadic
# components with numerators 1 or 2).  This keeps the random stream away from the defect family of the known
# finding property-not-interpolated:corpus-tet-edge-in-cube-face, whose witness runs in the fixed corpus.
PRIMES = [7, 11, 13, 17, 19, 23, 29, 31, 37, 41, 43, 47, 53, 59, 61, 67, 71, 73, 79, 83, 89, 97]


class Gen:
    def __init__(self, rng):
        self.rng = rng
        self.exact = rng.random() < 0.35
        self.np = 0

    def tr(self, spread=4, lin=None):
        rng = self.rng
        lin = lin if lin is not None else rng.choice(LINS)
        if self.exact:
            t = ["%d/%d" % (rng.randrange(-spread * 4, spread * 4 + 1), rng.choice([4, 8])) for _ in range(3)]
        else:
            t = []
            for _ in range(3):
                p = PRIMES[self.np % len(PRIMES)]
                self.np += 1
                k = rng.randrange(-int(spread * p * 0.6), int(spread * p * 0.6) + 1)
                if k % p == 0:
                    k += rng.choice([1, 2, 3])
                t.append("%d/%d" % (k, p))
        return ["tr"] + [str(x) for x in lin] + t

    def src(self, allow_wrap=True):
        rng = self.rng
        k = rng.randrange(6)
        if k <= 2:
            p = ["cube", str(rng.randrange(1, 4)), str(rng.randrange(1, 4)), str(rng.randrange(1, 4))]
        elif k == 3:
            p = ["tet"]
        elif k == 4:
            p = ["sphere", str(rng.randrange(1, 3)), str(rng.choice([4, 6, 8]))]
        else:
            p = ["cyl", str(rng.randrange(1, 4)), str(rng.randrange(1, 3)), str(rng.choice([4, 5, 7]))]
        if allow_wrap:
            w = rng.randrange(5)
            if w <= 2:
                nprop, fm = rng.randrange(0, 4), rng.randrange(3)
                if self.exact and nprop > 0:
                    fm = 2
                p += ["mesh", str(nprop), str(fm), str(rng.randrange(1000))]
            elif w == 3:
                p += ["asorig"]
        return p


OPS = ["add", "sub", "int"]


def gen_program(rng, fam):
    g = Gen(rng)
    if fam == 0:      # two different sources
        return g.src() + g.tr(2) + g.src() + g.tr(2) + [rng.choice(OPS)]
    if fam == 1:      # two instances of one original under different transforms
        p = g.src() + ["dup"] + g.tr(2) + [rng.choice(OPS)]
        if rng.random() < 0.4:
            p += ["dup"] + g.tr(2) + [rng.choice(OPS)]
        return p
    if fam == 2:      # depth 2, subtract as Q twice (back-side parity), mixed channel counts
        return g.src() + g.tr(2) + g.src() + g.tr(2) + g.src() + g.tr(2) + [rng.choice(OPS)] + [rng.choice(OPS)]
    if fam == 3:      # split
        if rng.random() < 0.5:
            return g.src() + g.tr(1) + ["splitplane", str(rng.randrange(-1, 2)), str(rng.randrange(-1, 2)), "1", str(rng.randrange(0, 6)), str(rng.randrange(2))]
        return g.src() + g.tr(2) + g.src() + g.tr(2) + ["split", str(rng.randrange(2))]
    if fam == 4:      # refine after a Boolean
        return g.src() + g.tr(2) + g.src() + g.tr(2) + [rng.choice(OPS), "refine", str(rng.choice([2, 3]))]
    if fam == 5:      # compose of disjoint copies (lazy transforms), then maybe decompose / a Boolean
        p = g.src() + ["dup", "tr"] + [str(x) for x in IDENT] + ["40/4", "0", "0"] + ["compose", "2"]
        r = rng.random()
        if r < 0.3:
            p += ["decompose", str(rng.randrange(2))]
        elif r < 0.7:
            p += g.src() + g.tr(2) + [rng.choice(OPS)]
        return p
    if fam == 6:      # as-original of a Boolean result, then another Boolean
        return (g.src(False) + g.src(False) + g.tr(2) + [rng.choice(OPS), "asorig"] + g.tr(2) + g.src() + g.tr(2) + [rng.choice(OPS)])
    if fam == 7:      # a single transformed / mirrored source
        return g.src() + g.tr(3) + (["mirror", "1", str(rng.randrange(2)), "0"] if rng.random() < 0.5 else [])
    # fam 8: originals in descending-ID order as P, Q (run order differs from meshID order), subtract
    return g.src() + ["dup"] + g.tr(2) + g.src() + g.tr(2) + ["swap", rng.choice(OPS), "swap", "sub"]


# program structure (for shrinking): number of argument tokens of each operation
ARITY = {"cube": 3, "tet": 0, "sphere": 2, "cyl": 3, "mesh": 3, "asorig": 0, "add": 0, "sub": 0, "int": 0, "tr": 12, "mirror": 3,
         "refine": 1, "splitplane": 5, "split": 1, "compose": 1, "decompose": 1, "dup": 0, "swap": 0}
UNARY = ("tr", "mirror", "refine", "asorig", "mesh", "decompose")


def split_ops(prog):
    ops, i = [], 0
    while i < len(prog):
        n = ARITY.get(prog[i], 0)
        ops.append(prog[i:i + 1 + n])
        i += 1 + n
    return ops


# ------------------------------------------------------------------ exact helpers
def fl(b):
    return struct.unpack("<d", struct.pack("<Q", b))[0]


def sub(a, b): return (a[0] - b[0], a[1] - b[1], a[2] - b[2])
def dot(a, b): return a[0] * b[0] + a[1] * b[1] + a[2] * b[2]
def cross(a, b): return (a[1] * b[2] - a[2] * b[1], a[2] * b[0] - a[0] * b[2], a[0] * b[1] - a[1] * b[0])


class Mesh:
    def __init__(self, j):
        self.np = j["numProp"]
        self.vp = j["vertProperties"]
        self.tv = j["triVerts"]
        self.faceID = j["faceID"]
        self.nt = len(self.tv) // 3
        self.tol = fl(j["tolerance"])
        self._pos = {}

    def pos(self, v):
        p = self._pos.get(v)
        if p is None:
            p = tuple(Fr(fl(self.vp[v * self.np + k])) for k in range(3))
            self._pos[v] = p
        return p

    def prop(self, v, c):
        return fl(self.vp[v * self.np + 3 + c])


def apply_T(T, p):
    # T: 12 Fractions column-major
    return tuple(T[r] * p[0] + T[3 + r] * p[1] + T[6 + r] * p[2] + T[9 + r] for r in range(3))


def related_check(case, prog):
    """Exact oracle on one harness output. Returns list of (key, description, tri)."""
    bad = []
    out = Mesh(case["out"])
    o = case["out"]
    ri, ro, rf, rt = o["runIndex"], o["runOriginalID"], o["runFlags"], o["runTransform"]
    nrun = len(ro)
    if len(ri) != nrun + 1 or len(rf) != nrun or (rt and len(rt) != 12 * nrun) or (ri and ri[0] != 0) or ri[-1] != 3 * out.nt \
            or any(x % 3 for x in ri) or any(ri[k] > ri[k + 1] for k in range(nrun)):
        return [("runs-not-contiguous", "run tables malformed: runIndex=%s numTri=%d" % (ri[:20], out.nt), -1)]
    nonempty = [k for k in range(nrun) if ri[k] < ri[k + 1]]
    if any(ro[a] > ro[b] for a, b in zip(nonempty, nonempty[1:])):
        bad.append(("runs-not-sorted-by-original", "runOriginalID of non-empty runs %s not sorted" % [ro[k] for k in nonempty], -1))
    if nonempty and any(k < nonempty[-1] for k in range(nrun) if k not in set(nonempty)):
        bad.append(("empty-run-not-trailing", "an empty run precedes a non-empty one: runIndex=%s" % ri, -1))
    if len(out.faceID) != out.nt:
        return bad + [("faceid-length", "faceID length %d != numTri %d" % (len(out.faceID), out.nt), -1)]
    srcs = {}
    for s in case["sources"]:
        srcs.setdefault(s["origID"], s)
    # scale for the geometric tolerance
    xs = [abs(fl(out.vp[v * out.np + k])) for v in range(len(out.vp) // out.np) for k in range(3)] or [1.0]
    scale = max(max(xs), 1.0)
    tolg = Fr(K_GEO * scale + 4 * max(out.tol, fl(case["tolerance"])))
    tol2 = tolg * tolg
    stats = {"tris": 0, "props": 0, "zero_channels": 0, "skipped_runs": 0, "backside_tris": 0, "mirrored_runs": 0}
    for r in nonempty:
        src = srcs.get(ro[r])
        if src is None:
            if "splitplane" in prog:          # the cutter half-space is an internal original
                stats["skipped_runs"] += 1
                continue
            bad.append(("run-names-unknown-original", "run %d names originalID %d which is not a source of the program" % (r, ro[r]), ri[r] // 3))
            continue
        sm = src.get("_mesh")
        if sm is None:
            sm = src["_mesh"] = Mesh(src)
            sm.cache = {}
        T = [Fr(fl(b)) for b in rt[12 * r:12 * r + 12]] if rt else [Fr(x) for x in (1, 0, 0, 0, 1, 0, 0, 0, 1, 0, 0, 0)]
        det = dot(tuple(T[0:3]), cross(tuple(T[3:6]), tuple(T[6:9])))
        if det == 0:
            bad.append(("run-transform-singular", "run %d has a singular transform" % r, ri[r] // 3))
            continue
        back = rf[r] & 1
        want_sign = (1 if det > 0 else -1) * (-1 if back else 1)
        stats["mirrored_runs"] += int(det < 0)
        src_ch = sm.np - 3
        check_props = out.np > 3 and not (src["kind"] == "asorig" and src_ch > 0)
        tcache = {}

        def stri(t):
            v = tcache.get(t)
            if v is None:
                P = [apply_T(T, sm.pos(sm.tv[3 * t + k])) for k in range(3)]
                e = (sub(P[2], P[1]), sub(P[0], P[2]), sub(P[1], P[0]))
                N = cross(e[0], e[1])
                v = tcache[t] = (P, e, N, dot(N, N), [dot(x, x) for x in e])
            return v

        def face_of(f):
            key = ("f", f)
            S = sm.cache.get(key)
            if S is not None:
                return S
            if sm.faceID:
                S = [t for t in range(sm.nt) if sm.faceID[t] == f]
            elif 0 <= f < sm.nt:       # coplanarID: a source triangle index; face = triangles coplanar with it (untransformed, exact)
                P0 = [sm.pos(sm.tv[3 * f + k]) for k in range(3)]
                N0 = cross(sub(P0[1], P0[0]), sub(P0[2], P0[0]))
                nn = dot(N0, N0)
                S = []
                st2 = Fr(max(sm.tol, 1e-12 * scale)) ** 2
                for t in range(sm.nt):
                    Pt = [sm.pos(sm.tv[3 * t + k]) for k in range(3)]
                    if all(dot(N0, sub(p, P0[0])) ** 2 <= st2 * nn for p in Pt) and dot(cross(sub(Pt[1], Pt[0]), sub(Pt[2], Pt[0])), N0) > 0:
                        S.append(t)
                if f in S:
                    S.remove(f)
                    S.insert(0, f)
            else:
                S = []
            sm.cache[key] = S
            return S

        for tri in range(ri[r] // 3, ri[r + 1] // 3):
            stats["tris"] += 1
            stats["backside_tris"] += back
            f = out.faceID[tri]
            S = face_of(f)
            if not S:
                bad.append(("face-id-names-no-source-face", "triangle %d (run %d, original %d) has faceID %d naming no source triangle" % (tri, r, ro[r], f), tri))
                continue
            ref = next((t for t in S if stri(t)[3] != 0), None)
            if ref is None:
                continue
            Pr, er, Nr, NNr, _ = stri(ref)
            vs = [out.tv[3 * tri + k] for k in range(3)]
            q = [out.pos(v) for v in vs]
            offp = [k for k in range(3) if dot(Nr, sub(q[k], Pr[0])) ** 2 > tol2 * NNr]
            if offp:
                bad.append(("triangle-off-source-plane", "triangle %d corner %d is farther than %.3g from the plane of source face %d of original %d (run %d)"
                            % (tri, offp[0], float(tolg), f, ro[r], r), tri))
                continue
            oN = cross(sub(q[1], q[0]), sub(q[2], q[0]))
            sgn = dot(oN, Nr)
            if dot(oN, oN) * NNr > tol2 * tol2 * NNr and sgn != 0 and (1 if sgn > 0 else -1) != want_sign:
                bad.append(("triangle-orientation", "triangle %d is oriented %s its source face %d of original %d but run %d has backSide=%d, det sign %d"
                            % (tri, "with" if sgn > 0 else "against", f, ro[r], r, back, 1 if det > 0 else -1), tri))
                continue
            cen = tuple((q[0][k] + q[1][k] + q[2][k]) / 3 for k in range(3))
            for ci, pt in enumerate(q + [cen]):
                found = None
                for t in S:
                    P, e, N, NN, d2 = stri(t)
                    if NN == 0:
                        continue
                    u = [dot(cross(e[i], sub(pt, P[(i + 1) % 3])), N) for i in range(3)]
                    if all(u[i] >= 0 or u[i] * u[i] <= tol2 * d2[i] * NN for i in range(3)):
                        found = (t, u, NN)
                        break
                if found is None:
                    bad.append(("triangle-outside-source-face", "triangle %d %s lies outside the tolerance-grown outline of source face %d of original %d (run %d)"
                                % (tri, "corner %d" % ci if ci < 3 else "centroid", f, ro[r], r), tri))
                    break
                if ci < 3 and out.np > 3:
                    t, u, NN = found
                    su = u[0] + u[1] + u[2]
                    for c in range(out.np - 3):
                        got = out.prop(vs[ci], c)
                        if c >= src_ch:
                            stats["zero_channels"] += 1
                            if got != 0.0:
                                bad.append(("absent-channel-not-zero", "triangle %d corner %d channel %d = %r but original %d has only %d channels"
                                            % (tri, ci, c, got, ro[r], src_ch), tri))
                                break
                        elif check_props and su != 0:
                            pv = [sm.prop(sm.tv[3 * t + k], c) for k in range(3)]
                            exp = sum(u[k] * Fr(pv[k]) for k in range(3)) / su
                            stats["props"] += 1
                            if abs(Fr(got) - exp) > Fr(K_PROP) * (1 + max(abs(x) for x in pv)):
                                bad.append(("property-not-interpolated", "triangle %d corner %d channel %d = %r, barycentric interpolation on source triangle %d of original %d gives %r"
                                            % (tri, ci, c, got, t, ro[r], float(exp)), tri))
                                break
                    else:
                        continue
                    break
    case["_stats"] = stats
    return bad


# ------------------------------------------------------------------ correspondence
def rel_lines(rel, handles):
    def h(bits):
        k = tuple(bits)
        if k not in handles:
            handles[k] = len(handles) + 1
        return handles[k]
    m = " ".join("%d %d %d %d %d" % (e[0], e[1], e[2], e[3], h(e[4])) for e in rel["map"])
    t = " ".join("%d %d %d %d" % tuple(x) for x in rel["triRef"])
    return "%d %s" % (len(rel["map"]), m), "%d %s" % (len(rel["triRef"]), t)


def rel_consistent(rel):
    mp = {e[0]: e[1] for e in rel["map"]}
    return all(x[0] >= 0 and mp.get(x[0]) == x[1] for x in rel["triRef"])


def mat_fr(bits):
    return [Fr(fl(b)) for b in bits]


def mat_mul(a, b):
    # a * Mat4(b), column-major 3x4
    out = []
    for c in range(4):
        col = (b[3 * c], b[3 * c + 1], b[3 * c + 2])
        for r in range(3):
            out.append(a[r] * col[0] + a[3 + r] * col[1] + a[6 + r] * col[2] + (a[9 + r] if c == 3 else 0))
    return out


def mat_close(got_bits, exp):
    g = mat_fr(got_bits)
    m = max([abs(x) for x in exp] + [1])
    return all(abs(a - b) <= Fr(1e-12) * m * m for a, b in zip(g, exp))


def run(cx):
    cx.assumptions += [
        "runs_partition assumes rel_consistent (every triRef.meshID is a map key carrying the same originalID, meshID >= 0) and ascending map keys; "
        "both are checked on every Impl the harness dumps (results, Boolean operands and results, Compose nodes)",
        "mesh IDs / original IDs are compared exactly: the harness reads meshIDCounter_ immediately before each Impl-level call",
        "transform products (Impl::Transform, Compose lazy transforms) are compared with the exact rational product within 1e-12 relative, not bit for bit",
        "oracle tolerances: property K_PROP=%g*(1+max|prop|), geometry K_GEO=%g*scale+4*tolerance_; property fields are affine per source face by construction" % (K_PROP, K_GEO),
        "runs whose originalID is the internal half-space of SplitByPlane are not traced (counted in evidence as skipped_runs)",
        "property interpolation is not checked against AsOriginal sources that carry channels (their field is not affine per new face)",
    ]
    cx.prove()
    mls = vp.coq_extract("ExtractC07", ["c07_model.ml"])
    drv = vp.ocaml_build("c07_driver", mls + [os.path.join(vp.ROOT, "extract/c07_driver.ml")])
    exe = vp.build_harness("c07_rel", "seq", link_lib=True)

    rng = random.Random(cx.seed * 104729 + 7)
    ncase = cx.pick(300, 4000)
    progs = {}
    # fixed corpus: runs first, every tier, every seed; violations found here are keyed <kind>:corpus-<name>
    corpus = {
        "inst-sub": "cube 2 2 2 dup tr 1 0 0 0 1 0 0 0 1 4/4 2/4 1/4 sub",
        "mesh-int": "cube 2 2 2 mesh 2 1 5 tet mesh 0 0 1 tr 2 0 0 0 2 0 0 0 2 2/4 2/4 2/4 int",
        "compose-decompose": "cube 1 1 1 cube 1 1 1 tr 1 0 0 0 1 0 0 0 1 12/4 0 0 compose 2 decompose 1",
        "mirror-swap-sub": "sphere 1 4 mesh 1 2 3 cube 2 2 2 mesh 3 0 4 tr -1 0 0 0 1 0 0 0 1 2/4 -3/4 -4/4 swap sub",
        # regression for the repaired defect (fixed: 12674512): Compose zero-filled tangents -> Refine recomputed coplanarIDs
        "compose-refine": "cube 1 1 1 cube 1 1 1 tr 1 0 0 0 1 0 0 0 1 12/4 0 0 add refine 2",
        # witness of the known finding: colinear collapse keeps a property vertex interpolated for the removed position
        "tet-edge-in-cube-face": "tet cube 1 1 3 mesh 1 0 860 tr 1 0 0 0 1 0 0 0 1 -4/8 0 4/4 add",
    }
    for name, p in corpus.items():
        progs["c-" + name] = p.split()
    for i in range(ncase):
        progs[str(i)] = gen_program(rng, i % 9)
    search_budget = [0]

    def execute(progs):
        lines = ["CASE %s %s" % (k, " ".join(p)) for k, p in progs.items()]
        kl = lambda l: l.split()[1]
        ko = lambda l: (json.loads(l).get("id") if l.startswith("{") else None)
        out, crashes = vp.run_cases(exe, lines, kl, ko, timeout=1500)
        res = {}
        for l in out.splitlines():
            if l.startswith("{"):
                j = json.loads(l)
                res[j["id"]] = j
        return res, crashes

    cx.log('builds done; running %d programs' % len(progs))
    res, crashes = execute(progs)
    cx.log('harness done')
    for cl, rc, err in crashes:
        cx.violation("relation-program-crash:%s" % hashlib.sha1(cl.split(" ", 2)[-1].encode()).hexdigest()[:10],
                     "program crashed the library (rc=%s): %s" % (rc, err[-200:]), {"program": cl})

    # ---- build driver input
    dl, meta = [], {}
    for k, j in res.items():
        if "error" in j:
            continue
        h = {}
        j["_h"] = h
        m, t = rel_lines(j["rel"], h)
        dl.append("RUNS %s %d %s %s" % (k, 1 if j["rel"]["originalID"] >= 0 else 0, m, t))
        for si, s in enumerate(j["steps"]):
            sid = "%s.%d" % (k, si)
            hh = {}
            s["_h"] = hh
            if s["kind"] == "bool" and not s["emptyP"] and not s["emptyQ"] and (s["R"]["numTri"] > 0 or s["R"]["map"]):
                mp, _ = rel_lines(s["P"], hh)
                mq, _ = rel_lines(s["Q"], hh)
                dl.append("BOOL %s %d %d %s %s" % (sid, s["c0"], 1 if s["op"] == "sub" else 0, mp, mq))
            elif s["kind"] == "increment":
                m2, t2 = rel_lines(s["P"], hh)
                dl.append("INCR %s %d %s %s" % (sid, s["c0"], m2, t2))
            elif s["kind"] == "initorig":
                m2, t2 = rel_lines(s["P"], hh)
                dl.append("INIT %s %d %s %s" % (sid, s["c0"], m2, t2))
            elif s["kind"] == "compose":
                parts = []
                for ni, nd in enumerate(s["nodes"]):
                    m2, t2 = rel_lines(nd["rel"], hh)
                    parts.append("%d %s %s" % (0 if nd["identity"] else (ni + 1) * 100000, m2, t2))
                dl.append("COMP %s %d %d %s" % (sid, s["c0"], len(s["nodes"]), " ".join(parts)))
    cx.log('driver input ready (%d lines)' % len(dl))
    rc, mout, merr = vp.sh2([drv], input="\n".join(dl) + "\n", timeout=1500)
    if rc != 0:
        cx.broke("corr:C07/model-driver", "model driver exited %d: %s" % (rc, merr[-300:]))
    cx.log('model driver done')
    model = {}
    for l in mout.splitlines():
        w = l.split(" ", 2)
        if len(w) >= 2:
            model[(w[0], w[1])] = w[2] if len(w) > 2 else ""

    def parse_map(txt):
        v = txt.split()
        return [tuple(int(x) for x in v[i:i + 5]) for i in range(0, len(v), 5)]

    dist = {"programs": 0, "errors": 0, "bool_steps": 0, "compose_steps": 0, "increment_steps": 0, "initorig_steps": 0, "transform_steps": 0,
            "runs_total": 0, "empty_runs": 0, "backside_runs": 0, "multi_instance": 0, "mixed_channels": 0}
    tot = {"tris": 0, "props": 0, "zero_channels": 0, "skipped_runs": 0, "backside_tris": 0, "mirrored_runs": 0}
    nontriv, seen, corr_bad, corr_ok = 0, set(), [], 0
    broken_fns = set()

    def note_broke(name, fn, desc):
        corr_bad.append(name)
        broken_fns.add(fn)
        if len(corr_bad) <= 4:
            cx.broke(name, desc)

    known_keys = set(k for k, _ in vp.known_findings(cx.pid))
    reported = {}

    def kinds_of(prog):
        """run one program through the real code and the oracle: {kind: (description, triangle)}"""
        rc1, out1, _ = vp.sh2([exe], input="CASE x %s\n" % " ".join(prog), timeout=300)
        line = next((l for l in out1.splitlines() if l.startswith("{")), None)
        if line is None:
            return {}
        j1 = json.loads(line)
        if "error" in j1:
            return {}
        kinds = {}
        for kind, desc, tri in related_check(j1, prog):
            kinds.setdefault(kind, (desc, tri))
        return kinds

    def shrink(prog, kind):
        """drop unary operations (transforms, mirror, refine, asorig, mesh wrapping, decompose) while the same kind of
        violation persists; the result is the canonical replay the violation key is derived from"""
        ops = split_ops(prog)
        changed, trials = True, 0
        while changed and trials < 60:
            changed = False
            for idx in range(len(ops) - 1, -1, -1):
                if ops[idx][0] in UNARY:
                    cand = ops[:idx] + ops[idx + 1:]
                    trials += 1
                    if kind in kinds_of([t for o in cand for t in o]):
                        ops, changed = cand, True
                        break
        return [t for o in ops for t in o]

    def oracle(k, j, prog):
        v = related_check(j, prog)
        kinds = {}
        for kind, desc, tri in v:
            kinds.setdefault(kind, (desc, tri))
        for kind, (desc, tri) in kinds.items():
            if k.startswith("c-"):
                key, rp = "%s:corpus-%s" % (kind, k[2:]), prog
            else:
                if reported.get(kind, 0) >= 2:       # at most two distinct programs per kind are shrunk and reported
                    continue
                reported[kind] = reported.get(kind, 0) + 1
                rp = shrink(prog, kind)
                desc, tri = kinds_of(rp).get(kind, (desc, tri))
                key = "%s:%s" % (kind, hashlib.sha1(" ".join(rp).encode()).hexdigest()[:10])
            cx.violation(key, desc, {"program": " ".join(rp), "generated_program": " ".join(prog), "triangle": tri,
                                     "replay": "echo 'CASE x %s' | %s" % (" ".join(rp), exe)})
        for a, b in j.get("_stats", {}).items():
            tot[a] += b
        return bool(v)

    for k, prog in progs.items():
        j = res.get(k)
        dist["programs"] += 1
        if j is None:
            continue
        if "error" in j:
            dist["errors"] += 1
            continue
        rejected = oracle(k, j, prog)
        o = j["out"]
        # --- run builder correspondence
        mo = model.get(("RUNS", k))
        inv = {v: key for key, v in j["_h"].items()}
        if not rel_consistent(j["rel"]):
            note_broke("corr:C07/rel_consistent#case %s" % k, "rel", "result Impl violates rel_consistent (a triRef meshID is not a map key with the same originalID): %s" % " ".join(prog))
        if mo is None:
            note_broke("corr:C07/get_mesh_runs#case %s" % k, "runs", "model produced no output")
        else:
            f = [x.split() for x in mo.split("|")]
            okmap = f[0] == ["1"]
            m_face, m_ri, m_ro, m_rf = ([int(x) for x in f[i]] for i in (2, 3, 4, 5))
            m_rt = [b for hnd in f[6] for b in (inv[int(hnd)] if int(hnd) in inv else (0x3FF0000000000000, 0, 0, 0, 0x3FF0000000000000, 0, 0, 0, 0x3FF0000000000000, 0, 0, 0))]
            same = (okmap and m_face == o["faceID"] and m_ri == o["runIndex"] and m_ro == o["runOriginalID"] and m_rf == o["runFlags"]
                    and (m_rt == o["runTransform"]))
            if same:
                corr_ok += 1
            elif not rejected:
                which = [n for n, a, b in (("faceID", m_face, o["faceID"]), ("runIndex", m_ri, o["runIndex"]), ("runOriginalID", m_ro, o["runOriginalID"]),
                                           ("runFlags", m_rf, o["runFlags"]), ("runTransform", m_rt, o["runTransform"])) if a != b]
                note_broke("corr:C07/get_mesh_runs#case %s" % k, "runs", "extracted run builder and GetMeshGL64 differ in %s for: %s (impl runOriginalID=%s model=%s)"
                           % (which, " ".join(prog), o["runOriginalID"], m_ro))
        # --- steps
        for si, s in enumerate(j["steps"]):
            sid = "%s.%d" % (k, si)
            invh = {v: key for key, v in s["_h"].items()}
            got_map = [(e[0], e[1], e[2], e[3], tuple(e[4])) for e in s["R"]["map"]]
            if s["kind"] == "bool" and not s["emptyP"] and not s["emptyQ"] and (s["R"]["numTri"] > 0 or s["R"]["map"]):
                dist["bool_steps"] += 1
                mo = model.get(("BOOL", sid), "UNDEFINED")
                ok = False
                if not mo.startswith("UNDEFINED"):
                    f = mo.split("|")
                    exp = [(a, b, c, d, invh.get(e)) for a, b, c, d, e in parse_map(f[2])]
                    ok = int(f[0]) == s["c1"] and exp == got_map and rel_consistent(s["R"]) and rel_consistent(s["P"]) and rel_consistent(s["Q"])
                if ok:
                    corr_ok += 1
                else:
                    note_broke("corr:C07/update_reference+increment#case %s" % sid, "bool",
                               "Boolean3::Result(%s) meshIDtransform differs from merge_maps+increment_mesh_ids: impl keys/orig/back=%s model=%s (c0=%d c1=%d) program: %s"
                               % (s["op"], [e[:3] for e in got_map], mo[:200], s["c0"], s["c1"], " ".join(prog)))
            elif s["kind"] == "increment":
                dist["increment_steps"] += 1
                mo = model.get(("INCR", sid), "UNDEFINED")
                ok = False
                if not mo.startswith("UNDEFINED"):
                    f = mo.split("|")
                    exp = [(a, b, c, d, invh.get(e)) for a, b, c, d, e in parse_map(f[1])]
                    v = [int(x) for x in f[2].split()]
                    ok = int(f[0]) == s["c1"] and exp == got_map and [v[i:i + 4] for i in range(0, len(v), 4)] == s["R"]["triRef"]
                if ok:
                    corr_ok += 1
                else:
                    note_broke("corr:C07/increment_mesh_ids#case %s" % sid, "incr", "IncrementMeshIDs differs from the model: %s" % " ".join(prog))
            elif s["kind"] == "initorig":
                dist["initorig_steps"] += 1
                mo = model.get(("INIT", sid), "")
                f = mo.split("|")
                ok = False
                if len(f) == 3:
                    c1, oid = (int(x) for x in f[0].split())
                    exp = [(a, b, c, d) for a, b, c, d, e in parse_map(f[1])]
                    v = [int(x) for x in f[2].split()]
                    ident = tuple([0x3FF0000000000000, 0, 0, 0, 0x3FF0000000000000, 0, 0, 0, 0x3FF0000000000000, 0, 0, 0])
                    ok = (c1 == s["c1"] and oid == s["R"]["originalID"] and exp == [e[:4] for e in got_map] and all(e[4] == ident for e in got_map)
                          and [v[i:i + 4] for i in range(0, len(v), 4)] == s["R"]["triRef"])
                if ok:
                    corr_ok += 1
                else:
                    note_broke("corr:C07/initialize_original#case %s" % sid, "init", "InitializeOriginal differs from the model: %s" % " ".join(prog))
            elif s["kind"] == "compose":
                dist["compose_steps"] += 1
                mo = model.get(("COMP", sid), "UNDEFINED")
                ok = False
                if not mo.startswith("UNDEFINED"):
                    f = mo.split("|")
                    exp = parse_map(f[1])
                    v = [int(x) for x in f[2].split()]
                    ok = int(f[0]) == s["c1"] and len(exp) == len(got_map) and sorted(v[i:i + 4] for i in range(0, len(v), 4)) == sorted(s["R"]["triRef"])
                    for (a, b, c, d, hsum), g in zip(exp, got_map):
                        ok = ok and (a, b, c, d) == g[:4]
                        ni, hr = hsum // 100000, hsum % 100000
                        relm = mat_fr(invh[hr]) if hr in invh else None
                        if relm is None:
                            ok = False
                        elif ni == 0:
                            ok = ok and tuple(invh[hr]) == g[4]
                        else:
                            ok = ok and mat_close(g[4], mat_mul(mat_fr(s["nodes"][ni - 1]["transform"]), relm))
                if ok:
                    corr_ok += 1
                else:
                    note_broke("corr:C07/compose_relation#case %s" % sid, "compose", "CsgLeafNode::Compose relation differs from the model: %s | model %s | impl %s"
                               % (" ".join(prog), mo[:160], [e[:4] for e in got_map]))
            elif s["kind"] == "transform":
                dist["transform_steps"] += 1
                M = mat_fr(s["mat"])
                ident = s["mat"] == [0x3FF0000000000000, 0, 0, 0, 0x3FF0000000000000, 0, 0, 0, 0x3FF0000000000000, 0, 0, 0]
                pm = s["P"]["map"]
                if s["P"]["numTri"] == 0:      # empty operand: Transform ends in MakeEmpty, which resets the relation (outside the model)
                    continue
                ok = len(pm) == len(got_map) and s["P"]["triRef"] == s["R"]["triRef"]
                for e, g in zip(pm, got_map):
                    ok = ok and tuple(e[:4]) == g[:4] and (tuple(e[4]) == g[4] if ident else mat_close(g[4], mat_mul(M, mat_fr(e[4]))))
                if ok:
                    corr_ok += 1
                else:
                    note_broke("corr:C07/impl_transform#case %s" % sid, "transform", "Impl::Transform relation update differs from transform_ * Mat4(old): %s" % " ".join(prog))
        # --- coverage bookkeeping
        nrun = len(o["runOriginalID"])
        empties = sum(1 for r in range(nrun) if o["runIndex"][r] == o["runIndex"][r + 1])
        dist["runs_total"] += nrun
        dist["empty_runs"] += empties
        dist["backside_runs"] += sum(x & 1 for x in o["runFlags"])
        multi = len(set(o["runOriginalID"])) < nrun
        dist["multi_instance"] += int(multi)
        chans = set(s["numProp"] for s in j["sources"])
        dist["mixed_channels"] += int(len(chans) > 1)
        key = json.dumps([o["triVerts"], o["vertProperties"], o["runIndex"], o["runFlags"]])[:200000]
        if key not in seen:
            seen.add(key)
            if nrun - empties >= 2 and len(o["triVerts"]) > 0:
                nontriv += 1
        if len(cx.cov["samples"]) < 4 and nrun >= 2:
            cx.sample({"program": " ".join(prog), "runIndex": o["runIndex"], "runOriginalID": o["runOriginalID"], "runFlags": o["runFlags"],
                       "numTri": len(o["triVerts"]) // 3, "numProp": o["numProp"], "oracle": j.get("_stats")})

    cx.log('oracle + comparison done')
    # ---- search phase: a correspondence broke and the oracle found nothing: aim extra programs at the broken function
    if corr_bad and not [v for v in cx.violations if v[0] not in known_keys]:
        fam = {"bool": [1, 8, 2], "runs": [8, 2, 5], "compose": [5], "incr": [1, 5], "init": [6], "transform": [7, 1], "rel": [1, 2]}
        fams = sorted(set(x for fn in broken_fns for x in fam.get(fn, [1])))
        extra = {"s%d" % i: gen_program(rng, fams[i % len(fams)]) for i in range(cx.pick(400, 4000))}
        search_budget[0] = len(extra)
        res2, crashes2 = execute(extra)
        for k, prog in extra.items():
            j = res2.get(k)
            if j is not None and "error" not in j:
                oracle(k, j, prog)
            if len([v for v in cx.violations if v[0] not in known_keys]) > 3:
                break

    cx.cov.update({
        "evaluations": dist["programs"] + search_budget[0], "distinct_nontrivial": nontriv,
        "rule": "seeded stack programs (9 families: two sources, repeated instances of one original, depth-2 with subtracts, split, refine, compose/decompose, "
                "AsOriginal, single transformed/mirrored, descending-ID operands) over cube/tet/sphere/cylinder originals, MeshGL64 imports with 0-3 affine "
                "property channels, user/per-triangle/absent face IDs and reserved original IDs; non-trivial = distinct exported mesh with >= 2 non-empty runs",
        "distribution": dist, "oracle_totals": tot, "correspondence_mismatches": len(corr_bad), "traces_validated_against_impl": corr_ok,
        "k_prop": K_PROP, "k_geo": K_GEO, "search_budget_used": search_budget[0],
    })
