"""C11 — CrossSections are regularized and 2D Booleans compute the set operation.
translation_validation: every CrossSection the library produces in the
generated programs is judged by the Coq-extracted, proved-sound exact checkers
regular_check / formula_check (coq/Geo/Regular*.v) against the exact winding
number specification (coq/Geo/Wind2*.v); the integer kernels of the sweep
(IsInside, MergeVerticals1D, OutEdgesToPolygons) are proved in Coq and compared
with the real code on integer inputs."""
import os, random, math, struct, itertools, concurrent.futures
from fractions import Fraction
import vp

LEVEL = "translation_validation"
META = {
    "level": "translation_validation",
    "technique": "Coq-verified exact output checker (winding number, all-pairs exact segment test, set formula) extracted to OCaml and run on bit-exact "
                 "ToPolygons() output of generated programs; Coq-proved kernels (fill rules, MergeVerticals1D, PolySetAdd/split, OutEdgesToPolygons) "
                 "with model-vs-implementation correspondence on integer inputs",
    "text": "Spec side (proved for all inputs): wind2 is additive, rotation invariant, negated by reversal; a CCW lattice rectangle has winding 1 inside / 0 outside, "
            "so any Boolean expression over lattice rectangles has the pixel-set semantics of its formula (pixel_spec); the code's IsInside/Boolean2D rule table equals "
            "or/and/and-not/xor on unit operands (also for BatchBoolean's concatenated clips). Checker side (proved sound): regular_check accepts only contour sets that "
            "are simple (>=3 distinct vertices), whose edges pairwise share no rational point other than common endpoints (exact orientation tests behind a proved x-sorted sweep) "
            "and whose winding number is 0/1 at all samples; formula_check accepts only if at every sample farther than E from all input edges (exact squared distance) the result's "
            "winding equals the set formula of the operands' windings (Positive / EvenOdd). Kernels (for every floating-point oracle answer): MergeVerticals1D preserves signed "
            "coverage at every ordinate; PolySetAdd is chain addition and a split at ANY point q keeps every vertex balanced; on a balanced edge multigraph every OutEdgesToPolygons walk "
            "closes, every edge is consumed once, and the emitted loops are vertex-simple with the same chain. Tie: lattice regime (rectangles, rectilinear polygons, integer "
            "translations, Boolean/BatchBoolean in all operand orders): winding at every pixel centre = formula, Area() bits = pixel count, order independence; generic regime "
            "(self-intersecting stars, coincident/collinear edges, near-concurrent pencils, clockwise contours, both fill rules, >1024-edge combs through the BVH broad phase, "
            "programs of Booleans/transforms/warps): regular_check + formula_check with ~200 samples per CrossSection.",
    "note": "Not proved: that the sweep finds every crossing / keeps the status order, vertex merge, incidence pre-split (decided per output by the checker; coverage = generator reach). "
            "Samples closer than 2*eps (eps = InferEps of the operation) to an input edge are excluded: vertex merge, pre-split and crossing construction each move the boundary by up to one eps. "
            "Trusted: Coq kernel, extraction, the Python scaling of doubles to integers (exact, power-of-two), the C++ harness printing bit patterns.",
}

OPS = {0: "Add", 1: "Subtract", 2: "Intersect"}
EPS_MULT = 2


# ----------------------------------------------------------------- numbers
def f2hexfloat(x):
    return float(x).hex()


def bits2float(h):
    return struct.unpack("<d", struct.pack("<Q", int(h, 16)))[0]


def hx(n):
    return ("-%x" % -n) if n < 0 else ("%x" % n)


def scale_of(floats):
    """smallest power of two s such that every x*s is an integer"""
    s = 1
    for x in floats:
        d = float(x).as_integer_ratio()[1]
        if d > s:
            s = d
    return s


def to_int(x, s):
    n, d = float(x).as_integer_ratio()      # exact; d is a power of two
    assert s % d == 0
    return n * (s // d)


# ----------------------------------------------------------------- programs
class Prog:
    """a straight-line program; stmts[k] defines register k"""

    def __init__(self, tag, regime):
        self.tag, self.regime, self.stmts = tag, regime, []
        self.directives = []      # (position = number of statements before it, "RD"|"DF", register)

    def directive(self, what, reg):
        self.directives.append((len(self.stmts), what, reg))

    def add(self, *st):
        self.stmts.append(st)
        return len(self.stmts) - 1

    def text(self):
        out = []
        for st in self.stmts:
            k = st[0]
            if k == "P":
                toks = ["P", str(st[1]), str(len(st[2]))]
                for c in st[2]:
                    toks.append(str(len(c)))
                    for (x, y) in c:
                        toks += [f2hexfloat(x), f2hexfloat(y)]
                out.append(" ".join(toks))
            elif k in ("B",):
                out.append("B %d %d %d" % (st[1], st[2], st[3]))
            elif k == "BB":
                out.append("BB %d %d %s" % (st[1], len(st[2]), " ".join(map(str, st[2]))))
            elif k in ("R",):
                out.append("R " + " ".join(f2hexfloat(v) for v in st[1:]))
            elif k == "CI":
                out.append("CI %s %d" % (f2hexfloat(st[1]), st[2]))
            elif k in ("TR", "RO", "SC", "MI", "TF", "ST", "SI"):
                out.append("%s %d %s" % (k, st[1], " ".join(f2hexfloat(v) for v in st[2:])))
            elif k == "W":
                out.append("W %d %d %s %s" % (st[1], st[2], f2hexfloat(st[3]), f2hexfloat(st[4])))
        merged = []
        for pos in range(len(out) + 1):
            for (dp, what, reg) in self.directives:
                if dp == pos:
                    merged.append("%s %d" % (what, reg))
            if pos < len(out):
                merged.append(out[pos])
        return " ; ".join(merged)

    def deps(self, k):
        st = self.stmts[k]
        if st[0] == "B":
            return [st[2], st[3]]
        if st[0] == "BB":
            return list(st[2])
        if st[0] in ("TR", "RO", "SC", "MI", "TF", "W", "ST", "SI"):
            return [st[1]]
        return []

    def slice(self, k):
        """the sub-program register k depends on (registers renumbered); returns (Prog, new index of k)"""
        need, todo = set(), [k]
        while todo:
            x = todo.pop()
            if x not in need:
                need.add(x)
                todo += self.deps(x)
        order = sorted(need)
        ren = {old: new for new, old in enumerate(order)}
        q = Prog(self.tag, self.regime)
        for old in order:
            st = self.stmts[old]
            if st[0] == "B":
                q.add("B", st[1], ren[st[2]], ren[st[3]])
            elif st[0] == "BB":
                q.add("BB", st[1], [ren[r] for r in st[2]])
            elif st[0] in ("TR", "RO", "SC", "MI", "TF", "W", "ST", "SI"):
                q.add(st[0], ren[st[1]], *st[2:])
            else:
                q.add(*st)
            for (dp, what, reg) in self.directives:
                if dp == old + 1 and what == "RD" and reg in ren and ren[reg] < len(q.stmts):
                    q.directive("RD", ren[reg])
        return q, ren[k]

    def replay(self):
        return {"tag": self.tag, "regime": self.regime, "program": self.text(), "statements": [repr(st)[:600] for st in self.stmts],
                "how": "feed 'CASE 0 <program>' to build/h-c11_xsec-*/c11_xsec (coordinates are C hexfloats)"}


def _flat(st):
    out = []
    for v in st:
        if isinstance(v, (list, tuple)):
            out.append(str(v))
        else:
            out.append(v)
    return out


def rect_c(x0, y0, x1, y1):
    return [(float(x0), float(y0)), (float(x1), float(y0)), (float(x1), float(y1)), (float(x0), float(y1))]


def histogram(rng, n, hmax, ox, oy):
    """rectilinear simple polygon: columns of integer heights >= 1"""
    hs = [rng.randint(1, hmax) for _ in range(n)]
    pts = [(ox, oy), (ox + n, oy)]
    for i in range(n - 1, -1, -1):
        top = oy + hs[i]
        for p in ((ox + i + 1, top), (ox + i, top)):
            if pts[-1] != p:
                pts.append(p)
    # drop collinear duplicates created by equal neighbouring heights is not needed (collinear vertices are legal)
    if pts[-1] == pts[0]:
        pts.pop()
    ded = []
    for p in pts:
        if p not in ded:
            ded.append(p)
    return [(float(x), float(y)) for x, y in ded]


def gen_lattice(rng, cx):
    progs = []
    # exhaustive small rectangle pairs: all rectangles with corners in {0..G}^2
    G = cx.pick(3, 4)
    rs = [(x0, y0, x1, y1) for x0 in range(G + 1) for x1 in range(x0 + 1, G + 1) for y0 in range(G + 1) for y1 in range(y0 + 1, G + 1)]
    pairs = list(itertools.product(rs, rs))
    if cx.quick():
        pairs = rng.sample(pairs, 260) + [(r, r) for r in rs[:6]]
    chunk = 6
    for i in range(0, len(pairs), chunk):
        p = Prog("rectpairs", "lattice")
        for (a, b) in pairs[i:i + chunk]:
            ra = p.add("R", *map(float, a))
            rb = p.add("R", *map(float, b))
            for op in (0, 1, 2):
                p.add("B", op, ra, rb)
                p.add("B", op, rb, ra)
        progs.append(p)
    # rectilinear polygons, batch Booleans, integer translations, nested programs
    for t in range(cx.pick(60, 600)):
        p = Prog("rectilinear", "lattice")
        leaves = []
        for _ in range(rng.randint(2, 4)):
            kind = rng.random()
            ox, oy = rng.randint(0, 5), rng.randint(0, 5)
            if kind < 0.45:
                w, h = rng.randint(1, 5), rng.randint(1, 5)
                leaves.append(p.add("R", float(ox), float(oy), float(ox + w), float(oy + h)))
            elif kind < 0.85:
                leaves.append(p.add("P", 0, [histogram(rng, rng.randint(1, 5), 4, ox, oy)]))
            else:  # two rectangles given as raw contours (overlapping / sharing edges), either fill rule
                w, h = rng.randint(1, 4), rng.randint(1, 4)
                c1 = rect_c(ox, oy, ox + w, oy + h)
                c2 = rect_c(ox + rng.randint(0, w), oy, ox + w + rng.randint(0, 2), oy + rng.randint(1, h + 1))
                if rng.random() < 0.3:
                    c2 = c2[::-1]
                leaves.append(p.add("P", rng.randint(0, 1), [c1, c2]))
        regs = list(leaves)
        for _ in range(rng.randint(1, 5)):
            r = rng.random()
            if r < 0.55:
                a, b = rng.choice(regs), rng.choice(regs)
                op = rng.randint(0, 2)
                regs.append(p.add("B", op, a, b))
                if op != 1:
                    regs.append(p.add("B", op, b, a))
            elif r < 0.8:
                k = rng.randint(2, 4)
                regs.append(p.add("BB", rng.randint(0, 2), [rng.choice(regs) for _ in range(k)]))
            else:
                regs.append(p.add("TR", rng.choice(regs), float(rng.randint(-3, 3)), float(rng.randint(-3, 3))))
        progs.append(p)
    progs += gen_history(rng, cx)
    progs += gen_lazy(rng, cx)
    return progs


def lattice_transform(rng, p, i):
    """a lattice-preserving transform statement on register i (left PENDING by the harness until first use)"""
    r = rng.randrange(6)
    if r == 0:
        return p.add("TR", i, float(rng.randint(-4, 4)), float(rng.choice([-3, -1, 2, 5])))
    if r == 1:
        return p.add("RO", i, float(rng.choice([90, 180, 270])))
    if r == 2:
        return p.add("SC", i, float(rng.choice([2, -1, 1, -2])), float(rng.choice([1, 2, -1])))
    if r == 3:
        return p.add("MI", i, *rng.choice([(1.0, 0.0), (0.0, 1.0)]))
    if r == 4:   # integer matrices, including orientation reversing ones and a shear
        a, b, c, d = rng.choice([(1, 0, 1, 1), (0, 1, 1, 0), (2, 0, 0, 1), (1, 1, 0, 1), (0, -1, 1, 0), (-1, 0, 0, 1)])
        return p.add("TF", i, float(a), float(b), float(c), float(d), float(rng.randint(-2, 2)), float(rng.randint(-2, 2)))
    j = p.add("TR", i, float(rng.randint(-3, 3)), float(rng.randint(-3, 3)))     # two stacked pending transforms
    return p.add("RO", j, 90.0)


def gen_lazy(rng, cx):
    """operations applied DIRECTLY to an object with a pending lazy transform (and, for contrast, after a read):
    lattice-preserving warps keep the exact pixel oracle; DF runs the lazy-vs-eager differential of the whole API"""
    progs = []
    for t in range(cx.pick(45, 450)):
        p = Prog("lazy", "lattice")
        ox, oy = rng.randint(-2, 3), rng.randint(-2, 3)
        if rng.random() < 0.5:
            base = p.add("R", float(ox), float(oy), float(ox + rng.randint(1, 4)), float(oy + rng.randint(1, 4)))
        else:
            base = p.add("P", 0, [histogram(rng, rng.randint(2, 4), 3, ox, oy)])
        if rng.random() < 0.3:       # the object under test is itself a Boolean result
            other = p.add("R", float(ox + 1), float(oy - 1), float(ox + 3), float(oy + 2))
            base = p.add("B", rng.randint(0, 2), base, other)
        tr = lattice_transform(rng, p, base)
        mode = t % 3
        if mode == 1:
            p.directive("RD", tr)                    # read first: the transform is materialised before the warp
        if mode == 2 or rng.random() < 0.25:
            p.directive("DF", tr)                    # differential works on copies: tr stays pending
        kind = rng.choice([5, 5, 6, 7, 8, 8, 9, 10])
        p1, p2 = (float(rng.randint(-3, 3)), float(rng.randint(-3, 3))) if kind == 5 else (float(rng.choice([1, 2, -1])), 0.0)
        w = p.add("W", tr, kind, p1, p2)
        tr2 = lattice_transform(rng, p, w)           # a pending transform of the warp result, consumed by a Boolean
        u = p.add("R", -1.0, -1.0, 2.0, 3.0)
        p.add("B", rng.randint(0, 2), tr2, u)
        tr3 = lattice_transform(rng, p, base)
        p.add("BB", rng.randint(0, 2), [tr3, u, lattice_transform(rng, p, base)])
        progs.append(p)
    return progs


def gen_history(rng, cx):
    """lattice Booleans on operands whose HISTORY inflated tolerance_ far above the scale of the
    operation (the eps of a Boolean must come from its input edges, never from inherited drift)"""
    progs = []
    for t in range(cx.pick(40, 400)):
        p = Prog("history", "lattice")
        # coarse base shape: every feature is a multiple of 8, so it survives an operation whose own eps is ~3
        bx, by = 8 * rng.randint(0, 1), 8 * rng.randint(0, 1)
        if rng.random() < 0.5:
            w, h = 8 * rng.randint(1, 3), 8 * rng.randint(1, 2)
            base = p.add("R", float(bx), float(by), float(bx + w), float(by + h))
        else:
            hist = histogram(rng, rng.randint(1, 3), 2, 0, 0)
            base = p.add("P", 0, [[(bx + 8 * x, by + 8 * y) for x, y in hist]])
            w, h = 24, 16
        kind = t % 6
        if kind == 0:      # T1: once intersected with / united inside a huge operand
            H = float(2 ** rng.choice([38, 39, 40]))
            huge = p.add("R", -H, -H, H, H)
            a = p.add("B", 2, base, huge) if rng.random() < 0.7 else p.add("B", 2, huge, base)
        elif kind == 1:    # T2: anisotropic stretch / un-stretch rounds, each materialised by a Boolean
            f = rng.choice([16.0, 64.0, 1024.0])
            rounds = {16.0: 10, 64.0: 7, 1024.0: 4}[f]
            a = base
            clip = p.add("R", float(bx), float(by), float(bx + w), float(by + h))
            for _ in range(rounds):
                if rng.random() < 0.5:
                    wide = p.add("SC", a, f, 1.0)
                    sh = p.add("TR", wide, f, 0.0)
                    inv = (1.0 / f, 1.0)
                else:
                    wide = p.add("SC", a, 1.0, f)
                    sh = p.add("TR", wide, 0.0, f)
                    inv = (1.0, 1.0 / f)
                u = p.add("B", 0, wide, sh)
                back = p.add("SC", u, inv[0], inv[1])
                a = p.add("B", 2, back, clip)
        elif kind == 2:    # T3: combined far from the origin, then moved back
            far = float(2 ** rng.choice([38, 39, 40]))
            fx, fy = (far, 0.0) if rng.random() < 0.5 else (0.0, far)
            moved = p.add("TR", base, fx, fy)
            other = p.add("R", fx + bx + 8.0, fy + by, fx + bx + w + 8.0, fy + by + h)
            u = p.add("B", 0, moved, other)
            a = p.add("TR", u, -fx, -fy)
        elif kind == 3:    # SetTolerance / Simplify below the smallest deviation (8/sqrt(2) > 4)
            a = p.add(rng.choice(["ST", "SI"]), base, rng.choice([1.0, 2.0, 3.0, 4.0]))
            if rng.random() < 0.5:
                a = p.add("B", 0, a, base)
        elif kind == 4:    # isotropic blow-up and back through Booleans
            f = float(2 ** rng.choice([20, 30, 38]))
            big = p.add("SC", base, f, f)
            u = p.add("B", 0, big, big)
            a = p.add("SC", u, 1.0 / f, 1.0 / f)
        else:              # two histories chained
            H = float(2 ** 40)
            huge = p.add("R", -H, -H, H, H)
            a0 = p.add("B", 2, base, huge)
            a1 = p.add("TR", a0, 8.0, 0.0)
            a = p.add("B", 0, a0, a1)
        # fine-feature lattice operands and the Booleans that must be pixel exact
        fine = []
        for _ in range(rng.randint(1, 3)):
            ox, oy = bx + rng.randint(-1, w), by + rng.randint(-1, h)
            if rng.random() < 0.6:
                fine.append(p.add("R", float(ox), float(oy), float(ox + rng.randint(1, 3)), float(oy + rng.randint(1, 3))))
            else:
                fine.append(p.add("P", 0, [histogram(rng, rng.randint(1, 4), 3, ox, oy)]))
        for u in fine:
            for op in (0, 1, 2):
                p.add("B", op, a, u)
                if op != 1 or rng.random() < 0.5:
                    p.add("B", op, u, a)
        p.add("BB", rng.randint(0, 2), [a] + fine)
        progs.append(p)
    return progs


def q(x, bits):
    """round to a multiple of 2^-bits (keeps the exact integers small)"""
    s = 1 << bits
    return round(x * s) / s


def star(rng, n, k, r, cxy, bits, jitter=0.0):
    pts = []
    ph = rng.random() * 6.28
    for i in range(n):
        a = ph + 2 * math.pi * k * i / n
        rr = r * (1 + jitter * (rng.random() - 0.5))
        pts.append((q(cxy[0] + rr * math.cos(a), bits), q(cxy[1] + rr * math.sin(a), bits)))
    return pts


def comb(n, pitch, tooth, height, ox, oy, vertical=True):
    """comb with n teeth: 4n+... vertices, > 1024 edges for n >= 260"""
    pts = [(ox, oy)]
    x = ox
    for i in range(n):
        pts += [(x, oy + height), (x + tooth, oy + height), (x + tooth, oy + 1.0)]
        x += pitch
        if i < n - 1:
            pts.append((x, oy + 1.0))
    pts.append((x - pitch + tooth, oy))
    out = []
    for p in pts:
        if not out or out[-1] != p:
            out.append(p)
    out = [(float(a), float(b)) for a, b in out]
    if not vertical:
        out = [(b, a) for a, b in out][::-1]
    return out


def gen_generic(rng, cx):
    progs = []
    N = cx.pick(70, 900)
    for t in range(N):
        fam = t % 9
        p = Prog(["stars", "coincident", "pencil", "clockwise", "program", "warp", "evenodd", "gridrandom", "nearcopy"][fam], "generic")
        bits = rng.choice([6, 10, 10, 30, 52])
        if fam == 0:     # self-intersecting stars, both fills, Boolean of two
            n = rng.choice([5, 7, 8, 9, 11, 12])
            k = rng.choice([2, 3]) if n > 6 else 2
            a = p.add("P", rng.randint(0, 1), [star(rng, n, k, rng.uniform(1, 6), (rng.uniform(-2, 2), rng.uniform(-2, 2)), bits, rng.choice([0, 0.3]))])
            b = p.add("P", 0, [star(rng, rng.choice([5, 7]), 2, rng.uniform(1, 5), (rng.uniform(-2, 2), rng.uniform(-2, 2)), bits)])
            for op in (0, 1, 2):
                p.add("B", op, a, b)
        elif fam == 1:   # coincident / collinear edges
            base = [(0.0, 0.0), (4.0, 0.0), (4.0, 3.0), (0.0, 3.0)]
            sh = rng.choice([(4.0, 0.0), (2.0, 0.0), (0.0, 3.0), (4.0, 1.0), (0.0, 0.0), (1.0, 3.0)])
            other = [(x + sh[0], y + sh[1]) for x, y in base]
            # sheared copies: collinear overlaps along non-axis lines
            m = rng.choice([0.0, 0.5, 1.0, 2.0])
            sb = [(x + m * y, y) for x, y in base]
            so = [(x + m * y, y) for x, y in other]
            a = p.add("P", 0, [sb])
            b = p.add("P", 0, [so])
            c = p.add("P", rng.randint(0, 1), [sb, so, sb[::-1] if rng.random() < 0.5 else so])
            for op in (0, 1, 2):
                p.add("B", op, a, b)
                p.add("B", op, c, b)
            p.add("BB", rng.randint(0, 2), [a, b, c, a])
        elif fam == 2:   # near-concurrent pencil of thin strips through almost one point
            c0 = (q(rng.uniform(-1, 1), 8), q(rng.uniform(-1, 1), 8))
            m = rng.randint(3, 9)
            conts = []
            for i in range(m):
                th = math.pi * (i + rng.random() * 0.2) / m
                d = (math.cos(th), math.sin(th))
                nrm = (-d[1], d[0])
                off = rng.choice([0.0, 1e-15, 1e-13, 1e-11, 1e-9]) * rng.choice([-1, 1])
                w = rng.choice([0.05, 0.01, 1e-6])
                R = rng.uniform(2, 5)
                cc = (c0[0] + off * nrm[0], c0[1] + off * nrm[1])
                quad = [(cc[0] - R * d[0] - w * nrm[0], cc[1] - R * d[1] - w * nrm[1]),
                        (cc[0] + R * d[0] - w * nrm[0], cc[1] + R * d[1] - w * nrm[1]),
                        (cc[0] + R * d[0] + w * nrm[0], cc[1] + R * d[1] + w * nrm[1]),
                        (cc[0] - R * d[0] + w * nrm[0], cc[1] - R * d[1] + w * nrm[1])]
                if rng.random() < 0.2:
                    quad = quad[::-1]
                conts.append(quad)
            a = p.add("P", rng.randint(0, 1), conts)
            b = p.add("P", 0, [star(rng, 5, 2, 3.0, c0, 10)])
            p.add("B", rng.randint(0, 2), a, b)
        elif fam == 3:   # clockwise contours, holes, nested
            outer = rect_c(-4, -4, 4, 4)
            hole = [(x * 0.5, y * 0.5) for x, y in star(rng, 6, 1, 3.0, (0, 0), bits)][::-1]
            cw = star(rng, 5, 1, 2.0, (rng.uniform(-5, 5), rng.uniform(-5, 5)), bits)[::-1]
            a = p.add("P", 0, [outer, hole, cw])
            b = p.add("P", 1, [outer, hole, cw])
            c = p.add("P", 0, [cw])
            p.add("B", 0, a, b)
            p.add("B", 1, b, a)
            p.add("B", 2, a, c)
        elif fam == 4:   # programs of Booleans and transforms
            regs = []
            for _ in range(3):
                r = rng.random()
                if r < 0.4:
                    regs.append(p.add("P", rng.randint(0, 1), [star(rng, rng.choice([5, 6, 7, 9]), rng.choice([1, 2]), rng.uniform(1, 4), (rng.uniform(-2, 2), rng.uniform(-2, 2)), bits)]))
                elif r < 0.7:
                    regs.append(p.add("R", q(rng.uniform(-4, 0), 4), q(rng.uniform(-4, 0), 4), q(rng.uniform(0.5, 4), 4), q(rng.uniform(0.5, 4), 4)))
                else:
                    regs.append(p.add("CI", q(rng.uniform(0.5, 3), 4), rng.choice([3, 4, 6, 16, 32])))
            for _ in range(rng.randint(3, 7)):
                r = rng.random()
                if r < 0.5:
                    regs.append(p.add("B", rng.randint(0, 2), rng.choice(regs), rng.choice(regs)))
                elif r < 0.62:
                    regs.append(p.add("BB", rng.randint(0, 2), [rng.choice(regs) for _ in range(rng.randint(2, 4))]))
                elif r < 0.72:
                    regs.append(p.add("TR", rng.choice(regs), q(rng.uniform(-2, 2), 6), q(rng.uniform(-2, 2), 6)))
                elif r < 0.82:
                    regs.append(p.add("RO", rng.choice(regs), rng.choice([90.0, 45.0, 30.0, 17.0, 180.0, -60.0])))
                elif r < 0.9:
                    regs.append(p.add("SC", rng.choice(regs), rng.choice([2.0, 0.5, -1.0, 1.5]), rng.choice([1.0, 2.0, -1.0, 0.75])))
                else:
                    regs.append(p.add("MI", rng.choice(regs), rng.choice([1.0, 0.0, 1.0]), rng.choice([0.0, 1.0, 1.0])))
                if p.stmts[-1][0] in ("TR", "RO", "SC", "MI") and rng.random() < 0.4:
                    p.directive("DF", regs[-1])
        elif fam == 5:   # warps (self-intersection, folds, grid snapping) of regular shapes
            a = p.add("P", 0, [star(rng, rng.choice([6, 8, 12, 24]), 1, rng.uniform(2, 4), (rng.uniform(-1, 1), rng.uniform(-1, 1)), bits)])
            b = p.add("R", -3.0, -1.0, 3.0, 1.5)
            u = p.add("B", rng.randint(0, 1), a, b)
            kind = rng.randint(0, 4)
            p1 = {0: rng.uniform(-0.5, 0.5), 1: q(rng.uniform(-1, 1), 3), 2: rng.uniform(0.2, 1.2), 3: rng.uniform(0.2, 1.5), 4: rng.choice([0.5, 1.0, 0.25])}[kind]
            if rng.random() < 0.6:   # a still-pending transform right before the warp
                u = rng.choice([lambda: p.add("TR", u, q(rng.uniform(-2, 2), 6), q(rng.uniform(-2, 2), 6)),
                                lambda: p.add("RO", u, rng.choice([30.0, 90.0, -45.0])),
                                lambda: p.add("SC", u, rng.choice([2.0, 0.5, -1.0]), rng.choice([1.0, 1.5])),
                                lambda: p.add("MI", u, 1.0, 1.0)])()
                if rng.random() < 0.5:
                    p.directive("DF", u)
            w = p.add("W", u, kind, p1, rng.uniform(1, 4))
            p.add("B", 2, w, a)
        elif fam == 7:   # random closed polylines on a tiny integer grid: exact coincidences, T-junctions, collinear overlaps, repeated vertices
            G = rng.choice([3, 4, 6])
            def rp():
                n = rng.randint(3, 14)
                c = [(float(rng.randint(0, G)), float(rng.randint(0, G))) for _ in range(n)]
                return c
            a = p.add("P", rng.randint(0, 1), [rp() for _ in range(rng.randint(1, 3))])
            b = p.add("P", rng.randint(0, 1), [rp()])
            for op in (0, 1, 2):
                p.add("B", op, a, b)
            p.add("BB", rng.randint(0, 2), [a, b, a])
        elif fam == 8:   # a shape against a copy of itself moved by far less / about / more than eps
            s0 = star(rng, rng.choice([5, 8, 12]), rng.choice([1, 2]), rng.uniform(1, 4), (rng.uniform(-2, 2), rng.uniform(-2, 2)), bits)
            d = rng.choice([1e-16, 1e-14, 3e-13, 1e-12, 1e-10, 1e-7])
            th = rng.choice([0.0, 1e-15, 1e-12, 1e-9])
            s1 = [(x * math.cos(th) - y * math.sin(th) + d, x * math.sin(th) + y * math.cos(th) - d * rng.choice([0, 1, -1])) for x, y in s0]
            a = p.add("P", 0, [s0])
            b = p.add("P", 0, [s1])
            c = p.add("P", rng.randint(0, 1), [s0, s1[::-1] if rng.random() < 0.5 else s1])
            for op in (0, 1, 2):
                p.add("B", op, a, b)
            p.add("B", rng.randint(0, 2), c, a)
        else:            # even-odd / positive of overlapping copies
            s1 = star(rng, 7, 2, 3.0, (0.0, 0.0), bits)
            s2 = [(x + 0.5, y) for x, y in s1]
            a = p.add("P", 1, [s1, s2])
            b = p.add("P", 0, [s1, s2[::-1]])
            p.add("B", 0, a, b)
            p.add("B", 2, a, b)
        progs.append(p)
    # singular transforms (zero scale, rank-1 matrix): the result must still be a regular CrossSection (empty)
    for t in range(2):
        p = Prog("singular", "generic")
        a = p.add("R", 0.0, 0.0, 2.0, 2.0)
        b = p.add("P", 0, [star(rng, 7, 2, 2.0, (0.5, 0.5), 8)])
        if t == 0:
            p.add("SC", a, 1.0, 0.0)
            p.add("SC", b, 0.0, 0.0)
        else:
            p.add("TF", a, 1.0, 2.0, 2.0, 4.0, 0.5, 0.25)
            p.add("SC", b, 0.0, 3.0)
        progs.append(p)
    # > 1024-edge combs: BVH broad phase
    for t in range(cx.pick(2, 10)):
        p = Prog("comb", "generic")
        n = rng.choice([262, 300])
        a = p.add("P", 0, [comb(n, 2.0, 1.0, rng.choice([6.0, 9.0]), 0.0, 0.0)])
        bars = []
        for j in range(rng.randint(1, 3)):
            y0 = 2.0 + 2.0 * j + rng.choice([0.0, 0.25])
            bars.append(rect_c(-1.0 + rng.choice([0.0, 0.5]), y0, 2.0 * n + 1, y0 + 0.75))
        b = p.add("P", 0, bars)
        p.add("B", t % 3, a, b)
        if t % 2 == 0:
            c = p.add("TR", a, 0.5, 0.5)
            p.add("B", (t // 2) % 3, a, c)
        progs.append(p)
    return progs


# ----------------------------------------------------------------- running
def run_programs(cx, exe, progs, label):
    lines = ["CASE %d %s" % (i, p.text()) for i, p in enumerate(progs)]
    kl = lambda l: l.split()[1] if l.startswith("CASE") else None
    ko = lambda l: l.split()[1] if l.startswith("END ") else None
    out, crashes = vp.run_cases(exe, lines, kl, ko, timeout=1500)
    for cl, rc, err in crashes:
        cid = cl.split()[1] if cl.startswith("CASE") else "-1"
        pr = progs[int(cid)] if cid.isdigit() and int(cid) < len(progs) else None
        cx.violation("crash-%s" % label, "CrossSection program crashed or hung (rc=%s): %s" % (rc, err[-300:]),
                     pr.replay() if pr else {"case": cl[:2000]})
    res = {}
    for l in out.splitlines():
        t = l.split()
        if not t:
            continue
        if t[0] == "O":
            cid, reg = int(t[1]), int(t[2])
            eps, area = bits2float(t[3]), bits2float(t[4])
            polys, i = [], 6
            for _ in range(int(t[5])):
                n = int(t[i]); i += 1
                c = [(bits2float(t[i + 2 * k]), bits2float(t[i + 2 * k + 1])) for k in range(n)]
                i += 2 * n
                polys.append(c)
            res.setdefault(cid, {})[reg] = {"eps": eps, "area": area, "area_bits": t[4], "polys": polys}
        elif t[0] == "D":
            res.setdefault(int(t[1]), {}).setdefault("diff", []).append((int(t[2]), t[3], int(t[4])))
        elif t[0] == "WI":
            cid, reg = int(t[1]), int(t[2])
            polys, i = [], 4
            for _ in range(int(t[3])):
                n = int(t[i]); i += 1
                c = [(bits2float(t[i + 2 * k]), bits2float(t[i + 2 * k + 1])) for k in range(n)]
                i += 2 * n
                polys.append(c)
            res.setdefault(cid, {}).setdefault("warp", {})[reg] = polys
    return res


def lattice_affine(st):
    """integer / power-of-two matrix ((a,b),(c,d),(tx,ty)) meaning x' = a x + c y + tx, y' = b x + d y + ty, or None"""
    k = st[0]
    if k == "TR":
        return ((1.0, 0.0), (0.0, 1.0), (st[2], st[3]))
    if k == "SC" and st[2] != 0 and st[3] != 0:
        return ((st[2], 0.0), (0.0, st[3]), (0.0, 0.0))
    if k == "RO" and st[2] % 90 == 0:
        c, s_ = {0: (1.0, 0.0), 90: (0.0, 1.0), 180: (-1.0, 0.0), 270: (0.0, -1.0)}[int(st[2]) % 360]
        return ((c, s_), (-s_, c), (0.0, 0.0))
    if k == "MI" and (st[2] == 0) != (st[3] == 0):
        return ((-1.0, 0.0), (0.0, 1.0), (0.0, 0.0)) if st[3] == 0 else ((1.0, 0.0), (0.0, -1.0), (0.0, 0.0))
    if k == "TF":
        return ((st[2], st[3]), (st[4], st[5]), (st[6], st[7]))
    return None


def expr_of(prog, k, regs, warp):
    """(formula tree over contour sets, kind) for register k, or None"""
    st = prog.stmts[k]
    P = lambda i: ("POS", regs[i]["polys"])
    if st[0] == "P":
        return (("ODD" if st[1] == 1 else "POS"), st[2]), "fill"
    if st[0] == "R":
        x0, y0, x1, y1 = st[1:5]
        return ("POS", [rect_c(min(x0, x1), min(y0, y1), max(x0, x1), max(y0, y1))]), "rect"
    if st[0] == "B":
        op, i, j = st[1:4]
        return ({0: "OR", 1: "DIFF", 2: "AND"}[op], P(i), P(j)), "boolean"
    if st[0] == "BB":
        op, rs = st[1], st[2]
        if len(rs) == 1:
            return P(rs[0]), "batch"
        if op == 1:
            rest = P(rs[1])
            for r in rs[2:]:
                rest = ("OR", rest, P(r))
            return ("DIFF", P(rs[0]), rest), "batch"
        e = P(rs[0])
        for r in rs[1:]:
            e = ("OR" if op == 0 else "AND", e, P(r))
        return e, "batch"
    if st[0] in ("TR", "SC", "RO", "MI", "TF") and prog.regime == "lattice":
        m = lattice_affine(st)
        if m is not None:
            (a, b), (c_, d), (tx, ty) = m      # small integers / powers of two: exact in doubles
            det = a * d - b * c_
            out = []
            for c in regs[st[1]]["polys"]:
                cc = [(a * x + c_ * y + tx, b * x + d * y + ty) for x, y in c]
                out.append(cc[::-1] if det < 0 else cc)
            return ("POS", out), ("translate" if st[0] == "TR" else "affine")
    if st[0] in ("ST", "SI") and prog.regime == "lattice":
        # the generator only uses tolerances below the smallest vertex deviation of the operand: same point set
        return ("POS", regs[st[1]]["polys"]), "simplify"
    if st[0] in ("ST", "SI"):
        return None, "opaque"
    if st[0] == "W":
        return ("POS", warp.get(k, [])), "warp"
    return None, "transform"


def expr_floats(e):
    if e[0] in ("POS", "ODD", "NZ"):
        for c in e[1]:
            for x, y in c:
                yield x
                yield y
    else:
        yield from expr_floats(e[1])
        yield from expr_floats(e[2])


def expr_conts(e):
    if e[0] in ("POS", "ODD", "NZ"):
        return list(e[1])
    return expr_conts(e[1]) + expr_conts(e[2])


def conts_tokens(cs, s):
    t = [hx(len(cs))]
    for c in cs:
        t.append(hx(len(c)))
        for x, y in c:
            t.append(hx(to_int(x, s)))
            t.append(hx(to_int(y, s)))
    return t


def expr_tokens(e, s):
    if e[0] in ("POS", "ODD", "NZ"):
        return [e[0]] + conts_tokens(e[1], s)
    return [e[0]] + expr_tokens(e[1], s) + expr_tokens(e[2], s)


def is_lattice(conts):
    for c in conts:
        n = len(c)
        for i, (x, y) in enumerate(c):
            if x != math.floor(x) or y != math.floor(y) or abs(x) > 2.0 ** 52 or abs(y) > 2.0 ** 52:
                return False
            x2, y2 = c[(i + 1) % n]
            if x != x2 and y != y2:
                return False
    return True


def make_job(jid, prog, k, regs, warp, rng, nsamp):
    """returns (job line, meta) for register k of prog"""
    result = regs[k]["polys"]
    e, kind = expr_of(prog, k, regs, warp)
    fl = [v for c in result for p in c for v in p]
    if e is not None:
        fl += list(expr_floats(e))
    if not fl:
        fl = [0.0]
    s = scale_of(fl)
    # pixel semantics (E = 0, Area = pixel count) is claimed only when every operand of THIS operation is an
    # integer-lattice rectilinear polygon set; an operand that legitimately left the lattice (e.g. produced by an
    # operation whose own eps is several units) is judged by the generic rule instead
    lattice = prog.regime == "lattice" and e is not None and is_lattice(expr_conts(e))
    allc = list(result) + (expr_conts(e) if e is not None else [])
    xs = [to_int(x, s) for c in allc for x, _ in c] or [0]
    ys = [to_int(y, s) for c in allc for _, y in c] or [0]
    pts = []
    exact = False
    if lattice:
        s *= 2
        xs = [2 * v for v in xs]; ys = [2 * v for v in ys]
        eps = regs[k]["eps"]
        # pixel centres are half a unit from every lattice line: exact pixel semantics whenever the
        # exclusion radius (EPS_MULT * InferEps of THIS operation's input edges) is below that
        if eps * EPS_MULT < 0.5:
            E, exact = 0, True
        else:
            E = int(math.ceil(Fraction(eps) * EPS_MULT * s))
        step = s        # one lattice unit in scaled coordinates
        x0 = (min(xs) // step) - 1; x1 = (max(xs) // step) + 1
        y0 = (min(ys) // step) - 1; y1 = (max(ys) // step) + 1
        if (x1 - x0 + 1) * (y1 - y0 + 1) <= 4096:
            for i in range(x0, x1 + 1):
                for j in range(y0, y1 + 1):
                    pts.append((i * step + step // 2, j * step + step // 2))
            full = True
        else:
            full = False
            for _ in range(1500):
                pts.append((rng.randint(x0, x1) * step + step // 2, rng.randint(y0, y1) * step + step // 2))
            # and the pixels around vertices
            vs = [(to_int(x, s), to_int(y, s)) for c in allc for x, y in c]
            for vx_, vy_ in rng.sample(vs, min(len(vs), 150)):
                for di in (-1, 0):
                    for dj in (-1, 0):
                        pts.append(((vx_ // step + di) * step + step // 2, (vy_ // step + dj) * step + step // 2))
    else:
        eps = regs[k]["eps"]
        E = int(math.ceil(Fraction(eps) * EPS_MULT * s)) if eps > 0 else 1
        bx0, bx1, by0, by1 = min(xs), max(xs), min(ys), max(ys)
        w = max(bx1 - bx0, by1 - by0, 16)
        m = w // 16
        nrand = nsamp * 5 // 8
        for _ in range(nrand):
            pts.append((rng.randint(bx0 - m, bx1 + m), rng.randint(by0 - m, by1 + m)))
        # targeted: next to result / input vertices and edge midpoints
        pool = [c for c in allc if len(c) >= 2]
        while len(pts) < nsamp and pool:
            c = rng.choice(pool)
            i = rng.randrange(len(c))
            a = (to_int(c[i][0], s), to_int(c[i][1], s))
            b = (to_int(c[(i + 1) % len(c)][0], s), to_int(c[(i + 1) % len(c)][1], s))
            d = rng.choice([3 * E + 1, 16 * E + 3, max(w >> 20, 2 * E + 1), max(w >> 10, 2 * E + 1)])
            if rng.random() < 0.5:
                mx, my = (a[0] + b[0]) // 2, (a[1] + b[1]) // 2
                ux, uy = b[0] - a[0], b[1] - a[1]
                L = max(abs(ux), abs(uy), 1)
                nx, ny = -uy * d // L, ux * d // L
                sg = rng.choice([-1, 1])
                pts.append((mx + sg * nx, my + sg * ny))
            else:
                pts.append((a[0] + rng.choice([-d, d]), a[1] + rng.choice([-d, d, 0])))
    toks = ["JOB", str(jid), hx(E)] + conts_tokens(result, s) + (expr_tokens(e, s) if e is not None else ["NONE"]) + [hx(len(pts))]
    for x, y in pts:
        toks += [hx(x), hx(y)]
    meta = {"kind": kind, "scale": s, "E": E, "npts": len(pts), "lattice": lattice, "has_formula": e is not None, "pts": pts,
            "pixel_exact": lattice and exact, "full_grid": lattice and exact and full}
    return " ".join(toks), meta


def run_driver(drv, lines, nproc):
    """split job lines over several driver processes"""
    if not lines:
        return []
    nchunks = max(1, min(nproc, len(lines) // 4 or 1))
    # distribute by size so that the big jobs do not pile up in one chunk
    order = sorted(range(len(lines)), key=lambda i: -len(lines[i]))
    chunks = [[] for _ in range(nchunks)]
    for n, i in enumerate(order):
        chunks[n % nchunks].append(lines[i])

    def one(ch):
        return vp.sh2([drv], input="\n".join(ch) + "\n", timeout=1500)
    outs = []
    with concurrent.futures.ThreadPoolExecutor(max_workers=nchunks) as ex:
        for rc, out, err in ex.map(one, chunks):
            outs.append((rc, out, err))
    return outs


def judge(cx, progs, res, drv, rng, label, stats):
    found = []          # (size, key, description, replay): emitted smallest program first

    class _V:
        @staticmethod
        def violation(key, desc, rep):
            found.append((len(rep.get("program", "")) if isinstance(rep, dict) else 10 ** 9, key, desc, rep))
    real_cx, vx = cx, _V
    jobs, metas = [], {}
    for cid, prog in enumerate(progs):
        regs = res.get(cid)
        if regs is None:
            continue
        warp = regs.get("warp", {})
        nreg = sum(1 for k in regs if isinstance(k, int))
        for k in range(nreg):
            if k not in regs:
                break
            nedges = sum(len(c) for c in regs[k]["polys"])
            nsamp = 200 if nedges < 400 else 48
            jid = "%d.%d" % (cid, k)
            line, meta = make_job(jid, prog, k, regs, warp, rng, nsamp)
            jobs.append(line)
            metas[jid] = (cid, k, meta)
    outs = run_driver(drv, jobs, vp.NPROC)
    verdict = {}
    for rc, out, err in outs:
        if rc != 0:
            cx.broke("corr:C11/checker-driver", "extracted checker exited %d: %s" % (rc, err[-300:]))
        for l in out.splitlines():
            t = l.split()
            if t and t[0] == "J":
                verdict[t[1]] = t
    missing = [j for j in metas if j not in verdict]
    if missing:
        cx.broke("corr:C11/checker-output", "no verdict for %d jobs (e.g. %s)" % (len(missing), missing[:3]))
    for jid, t in verdict.items():
        cid, k, meta = metas[jid]
        prog = progs[cid]
        regs = res[cid]
        regular, simple, noconf, w01, formula = (int(v) for v in t[2:7])
        nfar, wsum, a2 = int(t[7], 16), int(t[8], 16), int(t[9], 16)
        badw, badf = int(t[10]), int(t[11])
        kind = meta["kind"]
        stats["checked"] += 1
        stats["far_points"] += nfar
        stats["points"] += meta["npts"]
        stats["kinds"][kind] = stats["kinds"].get(kind, 0) + 1
        regs[k]["wsum"] = wsum if meta["full_grid"] else None
        if kind in ("boolean", "batch", "fill", "warp") and len(regs[k]["polys"]) > 0:
            stats["nontrivial"] += 1
        sl, newk = prog.slice(k)
        rep = dict(sl.replay(), register=newk, statement=" ".join(map(str, _flat(prog.stmts[k])))[:400],
                   output_contours=[[(x.hex(), y.hex()) for x, y in c] for c in regs[k]["polys"]][:40], scale=meta["scale"], E=meta["E"])
        pre = "lattice-" if meta["lattice"] else ""
        if prog.tag == "singular" and kind == "transform" and not regular:
            vx.violation("singular-transform-not-regularized", "register %d: a CrossSection transformed by a singular matrix (%s) keeps degenerate contours "
                         "(repeated vertices / overlapping edges, NumContour=%d) instead of becoming empty" % (k, " ".join(map(str, _flat(prog.stmts[k]))), len(regs[k]["polys"])), rep)
            continue
        if not simple:
            vx.violation(pre + "output-contour-not-simple", "%s: a contour of register %d (%s) has < 3 or repeated vertices" % (prog.tag, k, kind), rep)
        if not noconf:
            key = "transform-output-edges-cross" if kind == "transform" else pre + "output-edges-cross-or-overlap"
            vx.violation(key, "%s: two edges of register %d (%s) cross, overlap or touch away from common endpoints (exact test)" % (prog.tag, k, kind), rep)
        if not w01:
            p = meta["pts"][badw] if 0 <= badw < len(meta["pts"]) else None
            vx.violation(pre + "winding-not-0-or-1", "%s: register %d (%s) has winding number outside {0,1} at sample %s (scaled by %d)" % (prog.tag, k, kind, p, meta["scale"]),
                         dict(rep, sample=p))
        if not formula:
            p = meta["pts"][badf] if 0 <= badf < len(meta["pts"]) else None
            key = ("lattice-pixelset-differs-" if meta["lattice"] else "formula-differs-") + kind
            vx.violation(key, "%s: register %d (%s): result winding differs from the set formula of the operands at sample %s (scaled by %d, exclusion radius %d)"
                         % (prog.tag, k, kind, p, meta["scale"], meta["E"]), dict(rep, sample=p))
        if meta["pixel_exact"] and meta["has_formula"]:
            stats["pixel_exact_jobs"] = stats.get("pixel_exact_jobs", 0) + 1
            if nfar != meta["npts"]:
                cx.broke("corr:C11/lattice-sampling", "pixel centres not all far from lattice edges in job %s" % jid)
            if regular and formula and meta["full_grid"]:
                # Area() must be exactly the pixel count
                count = wsum
                ab = regs[k]["area"]
                if struct.pack("<d", ab) != struct.pack("<d", float(count)) and not (ab == 0.0 and count == 0):
                    vx.violation("lattice-area-not-pixelcount", "%s: register %d Area()=%r but the result covers %d pixels" % (prog.tag, k, ab, count), rep)
                if a2 != 2 * count * meta["scale"] ** 2:
                    vx.violation("lattice-shoelace-not-pixelcount", "%s: register %d exact shoelace area2=%d (scale %d) but %d pixels" % (prog.tag, k, a2, meta["scale"], count), rep)
                stats["lattice_exact"] += 1
                if 0 < count:
                    stats["lattice_nontrivial"] += 1
    # lazy-vs-eager differential of every public operation (harness statement DF)
    for cid, prog in enumerate(progs):
        for (reg, opname, eq) in res.get(cid, {}).get("diff", []):
            # operations that stack a FURTHER transform on the pending one round once (composed matrix) instead of twice:
            # bit-identical only where the arithmetic is exact (lattice regime)
            if opname in ("TranslateThenRead", "BatchBoolean", "HullBatch") and prog.regime != "lattice":
                continue
            stats["differential_ops"] = stats.get("differential_ops", 0) + 1
            if not eq:
                sl, newk = prog.slice(reg)
                sl.directive("DF", newk)
                vx.violation("lazy-transform-differs-" + opname,
                             "%s: %s on register %d with a pending (lazy) transform differs from the same operation on its eagerly materialised copy" % (prog.tag, opname, reg),
                             dict(sl.replay(), register=newk, operation=opname))
    # operand-order independence (lattice regime): A op B vs B op A for union / intersection
    for cid, prog in enumerate(progs):
        if prog.regime != "lattice" or cid not in res:
            continue
        regs = res[cid]
        seen = {}
        for k, st in enumerate(prog.stmts):
            if st[0] == "B" and st[1] in (0, 2) and k in regs:
                key = (st[1], min(st[2], st[3]), max(st[2], st[3]))
                if key in seen and (st[2], st[3]) != seen[key][1]:
                    k0 = seen[key][0]
                    w0, w1 = regs[k0].get("wsum"), regs[k].get("wsum")
                    if (w0 is not None and w1 is not None and w0 != w1) or regs[k0]["area_bits"] != regs[k]["area_bits"]:
                        vx.violation("lattice-order-dependent", "%s: registers %d and %d (%s with swapped operands) differ in pixel count or Area bits"
                                     % (prog.tag, k0, k, OPS[st[1]]), dict(prog.replay(), registers=[k0, k]))
                    stats["order_pairs"] += 1
                else:
                    seen[key] = (k, (st[2], st[3]))
    found.sort(key=lambda t: (t[0], t[1]))
    for _, key, desc, rep in found:
        real_cx.violation(key, desc, rep)


def kernels(cx, drv, rng):
    """correspondence of the proved kernels with the implementation on integer inputs"""
    exe = vp.build_harness("c11_kern", "seq", link_lib=True)
    lines = ["ISIN"]
    n = cx.pick(1500, 20000)
    for i in range(n):
        segs = {}
        for _ in range(rng.randint(1, 7)):
            lo = rng.randint(-6, 6)
            hi = lo + rng.randint(1, 6)
            segs[(lo, hi)] = rng.choice([-2, -1, 1, 1, 2, 3])
        keys = sorted(segs)
        lines.append("MV %d %d %s" % (i, len(keys), " ".join("%d %d %d" % (lo, hi, segs[(lo, hi)]) for lo, hi in keys)))
    for i in range(n):
        nv = rng.randint(2, 7)
        verts = [(rng.randint(-3, 3), rng.randint(-3, 3)) for _ in range(nv)]
        mode = rng.random()
        edges = []
        if mode < 0.7:      # balanced: union of random closed walks
            for _ in range(rng.randint(1, 3)):
                L = rng.randint(2, 5)
                w = [rng.randrange(nv) for _ in range(L)]
                edges += [(w[j], w[(j + 1) % L]) for j in range(L)]
            edges = [e for e in edges if e[0] != e[1]] if rng.random() < 0.8 else edges
            rng.shuffle(edges)
        else:
            edges = [(rng.randrange(nv), rng.randrange(nv)) for _ in range(rng.randint(1, 8))]
        lines.append("OE %d %d %s %d %s" % (i, nv, " ".join("%d %d" % v for v in verts), len(edges), " ".join("%d %d" % e for e in edges)))
    inp = "\n".join(lines) + "\n"
    rc1, o1, e1 = vp.sh2([exe], input=inp, timeout=900)
    rc2, o2, e2 = vp.sh2([drv], input=inp, timeout=900)
    if rc1 != 0:
        cx.violation("crash-kernel-harness", "kernel harness crashed (rc=%d): %s" % (rc1, e1[-300:]), {"stderr": e1[-600:]})
    if rc2 != 0:
        cx.broke("corr:C11/kernel-model", "model driver exited %d: %s" % (rc2, e2[-300:]))
    a, b = o1.splitlines(), o2.splitlines()
    mism = {"ISIN": 0, "MV": 0, "OE": 0}
    first = {}
    for la, lb, lin in zip(a, b, lines):
        if la != lb:
            k = lin.split()[0]
            mism[k] += 1
            first.setdefault(k, (lin, la, lb))
    if len(a) != len(b) or len(a) != len(lines):
        cx.broke("corr:C11/kernel-lines", "kernel harness printed %d lines, model %d, expected %d" % (len(a), len(b), len(lines)))
    names = {"ISIN": "is_inside", "MV": "merge_verticals_1d", "OE": "out_edges_to_polygons"}
    for k, cnt in mism.items():
        if cnt:
            lin, la, lb = first[k]
            cx.broke("corr:C11/%s" % names[k], "%d cases differ from the proved model, first: input=%s impl=%s model=%s" % (cnt, lin[:200], la[:200], lb[:200]))
    cx.cov["kernel_correspondence"] = {"is_inside_table": 39, "merge_verticals_1d_cases": n, "out_edges_to_polygons_cases": n, "mismatches": mism}
    return sum(mism.values())


def run(cx):
    cx.assumptions += [
        "translation validation: the theorems say 'whenever the extracted checker accepts, the output satisfies the declarative statement'; which outputs are examined is what the generator reaches",
        "not proved: the sweep discovers every crossing and orders the status correctly (block rule), MergeVerts / incidence pre-split geometry; decided per output by regular_check / formula_check",
        "the exclusion radius is computed by the harness itself as InferEps of the operation's INPUT polygons, never from the result's or operands' tolerance_; "
        "samples within %d*eps (eps = InferEps of the operation) of an input edge are excluded from the formula test; winding-0/1 and the exact edge tests have no tolerance" % EPS_MULT,
        "doubles are converted to integers by a common power-of-two scale in Python (exact rational arithmetic); the harness prints IEEE bit patterns",
        "SweepPass (status_/pending_/events_) as a whole is not modelled: the proved kernels are PolySetAdd/split (0-boundary), MergeVerticals1D (coverage), IsInside table, OutEdgesToPolygons+PushSimpleLoops",
    ]
    # translator: which quantity is passed as eps to Boolean2D / ApplyFillRule (regenerated from the tree under test)
    import sys
    sys.path.insert(0, os.path.join(vp.ROOT, "translate"))
    import c11_eps
    sites, problems = c11_eps.emit(vp.REPO, os.path.join(vp.COQ, "Gen", "C11Eps.v"))
    cx.cov["eps_sites_from_source"] = [{"function": f, "callee": c, "eps_is_InferEps_of_call_operands": ok, "eps_definition": rhs} for f, c, ok, rhs in sites]
    cx.obligation("translate:cross_section.cpp eps call sites parsed", not problems and len(sites) >= 6,
                  "could not parse the Boolean2D/ApplyFillRule call sites of cross_section.cpp: %s (found %d)" % (problems[:3], len(sites)))
    for f, c, ok, rhs in sites:
        cx.obligation("translate:eps passed by CrossSection::%s to %s = InferEps(input polygons)" % (f, c), ok,
                      "CrossSection::%s passes eps = %s to %s: not the epsilon of the operation's input edges (inherited tolerance leaks into the arrangement)" % (f, rhs, c))
    cx.prove()
    mls = vp.coq_extract("ExtractC11", ["c11_model.ml"])
    drv = vp.ocaml_build("c11_driver", mls + [os.path.join(vp.ROOT, "extract/c11_driver.ml")], flags=["-O3"] if False else [])
    rng = random.Random(cx.seed * 104729 + 11)
    kmis = kernels(cx, drv, rng)
    exe = vp.build_harness("c11_xsec", "seq", link_lib=True)
    stats = {"pixel_exact_jobs": 0, "nontrivial": 0, "checked": 0, "points": 0, "far_points": 0, "kinds": {}, "lattice_exact": 0, "lattice_nontrivial": 0, "order_pairs": 0}
    lat = gen_lattice(rng, cx)
    res = run_programs(cx, exe, lat, "lattice")
    judge(cx, lat, res, drv, rng, "lattice", stats)
    cx.log("lattice regime: %d programs, %d CrossSections judged" % (len(lat), stats["checked"]))
    gen = gen_generic(rng, cx)
    res2 = run_programs(cx, exe, gen, "generic")
    n0 = stats["checked"]
    judge(cx, gen, res2, drv, rng, "generic", stats)
    cx.log("generic regime: %d programs, %d CrossSections judged" % (len(gen), stats["checked"] - n0))
    big = sum(1 for cid, p in enumerate(gen) if p.tag == "comb" and cid in res2)
    if not cx.quick():
        # the same comb programs through the parallel (TBB) BVH broad phase
        exe_par = vp.build_harness("c11_xsec", "par", link_lib=True)
        combs = [p for p in gen if p.tag in ("comb", "pencil", "coincident")][:120]
        res3 = run_programs(cx, exe_par, combs, "par")
        judge(cx, combs, res3, drv, rng, "par", stats)
    nontriv = stats["nontrivial"]
    cx.cov.update({
        "evaluations": stats["checked"],
        "distinct_nontrivial": nontriv,
        "rule": "one evaluation = one CrossSection produced by the library and judged by the extracted checkers; non-trivial = produced by a Boolean/BatchBoolean/fill-rule construction/warp "
                "(lattice: non-empty result); programs are seeded, statements of a program are distinct by construction",
        "distribution": {"programs_lattice": len(lat), "programs_generic": len(gen), "by_kind": stats["kinds"], "comb_programs_over_1024_edges": big,
                         "sample_points": stats["points"], "sample_points_far_from_input_edges": stats["far_points"],
                         "lattice_results_pixel_exact": stats["lattice_exact"], "history_programs": sum(1 for p in lat if p.tag == "history"), "lazy_transform_programs": sum(1 for p in lat if p.tag == "lazy"),
                         "lazy_vs_eager_differential_ops": stats.get("differential_ops", 0), "order_independence_pairs": stats["order_pairs"]},
        "kernel_mismatches": kmis,
    })
    for p in (lat[0], gen[0], gen[2]):
        cx.sample({"tag": p.tag, "program": p.text()[:500]})
