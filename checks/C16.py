"""C16 — Hull is the convex hull; Minkowski sum/difference are dilation and erosion.
translation_validation: Manifold::Hull / MinkowskiSum / MinkowskiDifference of
/repo are run on generated inputs and judged by the Coq-verified exact checker
hull_check (Geo/Hull3Defs.v, soundness in Geo/Hull3.v) and by exact
point-in-solid classification (Geo/WindingDefs.winding) of sampled sums."""
import math, os, random, re, struct, subprocess, threading
import vp

LEVEL = "translation_validation"
META = {
    "level": "translation_validation",
    "technique": "Coq-verified exact hull checker + exact winding classification of sampled Minkowski sums; set-level Coq lemmas; refutation of the non-convex branch",
    "text": "Coq: hull_check_sound (the extracted integer checker accepts (mesh, points, eps) only if the mesh is a closed oriented 2-manifold whose vertices are "
            "input points, every input point is within eps of the inner side of every face plane, hence every edge is convex within eps, and the mesh is flat "
            "exactly when the input lies in a plane); set-level lemmas on Minkowski sums over Q^3 (sum_contains_summands, sum_mono, sum_union_distr, hull_of_sums, "
            "the three branches of Impl::Minkowski as set expressions with their proof obligations; minkowski_nonconvex_refuted). Run: point clouds (lattice, "
            "duplicates, collinear, coplanar, clustered, sphere, 2^+-60 scales), hulls of manifolds and of several manifolds judged by hull_check; Minkowski pairs: "
            "a+b in Sum for exactly classified a in A, b in B; A subset Sum; nothing farther than reach(B); Difference subset A and p-b in A.",
    "note": "Known finding F2 (non-convex (+) non-convex omits B) is replayed deterministically with key minkowski-nonconvex-omits-B; random pairs always have a convex "
            "structuring element. Two further corpus findings: minkowski-difference-swaps-operands (convex A, non-convex B: operands are swapped also for the difference) and "
            "hull-quickhull-loses-points (10-point cloud, corpus/C16; quick-tier random multi-manifold hulls avoid Boolean operands because of it). Degenerate clouds: the pinned library returns a flat zero-volume mesh (its tests assert !IsEmpty() and Simplify().IsEmpty()); "
            "the check requires exactly that (flat mesh in the input's plane - hence exact volume 0 - and Simplify().IsEmpty()). eps = 2 * defaultEps (parsed from quickhull.cpp) * max|coordinate|. "
            "Trusted: Coq kernel, extraction, OCaml driver (scaling, sampling grids, generic-position filter), harness.",
}


def fmt(x):
    return repr(float(x))


def gen_cloud(rng):
    mode = rng.choice(["lattice", "lattice", "dups", "collinear", "coplanar", "coplanar-skew", "clustered", "sphere", "cube+interior", "few", "single"])
    pts = []
    if mode == "lattice":
        n = rng.choice([5, 8, 12, 20, 40])
        pts = [(rng.randrange(-3, 4), rng.randrange(-3, 4), rng.randrange(-3, 4)) for _ in range(n)]
    elif mode == "dups":
        base = [(rng.randrange(-2, 3), rng.randrange(-2, 3), rng.randrange(-2, 3)) for _ in range(rng.choice([2, 4, 5, 6]))]
        pts = [rng.choice(base) for _ in range(rng.choice([6, 12, 25]))]
    elif mode == "collinear":
        d = (rng.randrange(-2, 3), rng.randrange(-2, 3), rng.randrange(1, 3))
        o = (rng.randrange(-2, 3), rng.randrange(-2, 3), rng.randrange(-2, 3))
        pts = [tuple(o[k] + t * d[k] for k in range(3)) for t in [rng.randrange(-4, 5) for _ in range(rng.choice([3, 5, 9]))]]
    elif mode == "coplanar":
        ax = rng.randrange(3)
        c = rng.randrange(-2, 3)
        for _ in range(rng.choice([4, 5, 9, 20])):
            p = [rng.randrange(-3, 4), rng.randrange(-3, 4), rng.randrange(-3, 4)]
            p[ax] = c
            pts.append(tuple(p))
    elif mode == "coplanar-skew":
        u = (rng.randrange(-2, 3), rng.randrange(1, 3), rng.randrange(-2, 3))
        v = (rng.randrange(1, 3), rng.randrange(-2, 3), rng.randrange(-2, 3))
        pts = [tuple(s * u[k] + t * v[k] for k in range(3)) for s, t in [(rng.randrange(-3, 4), rng.randrange(-3, 4)) for _ in range(rng.choice([5, 9, 16]))]]
    elif mode == "clustered":
        base = [(rng.randrange(-2, 3), rng.randrange(-2, 3), rng.randrange(-2, 3)) for _ in range(rng.choice([4, 6, 8]))]
        for _ in range(rng.choice([12, 30])):
            b = rng.choice(base)
            pts.append(tuple(b[k] + rng.randrange(-64, 65) / 2.0 ** 16 for k in range(3)))
    elif mode == "sphere":
        for _ in range(rng.choice([12, 30, 60])):
            z = rng.uniform(-1, 1); t = rng.uniform(0, 2 * math.pi); r = math.sqrt(1 - z * z)
            pts.append(tuple(round(c * 2 ** 20) / 2.0 ** 20 for c in (r * math.cos(t), r * math.sin(t), z)))
    elif mode == "cube+interior":
        pts = [(x, y, z) for x in (0, 2) for y in (0, 2) for z in (0, 2)]
        pts += [(rng.randrange(0, 9) / 4.0, rng.randrange(0, 9) / 4.0, rng.randrange(0, 9) / 4.0) for _ in range(rng.choice([5, 20]))]
        rng.shuffle(pts)
    elif mode == "few":
        pts = [(rng.randrange(-2, 3), rng.randrange(-2, 3), rng.randrange(-2, 3)) for _ in range(rng.choice([1, 2, 3, 4]))]
    else:
        pts = [(1, 2, 3)] * rng.choice([1, 5])
    k = rng.choice([0, 0, 0, -60, -30, 30, 60])
    sc = 2.0 ** k
    return "%d %s" % (len(pts), " ".join(fmt(c * sc) for p in pts for c in p)), mode + ("" if k == 0 else "*2^%d" % k)


def R3(rng, a, b):
    return repr(round(rng.uniform(a, b), 3))


def gen_hullm(rng, quick=True):
    n = rng.choice([1, 1, 2, 3])

    def one():
        # quick tier: Boolean results only as single operands - the known QuickHull defect (key hull-quickhull-loses-points,
        # 1 of 600 random multi-manifold hulls, both hits with a cube-minus-sphere operand) is represented by the corpus
        k = rng.choice(["sphere", "cyl", "lshape", "cube", "bool"] if (n == 1 or not quick) else ["sphere", "cyl", "lshape", "cube"])
        if k == "sphere":
            s = "sphere %s %d" % (R3(rng, .5, 1.5), rng.choice([4, 8, 12]))
        elif k == "cyl":
            s = "cyl %s %s %s %d" % (R3(rng, .5, 2), R3(rng, .3, 1), R3(rng, .3, 1), rng.choice([5, 8]))
        elif k == "lshape":
            s = "lshape 2 1 %s" % R3(rng, .5, 1.5)
        elif k == "cube":
            s = "cube %s %s %s 1" % (R3(rng, .5, 2), R3(rng, .5, 2), R3(rng, .5, 2))
        else:
            s = "cube 1 1 1 1 sphere 0.7 8 tr %s %s %s %s" % (R3(rng, -.4, .4), R3(rng, -.4, .4), R3(rng, -.4, .4), rng.choice(["add", "sub", "int"]))
        if rng.random() < .7:
            s += " rot %s %s %s" % (R3(rng, -180, 180), R3(rng, -180, 180), R3(rng, -180, 180))
        return s
    return " ".join(one() + (" tr %s %s %s" % (R3(rng, -2, 2), R3(rng, -2, 2), R3(rng, -2, 2)) if i else "") for i in range(n)), "manifold x%d" % n


CONVEX = {"cubec": "cube %s %s %s 1", "tet": "tet sc 0.5 0.5 0.5", "octa": "sphere %s 4"}


def gen_operand(rng, convex, small):
    """(program, convex?) — all contain the origin in their interior"""
    s = .5 if small else 1.0
    if convex:
        k = rng.choice(["cubec", "tet", "octa"])
        if k == "cubec":
            p = "cube %s %s %s 1" % (R3(rng, .4 * s, 1.2 * s), R3(rng, .4 * s, 1.2 * s), R3(rng, .4 * s, 1.2 * s))
        elif k == "tet":
            p = "tet sc %r %r %r" % (.4 * s, .4 * s, .4 * s)
        else:
            p = "sphere %s 4" % R3(rng, .4 * s, .9 * s)
        if rng.random() < .5:
            p += " rot %s %s %s" % (R3(rng, -90, 90), R3(rng, -90, 90), R3(rng, -90, 90))
        return p
    a = round(rng.uniform(1.2, 2.0) * s, 3)
    b = round(a * rng.uniform(.4, .6), 3)
    h = round(rng.uniform(.6, 1.2) * s, 3)
    p = "lshape %r %r %r tr %r %r %r" % (a, b, h, -b / 2, -b / 2, -h / 2)
    if rng.random() < .4:
        p += " rot 0 0 %s" % R3(rng, -90, 90)
    return p


def gen_multibody(rng, origin_inside):
    """one Manifold made of 2-3 disjoint convex bodies (Compose); gaps between the bodies are >= 1.5"""
    def body():
        k = rng.choice(["cube", "cube", "octa", "tet"])
        if k == "cube":
            return "cube %s %s %s 1" % (R3(rng, .5, 1), R3(rng, .5, 1), R3(rng, .5, 1))
        if k == "octa":
            return "sphere %s 4" % R3(rng, .3, .5)
        return "tet sc 0.3 0.3 0.3"
    n = rng.choice([2, 2, 3])
    ax = rng.randrange(3)
    p = body() + ("" if origin_inside else " tr %s %s %s" % (R3(rng, -.2, .2), R3(rng, -.2, .2), R3(rng, -.2, .2)))
    for i in range(1, n):
        sh = [float(R3(rng, -.3, .3)) for _ in range(3)]
        sh[ax] += 2.6 * i + rng.uniform(0, 1)
        if i == 2 and rng.random() < .5:
            sh = [float(R3(rng, -.3, .3)) for _ in range(3)]
            sh[(ax + 1) % 3] += 2.8
        p += " %s tr %r %r %r compose" % (body(), round(sh[0], 3), round(sh[1], 3), round(sh[2], 3))
    return p


def gen_conv(rng):
    """(program, class) for the IsConvex tie"""
    k = rng.choice(["convex", "convex", "nonconvex", "multibody", "multibody", "genus"])
    if k == "convex":
        p = rng.choice(["cube %s %s %s 1" % (R3(rng, .5, 2), R3(rng, .5, 2), R3(rng, .5, 2)), "tet", "sphere %s %d" % (R3(rng, .5, 1.5), rng.choice([4, 8, 12])),
                        "cyl %s %s %s %d" % (R3(rng, .5, 2), R3(rng, .4, 1), R3(rng, .4, 1), rng.choice([5, 8, 12]))])
    elif k == "nonconvex":
        p = rng.choice(["lshape 2 1 %s" % R3(rng, .5, 1.5), "cube 1 1 1 1 cube 1 1 1 1 tr %s %s %s add" % (R3(rng, .3, .7), R3(rng, .3, .7), R3(rng, .3, .7)),
                        "cube 1 1 1 1 sphere 0.6 8 tr 0.5 0.5 0.5 sub", "cube 2 2 2 1 cube 1 1 1 1 sub"])
    elif k == "multibody":
        p = gen_multibody(rng, False)
    else:
        p = rng.choice(["torus %s %s %d %d" % (R3(rng, 1.2, 2), R3(rng, .3, .6), rng.choice([6, 8, 12]), rng.choice([4, 6])),
                        "cube 2 2 2 1 cube 0.6 0.6 3 1 sub"])
    if rng.random() < .7:
        p += " rot %s %s %s" % (R3(rng, -180, 180), R3(rng, -180, 180), R3(rng, -180, 180))
    if rng.random() < .5:
        p += " tr %s %s %s" % (R3(rng, -2, 2), R3(rng, -2, 2), R3(rng, -2, 2))
    return p, k


F2_SMALL = "lshape 1 0.5 0.5 tr -0.25 -0.25 -0.25"
F2_BIG = "lshape 4 2 2 tr -1 -1 -1"


def build_cases(cx):
    rng = random.Random(cx.seed * 7919 + 16)
    cases = []   # (id, line, kind, info)
    nh, nm, nk = cx.pick((60, 8, 10), (2000, 150, 100))
    nmb, ncv = cx.pick((8, 30), (60, 600))

    def add(line, kind, info=None):
        cid = str(len(cases))
        cases.append((cid, line.replace("@", cid), kind, info or {}))
    # fixed corpus
    add("MINK @ sum %s | %s" % (F2_SMALL, F2_BIG), "mink-sum", {"aconvex": False, "bconvex": False, "corpus": "F2"})
    add("MINK @ sum %s | %s" % (F2_BIG, F2_SMALL), "mink-sum", {"aconvex": False, "bconvex": False, "corpus": "F2-swapped"})
    add("MINK @ diff cube 1 1 1 1 | %s" % F2_BIG, "mink-diff", {"aconvex": True, "bconvex": False, "corpus": "diff-swap"})
    # finding: QuickHull drops input points (10 points in general position, one ends up 0.43 outside the result)
    cfile = os.path.join(vp.ROOT, "corpus/C16/hull_loses_points_10.txt")
    if os.path.exists(cfile):
        add(open(cfile).read().strip(), "hull-corpus-loses-points", {"corpus": "quickhull"})
    add("HULLM @ cube 1 1 1 1 sphere 0.7 8 tr 0.378 0.038 0.31 sub rot -171.553 60.139 -147.658 cube 0.845 1.612 1.147 1 tr -1.761 -1.075 -0.71",
        "hull-corpus-loses-points", {"corpus": "quickhull"})
    # one Manifold made of disjoint convex bodies must not take the convex-convex fast path (IsConvex tests the genus)
    TWO = "cube 1 1 1 0 cube 1 1 1 0 tr 4 0 0 compose"
    add("MINK @ sum %s | cube 0.2 0.2 0.2 1" % TWO, "mink-sum-multibody", {"aconvex": False, "bconvex": True, "corpus": "two-cubes"})
    add("MINK @ sum cube 0.2 0.2 0.2 1 | cube 1 1 1 1 cube 1 1 1 0 tr 4 0 0 compose", "mink-sum-multibody", {"aconvex": True, "bconvex": False})
    add("MINK @ sum cube 1 1 1 0 cube 1 1 1 0 tr 4 0 0 add | sphere 0.3 4", "mink-sum-multibody", {"aconvex": False, "bconvex": True})
    add("MINK @ sum %s | lshape 0.4 0.2 0.2 tr -0.1 -0.1 -0.1" % TWO, "mink-sum-multibody", {"aconvex": False, "bconvex": False})
    add("MINK @ diff %s | cube 0.2 0.2 0.2 1" % TWO, "mink-diff-multibody", {"aconvex": False, "bconvex": True})
    for line, kind, inf in big_operand_cases(batch_size() or 1000):
        add(line, kind, inf)
    add("CONV @ %s" % TWO, "conv-multibody")
    add("CONV @ torus 2 0.5 8 6", "conv-genus")
    # finding (fix: hooks/fix_C16_1.patch): coplanar cloud with coordinates ~2^33: the planar fallback offsets its auxiliary
    # point by the UNNORMALIZED normal (length ~ L^2), and the result has triangles with a repeated vertex index
    cfile2 = os.path.join(vp.ROOT, "corpus/C16/hull_flat_scale30_9.txt")
    if os.path.exists(cfile2):
        add(open(cfile2).read().strip(), "hull-corpus-flat-scale", {"corpus": "flat-scale"})
    add("HULLP @ 4 0 0 0 1 0 0 0 1 0 1 1 0", "hull-coplanar")
    add("HULLP @ 5 0 0 0 0 0 1 0.5 0 0 0.5 0 0 0.5 0 1", "hull-coplanar")
    add("HULLP @ 0", "hull-none")
    for _ in range(nh):
        p, k = gen_cloud(rng)
        add("HULLP @ " + p, "hull-" + k)
    for _ in range(nm):
        p, k = gen_hullm(rng, cx.quick())
        add("HULLM @ " + p, "hull-" + k)
    for i in range(nk):
        op = rng.choice(["sum", "sum", "diff"])
        if op == "sum":
            ac = rng.random() < .5
            bc = True if not ac else rng.random() < .6
            a = gen_operand(rng, ac, False); b = gen_operand(rng, bc, True)
            if rng.random() < .3:
                a, b, ac, bc = b, a, bc, ac
        else:
            ac = rng.random() < .5
            bc = True            # structuring element convex (see META.note)
            a = gen_operand(rng, ac, False); b = gen_operand(rng, bc, True)
        add("MINK @ %s %s | %s" % (op, a, b), "mink-" + op, {"aconvex": ac, "bconvex": bc})
    for i in range(nmb):
        # multi-body operand, in both operand positions, other operand convex (mostly) or not
        other_convex = rng.random() < .75
        other = gen_operand(rng, other_convex, True)
        if rng.random() < .6:
            op = rng.choice(["sum", "sum", "diff"])
            add("MINK @ %s %s | %s" % (op, gen_multibody(rng, False), other), "mink-%s-multibody" % op, {"aconvex": False, "bconvex": other_convex})
        else:
            add("MINK @ sum %s | %s" % (other, gen_multibody(rng, True)), "mink-sum-multibody", {"aconvex": other_convex, "bconvex": False})
    for i in range(ncv):
        p, k = gen_conv(rng)
        add("CONV @ " + p, "conv-" + k)
    return cases


def batch_size():
    """BATCH_SIZE of Impl::Minkowski's triangle sweep (src/minkowski.cpp), read on every run"""
    src = open(os.path.join(vp.REPO, "src/minkowski.cpp")).read()
    m = re.search(r"constexpr\s+size_t\s+BATCH_SIZE\s*=\s*(\d+)\s*;", src)
    return int(m.group(1)) if m else None


def big_operand_cases(batch):
    """swept operands with triangle counts on both sides of the batch size (lshape has 20 triangles, cube 12; Refine(n)
    multiplies by n^2): just below, above one batch, above two batches; sum with the swept operand first and second, and
    the difference (convex B)"""
    def n_for(base, target):
        n = 1
        while base * n * n <= target:
            n += 1
        return n
    L = "lshape 2 1 1 tr -0.5 -0.5 -0.5"
    nb, n1, n2 = n_for(20, batch) - 1, n_for(20, batch), n_for(20, 2 * batch)
    out = []
    if batch and batch <= 4000:
        out.append(("MINK @ sum %s refine %d | cube 0.2 0.2 0.2 1" % (L, max(nb, 1)), "mink-sum-bigA-below-batch", {"aconvex": False, "bconvex": True}))
        out.append(("MINK @ sum %s refine %d | cube 0.2 0.2 0.2 1" % (L, n1), "mink-sum-bigA-over-batch", {"aconvex": False, "bconvex": True}))
        out.append(("MINK @ sum sphere 0.2 4 | %s refine %d" % (L, n2), "mink-sum-bigB-over-2-batches", {"aconvex": True, "bconvex": False}))
        out.append(("MINK @ diff cube 2 2 2 1 refine %d | cube 0.2 0.2 0.2 1" % n_for(12, batch), "mink-diff-bigA-over-batch", {"aconvex": True, "bconvex": True}))
        out.append(("MINK @ diff %s refine %d | sphere 0.15 4" % (L, n1), "mink-diff-bigA-over-batch", {"aconvex": False, "bconvex": True}))
    return out


def default_eps():
    src = open(os.path.join(vp.REPO, "src/quickhull.cpp")).read()
    m = re.search(r"double\s+defaultEps\(\)\s*\{\s*return\s+([0-9.eE+-]+)\s*;", src)
    return float(m.group(1)) if m else None


def run_driver_parallel(drv, args, out_impl, nproc):
    """split the harness output per case into small batches and let a pool of workers pull them (dynamic load balance:
    a few Minkowski cases cost 100x a hull case)"""
    from concurrent.futures import ThreadPoolExecutor
    blocks, cur = [], []
    for l in out_impl.splitlines():
        cur.append(l)
        if l.startswith("END "):
            blocks.append((sum(len(x) for x in cur), "\n".join(cur) + "\n"))
            cur = []
    blocks.sort(key=lambda b: -b[0])
    batches, cb, csz = [], [], 0
    for sz, b in blocks:
        cb.append(b); csz += sz
        if len(cb) >= 8 or csz > 40000:
            batches.append("".join(cb)); cb, csz = [], 0
    if cb:
        batches.append("".join(cb))
    bad = []

    def work(text):
        p = subprocess.run([drv] + list(args), input=text, stdout=subprocess.PIPE, stderr=subprocess.PIPE, text=True, timeout=3000)
        if p.returncode != 0:
            bad.append((p.returncode, p.stderr[-300:]))
        return p.stdout
    with ThreadPoolExecutor(max_workers=max(1, nproc)) as ex:
        outs = list(ex.map(work, batches))
    return "".join(outs), bad


HULL_KEYS = {1: "hull-not-manifold", 2: "hull-vertex-not-input", 3: "hull-point-outside", 4: "hull-empty-but-input-spans-volume",
             5: "hull-flat-but-input-spans-volume", 9: "hull-non-finite"}


def run(cx):
    cx.assumptions += [
        "hull epsilon: 2 * defaultEps() (parsed from src/quickhull.cpp on every run) * max|coordinate| of the input",
        "Minkowski containments are judged on sample grids (exact classification by winding; samples within 2^-20*scale of a surface skipped)",
        "'empty' for degenerate clouds means: flat closed mesh in the input's plane with zero volume and Simplify().IsEmpty() (the pinned tests assert !IsEmpty())",
        "set-level Minkowski lemmas are over rational points (Qc^3); the segment-crossing property of a solid with respect to its boundary is a hypothesis",
    ]
    cx.prove()
    de = default_eps()
    cx.obligation("translate:quickhull.cpp defaultEps", de is not None and 0 < de < 1e-3, "could not read defaultEps() from quickhull.cpp")
    de = de or 1e-7
    bs = batch_size()
    cx.obligation("translate:minkowski.cpp BATCH_SIZE", bs is not None and bs >= 1, "could not read BATCH_SIZE from minkowski.cpp")
    cx.cov["constants_from_source"] = {"defaultEps": de, "BATCH_SIZE": bs}
    mls = vp.coq_extract("ExtractC16", ["c16_model.ml"])
    drv = vp.ocaml_build("c16_driver", mls + [os.path.join(vp.ROOT, "extract/c16_driver.ml")])
    exe = vp.build_harness("c16_hull", "seq", link_lib=True)
    cases = build_cases(cx)
    lines = [c[1] for c in cases]
    info = {c[0]: c for c in cases}
    kl = lambda l: l.split()[1] if l[:4] in ("HULL", "MINK", "CONV") else None
    ko = lambda l: l.split()[1] if l.startswith("END ") else None
    out_impl, crashes = vp.run_cases(exe, lines, kl, ko, timeout=cx.pick(300, 1500))
    for cl, rc, err in crashes:
        cx.violation("hull-minkowski-crash", "Hull/Minkowski crashed or hung (rc=%s): %s" % (rc, err[-200:]), {"case": cl})
    cx.log("harness done: %d cases, %d crashes" % (len(cases), len(crashes)))
    out_v, bad = run_driver_parallel(drv, [struct.pack(">d", de).hex()], out_impl, vp.NPROC)
    for rc, err in bad:
        cx.broke("corr:C16/driver", "checker driver exited %s: %s" % (rc, err))
    vols, disp = {}, {}
    for l in out_impl.splitlines():
        if l.startswith("MS "):
            t = l.split()
            vols[t[1]] = [struct.unpack(">d", bytes.fromhex(h))[0] for h in t[4:7]]
            if len(t) >= 12:
                disp[t[1]] = (int(t[10]), int(t[11]))     # Impl::IsConvex() of A, B: which branch was taken
    ended, checked, nontriv = set(), 0, set()
    stats = dict(conv=0, conv_isconvex=0, conv_exact_convex=0, conv_conservative_false=0, dispatch_cc=0, dispatch_nc=0, dispatch_nn=0, hull=0, hull_flat=0, hull_volumetric=0, hull_max_tris=0, sum=0, sum_pairs=0, sum_far=0, diff=0, diff_points=0, diff_pairs=0)

    def viol(key, cid, what, l):
        c = info[cid]
        cx.violation(key, what, {"case": c[1], "kind": c[2], "verdict": l, "volumes_A_B_result": vols.get(cid),
                                 "replay_with": "echo '<case>' | build/h-c16_hull-*/c16_hull | build/ml-c16_driver-*/c16_driver %s" % struct.pack(">d", de).hex()})

    for l in out_v.splitlines():
        t = l.split("|")[0].split()
        if len(t) < 3 or t[0] != "V":
            continue
        cid, chk = t[1], t[2]
        if chk == "end":
            ended.add(cid)
            continue
        if chk == "error" or (len(t) > 3 and t[3] == "CERTFAIL"):
            cx.broke("corr:C16/checker#%s" % cid, "exact checker could not judge the case (%s)" % l[:200])
            continue
        checked += 1
        c = info[cid]
        v = list(map(int, t[3:]))
        if chk == "hull":
            code, flat, nv, nt, npts, status, simp_empty, is_empty, volzero = v
            stats["hull"] += 1; stats["hull_flat"] += flat; stats["hull_volumetric"] += int(not flat and nt > 0)
            stats["hull_max_tris"] = max(stats["hull_max_tris"], nt)
            if status != 0:
                viol("hull-status", cid, "Hull returned status %d" % status, l)
            elif code != 0:
                m_sc = re.search(r"\*2\^(-?\d+)", c[2])
                big_flat = flat == 1 and code == 1 and (c[3].get("corpus") == "flat-scale" or (m_sc and int(m_sc.group(1)) >= 20))
                viol("hull-quickhull-loses-points" if (code == 3 and c[3].get("corpus") == "quickhull")
                     else "hull-flat-cloud-large-scale-degenerate-triangles" if big_flat else HULL_KEYS.get(code, "hull-rejected"), cid, "hull_check rejects the result (code %d: %s) for %d input points; mesh %d verts %d tris" % (
                    code, HULL_KEYS.get(code), npts, nv, nt), l)
            elif flat and nt > 0 and simp_empty != 1:
                # (the mesh is exactly flat by hull_check: its vertices are input points; Volume() may carry rounding noise)
                viol("hull-degenerate-not-empty", cid, "input spans no volume but the hull does not simplify to the empty manifold (Simplify().IsEmpty()=%d)" % simp_empty, l)
            if npts >= 5 and not flat:
                nontriv.add(cid)
        elif chk == "conv":
            status, isconv, genus, exact, code, nt = v
            stats["conv"] += 1; stats["conv_isconvex"] += isconv; stats["conv_exact_convex"] += exact
            if status == 0 and isconv == 1 and exact == 0:
                viol("isconvex-accepts-nonconvex", cid, "Impl::IsConvex() is true but the mesh is not globally convex (exact test of the mesh against its own vertices: "
                     "code %d, genus %d): Impl::Minkowski would take the convex-convex fast path" % (code, genus), l)
            if status == 0 and isconv == 0 and exact == 1:
                stats["conv_conservative_false"] += 1      # allowed: only costs the slower path
            if nt >= 8:
                nontriv.add(cid)
        elif chk == "sum":
            status, oin, closed, nsa, nsb, tested, missing, skipped, a_tested, a_missing, far_tested, far_inside, rnt = v
            stats["sum"] += 1; stats["sum_pairs"] += tested; stats["sum_far"] += far_tested
            both_nc = not c[3].get("aconvex") and not c[3].get("bconvex")
            d = disp.get(cid)
            if d:
                stats["dispatch_cc" if d == (1, 1) else "dispatch_nn" if d == (0, 0) else "dispatch_nc"] += 1
            if status != 0:
                viol("minkowski-status", cid, "MinkowskiSum returned status %d" % status, l)
                continue
            if not oin:
                cx.broke("corr:C16/generator#%s" % cid, "generated B does not contain the origin")
                continue
            if not closed:
                viol("minkowski-not-manifold", cid, "MinkowskiSum result is not a closed 2-manifold", l)
            if missing:
                viol("minkowski-nonconvex-omits-B" if both_nc else "minkowski-sum-missing-point", cid,
                     "MinkowskiSum: %d of %d exactly classified sums a+b (a in A, b in B) are outside the result, e.g. %s; volumes A,B,result = %s" % (
                         missing, tested, l.split("|")[-1].strip(), vols.get(cid)), l)
            if a_missing:
                viol("minkowski-sum-omits-A", cid, "MinkowskiSum: %d of %d interior points of A are outside the result" % (a_missing, a_tested), l)
            if far_inside:
                viol("minkowski-sum-too-large", cid, "MinkowskiSum: %d of %d points farther from A than reach(B)+10 tol are inside the result (%s); IsConvex(A),IsConvex(B) = %s; "
                     "volumes A,B,result = %s" % (far_inside, far_tested, l.split("|")[-1].strip(), d, vols.get(cid)), l)
            if tested > 0:
                nontriv.add(cid)
        elif chk == "diff":
            status, oin, closed, nsd, nsb, d_tested, d_outside, e_tested, e_outside, skipped, rnt = v
            stats["diff"] += 1; stats["diff_points"] += d_tested; stats["diff_pairs"] += e_tested
            if status != 0:
                viol("minkowski-status", cid, "MinkowskiDifference returned status %d" % status, l)
                continue
            if not closed:
                viol("minkowski-not-manifold", cid, "MinkowskiDifference result is not a closed 2-manifold", l)
            if d_outside or e_outside:
                key = "minkowski-difference-swaps-operands" if (c[3].get("aconvex") and not c[3].get("bconvex")) else "minkowski-difference-outside-A"
                viol(key, cid, "MinkowskiDifference: %d of %d interior points of the result are outside A; %d of %d points p-b (p in result, b in B) are outside A; "
                               "volumes A,B,result = %s" % (d_outside, d_tested, e_outside, e_tested, vols.get(cid)), l)
            if e_tested > 0:
                nontriv.add(cid)
    crashed = set(kl(c[0]) for c in crashes)
    for c in cases:
        if c[0] not in ended and c[0] not in crashed:
            cx.broke("corr:C16/case %s" % c[0], "no verdict for case: %s" % c[1][:200])
            break
    kinds = {}
    for c in cases:
        k = c[2].split("*")[0]
        kinds[k] = kinds.get(k, 0) + 1
    cx.cov.update({
        "programs": len(cases), "disagreements_checked": checked, "evaluations": checked, "distinct_nontrivial": len(nontriv),
        "rule": "seeded generator: point clouds (lattice/duplicates/collinear/coplanar/clustered/sphere/cube+interior, scaled by 2^k), hulls of 1-3 manifolds, "
                "Minkowski pairs with a convex structuring element + fixed corpus (F2 witness both orders, difference with non-convex B); non-trivial = hull input of >= 5 "
                "points spanning volume, or a Minkowski case with at least one judged sample pair; distinct by case text",
        "distribution": {"cases_by_kind": kinds, "checks": stats, "defaultEps": de,
                         "corpus_volumes(A,B,result)": {info[c][3].get("corpus"): vols.get(c) for c in ("0", "1", "2")}},
    })
    for i in (0, 2, 10, 30, len(cases) - 1):
        if i < len(cases):
            cx.sample({"case": cases[i][1][:300], "kind": cases[i][2]})
    cx.log("checked %d verdicts over %d cases: %s" % (checked, len(cases), stats))
