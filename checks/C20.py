"""C20 — the C binding is a faithful, memory-safe image of the C++ API.

translator (clang JSON AST of bindings/c/*.cpp -> coq/Gen/CBind.v + JSON twin)
 + Coq obligations on the generated table (wrappers_faithful, families, enum
   tables) and the lifecycle theorem over a heap model
 + a differential harness GENERATED from the same JSON table on every run:
   every exported C function is called next to the C++ call it names, with the
   C++ call's arguments routed by the *specification* (name matching, x,y,z
   order, identically named enumerators) rather than by what the wrapper does,
   under ASan/UBSan/LSan, every object destructed or deleted exactly once."""
import json, os, random, re, sys, time
import vp

sys.path.insert(0, os.path.join(vp.ROOT, "translate"))
import c20_cbind as TR

LEVEL = "proof"
META = {
    "level": "proof",
    "technique": "translator-regenerated Coq table of all exported C functions + vm_compute obligations + lifecycle theorem on a heap model + generated differential harness under ASan/LSan",
    "text": "Every exported function of bindings/c (298 on the pinned tree) is symbolically evaluated from clang's AST into a Coq table (C parameters, C++ callee with its declared "
            "parameter names/defaults, per-argument routing, placement-news, plain news, deletes, callbacks, result conversion; to_c/from_c casts and enum switch tables). "
            "Coq theorems: wrappers_faithful (every entry passes the routing checker: arguments routed by normalised name in declaration order, x,y,z component order, reviewed "
            "exception lists, exactly one placement-new into mem of the handle's C++ type, no other allocation/free, callbacks get ctx unchanged), options_marshalled_faithfully (every `if (opt->G) result->M = copy(opt->S, L)` block of the *_w_options functions guards on the field it copies and routes it to the reviewed MeshGL member/length; every array field copied exactly once), families_consistent "
            "(X_size/alloc_X/destruct_X/delete_X use the one C++ type from_c maps the handle to), enum_tables_bijective + enum_roundtrip, lifecycle_safe(_for_table): for all programs "
            "of API calls honouring the header's contract, run against wrappers with the advertised memory behaviour (derived from wrapper_ok for table entries), no double destruction, "
            "no use after destruction, no overflow of caller storage, nothing left at exit; each object destroyed exactly once. Tie: the harness generated from the same table calls "
            "every C function and the C++ call it names (arguments routed by the specification, not by the wrapper) on >= 4 distinct-valued tuples (option structs: all 32 NULL/non-NULL combinations of their arrays, every MeshGL field and the caller-supplied original IDs after a round trip through Manifold compared exactly) and in random mirrored call programs, "
            "comparing MeshGL64 bit patterns, polygons, scalars, status codes, storage identity, under ASan/UBSan/LeakSanitizer.",
    "note": "Trusted: Coq kernel/vm_compute; the translator's reading of clang's AST (cross-checked dynamically by the harness, which does not use the wrapper's routing); the harness generator; "
            "sanitizers as witness finders. The heap model abstracts each call to (placement-constructions, plain news, deletes) as counted syntactically in the wrapper body; memory safety "
            "inside the C++ library itself is not covered (see C09). C++ parameters unnamed in the public headers (Translate, Scale, Mirror, Refine*, SetTolerance, ReserveIDs) have no name to match: "
            "for them only order/shape is checked statically and the harness is the tie.",
}

AXES = ["x", "y", "z", "w"]
norm = lambda s: s.replace("_", "").lower()

POOL = {"manifold::Manifold": "man", "manifold::CrossSection": "cs", "manifold::SimplePolygon": "sp",
        "manifold::Polygons": "polys", "manifold::MeshGL": "gl", "manifold::MeshGL64": "gl64", "manifold::Box": "box",
        "manifold::Rect": "rect", "std::vector<manifold::Manifold>": "mvec", "std::vector<manifold::CrossSection>": "csvec",
        "std::vector<manifold::RayHit>": "hits", "std::vector<manifold::ivec3>": "tri"}


class NoMirror(Exception):
    pass


def coq_triples(name):
    src = open(os.path.join(vp.COQ, "Proto/CBindDefs.v")).read()
    m = re.search(r"Definition %s\b.*?:=\s*\[(.*?)\]\." % name, src, flags=re.S)
    body = re.sub(r"\(\*.*?\*\)", "", m.group(1), flags=re.S)
    return [tuple(re.findall(r'"([^"]*)"', t)) for t in re.findall(r"\(([^()]*)\)", body)]


class Gen:
    def __init__(self, T):
        self.T = T
        self.handles = {c: x for c, x, _ in T["handles_from"]}          # 'ManifoldManifold *' -> 'manifold::Manifold'
        self.name_exc = set(coq_triples("name_exceptions"))
        self.enum_prefix = dict(coq_triples("enum_prefix"))
        self.enum_exc = set(coq_triples("enumerator_exceptions"))
        self.c_enums = dict((k, v) for k, v in T["c_enums"])
        self.cxx_enums = dict((k, v) for k, v in T["cxx_enums"])
        self.enum_cxx = {}
        for c, x, _ in T["enum_from"] + T["enum_to"]:
            self.enum_cxx[c] = x
        self.family = {}                                                # C++ type -> {size, alloc, destruct, delete}
        for e in T["entries"]:
            k = e["kind"]
            if k["k"] in ("size", "alloc", "destruct", "delete"):
                self.family.setdefault(k["ty"], {})[k["k"]] = e["name"]
        self.structs = dict((k, v) for k, v in T["c_structs"])

    # ---- specification-side routing
    def name_match(self, fn, cp, xp):
        return xp == "" or norm(cp) == norm(xp) or (fn, cp, xp) in self.name_exc

    def canon_vec(self, comps):
        n = len(comps)
        for c in comps:
            for i, ch in enumerate(c):
                if ch == "x":
                    exp = [c[:i] + a + c[i + 1:] for a in AXES[:n]]
                    if sorted(exp) == sorted(comps):
                        return exp
        return comps

    def expected_scalar(self, e, actual, xparam):
        scal = [p for p, t in e["params"] if "*" not in t]
        cands = [p for p in scal if xparam and self.name_match(e["name"], p, xparam)]
        return cands[0] if len(cands) == 1 else actual

    # ---- enum conversions by identically named enumerators
    def enum_pairs(self, cenum):
        xs = self.cxx_enums[self.enum_cxx[cenum]]
        pre = self.enum_prefix.get(cenum, "MANIFOLD_")
        out = []
        for c in self.c_enums[cenum]:
            hit = [x for x in xs if (c, x) in self.enum_exc or (c.startswith(pre) and norm(c[len(pre):]) == norm(x))]
            if len(hit) != 1:
                raise NoMirror("enumerator %s has no identically named C++ enumerator" % c)
            out.append((c, hit[0]))
        return out

    # ---- mirror printing
    def mx(self, v, e, xparam=None):
        k = v["k"]
        if k == "param":
            return "a_" + v["name"]
        if k == "tobool":
            return "(bool)(%s)" % self.mx(v["e"], e, xparam)
        if k == "from_c":
            if v["cls"] == "handle":
                if v["e"]["k"] != "param":
                    raise NoMirror("from_c of a non-parameter")
                return "(&X(%s))" % v["e"]["name"]
            if v["cls"] == "enum":
                return "exp_from_c_%s(%s)" % (v["ctype"], self.mx(v["e"], e))
            raise NoMirror("from_c vec")
        if k == "to_c":
            if v["cls"] == "handle":
                return self.mx(v["e"], e)
            raise NoMirror("to_c inside an expression")
        if k == "deref":
            return "(*%s)" % self.mx(v["e"], e)
        if k == "vec":
            names = []
            for c in v["comps"]:
                c0 = c["e"] if c["k"] == "tobool" else c
                if c0["k"] != "param":
                    return "%s(%s)" % (v["type"], ", ".join(self.mx(c, e) for c in v["comps"]))
                names.append(c0["name"])
            return "%s(%s)" % (v["type"], ", ".join("a_" + n for n in self.canon_vec(names)))
        if k == "mat":
            cols = []
            for c in v["cols"]:
                items = c.get("comps") or c.get("items")
                if items is None or any(i["k"] != "param" for i in items):
                    raise NoMirror("matrix literal")
                cols.append([i["name"] for i in items])
            flat = sorted([n for c in cols for n in c], key=lambda n: (re.sub(r"\D", "", n), n))
            r = len(cols[0])
            cols = [flat[i:i + r] for i in range(0, len(flat), r)]
            return "%s(%s)" % (v["type"], ", ".join("{%s}" % ", ".join("a_" + n for n in c) for c in cols))
        if k == "call":
            c = v["callee"]
            args = list(v["args"])
            while args and args[-1]["k"] == "default":
                args.pop()
            if any(a["k"] == "default" for a in args):
                raise NoMirror("default argument in the middle")
            out = []
            for i, a in enumerate(args):
                xp = c["params"][i]["name"] if c.get("params") and i < len(c["params"]) else None
                a0 = a["e"] if a["k"] == "tobool" else a
                if xp is not None and a0["k"] == "param" and "*" not in a0.get("type", ""):
                    exp = self.expected_scalar(e, a0["name"], xp)
                    s = "a_" + exp
                    out.append("(bool)(%s)" % s if a["k"] == "tobool" else s)
                elif xp is not None and a0["k"] == "from_c" and a0["cls"] == "enum" and a0["e"]["k"] == "param":
                    exp = self.expected_scalar(e, a0["e"]["name"], xp)
                    out.append("exp_from_c_%s(a_%s)" % (a0["ctype"], exp))
                else:
                    out.append(self.mx(a, e))
            al = ", ".join(out)
            kind = c.get("kind")
            if v.get("ctor") or kind == "ctor":
                return "%s(%s)" % (v["type"], al)
            if v.get("recv") is not None:
                nm = c["name"]
                if nm.startswith("~"):
                    raise NoMirror("destructor")
                return "%s.%s(%s)" % (self.mx(v["recv"], e), nm, al)
            return "%s(%s)" % (c["qual"], al)
        if k == "member":
            return "%s.%s" % (self.mx(v["e"], e), v["field"])
        if k == "index":
            return "%s[%s]" % (self.mx(v["e"], e), self.mx(v["i"], e))
        if k == "new":
            return self.mx_init(v)(e)
        if k == "construct":
            return "%s(%s)" % (v["type"], ", ".join(self.mx(a, e) for a in v["args"] if a["k"] != "default"))
        if k == "agg":
            return "{%s}" % ", ".join(self.mx(i, e) for i in v["items"])
        if k == "const":
            return v["text"]
        if k == "cond":
            return "(%s ? %s : %s)" % (self.mx(v["c"], e), self.mx(v["t"], e), self.mx(v["e"], e))
        if k == "bin":
            return "(%s %s %s)" % (self.mx(v["l"], e), v["op"], self.mx(v["r"], e))
        if k == "un":
            return "(%s%s)" % (v["op"], self.mx(v["e"], e))
        raise NoMirror("value kind %s" % k)

    def mx_init(self, new):
        def f(e):
            i = new["init"]
            if i["k"] == "construct" and i["type"] == new["type"]:
                return self.mx(i, e)
            return "%s(%s)" % (new["type"], self.mx(i, e))
        return f

    # ---- argument values
    def scalar_value(self, name, ty, j):
        """C++ expression for scalar parameter number j (0-based among scalars) in tuple t."""
        n = name.lower()
        if ty in ("double", "float"):
            if "tolerance" in n or "epsilon" in n:
                return "(0.015625 * (1 + (%d + t) %% 4))" % j
            if "smoothness" in n:
                return "(0.125 * (1 + (%d + t) %% 6))" % j
            if n in ("level",):
                return "(0.0625 * ((%d + t) %% 4))" % j
            if n == "edge_length":
                return "(0.4 + 0.125 * ((%d + t) %% 3))" % j
            if n in ("length",):
                return "(0.75 + 0.25 * ((%d + t) %% 3))" % j
            return "DV[(%d + 5 * t) %% 12]" % j
        if ty in ("int", "int32_t"):
            if n == "center":
                return "((t + %d) %% 2)" % j
            if "segments" in n or n == "number":
                return "(5 + (%d + t) %% 5)" % j
            if n in ("refine", "slices"):
                return "(2 + (%d + t) %% 2)" % j
            if "idx" in n and "normal" in n:
                return "3"
            if "idx" in n:
                return "(3 + %d)" % j
            if n == "num_prop":
                return "4"
            return "(3 + (%d + t) %% 4)" % j
        if ty in ("size_t", "unsigned long"):
            if "idx" in n or n == "run":
                return "(size_t)((t + %d) %% 2)" % (j % 2) if n != "run" else "(size_t)0"
            return "(size_t)(2 + (%d + t) %% 3)" % j
        if ty in ("uint32_t", "unsigned int"):
            return "(uint32_t)(3 + t)"
        if ty in self.c_enums:
            return "(%s)((t + %d) %% %d)" % (ty, j, len(self.c_enums[ty]))
        raise NoMirror("no value generator for parameter type %s" % ty)

    # ---- one generic test
    def gen_wrap(self, e, prog=False):
        fn = e["name"]
        res = e["result"]
        L = []
        A = L.append
        handles, scalars, mems = [], [], []
        for p, t in e["params"]:
            if t == "void *" and p.startswith("mem"):
                mems.append(p)
            elif t in self.handles:
                handles.append((p, self.handles[t]))
            elif "*" in t:
                raise NoMirror("pointer parameter %s %s" % (t, p))
            else:
                scalars.append((p, t))
        argdesc = []
        needs_normals = any(norm(p) == "normalidx" for p, _ in scalars) and fn not in ("manifold_calculate_normals",)
        for j, (p, x) in enumerate(handles):
            if prog:
                if x != "manifold::Manifold":
                    raise NoMirror("program ops take solids only")
                A("  Slot& s_%s = S.pick(%d); manifold::Manifold& c_%s = *s_%s.c; manifold::Manifold& x_%s = s_%s.x;" % (p, j, p, p, p, p))
            elif x == "manifold::ExecutionContext":
                A("  manifold::ExecutionContext c_%s, x_%s;" % (p, p))
            elif x not in POOL:
                raise NoMirror("no pool for %s" % x)
            elif needs_normals and x == "manifold::Manifold":
                A("  %s c_%s = P.man[4], x_%s = c_%s;   // the pool solid that carries normals in channels 3..5" % (x, p, p, p))
            else:
                A("  %s c_%s = pick(P.%s, t + %d), x_%s = c_%s;" % (x, p, POOL[x], j, p, p))
            argdesc.append('"%s=%s#" + std::to_string(t + %d)' % (p, POOL.get(x, "ctx"), j))
        for j, (p, t) in enumerate(scalars):
            A("  %s a_%s = %s;" % (t, p, self.scalar_value(p, t, j)))
            argdesc.append('"%s=" + D((double)a_%s)' % (p, p))
        A("  r.args = std::string() + %s;" % (' + " " + '.join(argdesc) if argdesc else '""'))
        cargs = []
        for p, t in e["params"]:
            if p in mems:
                cargs.append(p)
            elif t in self.handles:
                cargs.append("reinterpret_cast<%s>(&c_%s)" % (t, p))
            else:
                cargs.append("a_" + p)
        # mirror statements (effects), mirror value
        mirror_fx = [self.mx(f, e) + ";" for f in e["tree"]["eff"]]
        ret = e["tree"]["ret"]
        call = "%s(%s)" % (fn, ", ".join(cargs))
        k = res["r"]
        if prog and not (k == "place" and res["ty"] == "manifold::Manifold" and not mirror_fx and handles):
            raise NoMirror("not a solid -> solid operation")
        if k in ("place", "place2"):
            ty = res["ty"]
            fam = self.family.get(ty)
            if not fam or len(fam) != 4:
                raise NoMirror("no size/alloc/destruct/delete family for %s" % ty)
            for m in mems:
                A("  bool lib_%s = (t %% 2) == 1;" % m)
                A("  void* %s = lib_%s ? (void*)%s() : caller_mem(%s());" % (m, m, fam["alloc"], fam["size"]))
            if k == "place":
                new = ret["e"]
                A("  auto* rc = %s;" % call)
                A("  %s rx = %s;" % (ty, self.mx(new, e)))
                A("  r.same_ptr(rc, %s);" % mems[0])
                if prog:
                    A("  S.push(reinterpret_cast<manifold::Manifold*>(rc), lib_%s, rx, \"%s\");" % (mems[0], fn))
                else:
                    A("  r.eq(\"result\", *reinterpret_cast<%s*>(rc), rx);" % ty)
                    A("  if (lib_%s) %s(rc); else { %s(rc); free(%s); }" % (mems[0], fam["delete"], fam["destruct"], mems[0]))
            else:
                pair = [i["e"] for i in ret["items"]]
                A("  auto rc = %s;" % call)
                base = pair[0]["init"]
                # pair.first / pair.second of one call
                if base["k"] != "member":
                    raise NoMirror("pair result shape")
                A("  auto rx = %s;" % self.mx(base["e"], e))
                A("  r.same_ptr(rc.first, %s); r.same_ptr(rc.second, %s);" % (mems[0], mems[1]))
                A("  r.eq(\"first\", *reinterpret_cast<%s*>(rc.first), rx.first);" % ty)
                A("  r.eq(\"second\", *reinterpret_cast<%s*>(rc.second), rx.second);" % ty)
                for m, f in zip(mems, ("first", "second")):
                    A("  if (lib_%s) %s(rc.%s); else { %s(rc.%s); free(%s); }" % (m, fam["delete"], f, fam["destruct"], f, m))
        elif k == "copy":
            cd = ret if ret["k"] == "copy_data" else ret["e"]
            A("  auto src = %s;" % self.mx(cd["src"], e))
            A("  size_t nbytes = src.size() * sizeof(src[0]);")
            A("  void* mem = malloc(nbytes ? nbytes : 1);")
            A("  if (nbytes == 0) { r.args += \" (empty array: a C caller checks the length first)\"; free(mem); return; }")
            A("  auto* rc = %s;" % call)
            A("  r.same_ptr(rc, mem); r.eq_mem(\"array\", mem, src.data(), nbytes); free(mem);")
        elif k == "enum":
            pairs = self.enum_pairs(res["cenum"])
            A("  auto rc = %s;" % call)
            A("  auto rx = %s;" % self.mx(ret["e"], e))
            A("  r.eq(\"status\", (int)rc, (int)exp_to_c_%s(rx));" % res["cenum"])
        elif k == "vec":
            A("  auto rc = %s;" % call)
            if res.get("via") == "to_c":
                A("  auto rx = %s;" % self.mx(ret["e"], e))
            else:
                A("  auto rx = %s;" % self.mx(ret["items"][0]["e"], e))
            for f in self.structs[e["ret"]]:
                A("  r.eq(\"%s\", rc.%s, rx.%s);" % (f, f, f))
        elif k == "struct":
            A("  auto rc = %s;" % call)
            i0 = ret["items"][0]
            i0 = i0["e"] if i0["k"] == "to_c" else i0
            A("  auto rx = %s;" % self.mx(i0["e"], e))
            cf = self.structs[res["cstruct"]]
            for c, x in zip(cf, res["fields"]):
                if norm(c) != norm(x):
                    raise NoMirror("struct field names")
            for c in cf:
                xs = [x for x in res["fields"] if norm(x) == norm(c)]
                A("  r.eq(\"%s\", rc.%s, rx.%s);" % (c, c, xs[0]))
        elif k == "scalar":
            A("  auto rc = %s;" % call)
            A("  auto rx = %s;" % self.mx(ret, e))
            A("  r.eq(\"value\", (decltype(rx))rc, rx);")
        elif k == "void":
            A("  %s;" % call)
            if ret is not None and ret.get("k") == "call":
                mirror_fx.append(self.mx(ret, e) + ";")
        else:
            raise NoMirror("result kind %s" % k)
        for s in mirror_fx:
            A("  " + s)
        if mirror_fx or k == "void":
            for p, x in handles:
                A("  r.eq(\"arg %s after call\", c_%s, x_%s);" % (p, p, p))
        body = "\n".join(L)
        body = re.sub(r"X\((\w+)\)", r"x_\1", body)
        if prog:
            return "static void p_%s(int t, Rec& r, Store& S) {\n%s\n}\n" % (fn, body)
        return "static void t_%s(int t, Rec& r) {\n%s\n}\n" % (fn, body)

    def enum_helpers(self):
        out = []
        for cenum in self.c_enums:
            if cenum not in self.enum_cxx:
                continue
            x = self.enum_cxx[cenum]
            pairs = self.enum_pairs(cenum)
            out.append("static %s exp_from_c_%s(%s c) { switch (c) {%s } return %s::%s; }" % (
                x, cenum, cenum, "".join(" case %s: return %s::%s;" % (c, x, xx) for c, xx in pairs), x, pairs[0][1]))
            out.append("static %s exp_to_c_%s(%s v) { switch (v) {%s } return %s; }" % (
                cenum, cenum, x, "".join(" case %s::%s: return %s;" % (x, xx, c) for c, xx in pairs), pairs[0][0]))
        return "\n".join(out) + "\n"


# ------------------------------------------------------------------ specials
# Hand-written mirrors for the functions whose bodies are loops, callbacks, I/O
# or act on process-wide state.  A function of these kinds that has no entry
# here is reported as "table-checked only".

def mk_place(ty_c, size_fn, destruct_fn):
    return "void* mem = caller_mem(%s());" % size_fn, "%s(rc); free(mem);" % destruct_fn


SPECIALS = {
"manifold_simple_polygon": r'''
  std::vector<ManifoldVec2> ps; for (int i = 0; i < 4 + t; ++i) ps.push_back({DV[(i + t) % 12], DV[(i * 5 + 3) % 12]});
  void* mem = caller_mem(manifold_simple_polygon_size());
  auto* rc = manifold_simple_polygon(mem, ps.data(), ps.size());
  SimplePolygon rx; for (auto& p : ps) rx.push_back({p.x, p.y});
  r.same_ptr(rc, mem); r.eq("result", *reinterpret_cast<SimplePolygon*>(rc), rx);
  manifold_destruct_simple_polygon(rc); free(mem);''',
"manifold_polygons": r'''
  std::vector<SimplePolygon> sps = {pick(P.sp, t), pick(P.sp, t + 1), pick(P.sp, t + 2)};
  std::vector<ManifoldSimplePolygon*> hs; for (auto& s : sps) hs.push_back(reinterpret_cast<ManifoldSimplePolygon*>(&s));
  void* mem = caller_mem(manifold_polygons_size());
  auto* rc = manifold_polygons(mem, hs.data(), hs.size());
  Polygons rx(sps.begin(), sps.end());
  r.same_ptr(rc, mem); r.eq("result", *reinterpret_cast<Polygons*>(rc), rx);
  manifold_destruct_polygons(rc); free(mem);''',
"manifold_hull_pts": r'''
  std::vector<ManifoldVec3> ps; for (int i = 0; i < 6 + t; ++i) ps.push_back({DV[(i + t) % 12], DV[(i * 5 + 3) % 12], DV[(i * 7 + 1) % 12]});
  void* mem = caller_mem(manifold_manifold_size());
  auto* rc = manifold_hull_pts(mem, ps.data(), ps.size());
  std::vector<vec3> v; for (auto& p : ps) v.push_back({p.x, p.y, p.z});
  Manifold rx = Manifold::Hull(v);
  r.same_ptr(rc, mem); r.eq("result", *reinterpret_cast<Manifold*>(rc), rx);
  manifold_destruct_manifold(rc); free(mem);''',
}


def meshgl_specials():
    S = {}
    for suf, M, F, I in (("", "MeshGL", "float", "uint32_t"), ("64", "MeshGL64", "double", "uint64_t")):
        pool = "gl" + suf
        pre = r'''
  %(M)s src = pick(P.%(pool)s, t);
  std::vector<%(F)s> vp = src.vertProperties; std::vector<%(I)s> tv = src.triVerts;
  size_t nv = src.NumVert(), np = src.numProp, nt = src.NumTri();
  std::vector<%(F)s> tang(nt * 12); for (size_t i = 0; i < tang.size(); ++i) tang[i] = (%(F)s)(0.125 * (double)((i * 7 + t) %% 9));
  void* mem = caller_mem(manifold_meshgl%(suf)s_size());''' % dict(M=M, F=F, I=I, pool=pool, suf=suf)
        post = r'''
  r.same_ptr(rc, mem); r.eq("result", *reinterpret_cast<%(M)s*>(rc), rx);
  manifold_destruct_meshgl%(suf)s(rc); free(mem);''' % dict(M=M, suf=suf)
        S["manifold_meshgl" + suf] = pre + r'''
  auto* rc = manifold_meshgl%(suf)s(mem, vp.data(), nv, np, tv.data(), nt);
  %(M)s rx; rx.numProp = np; rx.vertProperties = vp; rx.triVerts = tv;''' % dict(M=M, suf=suf) + post
        S["manifold_meshgl%s_w_tangents" % suf] = pre + r'''
  auto* rc = manifold_meshgl%(suf)s_w_tangents(mem, vp.data(), nv, np, tv.data(), nt, tang.data());
  %(M)s rx; rx.numProp = np; rx.vertProperties = vp; rx.triVerts = tv; rx.halfedgeTangent = tang;''' % dict(M=M, suf=suf) + post
        # t is a bit mask over the optional arrays (the power set of NULL / non-NULL fields):
        # 1 run_indices, 2 run_original_ids, 4 merge_from_vert, 8 merge_to_vert, 16 halfedge_tangents
        S["manifold_meshgl%s_w_options" % suf] = pre + r'''
  int mask = t & 31;
  uint32_t base = Manifold::ReserveIDs(2);                     // caller-owned original IDs
  std::vector<%(I)s> ri = {0, (%(I)s)(3 * (nt / 2)), (%(I)s)(3 * nt)};
  std::vector<uint32_t> ro = {base}; if (mask & 1) ro.push_back(base + 1);   // one ID per run
  std::vector<%(I)s> mf = {1, 2}, mt = {0, 3};
  Manifold%(M)sOptions o; memset(&o, 0, sizeof o);
  if (mask & 1) { o.run_indices = ri.data(); o.run_indices_length = ri.size(); }
  if (mask & 2) { o.run_original_ids = ro.data(); o.run_original_ids_length = ro.size(); }
  if (mask & 4) o.merge_from_vert = mf.data();
  if (mask & 8) o.merge_to_vert = mt.data();
  if (mask & 12) o.merge_verts_length = mf.size();
  if (mask & 16) o.halfedge_tangents = tang.data();
  r.args = std::string("mesh=%(pool)s#") + std::to_string(t) + " options{run_indices=" + ((mask & 1) ? "set" : "NULL") + " run_original_ids=" + ((mask & 2) ? "set" : "NULL") +
           " merge_from_vert=" + ((mask & 4) ? "set" : "NULL") + " merge_to_vert=" + ((mask & 8) ? "set" : "NULL") + " halfedge_tangents=" + ((mask & 16) ? "set" : "NULL") + "}";
  auto* rc = manifold_meshgl%(suf)s_w_options(mem, vp.data(), nv, np, tv.data(), nt, &o);
  %(M)s rx; rx.numProp = np; rx.vertProperties = vp; rx.triVerts = tv;
  if (mask & 1) rx.runIndex = ri;
  if (mask & 2) rx.runOriginalID = ro;
  if (mask & 4) rx.mergeFromVert = mf;
  if (mask & 8) rx.mergeToVert = mt;
  if (mask & 16) rx.halfedgeTangent = tang;
  { const %(M)s& cm = *reinterpret_cast<%(M)s*>(rc);       // every field, exactly (no renaming of IDs: the caller chose them)
    r.eq("numProp", (size_t)cm.numProp, (size_t)rx.numProp); r.eq("vertProperties", cm.vertProperties, rx.vertProperties);
    r.eq("triVerts", cm.triVerts, rx.triVerts); r.eq("runIndex", cm.runIndex, rx.runIndex);
    r.eq("runOriginalID", cm.runOriginalID, rx.runOriginalID); r.eq("mergeFromVert", cm.mergeFromVert, rx.mergeFromVert);
    r.eq("mergeToVert", cm.mergeToVert, rx.mergeToVert); r.eq("halfedgeTangent", cm.halfedgeTangent, rx.halfedgeTangent);
    r.eq("runTransform", cm.runTransform, rx.runTransform); r.eq("faceID", cm.faceID, rx.faceID); r.eq("runFlags", cm.runFlags, rx.runFlags);
    // round trip through Manifold: same status, same mesh, and the caller's original IDs come back out
    Manifold mc(cm); Manifold mx(rx);
    r.eq("Manifold status", (int)mc.Status(), (int)mx.Status());
    auto oc = mc.GetMeshGL%(suf)s(); auto ox = mx.GetMeshGL%(suf)s();
    if (mask & 2) r.eq("runOriginalID after Manifold round trip (caller-supplied)", oc.runOriginalID, ox.runOriginalID);
    r.eq("mesh after Manifold round trip", oc, ox); }''' % dict(M=M, I=I, suf=suf, pool=pool) + post
        S["manifold_meshgl%s_merge" % suf] = r'''
  %(M)s c_m = pick(P.%(pool)s, t); c_m.mergeFromVert.clear(); c_m.mergeToVert.clear(); %(M)s x_m = c_m;
  void* mem = caller_mem(manifold_meshgl%(suf)s_size());
  auto* rc = manifold_meshgl%(suf)s_merge(mem, reinterpret_cast<Manifold%(M)s*>(&c_m));
  %(M)s rx(x_m); rx.Merge();
  r.eq("arg m after call", c_m, x_m);''' % dict(M=M, pool=pool, suf=suf) + post
        for ec in (False, True):
            name = ("manifold_execution_context_smooth" if ec else "manifold_smooth") + suf
            S[name] = r'''
  %(M)s c_mesh = pick(P.%(pool)s, t), x_mesh = c_mesh;
  std::vector<size_t> he = {0, 4, 7}; std::vector<double> sm = {0.25, 0.5, 0.75}; he.resize(1 + t %% 3); sm.resize(he.size());
  void* mem = caller_mem(manifold_manifold_size());
  %(decl)s
  auto* rc = %(name)s(mem, %(ecarg)sreinterpret_cast<Manifold%(M)s*>(&c_mesh), he.data(), sm.data(), he.size());
  std::vector<Smoothness> sv; for (size_t i = 0; i < he.size(); ++i) sv.push_back({he[i], sm[i]});
  Manifold rx = %(mirror)s(x_mesh, sv);
  r.same_ptr(rc, mem); r.eq("result", *reinterpret_cast<Manifold*>(rc), rx);
  manifold_destruct_manifold(rc); free(mem);''' % dict(
                M=M, pool=pool, name=name,
                decl="ExecutionContext c_ec, x_ec;" if ec else "",
                ecarg="reinterpret_cast<ManifoldExecutionContext*>(&c_ec), " if ec else "",
                mirror="x_ec.Smooth" if ec else "Manifold::Smooth")
    return S


SPECIALS.update(meshgl_specials())

CB_TAIL = r'''
  if (c1->wrong_ctx) r.fail("callback received a context pointer different from the caller's");
  if (c1->calls == 0 && c2->calls != 0) r.fail("callback never invoked");
  delete c1; delete c2;'''

for _seq in ("", "_seq"):
    for _ec in (False, True):
        _name = ("manifold_execution_context_level_set" if _ec else "manifold_level_set") + _seq
        SPECIALS[_name] = r'''
  CbCtx* c1 = new_ctx(1.0 + 0.25 * t); CbCtx* c2 = new_ctx(1.0 + 0.25 * t);
  Box c_b({-1.5, -1.25, -1.0}, {1.5, 1.25, 1.0}), x_b = c_b;
  double a_edge = 0.4 + 0.125 * (t %% 3), a_level = 0.0625 * (t %% 4), a_tol = 0.015625 * (1 + t %% 4);
  r.args = "edge_length=" + D(a_edge) + " level=" + D(a_level) + " tolerance=" + D(a_tol);
  void* mem = caller_mem(manifold_manifold_size());
  %(decl)s
  auto* rc = %(name)s(mem, %(ecarg)scb_sdf, reinterpret_cast<ManifoldBox*>(&c_b), a_edge, a_level, a_tol, c1);
  Manifold rx = %(mirror)s([c2](vec3 v) { return cb_sdf(v.x, v.y, v.z, c2); }, x_b, a_edge, a_level, a_tol, %(par)s);
  r.same_ptr(rc, mem); r.eq("result", *reinterpret_cast<Manifold*>(rc), rx);
  manifold_destruct_manifold(rc); free(mem);''' % dict(
            name=_name, decl="ExecutionContext c_ec, x_ec;" if _ec else "",
            ecarg="reinterpret_cast<ManifoldExecutionContext*>(&c_ec), " if _ec else "",
            mirror="x_ec.LevelSet" if _ec else "Manifold::LevelSet", par="false" if _seq else "true") + CB_TAIL

SPECIALS["manifold_warp"] = r'''
  CbCtx* c1 = new_ctx(0.25 + 0.125 * t); CbCtx* c2 = new_ctx(0.25 + 0.125 * t);
  Manifold c_m = pick(P.man, t), x_m = c_m;
  void* mem = caller_mem(manifold_manifold_size());
  auto* rc = manifold_warp(mem, reinterpret_cast<ManifoldManifold*>(&c_m), cb_warp3, c1);
  Manifold rx = x_m.Warp([c2](vec3& v) { ManifoldVec3 o = cb_warp3(v.x, v.y, v.z, c2); v = vec3(o.x, o.y, o.z); });
  r.same_ptr(rc, mem); r.eq("result", *reinterpret_cast<Manifold*>(rc), rx);
  manifold_destruct_manifold(rc); free(mem);''' + CB_TAIL
SPECIALS["manifold_cross_section_warp_context"] = r'''
  CbCtx* c1 = new_ctx(0.25 + 0.125 * t); CbCtx* c2 = new_ctx(0.25 + 0.125 * t);
  CrossSection c_m = pick(P.cs, t), x_m = c_m;
  void* mem = caller_mem(manifold_cross_section_size());
  auto* rc = manifold_cross_section_warp_context(mem, reinterpret_cast<ManifoldCrossSection*>(&c_m), cb_warp2, c1);
  CrossSection rx = x_m.Warp([c2](vec2& v) { ManifoldVec2 o = cb_warp2(v.x, v.y, c2); v = vec2(o.x, o.y); });
  r.same_ptr(rc, mem); r.eq("result", *reinterpret_cast<CrossSection*>(rc), rx);
  manifold_destruct_cross_section(rc); free(mem);''' + CB_TAIL
SPECIALS["manifold_set_properties"] = r'''
  CbCtx* c1 = new_ctx(0.25 + 0.125 * t); CbCtx* c2 = new_ctx(0.25 + 0.125 * t);
  Manifold c_m = pick(P.man, t), x_m = c_m;
  void* mem = caller_mem(manifold_manifold_size());
  auto* rc = manifold_set_properties(mem, reinterpret_cast<ManifoldManifold*>(&c_m), 4, cb_props, c1);
  Manifold rx = x_m.SetProperties(4, [c2](double* np, vec3 p, const double* op) { cb_props(np, {p.x, p.y, p.z}, op, c2); });
  r.same_ptr(rc, mem); r.eq("result", *reinterpret_cast<Manifold*>(rc), rx);
  manifold_destruct_manifold(rc); free(mem);''' + CB_TAIL
SPECIALS["manifold_write_obj"] = r'''
  Manifold c_m = pick(P.man, t), x_m = c_m;
  ObjSink s{"", nullptr, 0}; s.self = &s;
  manifold_write_obj(reinterpret_cast<ManifoldManifold*>(&c_m), cb_obj, &s);
  std::stringstream ss; x_m.WriteOBJ(ss);
  if (s.wrong_ctx) r.fail("callback received a context pointer different from the caller's");
  std::string xs = ss.str();
  r.eq("text", std::vector<char>(s.text.begin(), s.text.end()), std::vector<char>(xs.begin(), xs.end()));'''
SPECIALS["manifold_meshgl64_write_obj"] = r'''
  MeshGL64 c_m = pick(P.gl64, t), x_m = c_m;
  ObjSink s{"", nullptr, 0}; s.self = &s;
  manifold_meshgl64_write_obj(reinterpret_cast<ManifoldMeshGL64*>(&c_m), cb_obj, &s);
  std::stringstream ss; WriteOBJ(ss, x_m);
  if (s.wrong_ctx) r.fail("callback received a context pointer different from the caller's");
  std::string xs = ss.str();
  r.eq("text", std::vector<char>(s.text.begin(), s.text.end()), std::vector<char>(xs.begin(), xs.end()));'''
SPECIALS["manifold_read_obj"] = r'''
  std::stringstream ss; pick(P.man, t).WriteOBJ(ss); std::string text = ss.str();
  void* mem = caller_mem(manifold_manifold_size());
  auto* rc = manifold_read_obj(mem, (char*)text.c_str());
  std::istringstream is(text); Manifold rx = Manifold::ReadOBJ(is);
  r.same_ptr(rc, mem); r.eq("result", *reinterpret_cast<Manifold*>(rc), rx);
  manifold_destruct_manifold(rc); free(mem);'''
SPECIALS["manifold_meshgl64_read_obj"] = r'''
  std::stringstream ss; WriteOBJ(ss, pick(P.gl64, t)); std::string text = ss.str();
  void* mem = caller_mem(manifold_meshgl64_size());
  auto* rc = manifold_meshgl64_read_obj(mem, (char*)text.c_str());
  std::istringstream is(text); MeshGL64 rx = ReadOBJ(is);
  r.same_ptr(rc, mem); r.eq("result", *reinterpret_cast<MeshGL64*>(rc), rx);
  manifold_destruct_meshgl64(rc); free(mem);'''
# process-wide state
SPECIALS["manifold_reserve_ids"] = r'''
  uint32_t n = 3 + t; r.args = "n=" + std::to_string(n);
  uint32_t rc = manifold_reserve_ids(n); uint32_t rx = Manifold::ReserveIDs(n);
  r.eq("consecutive blocks", rc + n, rx);'''
for _f, _x, _ty, _val in (("manifold_set_min_circular_angle", "Quality::SetMinCircularAngle", "double", "DV[t] * 4"),
                          ("manifold_set_min_circular_edge_length", "Quality::SetMinCircularEdgeLength", "double", "DV[t] * 0.25"),
                          ("manifold_set_circular_segments", "Quality::SetCircularSegments", "int", "5 + t")):
    SPECIALS[_f] = r'''
  %s v = %s; r.args = "v=" + D((double)v);
  Quality::ResetToDefaults(); %s(v); int rc = Quality::GetCircularSegments(2.5);
  Quality::ResetToDefaults(); %s(v); int rx = Quality::GetCircularSegments(2.5);
  Quality::ResetToDefaults(); r.eq("segments(2.5) after call", rc, rx);''' % (_ty, _val, _f, _x)
SPECIALS["manifold_reset_to_circular_defaults"] = r'''
  Quality::SetCircularSegments(7 + t); manifold_reset_to_circular_defaults(); int rc = Quality::GetCircularSegments(2.5);
  Quality::SetCircularSegments(7 + t); Quality::ResetToDefaults(); int rx = Quality::GetCircularSegments(2.5);
  r.eq("segments(2.5) after reset", rc, rx);'''


# operations kept out of random programs: they multiply triangle counts or take minutes on composed inputs
PROG_EXCLUDE = {"manifold_refine", "manifold_refine_to_length", "manifold_refine_to_tolerance", "manifold_minkowski_sum",
                "manifold_minkowski_difference", "manifold_smooth_out", "manifold_smooth_by_normals"}


def generate_harness(T, path, ntuples):
    g = Gen(T)
    tests, table_only, generated, ops = [], [], [], []
    parts = ['// GENERATED by checks/C20.py from the translator table (%d exported functions). Do not edit.\n'
             '#include "c20_support.h"\n' % len(T["entries"]),
             "static const double DV[12] = {1.5, 2.5, 3.5, 0.75, 1.25, 2.25, 3.25, 0.5, 1.75, 2.75, 3.75, 4.5};\n",
             g.enum_helpers()]
    for e in T["entries"]:
        fn = e["name"]
        kind = e["kind"]["k"]
        if kind in ("alloc", "destruct", "delete"):
            continue                      # exercised by every handle-returning test (alternating caller / library storage)
        if kind == "size":
            ty = e["kind"]["ty"]
            parts.append('static void t_%s(int t, Rec& r) {\n  r.eq("sizeof", %s(), sizeof(%s));\n}\n' % (fn, fn, ty))
            tests.append((fn, 1))
            continue
        if fn in SPECIALS:
            parts.append("static void t_%s(int t, Rec& r) {%s\n}\n" % (fn, SPECIALS[fn]))
            tests.append((fn, 32 if e.get("opts") else ntuples))    # option structs: the whole power set of NULL / non-NULL arrays
            continue
        if e.get("opts"):
            table_only.append((fn, "takes an options struct but has no hand-written power-set mirror"))
            continue
        if kind != "wrap":
            table_only.append((fn, "kind %s without a hand-written mirror" % kind))
            continue
        try:
            parts.append(g.gen_wrap(e))
            tests.append((fn, ntuples))
        except NoMirror as ex:
            table_only.append((fn, str(ex)))
            continue
        if fn not in PROG_EXCLUDE:
            try:
                parts.append(g.gen_wrap(e, prog=True))
                ops.append(fn)
            except NoMirror:
                pass
    parts.append("struct TestEnt { const char* name; void (*fn)(int, Rec&); int tuples; };\nstatic const TestEnt TESTS[] = {\n" +
                 "".join('  {"%s", t_%s, %d},\n' % (n, n, k) for n, k in tests) + "};\n")
    parts.append("struct OpEnt { const char* name; void (*fn)(int, Rec&, Store&); };\nstatic const OpEnt OPS[] = {\n" +
                 "".join('  {"%s", p_%s},\n' % (n, n) for n in ops) + "};\n")
    parts.append(r'''
// "PROG <seed> <length>": a random program of solid -> solid API calls, mirrored call for call
static void run_program(unsigned long seed, int len) {
  static char fnname[32]; snprintf(fnname, sizeof fnname, "PROG");
  Rec r; r.fn = fnname; r.tuple = (int)seed;
  Store S; S.rng = seed * 2654435761ULL + 12345;
  const size_t nops = sizeof(OPS) / sizeof(OPS[0]);
  for (size_t i = 0; i < 3; ++i) {          // initial objects: copies of pool solids made through the C API
    const Manifold& src = pick(P.man, (int)(seed + i));
    bool lib = (i % 2) == 0;
    void* mem = lib ? (void*)manifold_alloc_manifold() : caller_mem(manifold_manifold_size());
    ManifoldManifold* c = manifold_copy(mem, reinterpret_cast<ManifoldManifold*>(const_cast<Manifold*>(&src)));
    S.push(reinterpret_cast<Manifold*>(c), lib, src, "manifold_copy");
  }
  std::string trace;
  for (int k = 0; k < len; ++k) {
    const OpEnt& op = OPS[S.next() % nops];
    int t = (int)(S.next() % 12);
    trace += std::string(op.name) + ":" + std::to_string(t) + ",";
    op.fn(t, r, S);
  }
  r.args = "seed=" + std::to_string(seed) + " len=" + std::to_string(len) + " objects=" + std::to_string(S.v.size());
  for (size_t i = 0; i < S.v.size(); ++i) {
    Slot& s = S.v[i];
    r.eq(s.made_by, *s.c, s.x);
    if (s.lib) manifold_delete_manifold(reinterpret_cast<ManifoldManifold*>(s.c));
    else { manifold_destruct_manifold(reinterpret_cast<ManifoldManifold*>(s.c)); free(s.c); }
  }
  if (r.fails) r.what += " ops=" + trace;
  emit(r);
}

int main(int argc, char** argv) {
  build_pools();
  char line[256];
  // one case per line: "<function> <tuple>" or "PROG <seed> <length>"
  while (fgets(line, sizeof line, stdin)) {
    char name[200]; int t = 0;
    if (sscanf(line, "%199s %d", name, &t) < 1) continue;
    if (strcmp(name, "PROG") == 0) { int len = 40; sscanf(line, "%*s %*d %d", &len); Quality::ResetToDefaults(); run_program((unsigned long)t, len); continue; }
    bool found = false;
    for (const auto& te : TESTS) if (strcmp(te.name, name) == 0) {
      found = true;
      Rec r; r.fn = te.name; r.tuple = t;
      Quality::ResetToDefaults();
      te.fn(t, r);
      emit(r);
    }
    if (!found) { printf("R %s %d MISSING |\n", name, t); fflush(stdout); }
  }
  P = Pools();
  return 0;
}
''')
    txt = "\n".join(parts)
    old = open(path).read() if os.path.exists(path) else None
    if old != txt:
        os.makedirs(os.path.dirname(path), exist_ok=True)
        with open(path, "w") as f:
            f.write(txt)
    return tests, table_only, ops


def build_split(hpath):
    """ASan/UBSan build of library core, binding and generated harness, cached separately: an edit under
    bindings/c recompiles five files and the harness, not the 24 library sources (vp.build_lib keys
    everything on every repo file).  Same flags as vp's `san` variant."""
    import glob, shlex, shutil
    cf, lf = vp.VARIANTS["san"]
    base = list(vp.BASE_CXX) + cf
    inc = ["-I" + os.path.join(vp.REPO, "bindings/c/include"), "-I" + os.path.join(vp.REPO, "bindings/c")]
    core_srcs = sorted(glob.glob(os.path.join(vp.REPO, "src/*.cpp")))
    core_deps = core_srcs + glob.glob(os.path.join(vp.REPO, "src/*.h")) + glob.glob(os.path.join(vp.REPO, "include/manifold/*.h"))
    import hashlib

    def content_hash(files, extra):
        # contents and repo-relative names only: a scratch worktree with the same library sources shares the core build
        h = hashlib.sha256(extra.encode())
        for f_ in sorted(files):
            h.update(os.path.relpath(f_, vp.REPO).encode())
            h.update(open(f_, "rb").read())
        return h.hexdigest()[:16]
    flags_id = " ".join(x for x in base if not x.startswith("-I"))
    ckey = content_hash(core_deps, flags_id)
    cdir = os.path.join(vp.BUILD, "c20core-" + ckey)
    core = os.path.join(cdir, "libcore.a")

    def compile_all(d, srcs, flags):
        os.makedirs(d, exist_ok=True)
        jobs = [" ".join(shlex.quote(x) for x in flags + ["-c", s_, "-o", os.path.join(d, os.path.basename(s_) + ".o")]) for s_ in srcs]
        rc, out = vp.sh(["xargs", "-P", str(vp.NPROC), "-I", "CMD", "bash", "-c", "CMD"], input="\n".join(jobs) + "\n", timeout=2400)
        if rc != 0:
            shutil.rmtree(d, ignore_errors=True)
            raise vp.BuildError("C20 build failed:\n" + out[-3000:])
    if not os.path.exists(core):
        compile_all(cdir, core_srcs, base)
        rc, out = vp.sh("ar rcs %s %s/*.o" % (shlex.quote(core), shlex.quote(cdir)))
        if rc != 0:
            raise vp.BuildError(out)
    os.utime(cdir)
    bsrcs = sorted(glob.glob(os.path.join(vp.REPO, "bindings/c/*.cpp")))
    bkey = vp.file_hash(vp.repo_sources(), " ".join(base))
    bdir = os.path.join(vp.BUILD, "c20bind-" + bkey)
    if not all(os.path.exists(os.path.join(bdir, os.path.basename(s_) + ".o")) for s_ in bsrcs):
        compile_all(bdir, bsrcs, base + inc)
    os.utime(bdir)
    hdrs = glob.glob(os.path.join(vp.ROOT, "harness", "c20_*.h"))
    hkey = vp.file_hash(vp.repo_sources() + [hpath] + hdrs, " ".join(base))
    hdir = os.path.join(vp.BUILD, "h-c20_cbind-split-" + hkey)
    exe = os.path.join(hdir, "c20_cbind")
    if not os.path.exists(exe):
        os.makedirs(hdir, exist_ok=True)
        cmd = base + ["-O0"] + inc + [hpath] + sorted(glob.glob(os.path.join(bdir, "*.o"))) + [core, "-o", exe] + lf + ["-lpthread"]
        rc, out = vp.sh(cmd, timeout=2400)
        if rc != 0:
            shutil.rmtree(hdir, ignore_errors=True)
            raise vp.BuildError("generated harness failed to build against the binding:\n" + out[-4000:])
    os.utime(hdir)
    for pref in ("c20core-", "c20bind-", "h-c20_cbind-split-"):
        for d in glob.glob(os.path.join(vp.BUILD, pref + "*")):
            if d not in (cdir, bdir, hdir) and time.time() - os.path.getmtime(d) > 6 * 3600:
                shutil.rmtree(d, ignore_errors=True)
    return exe


def diagnose(cx, work):
    """The Coq obligations failed: ask Coq which table entries / tables are rejected (names only)."""
    v = os.path.join(work, "C20Diag.v")
    with open(v, "w") as f:
        f.write("""From Coq Require Import String List Bool.
From MV Require Import Proto.CBindDefs Gen.CBind.
Import ListNotations.
Definition handles := map (fun t => (fst (fst t), snd (fst t))) handles_from.
Eval vm_compute in ("ENTRIES"%string, map e_name (filter (fun e => negb (wrapper_ok_with handles c_structs e)) table)).
Eval vm_compute in ("FAMILIES"%string, filter (fun h => negb (family_ok table handles h)) opaque_handles,
                    map e_name (filter (fun e => negb (size_entry_ok handles e)) table), handle_maps_ok handles_from handles_to).
Eval vm_compute in ("ENUMS"%string, map (fun t => fst (fst t)) (filter (fun t => negb (enum_from_ok c_enums cxx_enums t)) enum_from),
                    map (fun t => fst (fst t)) (filter (fun t => negb (enum_to_ok c_enums cxx_enums t)) enum_to),
                    enum_roundtrip_ok enum_from enum_to, enums_covered c_enums enum_from enum_to, forallb vec_conv_ok vec_convs).
Eval vm_compute in ("COMPLETE"%string, header_only, undeclared).
Eval vm_compute in ("OPTIONS"%string, map (fun t => fst (fst t)) (filter (fun t => negb (opt_table_ok c_structs t)) opt_tables),
                    opt_tables_cover option_structs table opt_tables).
""")
    rc, out = vp.sh(["coqc", "-Q", vp.COQ, "MV", v], cwd=work, timeout=300)
    flat = " ".join(out.split())
    sus = []
    m = re.search(r'"ENTRIES"%string, \[(.*?)\]\)', flat)
    if m:
        for fn in re.findall(r'"(\w+)"', m.group(1)):
            sus.append(fn)
            cx.broke("wrappers_faithful:" + fn, "table entry of %s is rejected by wrapper_ok (routing / placement / callback context no longer as specified)" % fn)
    m = re.search(r'"FAMILIES"%string, \[(.*?)\], \[(.*?)\]', flat)
    if m:
        for h in re.findall(r'"(\w+)"', m.group(1)):
            cx.broke("families_consistent:" + h, "size/alloc/destruct/delete family of %s no longer uses one and the same C++ type" % h)
            sus.append("*")
        for fn in re.findall(r'"(\w+)"', m.group(2)):
            cx.broke("families_consistent:" + fn, "%s returns the size of a type that is no handle type" % fn)
    m = re.search(r'"ENUMS"%string, \[(.*?)\], \[(.*?)\]', flat)
    if m:
        for en in re.findall(r'"(\w+)"', m.group(1) + " " + m.group(2)):
            cx.broke("enum_tables_bijective:" + en, "switch table converting %s no longer maps identically named enumerators one to one" % en)
            sus.append("*")
    m = re.search(r'"OPTIONS"%string, \[(.*?)\]', flat)
    if m:
        for fn in re.findall(r'"(\w+)"', m.group(1)):
            sus.append(fn)
            cx.broke("options_marshalled_faithfully:" + fn, "an option block of %s no longer guards on the field it copies / routes it to the member of the same name" % fn)
    cx.cov["coq_diagnosis"] = flat[-1500:]
    return sus


# --------------------------------------------------------------------- run

def run(cx):
    cx.assumptions += [
        "the translator's symbolic reading of each wrapper body (clang 14 JSON AST) is trusted for the Coq table; it is cross-checked by the generated harness, whose C++ side is routed by the specification, not by the table's routes",
        "the heap model sees a call as (placement-constructions, plain news, deletes) counted syntactically in the wrapper body",
        "C++ parameters that are unnamed in the public headers cannot be name-matched; for those the harness is the only tie",
        "sanitizers (ASan/UBSan/LSan) act as witness finders only",
    ]
    work = os.path.join(vp.BUILD, "c20" if vp.REPO == "/repo" else "c20-" + vp.repo_hash())
    gen_v = os.path.join(vp.COQ, "Gen", "CBind.v")
    t0 = time.time()
    T = None
    # the table is a pure function of the binding sources, the public headers, the translator and clang:
    # content-hash keyed cache (any edit under bindings/c, include/ or src/ re-runs clang)
    key = vp.file_hash(vp.repo_sources() + [os.path.join(vp.ROOT, "translate", "c20_cbind.py")], "clang14")
    cached = os.path.join(work, "cbind-%s.json" % key)
    try:
        if os.path.exists(cached):
            T = json.load(open(cached))
            TR.emit_coq(gen_v, T)
            cx.notes.append("translator table reused from content-hash cache %s" % os.path.basename(cached))
        else:
            T = TR.translate(vp.REPO, work, gen_v, os.path.join(work, "cbind.json"))
            with open(cached, "w") as f:
                json.dump(T, f)
        cx.obligation("translate:every exported function classified", True)
    except TR.Unclassified as ex:
        cx.obligation("translate:every exported function classified", False,
                      "the translator can no longer read bindings/c (broken tie): %s" % str(ex)[:600])
    cx.log("translator: %s functions in %.1fs" % (len(T["entries"]) if T else "?", time.time() - t0))
    if T is None:
        # fall back to the last table so that the remaining machinery still runs
        last = os.path.join(work, "cbind.json")
        if not os.path.exists(last):
            return
        T = json.load(open(last))
    kinds = {}
    for e in T["entries"]:
        kinds[e["kind"]["k"]] = kinds.get(e["kind"]["k"], 0) + 1
    cx.cov["functions"] = len(T["entries"])
    cx.cov["function_kinds"] = kinds
    proved = cx.prove()
    suspects = [] if proved else diagnose(cx, work)

    ntuples = cx.pick(4, 12)
    hpath = os.path.join(vp.ROOT, "harness", "c20_cbind.cpp") if vp.REPO == "/repo" else os.path.join(work, "c20_cbind.cpp")
    tests, table_only, ops = generate_harness(T, hpath, ntuples)
    cx.cov["table_checked_only"] = [{"function": f, "why": w} for f, w in table_only]
    cx.cov["families_exercised_by_every_handle_test"] = sorted(
        e["name"] for e in T["entries"] if e["kind"]["k"] in ("alloc", "destruct", "delete"))
    exe = build_split(hpath)
    lines = []
    for fn, k in tests:
        for t in range(k):
            lines.append("%s %d" % (fn, t if k == 32 else (t + cx.seed) % 12 if k > 1 else 0))
    # search aimed at the functions whose table entry no longer passes the Coq checkers: all 12 tuples
    for fn in suspects:
        for fn2, k in tests:
            if k > 1 and k != 32 and fn2 == fn:
                lines += ["%s %d" % (fn2, t) for t in range(12) if "%s %d" % (fn2, t) not in lines]
    rng = random.Random(cx.seed * 7919 + 20)
    nprog = cx.pick(10, 200)
    prog_lines = ["PROG %d 40" % rng.randrange(1, 10 ** 6) for _ in range(nprog)]
    cx.cov["program_ops"] = ops
    env = {"ASAN_OPTIONS": "detect_leaks=1:abort_on_error=0:exitcode=23", "UBSAN_OPTIONS": "print_stacktrace=0",
           "LSAN_OPTIONS": "exitcode=24"}
    kl = lambda l: " ".join(l.split()[:2])
    ko = lambda l: " ".join(l.split()[1:3]) if l.startswith("R ") else None
    # the cases are independent: run them in parallel chunks (each process ends with a LeakSanitizer pass)
    from concurrent.futures import ThreadPoolExecutor
    allc = lines + prog_lines
    nw = max(1, min(8, vp.NPROC // 2))
    size_cases = [l for l in allc if l.split()[0].endswith("_size")]       # cannot crash: own chunk, never starved by restarts
    rest_cases = [l for l in allc if not l.split()[0].endswith("_size")]
    chunks = [size_cases] + [rest_cases[i::nw] for i in range(nw)]
    with ThreadPoolExecutor(nw + 1) as ex:
        parts = list(ex.map(lambda ch: vp.run_cases(exe, ch, kl, ko, timeout=1500, max_restarts=6, env=env), chunks))
    out = "".join(p[0] for p in parts)
    crashes = [c for p in parts for c in p[1]]
    lines = allc
    results = {}
    for l in out.splitlines():
        if l.startswith("R "):
            p = l.split(" ", 4)
            results[(p[1], p[2])] = (p[3], p[4] if len(p) > 4 else "")
    ndiff, nontriv, seen = 0, 0, set()
    for (fn, t), (st, rest) in sorted(results.items(), key=lambda kv: (kv[0][0] == "PROG", kv[0][0], int(kv[0][1]) if kv[0][1].lstrip("-").isdigit() else 0)):
        if st == "DIFF" and fn == "PROG":
            ndiff += 1
            args, _, what = rest.partition("|")
            m = re.match(r"\s*(\w+) c=", what)
            cx.violation("cbind:" + (m.group(1) if m else "program"),
                         "mirrored call program (%s): an object made by %s differs between the C and the C++ side: %s" % (args.strip(), m.group(1) if m else "?", what[:300]),
                         {"program_seed": int(t), "arguments": args.strip(), "difference": what, "replay": "echo 'PROG %s 40' | %s" % (t, exe)})
        elif st == "DIFF":
            ndiff += 1
            args, _, what = rest.partition("|")
            cx.violation("cbind:" + fn, "%s: C call and the C++ call it names differ on (%s): %s" % (fn, args.strip(), what[:300]),
                         {"function": fn, "tuple": int(t), "arguments": args.strip(), "difference": what, "replay": "echo '%s %s' | %s" % (fn, t, exe)})
        elif st == "MISSING":
            cx.broke("corr:C20/" + fn, "test for %s missing from the generated harness" % fn)
        if (fn, rest.partition("|")[0]) not in seen:
            seen.add((fn, rest.partition("|")[0]))
            if "(empty array" not in rest and st in ("OK", "DIFF"):
                nontriv += 1
    for n_cr, (cl, rc, err) in enumerate(crashes):
        fn = cl.split()[0] if cl and not cl.startswith("<") else "exit"
        if n_cr < 8 and not cl.startswith("<"):
            # run_cases keeps only the tail of stderr: re-run the one case to get the head of the sanitizer report
            rc1, _o, err1 = vp.sh2([exe], input=cl + "\n", timeout=300, env=env)
            if rc1 != 0:
                rc, err = rc1, err1
        m = re.search(r"(ERROR: \w+Sanitizer: [^\n]*|runtime error: [^\n]*|terminate called[^\n]*)", err)
        sm = re.search(r"SUMMARY: [^\n]*", err)
        kind = "LeakSanitizer" if "LeakSanitizer" in err else "sanitizer" if ("Sanitizer" in err or "runtime error" in err or "ABORTING" in err or rc in (23, 24)) else "crash"
        head = ((m.group(1) if m else "") + " " + (sm.group(0) if sm else "")).strip() or err[-200:]
        cx.violation("cbind:" + fn, "%s: %s report (rc=%s) while calling the C function and its C++ mirror: %s" % (fn, kind, rc, head[:300]),
                     {"function": fn, "case": cl, "rc": rc, "report": head[:600], "stderr_tail": err[-600:], "replay": "echo '%s' | %s" % (cl, exe)})
    missing = [l for l in lines if tuple(l.split()[:2]) not in results and not any(c[0] == l for c in crashes)]
    if missing and not crashes:
        cx.broke("corr:C20/harness", "no result for %d cases, e.g. %s" % (len(missing), missing[:3]))
    cx.cov.update({
        "evaluations": len(results), "distinct_nontrivial": nontriv,
        "rule": "one evaluation = one exported C function called on one generated argument tuple next to the C++ call it names (arguments routed by name/x,y,z order/enumerator name, "
                "every scalar of a tuple distinct); distinct by (function, argument tuple); non-trivial = the pair of calls ran to completion and produced a compared result "
                "(objects are non-empty pool solids/cross-sections/meshes)",
        "programs": nprog,
        "distribution": {"functions_with_dynamic_test": len(tests), "mirrored_programs_of_40_calls": nprog, "functions_total": len(T["entries"]), "tuples_per_function": ntuples,
                         "table_checked_only": len(table_only), "differences": ndiff, "sanitizer_or_crash": len(crashes)},
        "traces_validated_against_impl": len(results) - ndiff,
    })
    for key in [("manifold_translate", None), ("manifold_cylinder", None), ("manifold_cross_section_offset", None)]:
        for (fn, t), (st, rest) in results.items():
            if fn == key[0]:
                cx.sample({"function": fn, "tuple": t, "verdict": st, "arguments": rest.partition("|")[0].strip()})
                break
    e0 = [e for e in T["entries"] if e["name"] == "manifold_translate"]
    if e0:
        cx.sample({"table_entry": {k: e0[0][k] for k in ("name", "params", "calls", "result", "news")}})
