"""C05 - Manifolds and CrossSections are values: deriving new ones never changes old ones.
proof of the copy-on-write discipline (Coq) + table regenerated from /repo's sources on every run +
random public-API histories against the real library (hash of every live object after every step)."""
import os, sys, re, json, random, time
import vp
import hashlib

sys.path.insert(0, os.path.join(vp.ROOT, "translate"))

LEVEL = "proof"
META = {
    "level": "proof",
    "technique": "Coq proof (soundness of a copy-on-write discipline checker for all histories) + source-to-table translator with the "
                 "checker run by vm_compute on the regenerated table + randomized history search on the real library",
    "text": "Coq theorem discipline_sound: in an executable model of the library's storage (SharedVec buffers with use counts, an Impl = three "
            "shared halfedge buffers + deep-copied vectors, copy shares, MakeUnique clones iff count>1, writes never look at the count, "
            "Manifold handles with lazy transforms whose forcing replaces the Impl pointer) every table of functions accepted by the Gallina "
            "checker discipline_ok keeps, for every history of public operations, branch outcomes, loop counts and written data, the observation "
            "of every handle alive before a step unchanged by the step, and a copy observes what its original observes; without the discipline "
            "the model exhibits a history that changes an old object (write_without_make_unique_refuted). translate/c05_cow.py regenerates the "
            "table (every function touching halfedge storage: write sites, MakeUnique sites, Impl copies, call graph, block structure) from "
            "/repo on every run and discipline_holds re-checks it by vm_compute, also for 'copy an Impl, then call M' for each self-protecting "
            "Impl method. Random histories (<=12 live objects, <=60 steps, all operations the property names, Manifolds and CrossSections, "
            "lazy/eager observation) run on the real library: hashes of full exports and getters of every object never change over its "
            "lifetime, copies hash like originals, use counts are consistent, and the table is cross-checked against observed Impl-level "
            "sharing behaviour.",
    "note": "Trusted: Coq kernel/vm_compute; the token-level translator (fails loudly on unclassified uses of halfedge_; cross-checked "
            "dynamically per Impl method); C++ const-correctness for the deep-copied vectors and for Impls reached through shared_ptr<const Impl> "
            "(plain-vector writes are not extracted); objects returned by value from a table function are modelled as owned with unknown sharing; "
            "use counts equal the number of Vec handles (derived, not stored, in the model). CrossSection (shared_ptr<const PathImpl>, no "
            "copy-on-write buffers) is covered by the history search only.",
}

KEY_OLD = "old-object-changed"


def gen_table(cx):
    import importlib
    import c05_cow
    importlib.reload(c05_cow)
    gen = os.path.join(vp.COQ, "Gen")
    os.makedirs(gen, exist_ok=True)
    path = os.path.join(gen, "CowTable.v")
    try:
        v, meta, kernels = c05_cow.build(vp.REPO)
    except c05_cow.TranslateError as ex:
        # keep an (unsatisfiable) table so that the Coq obligation visibly fails too
        with open(path, "w") as f:
            f.write("(* translator failed: table that fails the discipline on purpose *)\nFrom Coq Require Import List.\n"
                    "From MV Require Import Proto.CowDefs.\nImport ListNotations.\n"
                    "Definition table : list fn := [ mkFn 1 true [EWrite 0 0] ].\n")
        cx.broke("translate:c05_cow", "translator cannot classify a construct in the current sources: %s" % ex)
        return None, None
    old = open(path).read() if os.path.exists(path) else None
    if old != v:
        with open(path, "w") as f:
            f.write(v)
    diag = c05_cow.diagnose(meta)
    return meta, diag


def run(cx):
    t0 = time.time()
    cx.assumptions += [
        "the model's use count of a buffer is the number of Impl slots referring to it (SharedVec copy/dealloc keep count_ equal to that; "
        "checked dynamically: reported counts are never below the number of live sharers)",
        "writes to deep-copied vectors (vertPos_, properties_, ...) and constness of Impls behind shared_ptr<const Impl> are left to the C++ type system",
        "block structure over-approximates control flow (a block runs 0..n times; every prefix of a run is a run); switch/goto around storage events are rejected by the translator",
        "the translator is token-level; it fails loudly on any use of halfedge_ / a mutable Halfedges alias it cannot classify",
        "methods listed in corpus/C05/self_protecting.txt (from the property's anchors) plus every method with its own top-level MakeUnique must be callable on a sharing copy",
    ]
    meta, diag = gen_table(cx)
    ok = cx.prove()
    targets = []       # Impl methods whose discipline broke: the search aims at them
    if meta is not None:
        nfun = len(meta)
        cx.cov["table"] = {"functions": nfun, "entries": sum(1 for m in meta if m["entry"]),
                           "make_unique_sites": sum(m["n_mu"] for m in meta), "write_events": sum(m["n_write"] for m in meta),
                           "call_edges": sum(m["n_calls"] for m in meta),
                           "synthetic_copy_then_call": [m["synthetic"] for m in meta if m.get("synthetic")]}
        cx.obligation("table:size", nfun >= 40 and sum(m["n_mu"] for m in meta) >= 5,
                      "generated table is implausibly small (%d functions): the translator lost the sources" % nfun)
        if diag:
            for d in diag[:6]:
                cx.broke("discipline:%s" % d["entry"], "%s:%d %s" % (d["file"], d["line"], d["why"]))
            for d in diag:
                m = re.search(r" in Manifold::Impl::(\w+) ", d["why"])
                if m and m.group(1) not in targets:
                    targets.append(m.group(1))
                m = re.search(r" in Manifold::(\w+) \[", d["why"])          # public method that writes a copied Impl itself
                if m and m.group(1) != "Impl" and m.group(1) not in targets:
                    targets.append(m.group(1))
                m = re.search(r"copy-then-call Manifold::Impl::(\w+)", d["entry"])
                if m and m.group(1) not in targets:
                    targets.append(m.group(1))
        if bool(diag) == ok:
            cx.broke("diagnose:mirror", "the Python mirror of the checker and the Coq obligation disagree (coq ok=%s, mirror failures=%d)" % (ok, len(diag)))
    import c05_cow
    tg_ok, tg_desc = c05_cow.teardown_guard(vp.REPO)
    cx.obligation("teardown:CsgOpNode-destructor-guard", tg_ok, tg_desc)
    cx.cov["teardown_guard"] = tg_desc
    cx.log("static part done in %.1fs; targets=%s teardown_guard=%s" % (time.time() - t0, targets, tg_ok))
    dynamic(cx, meta, targets, boost_deferred=not tg_ok)


def dynamic(cx, meta, targets, boost_deferred=False):
    try:
        import importlib
        import c05_hist
        importlib.reload(c05_hist)
    except ImportError as ex:
        cx.broke("harness:c05_hist", "history library missing: %s" % ex)
        return
    exe = vp.build_harness("c05_hist", "seq", link_lib=True)
    rng = random.Random(cx.seed * 104729 + 5)
    n_hist = cx.pick(220, 6000)
    still_open = c05_hist.open_defects(vp.REPO)       # defects of other properties whose triggers corrupt the heap
    avoid = bool(still_open)
    cx.cov["generator_avoids_open_defects"] = sorted(still_open)
    hists = []
    for hid in range(1, n_hist + 1):
        mode = "lazy" if hid % 3 == 0 else "eager"
        nsteps = rng.choice([12, 20, 30, 45, 60])
        focus = None
        if hid % 5 == 0:
            focus = rng.choice(["DedupePropVerts", "SortGeometry", "Subdivide", "SetNormals", "SimplifyTopology2", "Refine", "SetProperties"])
        hists.append(c05_hist.line(hid, mode, c05_hist.gen_history(rng, hid, mode, nsteps, focus, avoid_known=avoid)))
    # search aimed at broken obligations: 4x budget on the methods that lost their dominator
    if targets:
        extra = cx.pick(400, 4000)
        for k in range(extra):
            hid = n_hist + 1 + k
            hists.append(c05_hist.line(hid, "eager", c05_hist.gen_history(rng, hid, "eager", rng.choice([8, 14, 24]), targets[k % len(targets)], avoid_known=avoid)))
    run_histories(cx, c05_hist, exe, hists)
    deferred(cx, c05_hist, exe, boost_deferred)
    # assignment between relatives (Manifold and CrossSection), unobserved unless looked at
    rng2 = random.Random(cx.seed * 3571 + 77)
    ah = []
    for k in range(cx.pick(300, 5000)):
        ah.append(c05_hist.line("a%d" % (k + 1), "lazy0" if k % 4 else "lazy", c05_hist.gen_assign(rng2, k, rng2.choice([10, 18, 30, 50]))))
    before = dict(cx.cov)
    run_histories(cx, c05_hist, exe, ah)
    cx.cov["assignment_histories"] = {"histories": len(ah), "oracle_failures": cx.cov.get("oracle_failures"),
                                      "rule": "x = y, x = x, x = move(y) between lazy-transform relatives and copies of Manifolds and CrossSections; "
                                              "afterwards x hashes like y and y never changes"}
    for k_ in ("evaluations", "distinct_nontrivial", "steps", "rule", "distribution", "oracle_failures", "history_wall_s"):
        if k_ in before:
            cx.cov[k_] = before[k_] + (len(ah) if k_ == "evaluations" else 0) if k_ in ("evaluations",) else before[k_]
    impl_level(cx, c05_hist, exe, meta, targets)


def hid_of(l):
    p = l.split()
    return p[1] if len(p) > 1 and p[0] in ("H", "O", "P", "N", "U", "X", "E", "S", "T", "G", "Q") else None


def run_histories(cx, H, exe, hists):
    t0 = time.time()
    out, crashes = vp.run_cases(exe, hists, lambda l: l.split()[1] if l.startswith("H ") else None,
                                lambda l: hid_of(l) if l[:2] in ("O ", "N ", "U ", "X ", "P ", "T ", "Q ", "G ") else None, timeout=1500)
    for cl, rc, err in crashes:
        cx.violation("history-crash", "the library crashed or hung (rc=%s) on a history of public value operations: %s" % (rc, err[-300:]),
                     {"history": cl})
    by = {}
    for l in out.splitlines():
        h = hid_of(l)
        if h is not None:
            by.setdefault(h, []).append(l)
    nontriv, steps, fails = 0, 0, 0
    seen_keys = set()
    for hl in hists:
        hid = hl.split()[1]
        text = "\n".join(by.get(hid, []))
        steps += max(0, len(hl.split()) - 3)
        try:
            fs = H.judge(hl, text)
        except Exception as ex:
            cx.broke("harness:generator", "history %s invalid for the harness: %s" % (hid, str(ex)[:300]))
            continue
        if H.nontrivial(hl, text):
            nontriv += 1
        for f in fs:
            fails += 1
            key = f["key"]
            if key in seen_keys:
                continue
            seen_keys.add(key)
            try:
                small = H.shrink(exe, hl, key)
            except Exception:
                small = hl
            cx.violation(key, "%s (step %s, slot %s): %s" % (key, f.get("step"), f.get("slot"), f.get("what", "")[:300]),
                         {"history": small, "original_history": hl, "how_to_replay": "echo '<history>' | %s" % exe})
    st = H.stats(hists)
    cx.cov.update({"evaluations": len(hists), "distinct_nontrivial": nontriv, "steps": steps,
                   "rule": "one evaluation = one random history of public operations on a pool of <=12 live Manifolds/CrossSections; after every step "
                           "every live object (eager) / touched and looked-at objects (lazy) is hashed; non-trivial = a step derived from or mutated "
                           "an object whose Impl shared a halfedge buffer with another live object",
                   "distribution": st, "oracle_failures": fails, "history_wall_s": round(time.time() - t0, 1)})
    if hists:
        cx.sample({"history": hists[0][:400]})
        cx.sample({"history": hists[len(hists) // 2][:400]})


# minimized witnesses of recorded findings of the deferred-observation oracle (run first, in both tiers)
DEFERRED_CORPUS = [
    # A = cylinder, R = rotated (cube + cylinder): ((A + R) + A) + R.  Evaluated lazily the flattened union gives the
    # volume of A + R (0.348016587); with every intermediate forced, the last union X + R (R inside X, sharing part of
    # its boundary) returns 0.348359301 - forcing an intermediate changes a later result (root cause: the Boolean
    # kernel on nearly coincident faces, C02 territory)
    ["cube:1:2:2:3:1", "cyl:14:2:2:1:6:0", "bool:10:1:14:0:1", "rot:5:10:5:1:2", "bool:11:14:5:0:1", "bool:13:11:14:0:1", "bool:6:13:5:0:0"],
]


def deferred(cx, H, exe, boost=False):
    """Deferred observation: pure CSG histories in mode lazy0 (objects looked at late, after unevaluated relatives
    were reassigned/dropped) against the reference evaluation (same history, everything evaluated when built)."""
    t0 = time.time()
    rng = random.Random(cx.seed * 7927 + 55)
    n = cx.pick(250, 5000) * (4 if boost else 1)       # search aimed at a broken teardown obligation
    cases = [H.gen_deferred(rng, k, rng.choice([10, 16, 24, 40])) for k in range(1, n + 1)]
    outs = {}
    for mode in ("lazy0", "eager"):
        lines = [H.line(k + 1, mode, ops) for k, ops in enumerate(cases)]
        out, crashes = vp.run_cases(exe, lines, lambda l: l.split()[1] if l.startswith("H ") else None,
                                    lambda l: hid_of(l) if l[:2] in ("O ", "N ", "U ", "X ", "P ", "G ", "Q ") else None, timeout=1500)
        for cl, rc, err in crashes:
            cx.violation("history-crash", "the library crashed or hung (rc=%s) on a history of lazy CSG value operations (%s): %s" % (rc, mode, err[-300:]),
                         {"history": cl})
        by = {}
        for l in out.splitlines():
            h = hid_of(l)
            if h is not None:
                by.setdefault(h, []).append(l)
        outs[mode] = by
    compared, late, fails, seen = 0, 0, 0, set()
    shrunk_budget = [24]
    # corpus first: minimized histories of recorded findings (known_findings.txt), keyed by the hash of their op list
    for ci, cops in enumerate(DEFERRED_CORPUS):
        for f in H.run_deferred(exe, cops, hid="c%d" % ci):
            if f["key"] != H.DEFER_KEY:
                continue
            key = "%s:%s" % (H.DEFER_KEY, hashlib.sha1(" ".join(cops).encode()).hexdigest()[:12])
            if key not in seen:
                seen.add(key)
                cx.violation(key, "%s: %s" % (H.DEFER_KEY, f.get("what", "")[:400]),
                             {"history_lazy0": H.line("c%d" % ci, "lazy0", cops), "reference_history": H.line("c%d" % ci, "eager", cops),
                              "how_to_replay": "echo '<history>' | %s   (G lines: status,empty,volume,area,bbox bit patterns)" % exe})
    for k, ops in enumerate(cases):
        hid = str(k + 1)
        ol, oe = "\n".join(outs["lazy0"].get(hid, [])), "\n".join(outs["eager"].get(hid, []))
        ll = H.line(hid, "lazy0", ops)
        fs = []
        try:
            fs += H.judge(ll, ol) + H.judge(H.line(hid, "eager", ops), oe)
        except Exception as ex:
            cx.broke("harness:generator", "deferred history %s invalid for the harness: %s" % (hid, str(ex)[:300]))
            continue
        d = H.judge_deferred(ll, ol, oe)
        if d is not None:
            compared += 1
            fs += d
        late += sum(1 for t in ops if t.startswith("look:"))
        for f in fs:
            fails += 1
            generic = f["key"]
            if generic == H.DEFER_KEY:
                # input-specific key: the hash of the shrunk history (so that a listed known finding covers exactly
                # its own history and any other history is still reported); at most 24 shrinks per run
                if shrunk_budget[0] <= 0:
                    if generic in seen:
                        continue
                    seen.add(generic)
                    small = ops
                else:
                    shrunk_budget[0] -= 1
                    try:
                        small = H.shrink_deferred(exe, ops, generic)
                    except Exception:
                        small = ops
                key = "%s:%s" % (generic, hashlib.sha1(" ".join(small).encode()).hexdigest()[:12])
                if key in seen:
                    continue
                seen.add(key)
                cx.violation(key, "%s: %s" % (generic, f.get("what", "")[:400]),
                             {"history_lazy0": H.line(hid, "lazy0", small), "reference_history": H.line(hid, "eager", small),
                              "original": ll, "how_to_replay": "echo '<history>' | %s   (G lines: status,empty,volume,area,bbox bit patterns)" % exe})
                continue
            if f["key"] in seen:
                continue
            seen.add(f["key"])
            try:
                small = H.shrink_deferred(exe, ops, f["key"])
            except Exception:
                small = ops
            cx.violation(f["key"], "%s: %s" % (f["key"], f.get("what", "")[:400]),
                         {"history_lazy0": H.line(hid, "lazy0", small), "reference_history": H.line(hid, "eager", small),
                          "original": ll, "how_to_replay": "echo '<history>' | %s   (G lines: status,empty,volume,area,bbox bit patterns)" % exe})
    cx.cov["deferred"] = {"histories": len(cases), "comparable_with_reference": compared, "late_looks": late, "oracle_failures": fails,
                          "wall_s": round(time.time() - t0, 1),
                          "rule": "pure CSG histories (constructors, Booleans, lazy transforms, copies, op=, assignment, drop) in mode lazy0; "
                                  "each late observation is compared (status, volume, bounding box) with the same object in the same "
                                  "history run with every object evaluated when built"}
    cx.cov["evaluations"] = cx.cov.get("evaluations", 0) + len(cases)


def impl_level(cx, H, exe, meta, targets):
    """Impl-level cross-check of the translator's table: B = copy of A (shares the three buffers); call method m on B."""
    rc, out, err = vp.sh2([exe], input="I 0 list x\n", timeout=120)
    names = []
    for l in out.splitlines():
        if l.startswith("L "):
            names = l.split()[1:]
    if not names:
        cx.broke("corr:C05/impl-menu", "harness printed no Impl method menu: %s" % (out + err)[-300:])
        return
    raw = [x for l in out.splitlines() if l.startswith("LR ") for x in l.split()[1:]]
    lines, cid = [], 0
    menus = (0, 1, 2, 3, 4, 5, 12, 14) if hasattr(H, "impl_lines") else range(4)
    for m in names + raw:
        for arg in menus:
            cid += 1
            lines.append("I %d %s %d" % (cid, m, arg))
    out, crashes = vp.run_cases(exe, lines, lambda l: l.split()[1], lambda l: l.split()[1] if l.startswith("I ") else None, timeout=600)
    # harness probe names -> Impl method names of the table
    ALIAS = {"TransformMirror": "Transform", "TransformTranslate": "Transform", "TransformIdentity": "Transform",
             "CreateTangentsIdx": "CreateTangents", "CreateTangentsSharp": "CreateTangents"}
    NOT_A_METHOD = {"CopyAssign"}        # B = A2: plain Impl copy assignment (implicit operator=)
    by_name = {}
    if meta:
        for m in meta:
            if m["name"].startswith("Manifold::Impl::"):
                by_name.setdefault(m["name"].split("::")[-1], []).append(m)
    protecting = set(m["synthetic"] for m in (meta or []) if m.get("synthetic"))

    def closure_has(mm, kinds, seen=None):
        seen = seen or set()
        for m in mm:
            if m["index"] in seen:
                continue
            seen.add(m["index"])
            txt = " ".join(m["body"])
            if any(k in txt for k in kinds):
                return True
            for g in re.findall(r"ECall (\d+)", txt):
                if closure_has([meta[int(g)]], kinds, seen):
                    return True
        return False

    checked, mism = 0, 0
    res = {}
    for l in out.splitlines():
        if not l.startswith("I "):
            continue
        p = l.split()
        if len(p) < 4 or p[3] == "NA":
            continue
        f = dict(x.split("=", 1) for x in p[3:] if "=" in x)
        probe = p[2]
        name = ALIAS.get(probe, probe)
        if f.get("shared_before", "1") != "1":
            cx.broke("corr:C05/impl-probe#%s" % probe, "the Impl copy did not share buffers before the call: %s" % l[:200])
            continue
        res.setdefault(name, []).append(f)
        checked += 1
        a_unch, det, chg = f.get("a_unchanged") == "1", f.get("b_detached") == "1", f.get("b_changed") == "1"
        if not a_unch and (name in protecting or probe in NOT_A_METHOD or name == "Transform"):
            cx.violation("impl-copy-corrupts-original:" + name,
                         "Impl B; B = A (copy assignment shares start_/paired_/propVert_); B.%s() changed A's halfedge arrays: any Manifold still pointing at A changes" % name,
                         {"impl_case": l, "how_to_replay": "echo '%s' | %s" % (lines[int(p[1]) - 1] if p[1].isdigit() and 0 < int(p[1]) <= len(lines) else l, exe)})
        if meta and name in by_name:
            mm = by_name[name]
            has_w = closure_has(mm, ["EWrite", "EAssignFresh", "EMoveOut", "EAssignShare"])
            has_mu = closure_has(mm, ["EMakeUnique", "EAssignFresh", "EMoveOut", "EAssignShare"])
            if chg and not has_w:
                mism += 1
                cx.broke("corr:C05/table#%s" % name, "B.%s() changed B's halfedge arrays but the table has no write site reachable from it" % name)
            if det and not has_mu:
                mism += 1
                cx.broke("corr:C05/table#%s" % name, "B.%s() detached B's buffers from A but the table has no MakeUnique/assignment reachable from it" % name)
        elif meta and (chg or det) and probe not in NOT_A_METHOD:
            mism += 1
            cx.broke("corr:C05/table#%s" % name, "B.%s() touched halfedge storage (changed=%s detached=%s) but the method is not in the table" % (name, chg, det))
    for cl, rc, err in crashes:
        name = cl.split()[2]
        if name in protecting:
            cx.violation("impl-copy-crash:" + name, "calling %s on a copy of an Impl crashed (rc=%s): %s" % (name, rc, err[-200:]), {"impl_case": cl})
    cx.cov["impl_level"] = {"methods": len(names), "cases": checked, "table_mismatches": mism,
                            "self_protecting_checked": sorted(protecting & set(names))}
