"""C01 — every returned Manifold is a closed oriented 2-manifold or an empty error.

Layers: (P) Coq theorems: check_mesh_iff / check_counts_iff (the oracle decides exactly the
declarative predicate), pipeline_ok_sound over pass lists, the bounded CreateHalfedges gate
(Topo/Halfedge*.v); (T) translator translate/c01_pipeline.py -> Gen/Pipelines.v judged by the
extracted pipeline_ok, correspondence harness c01_topo (extracted port vs Impl arrays);
(S) end-to-end programs of public operations, every exported mesh judged by the EXTRACTED checker."""
import json, os, random, re, sys, threading, time
import vp
sys.path.insert(0, os.path.join(vp.ROOT, "translate"))

LEVEL = "proof"
META = {
    "level": "proof",
    "technique": "Coq: verified exact mesh checker (iff, all inputs); proved-sound abstract interpretation of the pass lists that (re)build an Impl, "
                 "regenerated from the C++ on every run; Gallina port of CreateHalfedges/IsManifold with a bounded exhaustive gate theorem and an "
                 "array-for-array correspondence with Manifold::Impl; extracted checker judging every mesh of random public-API programs (seq, and TBB in the thorough tier)",
    "text": "PROVED for all inputs: check_mesh_iff (check_mesh nV tris = true <-> indices in range, no repeated vertex in a triangle, every directed edge exactly once "
            "and its reverse exactly once, every vertex referenced) and check_counts_iff (NumVert/NumTri agree, NumEdge = 3T/2, chi even, Genus = 1 - chi/2); "
            "pipeline_ok_sound (for every pass list and every run allowed by the per-pass effect relations, acceptance by pipeline_ok implies no stranded vertex, "
            "no tombstone, sorted) and remove_unreferenced_no_stranded (the RemoveUnreferencedVerts row, on arrays). Also proved for all inputs (round 2): "
            "is_manifold_implies_inv / is_manifold_gate_sound (IsManifold accepted => HalfedgeInv, for every array, so for every CreateHalfedges output), export_closed "
            "(HalfedgeInv + no tombstone + no duplicate directed edge + vertices in range and referenced => the emitted triangles are Closed2Manifold and check_mesh accepts them), "
            "reindex_verts_preserves_inv (for every vertNew2Old), stable_sort_contract (the sort model is a stable sort), exec_remove_unreferenced_derived and "
            "sort_geometry_no_tombstone_partial (table rows derived from the ported functions), compaction_exports_closed (round 3: from HalfedgeInv + NaN-iff-unreferenced + "
            "no live directed edge twice, for every pair of Morton orders meeting their contracts, SortVerts then SortFaces then GetMeshGLImpl's index emission give a "
            "Closed2Manifold that check_mesh accepts - whenever the two ported calls are defined). Round 4: the oracle is check_mesh_v = check_mesh && check_vertex_manifold, proved for all inputs "
            "(check_mesh_v_iff, check_vertex_manifold_iff) to decide Closed2ManifoldV = edge-manifoldness AND one umbrella per vertex (the link of every vertex is one duplicate-free "
            "directed cycle); a pinched vertex is reported as pinched-vertex@<op>. PROVED for a stated bound only: "
            "is_manifold_gate_partial (ported CreateHalfedges + IsManifold: accepted iff directed edges balance, HalfedgeInv and opposed-pair removal facts, "
            "exhaustively for all lists of <= 3 triangles over 4 vertices, a 14 400-list family of 4 triangles, and all pairs over 5 vertices). "
            "CHECKED, not proved: the pass tables are read from src/*.cpp by translate/c01_pipeline.py and judged by the extracted pipeline_ok (a rejected pipeline is a "
            "broken obligation, reported through the concrete failing program when the search finds one); the CreateHalfedges port is compared with Impl::CreateHalfedges "
            "on generated soups (opposed pairs, duplicates, flips); the ports of PairUp, CollapseTri, RemoveIfFolded (all branches, hand-built folded/pillow states), FlipTris, "
            "ReindexVerts, RemoveUnreferencedVerts, SortVerts and SortFaces (Morton orders replayed from the implementation) are compared array-for-array with the real Impl "
            "methods after every step, and the extracted halfedge_inv / nan_iff_unreferenced / check_mesh judge the implementation's arrays; every Manifold produced by generated programs of public operations (constructors, import, Booleans incl. "
            "lattice/coincident operands, splits, transforms, warps, hulls, Minkowski, level sets, smoothing, refinement, simplification, decompose/compose, properties) is "
            "exported with GetMeshGL64, merged, and judged by the extracted checker; error Status must come with an empty Manifold; positions/properties must be finite.",
    "note": "Not reached (DESIGN.md C01 plan): the completeness half of the unbounded is_manifold_gate (balanced => accepted; live triangles = input minus opposed pairs), "
            "invariant-preservation THEOREMS for PairUp/CollapseTri/FlipTris/GatherFaces/RemoveIfFolded/SwapEdge/CollapseEdge (only checked by correspondence + extracted invariants), "
            "cleanup_even_to_2manifold (CleanupTopology is only judged: real Impl on hand-built even-manifold states with fans on both sides of the 32-neighbour switch, extracted "
            "invariants + check_mesh), definedness of SortVerts/SortFaces under compaction_exports_closed's hypotheses, HalfedgeInv of the compacted state (only the export is proved), "
            "merge vectors / property vertices of GetMeshGLImpl, mode-independence theorem for DedupeEdges' duplicate detection; the PAR range partition of CreateHalfedges and the >= 2^18-vertex bucket branch are not modelled "
            "(exercised only end-to-end in the thorough tier with real TBB). The per-pass effect relations are hand-written from reading the code (trusted) except the "
            "RemoveUnreferencedVerts row; generators of ShapeCtor/Sphere/Extrude/Hull are assumed to strand nothing (listed assumptions). So for the property's own "
            "quantifier (all programs) the guarantee is: theorem for the oracle and the abstract pass analysis, testing for everything else.",
}

HARNESS = "c01_prog"
FAMILIES = ["general", "lattice", "import", "smooth-refine", "collapse", "touching"]
FAMILY_WEIGHTS = [40, 14, 11, 12, 12, 11]
UNARY_GEOM = ("translate", "scale", "rotate", "mirror", "transform", "warp", "warpbatch")

# ------------------------------------------------------------------ program generator

def f3(x):
    return "%.3f" % x


def polys(rng):
    """A small catalogue of 2-D inputs: simple, holed, disjoint, touching, degenerate."""
    k = rng.randrange(12)
    ox, oy = rng.choice([0, 0, 0.5, -0.3, 1.0]), rng.choice([0, 0, 0.25, -0.5])
    s = rng.choice([0.5, 1.0, 1.5])

    def sq(x, y, w, h, ccw=True):
        p = [(x, y), (x + w, y), (x + w, y + h), (x, y + h)]
        return p if ccw else p[::-1]
    if k == 0:
        ps = [sq(ox, oy, s, s)]
    elif k == 1:
        ps = [[(ox, oy), (ox + 2 * s, oy), (ox + 2 * s, oy + s), (ox + s, oy + s), (ox + s, oy + 2 * s), (ox, oy + 2 * s)]]
    elif k == 2:
        ps = [sq(ox, oy, 3 * s, 3 * s), sq(ox + s, oy + s, s, s, ccw=False)]
    elif k == 3:
        n = rng.choice([5, 7, 8])
        import math
        ps = [[(ox + (s if i % 2 == 0 else 0.4 * s) * math.cos(math.pi * i / n),
                oy + (s if i % 2 == 0 else 0.4 * s) * math.sin(math.pi * i / n)) for i in range(2 * n)]]
    elif k == 4:
        ps = [sq(ox, oy, s, s), sq(ox + 2 * s, oy, s, s)]
    elif k == 5:                                   # two squares touching at a corner
        ps = [sq(ox, oy, s, s), sq(ox + s, oy + s, s, s)]
    elif k == 6:                                   # two squares sharing an edge
        ps = [sq(ox, oy, s, s), sq(ox + s, oy, s, s)]
    elif k == 7:                                   # overlapping squares (self-overlapping input)
        ps = [sq(ox, oy, s, s), sq(ox + s / 2, oy + s / 2, s, s)]
    elif k == 8:                                   # hole touching the outer boundary
        ps = [sq(ox, oy, 2 * s, 2 * s), sq(ox, oy + s / 2, s, s, ccw=False)]
    elif k == 9:                                   # contour touching the y axis (the Revolve axis) in ONE vertex
        ps = [[(0, oy), (s, oy - s), (2 * s, oy), (s, oy + s)]]
    elif k == 10:                                  # two contours touching the axis in the same point, and one in two points
        ps = [[(0, 0), (s, -s), (s, -s / 4)], [(0, 0), (s, s / 4), (s, s)]]
        if rng.random() < 0.5:
            ps = [[(0, 0), (s, s / 2), (0, s), (s / 2, s / 2 + 0.0)][:3] + [(0, s)], [(0, 2 * s), (s, 2 * s), (s, 3 * s)]]
    else:                                          # star with one tip exactly on the axis
        n = rng.choice([4, 5, 8])
        import math
        ps = [[(s + (s if i % 2 == 0 else 0.4 * s) * math.cos(math.pi + math.pi * i / n),
                oy + (s if i % 2 == 0 else 0.4 * s) * math.sin(math.pi + math.pi * i / n)) for i in range(2 * n)]]
        ps[0][0] = (0.0, oy)
    toks = [str(len(ps))]
    for p in ps:
        toks.append(str(len(p)))
        for x, y in p:
            toks += [f3(x), f3(y)]
    return toks


class Gen:
    def __init__(self, rng, maxops):
        self.rng, self.ins, self.maxops = rng, [], maxops

    def add(self, *toks):
        self.ins.append([str(t) for t in toks])
        return len(self.ins) - 1

    def pick(self):
        n = len(self.ins)
        if self.rng.random() < 0.6:
            return max(0, n - 1 - self.rng.randrange(min(n, 3)))
        return self.rng.randrange(n)

    def constructor(self):
        r = self.rng
        k = r.randrange(13)
        if k <= 2:
            return self.add("cube", f3(r.choice([1, 1, 2, 0.5, 1.5])), f3(r.choice([1, 1, 2, 0.75])), f3(r.choice([1, 1, 3, 0.5])), r.randrange(2))
        if k == 3:
            return self.add("sphere", f3(r.choice([0.5, 1, 1.2])), r.choice([0, 4, 8, 12, 16, 24]))
        if k == 4:
            return self.add("cyl", f3(r.choice([1, 2, 0.5])), f3(r.choice([1, 0.5, 0])), f3(r.choice([-1, 1, 0.5, 0])), r.choice([0, 3, 4, 6, 16]), r.randrange(2))
        if k == 5:
            return self.add("tet")
        if k == 6:
            return self.add("extrude", f3(r.choice([1, 0.5, 2])), r.choice([0, 0, 1, 3]), f3(r.choice([0, 0, 45, 360, -90])),
                            f3(r.choice([1, 1, 0.5, 0, 2])), f3(r.choice([1, 1, 0.5, 0, 2])), *polys(r))
        if k == 7:
            return self.add("revolve", r.choice([0, 3, 4, 8, 12]), f3(r.choice([360, 360, 180, 90, 270, 400])), *polys(r))
        if k == 8:
            if r.random() < 0.3:
                return self.add("soup", r.choice([10, 11, 12]), r.choice([8, 31, 32, 33, 34, 40, 64]), r.randrange(2, 5))
            return self.add("soup", r.choice([0, 0, 1, 2, 5, 6, 8, 9, 9]), r.choice([0, 1, 2, 3, 4, 5, 7]), r.choice([3, 4, 6, 9]))
        if k == 9:
            return self.add("levelset", r.randrange(6), f3(r.choice([0.5, 0.8, 1.0])), f3(r.choice([1.0, 1.3, 2.0])),
                            f3(r.choice([0.25, 0.3, 0.4, 0.5])), f3(r.choice([0, 0, 0.1, -0.1])), f3(r.choice([-1, -1, 0.01])), r.randrange(2))
        if k == 10:
            n = r.choice([4, 5, 8, 12, 30])
            mode = r.randrange(3)
            pts = []
            for _ in range(n):
                if mode == 0:
                    pts += [f3(r.uniform(-1, 1)), f3(r.uniform(-1, 1)), f3(r.uniform(-1, 1))]
                elif mode == 1:                   # lattice: many coplanar / collinear / duplicate points
                    pts += [str(r.randrange(3)), str(r.randrange(3)), str(r.randrange(3))]
                else:                             # coplanar
                    pts += [f3(r.uniform(-1, 1)), f3(r.uniform(-1, 1)), "0"]
            return self.add("hullpts", *pts)
        if k == 11:
            return self.box()
        return self.add("cube", "1", "1", "1", "1")

    def box(self):
        """lattice box [lo,hi] in {0..3}^3 built from Cube+Translate (exact)"""
        r = self.rng
        lo = [r.randrange(3) for _ in range(3)]
        hi = [l + 1 + r.randrange(3 - l) for l in lo]
        c = self.add("cube", *[str(h - l) for l, h in zip(lo, hi)], 0)
        if any(lo):
            c = self.add("translate", c, *[str(l) for l in lo])
        return c

    def geom(self, a):
        r = self.rng
        if r.random() < 0.04:
            # non-finite transform entries: must end in an EMPTY NonFiniteVertex error, also when the transform is
            # still pending on a lazy leaf / op node that reaches CsgLeafNode::Compose (bbox-disjoint union)
            bad = r.choice(["nan", "inf", "-inf", "nan"])
            k = r.randrange(5)
            if k == 0:
                v = ["0", "0", "0"]; v[r.randrange(3)] = bad
                return self.add("translate", a, *v)
            if k == 1:
                v = ["1", "1", "1"]; v[r.randrange(3)] = bad
                return self.add("scale", a, *v)
            if k == 2:
                v = ["0", "0", "0"]; v[r.randrange(3)] = bad
                return self.add("rotate", a, *v)
            m = ["1", "0", "0", "0", "1", "0", "0", "0", "1", "0", "0", "0"]
            m[r.randrange(9, 12) if k == 3 else r.randrange(9)] = bad      # translation column / linear part
            return self.add("transform", a, *m)
        k = r.randrange(9)
        if k == 0:
            return self.add("translate", a, f3(r.choice([0, 0.5, 1, -1, 0.1, 1e-3])), f3(r.choice([0, 0.5, 1, 0.2])), f3(r.choice([0, 0.5, 1, -0.3])))
        if k == 1:
            return self.add("scale", a, f3(r.choice([1, 2, 0.5, -1, 1.5])), f3(r.choice([1, 2, 0.5, -1])), f3(r.choice([1, 1, 3, 0.25, -2])))
        if k == 2:
            return self.add("rotate", a, f3(r.choice([0, 90, 45, 30, r.uniform(-180, 180)])), f3(r.choice([0, 90, 10, r.uniform(-180, 180)])), f3(r.choice([0, 180, r.uniform(-180, 180)])))
        if k == 3:
            return self.add("mirror", a, f3(r.choice([1, 0, 0, 1])), f3(r.choice([0, 1, 0, 1])), f3(r.choice([0, 0, 1, 0.5])))
        if k == 4:
            m = [r.choice([1, 0, 0.5, -1, 2, r.uniform(-1, 1)]) for _ in range(9)] + [r.uniform(-1, 1) for _ in range(3)]
            if r.random() < 0.5:                  # make it well conditioned most of the time
                m[0] += 2; m[4] += 2; m[8] += 2
            return self.add("transform", a, *[f3(x) for x in m])
        if k in (5, 6):
            kind = r.choice([0, 0, 1, 1, 2, 3, 3, 5, 6, 4 if r.random() < 0.3 else 0])
            return self.add(r.choice(["warp", "warpbatch"]), a, kind, f3(r.choice([0.1, 0.25, 0.5, 1.0])))
        if k == 7:
            return self.add("translate", a, "1", "0", "0")          # exact unit shift: coincident faces with the source
        return self.add("rotate", a, "0", "0", f3(r.choice([90, 180, 45])))

    def step(self):
        r = self.rng
        a = self.pick()
        k = r.randrange(34)
        if k <= 5:
            b = self.pick() if r.random() < 0.6 else self.geom(a)
            return self.add("bool", a, b, r.randrange(3))
        if k == 6:
            refs = [self.pick() for _ in range(r.choice([1, 2, 3, 4]))]
            return self.add("batch", r.randrange(3), *refs)
        if k == 7:
            return self.add("split", a, self.pick(), r.randrange(2))
        if k == 8:
            return self.add("splitplane", a, f3(r.choice([1, 0, 0, 0.3])), f3(r.choice([0, 1, 0, 0.3])), f3(r.choice([0, 0, 1, 0.9])),
                            f3(r.choice([0, 0.5, 1, 0.25, -0.5, 5])), r.randrange(2))
        if k == 9:
            return self.add("trim", a, f3(r.choice([1, 0, 0, -1])), f3(r.choice([0, 1, 0, 0.5])), f3(r.choice([0, 0, 1, 0.5])), f3(r.choice([0, 0.5, 1, -0.25])))
        if k <= 13:
            return self.geom(a)
        if k == 14:
            return self.add("hull", a)
        if k == 15:
            return self.add("hullmany", a, self.pick())
        if k == 16:
            return self.add(r.choice(["mink", "mink", "minkdiff"]), a, self.pick(), r.choice([150, 400]))
        if k == 17:
            return self.add("smoothout", a, f3(r.choice([52.5, 0, 30, 90, 180])), f3(r.choice([0, 0, 0.5, 1])))
        if k == 18:
            n = self.add("calcnormals", a, 0, f3(r.choice([52.5, 0, 30, 180])))
            return self.add("smoothbynormals", n, 0)
        if k == 19:
            return self.add("smoothmesh", a, r.randrange(2), r.randrange(1000), f3(r.choice([0, 0.5, 1])), r.randrange(1000), f3(r.choice([0, 0.2])))
        if k == 20:
            return self.add("refine", a, r.choice([1, 2, 3, 4, 5]))
        if k == 21:
            return self.add("refinelen", a, f3(r.choice([0.08, 0.1, 0.15, 0.3, 0.5])), 1)
        if k == 22:
            return self.add("refinetol", a, f3(r.choice([0.005, 0.01, 0.02, 0.05])), 1)
        if k == 23:
            return self.add("simplify", a, f3(r.choice([0, 0.01, 0.1, 0.3, 1.0])))
        if k == 24:
            return self.add("settol", a, f3(r.choice([0, 1e-3, 0.05, 0.2, 0.5])))
        if k == 25:
            return self.add("decompose", a, r.randrange(4))
        if k == 26:
            return self.add("compose", a, self.pick(), *( [self.pick()] if r.random() < 0.3 else []))
        if k == 27:
            return self.add("asoriginal", a)
        if k == 28:
            return self.add("calcnormals", a, r.choice([0, 0, 1, 3]), f3(r.choice([52.5, 0, 30, 180])))
        if k == 29:
            return self.add("setprops", a, r.randrange(5))
        if k == 30:
            return self.add("reimport", a, r.randrange(4))
        if k == 31:
            return self.add("calccurv", a, r.choice([0, 1, -1]), r.choice([1, 0, -1, 2]))
        if k == 32:
            s = self.add("smoothout", a, f3(r.choice([52.5, 30, 60])), f3(r.choice([0, 0, 0.3])))
            op = r.choice(["refinelen", "refinetol", "refine"])
            if op == "refine":
                return self.add("refine", s, r.choice([2, 3]))
            return self.add(op, s, f3(r.choice([0.1, 0.15, 0.05]) if op == "refinelen" else r.choice([0.01, 0.02])), 1)
        return self.constructor()


def gen_program(rng, family):
    g = Gen(rng, 10)
    if family == "smooth-refine":
        # random cube Booleans, smoothed, refined (design finding F6)
        a = g.add("cube", "1", "1", "1", "1")
        b = g.add("cube", "1", "1", "1", "1")
        b = g.add("rotate", b, f3(rng.uniform(0, 90)), f3(rng.uniform(0, 90)), f3(rng.uniform(0, 90)))
        b = g.add("translate", b, f3(rng.uniform(-0.4, 0.4)), f3(rng.uniform(-0.4, 0.4)), f3(rng.uniform(-0.4, 0.4)))
        c = g.add("bool", a, b, rng.randrange(3))
        s = g.add("smoothout", c, f3(rng.choice([52.5, 52.5, 30, 60])), f3(rng.choice([0, 0, 0.2])))
        if rng.random() < 0.65:
            g.add("refinelen", s, f3(rng.choice([0.15, 0.15, 0.1, 0.2])), 0)
        else:
            g.add("refinetol", s, f3(rng.choice([0.01, 0.02, 0.005])), 0)
    elif family == "collapse":
        # many edge collapses (CollapseEdge / RemoveIfFolded / FormLoop): dense or snapped meshes, large tolerances
        k = rng.randrange(7)
        if k == 0:
            a = g.add("sphere", "1", rng.choice([8, 12, 16, 24]))
        elif k == 1:
            a = g.add("levelset", rng.randrange(6), f3(rng.choice([0.5, 0.8])), "1.300", f3(rng.choice([0.25, 0.3, 0.4])), "0", "-1", 0)
        elif k == 2:
            a = g.add("refine", g.add("cube", "1", "1", "1", rng.randrange(2)), rng.choice([2, 3, 4]))
        elif k == 3:
            a = g.add("soup", 0, rng.choice([3, 4, 6, 8]), rng.choice([3, 4, 5, 7]))
        elif k == 4:
            a = g.add("refine", g.add("tet"), rng.choice([2, 3, 5]))
        elif k == 5:
            a = g.add("cyl", "1", "1", rng.choice(["1", "0", "0.5"]), rng.choice([6, 12, 20]), 0)
            a = g.add("refine", a, 2)
        else:
            b = g.add("sphere", "1", rng.choice([8, 12]))
            c = g.add("translate", b, f3(rng.choice([0.5, 1.0, 1.5])), "0", "0")
            a = g.add("bool", b, c, rng.randrange(3))
        for _ in range(rng.randrange(1, 4)):
            m = rng.randrange(6)
            if m == 0:
                a = g.add("warp", a, 3, f3(rng.choice([0.25, 0.5, 1.0])))          # snap to a lattice: zero-length edges
            elif m == 1:
                a = g.add("warp", a, rng.choice([2, 5]), "0")                        # flatten / fold
            elif m == 2:
                a = g.add("simplify", a, f3(rng.choice([0.05, 0.2, 0.5, 1.0, 3.0])))
            elif m == 3:
                a = g.add("settol", a, f3(rng.choice([0.05, 0.2, 0.5, 1.0, 3.0])))
            elif m == 4:
                a = g.add("scale", a, f3(rng.choice([1, 0.01, 1e-3])), "1", f3(rng.choice([1, 0.01])))
            else:
                a = g.add("asoriginal", a)
        g.add(rng.choice(["simplify", "settol"]), a, f3(rng.choice([0.1, 0.3, 1.0, 2.0])))
        if rng.random() < 0.4:
            g.add("bool", len(g.ins) - 1, g.add("cube", "1", "1", "1", 1), rng.randrange(3))
    elif family == "touching":
        # several solids in ONE MeshGL64 touching along a shared edge (wedges) or a shared vertex (bipyramids),
        # fans of N triangles at the shared vertices, N on both sides of DedupeEdges' 32-neighbour switch from
        # linear search to unordered_map; every triangle order makes CreateHalfedges pair the duplicates differently
        kind = rng.choice([10, 10, 10, 12, 12, 11, 11])
        if rng.random() < 0.08:
            kind += 100                     # + 2^18 unused vertices: CreateHalfedges' large-vertex-count branch
        N = rng.choice([8, 16, 31, 32, 33, 34, 40, 64, rng.randrange(3, 70)])
        a = g.add("soup", kind, N, rng.randrange(4) if kind % 100 != 11 else rng.choice([2, 3, 4, 5]))
        for _ in range(rng.randrange(0, 4)):
            k = rng.randrange(9)
            if k == 0:
                b = g.add("rotate", a, "10", "20", "30"); g.add("scale", b, "1", "2", "3")
            elif k == 1:
                c = g.add("cube", "0.4", "0.4", "0.4", 1)
                c = g.add("translate", c, f3(rng.choice([1.0, 0.5, 0.0])), "0", f3(rng.choice([0.5, 0.0, 1.0])))
                g.add("bool", a, c, rng.randrange(3))
            elif k == 2:
                g.add("refine", a, rng.choice([2, 3]))
            elif k == 3:
                g.add("reimport", a, rng.randrange(4))
            elif k == 4:
                g.add("decompose", a, rng.randrange(3))
            elif k == 5:
                g.add("simplify", a, f3(rng.choice([0, 0.01, 0.2])))
            elif k == 6:
                g.add("splitplane", a, "0", "0", "1", f3(rng.choice([0.5, 0.25, 0.0])), rng.randrange(2))
            elif k == 7:
                b = g.add("soup", rng.choice([10, 11, 12]), rng.choice([8, 33, 40]), rng.randrange(2, 4))
                g.add("bool", a, g.add("translate", b, f3(rng.choice([0, 0.5, 1])), "0", "0"), rng.randrange(3))
            else:
                g.step()
    elif family == "lattice":
        n = rng.choice([2, 3, 4, 5])
        vals = [g.box() for _ in range(n)]
        while len(vals) > 1:
            i = rng.randrange(len(vals)); a = vals.pop(i)
            j = rng.randrange(len(vals)); b = vals.pop(j)
            vals.append(g.add("bool", a, b, rng.randrange(3)))
        for _ in range(rng.randrange(3)):
            g.step()
    elif family == "import":
        g.add("soup", rng.randrange(10), rng.choice([0, 1, 2, 3, 5]), rng.choice([3, 4, 7]))
        for _ in range(rng.randrange(1, 5)):
            g.step()
    else:
        for _ in range(rng.choice([1, 2, 2, 3])):
            g.constructor()
        for _ in range(rng.randrange(2, 9)):
            g.step()
    return g.ins


def far_partner(rng, ins):
    """append: a (possibly non-finitely) transformed copy of some value united with a bbox-disjoint partner, so the union
    takes the Compose fast path with the transform still pending"""
    g = Gen(rng, 0)
    g.ins = ins
    a = g.pick()
    t = g.geom(a)
    c = g.add("cube", "1", "1", "1", 0)
    far = g.add("translate", c, f3(rng.choice([50, -70, 100])), f3(rng.choice([0, 60])), "0")
    k = rng.randrange(3)
    if k == 0:
        g.add("bool", t, far, 0)
    elif k == 1:
        g.add("batch", 0, t, far, g.pick())
    else:
        g.add("compose", t, far)


def gen_large(rng):
    """programs whose meshes cross the 1e4 / 1e5 sequential thresholds (par tier)"""
    g = Gen(rng, 6)
    if rng.random() < 0.25:
        # > 1e4 halfedges: the TBB versions of SplitPinchedVerts / DedupeEdges, fans far above the 32-neighbour switch
        a = g.add("soup", rng.choice([10, 12, 11]), rng.choice([2000, 4000, 9000]), rng.randrange(2, 4))
        if rng.random() < 0.5:
            c = g.add("cube", "0.4", "0.4", "0.4", 1)
            g.add("bool", a, g.add("translate", c, "1", "0", "0.5"), 1)
        else:
            g.add("reimport", a, 1)
        return g.ins
    segs = rng.choice([100, 128, 160, 200, 260, 320, 460])
    a = g.add("sphere", "1", segs)
    k = rng.randrange(10)
    if k == 0:
        b = g.add("translate", a, f3(rng.uniform(0.1, 0.9)), f3(rng.uniform(0, 0.5)), "0")
        g.add("bool", a, b, rng.randrange(3))
    elif k == 1:
        c = g.add("cube", "1.5", "1.5", "1.5", rng.randrange(2))
        d = g.add("bool", a, c, rng.randrange(3))
        g.add("decompose", d, 0)
    elif k == 2:
        g.add("refine", a, 2 if segs <= 260 else 1)
        g.add("simplify", 1, "0.01")
    elif k == 3:
        s = g.add("smoothout", a, "52.5", "0")
        g.add("refine", s, 2 if segs <= 200 else 1)
    elif k == 4:
        g.add("warp", a, rng.choice([0, 1, 3, 5, 6]), f3(rng.choice([0.02, 0.1, 0.3])))
        g.add("settol", 1, f3(rng.choice([0.001, 0.01])))
    elif k == 5:
        g.add("splitplane", a, "0.3", "0.2", "1", f3(rng.uniform(-0.5, 0.5)), 0)
        g.add("calcnormals", 1, 0, "30")
        g.add("reimport", 2, rng.randrange(2))
    elif k == 6:
        g.ins = []
        g.add("levelset", rng.choice([0, 1, 2, 3]), "0.8", "1.5", f3(rng.choice([0.03, 0.04, 0.06])), "0", "-1", 1)
        g.add("trim", 0, "0", "0", "1", "0.1")
    elif k == 7:
        b = g.add("cyl", "3", "0.4", "0.4", rng.choice([64, 400]), 1)
        c = g.add("rotate", b, "90", "0", "0")
        d = g.add("batch", 0, a, b, c)
        g.add("bool", a, d, 1)
    elif k == 8:
        b = g.add("scale", a, "1", "1", "-1")            # mirrored copy, coincident everywhere
        g.add("bool", a, b, rng.randrange(3))
        g.add("hull", a)
    else:
        b = g.add("mirror", a, "1", "0", "0")
        c = g.add("translate", b, "1", "0", "0")
        d = g.add("compose", a, g.add("translate", a, "3", "0", "0"))
        g.add("bool", d, c, 0)
        g.add("asoriginal", len(g.ins) - 1)
    return g.ins


def prog_line(pid, maxtri, ins):
    return "PROG %s %d %s" % (pid, maxtri, " ".join("| " + " ".join(i) for i in ins))


# ------------------------------------------------------------------ running

def operands(ins):
    """value numbers an instruction reads"""
    op = ins[0]
    if op in ("bool", "split", "mink", "minkdiff"):
        return [1, 2]
    if op == "batch":
        return list(range(2, len(ins)))
    if op in ("hullmany", "compose"):
        return list(range(1, len(ins)))
    if op in ("cube", "sphere", "cyl", "tet", "empty", "extrude", "revolve", "soup", "levelset", "hullpts"):
        return []
    return [1]


def run_progs(cmd, lines, timeout):
    """Like vp.run_cases, but a program is complete only when its END line was printed (programs print
    progressively, so 'first case without output' would blame the wrong one)."""
    outs, crashes, todo = [], [], list(lines)
    for _ in range(12):
        if not todo:
            break
        rc, out, err = vp.sh2(cmd, input="\n".join(todo) + "\n", timeout=timeout)
        if rc == 0:
            outs.append(out)
            break
        ended = {l.split()[1] for l in out.splitlines() if l.startswith("END ")}
        idx = next((i for i, l in enumerate(todo) if l.split()[1] not in ended), None)
        if idx is None:
            outs.append(out)
            crashes.append(("<after last program>", rc, err[-400:]))
            break
        pid = todo[idx].split()[1]
        # keep complete programs' output, and the partial output of the dying one
        outs.append(out)
        if rc == -14:            # the per-program alarm: slow, not crashed - no confirmation run
            crashes.append((todo[idx], rc, "", True))
        else:
            rc1, out1, err1 = vp.sh2(cmd, input=todo[idx] + "\n", timeout=min(timeout, 150))
            crashes.append((todo[idx], rc1 if rc1 != 0 else rc, (err1 if rc1 != 0 else err)[-400:], rc1 != 0))
        todo = todo[idx + 1:]
    return "".join(outs), crashes


def run_parallel(cmd, lines, nproc, timeout):
    """Run `lines` through `nproc` copies of the harness; returns (text, crashes)."""
    chunks = [lines[i::nproc] for i in range(nproc)]
    res = [None] * nproc

    def work(i):
        res[i] = run_progs(cmd, chunks[i], timeout) if chunks[i] else ("", [])
    th = [threading.Thread(target=work, args=(i,)) for i in range(nproc)]
    [t.start() for t in th]
    [t.join() for t in th]
    return "".join(r[0] for r in res), [c for r in res for c in r[1]]


def judge(drv, mesh_lines, nproc=8):
    """Feed MESH lines to the extracted checker (several processes); returns {id: (mesh_ok, counts_ok)}"""
    verdict = {}
    if not mesh_lines:
        return verdict
    # balance by size
    order = sorted(range(len(mesh_lines)), key=lambda i: -len(mesh_lines[i]))
    chunks = [[] for _ in range(min(nproc, len(mesh_lines)))]
    for n, i in enumerate(order):
        chunks[n % len(chunks)].append(mesh_lines[i])
    outs = [None] * len(chunks)

    def work(i):
        # a big minor heap: with the deep (non tail-recursive) extracted list functions every minor collection scans the stack
        outs[i] = vp.sh2("ulimit -s unlimited 2>/dev/null || ulimit -s 1000000 2>/dev/null; exec %s" % drv, input="\n".join(chunks[i]) + "\n",
                         timeout=1700, env={"OCAMLRUNPARAM": "s=16M"})
    th = [threading.Thread(target=work, args=(i,)) for i in range(len(chunks))]
    [t.start() for t in th]
    [t.join() for t in th]
    for rc, out, err in outs:
        for l in out.splitlines():
            t = l.split()
            if len(t) == 5 and t[0] == "V":
                # (edge-manifold check_mesh, check_counts, check_mesh && check_vertex_manifold)
                verdict[t[1]] = (t[2] == "1", t[3] == "1", t[4] == "1")
    return verdict


def diagnose(mesh_line):
    """Untrusted diagnostic (names the failed clause for the violation key); the verdict itself is the extracted checker's."""
    t = mesh_line.split()
    nV, repV, repE, repT, repG, nT = map(int, t[2:8])
    tri = list(map(int, t[8:]))
    if any(v < 0 or v >= nV for v in tri):
        return "index-out-of-range"
    for i in range(0, len(tri), 3):
        a, b, c = tri[i:i + 3]
        if a == b or b == c or c == a:
            return "degenerate-triangle"
    from collections import Counter
    E = Counter()
    for i in range(0, len(tri), 3):
        a, b, c = tri[i:i + 3]
        E[(a, b)] += 1; E[(b, c)] += 1; E[(c, a)] += 1
    if any(n != 1 for n in E.values()):
        return "duplicate-directed-edge"
    if any((b, a) not in E for (a, b) in E):
        return "unmatched-edge"
    if len(set(tri)) != nV:
        return "unreferenced-vertex"
    if repV != nV or repT != nT:
        return "count-mismatch"
    if 2 * repE != 3 * nT:
        return "numedge-mismatch"
    chi = nV - repE + nT
    if chi % 2:
        return "odd-euler-characteristic"
    if repG != 1 - chi // 2:
        return "genus-mismatch"
    return "unknown"


def evaluate(cx, exe, drv, progs, nproc, timeout=1500, alarm=15):
    """progs: {pid: (maxtri, ins)}.  Returns list of findings (pid, k, key, desc, info) — first failing
    instruction per program only — and statistics."""
    lines = [prog_line(pid, mt, ins) for pid, (mt, ins) in progs.items()]
    kl = lambda l: l.split()[1] if l.startswith("PROG") else None

    out, crashes = run_parallel([exe, str(alarm)], lines, nproc, timeout)
    S, mesh, ended = {}, {}, set()
    for l in out.splitlines():
        if l.startswith("S "):
            t = l.split()
            S[t[1]] = t
        elif l.startswith("MESH "):
            mesh[l.split(None, 2)[1]] = l
        elif l.startswith("END "):
            ended.add(l.split()[1])
    verdict = judge(drv, list(mesh.values()), nproc)
    findings, stats = [], {"values": 0, "nonempty": 0, "error_status": 0, "tris": 0, "ops": {}, "skipped": 0, "maxtri_seen": 0, "timeouts": []}
    for pid, (mt, ins) in progs.items():
        first = firsttan = None
        ids = [i for i in S if i.split(".")[0] == pid]

        def order(i):
            m = re.match(r"(\d+)(.*)", i.split(".")[1])
            return (int(m.group(1)), m.group(2))
        for vid in sorted(ids, key=order):
            t = S[vid]
            k = order(vid)[0]
            op = ins[k][0] if k < len(ins) else "?"
            status, empty, finPos, finProp, finTan = map(int, t[2:7])
            note = t[10] if len(t) > 10 else "-"
            stats["values"] += 1
            if note.startswith("skipped"):
                stats["skipped"] += 1
            ml = mesh.get(vid)
            nT = int(ml.split(None, 9)[7]) if ml else 0
            stats["tris"] += nT
            stats["maxtri_seen"] = max(stats["maxtri_seen"], nT)
            if order(vid)[1] == "":
                stats["ops"][op] = stats["ops"].get(op, 0) + 1
            key = desc = None
            v = verdict.get(vid)
            if ml is None or v is None:
                key, desc = "no-verdict@" + op, "harness or extracted checker produced no verdict for value %s" % vid
            elif status != 0:
                stats["error_status"] += 1
                head = list(map(int, ml.split(None, 9)[2:8]))
                if not (empty == 1 and nT == 0 and head[1] == 0 and head[3] == 0):
                    key, desc = "error-status-nonempty@" + op, "Status=%d but the Manifold is not empty (NumVert=%d NumTri=%d)" % (status, head[1], head[3])
            else:
                if nT > 0:
                    stats["nonempty"] += 1
                if not (v[0] and v[1] and v[2]):
                    why = diagnose(ml) if not v[0] else ("pinched-vertex" if not v[2] else diagnose(ml))
                    key = why + "@" + op
                    if op in ("bool", "batch", "compose", "split", "hullmany") and nonfinite_transform_in_cone(ins, k):
                        key = "nonfinite-transform@compose"
                    if why in ("unreferenced-vertex", "odd-euler-characteristic", "count-mismatch") and op in ("refinelen", "refinetol", "refine") and v[2]:
                        key = "refine-strands-vertex"
                    head = ml.split(None, 9)[2:8]
                    desc = ("value %s (result of `%s`) has Status NoError but the extracted check_mesh=%d check_vertex_manifold=%d check_counts=%d: %s "
                            "(merged nV=%s NumVert=%s NumEdge=%s NumTri=%s Genus=%s)" % (vid, " ".join(ins[k][:6]) if k < len(ins) else "?", v[0], v[2], v[1], why, head[0], head[1], head[2], head[3], head[4]))
                elif finPos == 0:
                    key, desc = "nonfinite-position@" + op, "value %s has Status NoError but a non-finite vertex position" % vid
                elif finProp == 0:
                    # recorded, not a violation: user-requested derived channels (curvature = angle defect / area) are
                    # undefined on zero-area neighbourhoods of degenerate meshes - "geometry may degrade, topology may not"
                    stats.setdefault("nonfinite_property", []).append("%s@%s" % (vid, op))
                elif finTan == 0 and firsttan is None:
                    # secondary: reported, but the program is still followed (NaN tangents do not change the topology of this value)
                    firsttan = (pid, k, "nonfinite-tangent@" + op, "value %s (result of `%s`) has Status NoError but its exported halfedgeTangent contains non-finite numbers" % (
                        vid, " ".join(ins[k][:6])), {"S": " ".join(t), "value": vid})
            if key and first is None:
                first = (pid, k, key, desc, {"S": " ".join(t), "value": vid})
        if firsttan:
            findings.append(firsttan)
        if first:
            findings.append(first)
        elif pid not in ended:
            cr = [c for c in crashes if kl(c[0]) == pid]
            done = sorted({order(i)[0] for i in ids})
            k = (done[-1] + 1) if done else 0
            op = ins[k][0] if k < len(ins) else "?"
            rc = cr[0][1] if cr else "?"
            if rc in (-14, 124, 142):
                # slow is not wrong: the per-program alarm fired (recorded, not a violation)
                stats["timeouts"].append("%s@%s" % (pid, op))
                continue
            findings.append((pid, k, "crash@" + op, "the library crashed or hung (rc=%s) while evaluating instruction %d `%s`: %s" % (
                rc, k, " ".join(ins[k][:8]) if k < len(ins) else "?", (cr[0][2][-200:] if cr else "")), {"value": "%s.%d" % (pid, k)}))
    return findings, stats


def nonfinite_transform_in_cone(ins, k):
    sub, _ = cone(ins, k)
    return any(i[0] in ("translate", "scale", "rotate", "transform", "mirror") and any(t.lstrip("-") in ("nan", "inf") for t in i[2:]) for i in sub)


def cone(ins, k):
    """instructions value k depends on, renumbered; returns (new_ins, new_k)"""
    need, todo = set(), [k]
    while todo:
        j = todo.pop()
        if j in need or j < 0 or j >= len(ins):
            continue
        need.add(j)
        for p in operands(ins[j]):
            if p < len(ins[j]):
                try:
                    todo.append(int(ins[j][p]))
                except ValueError:
                    pass
    keep = sorted(need)
    ren = {old: new for new, old in enumerate(keep)}
    out = []
    for old in keep:
        i = list(ins[old])
        for p in operands(i):
            if p < len(i):
                i[p] = str(ren.get(int(i[p]), 0))
        out.append(i)
    return out, ren[k]


def shrink(cx, exe, drv, mt, ins, k, key, budget=40):
    """Drop operations (replace a value by one of its operands) while the same violation key is still reported."""
    ins, k = cone(ins, k)
    ins = ins[:k + 1]
    runs = 0
    changed = True
    while changed and runs < budget:
        changed = False
        for j in range(len(ins) - 2, -1, -1):          # never drop the failing (last) instruction
            for p in operands(ins[j]):
                if runs >= budget or p >= len(ins[j]):
                    continue
                repl = int(ins[j][p])
                cand = []
                for jj, i in enumerate(ins):
                    if jj == j:
                        continue
                    i = list(i)
                    for q in operands(i):
                        if q < len(i):
                            v = int(i[q])
                            if v == j:
                                v = repl
                            elif v > j:
                                v -= 1
                            i[q] = str(v)
                    cand.append(i)
                runs += 1
                f, _ = evaluate(cx, exe, drv, {"s": (mt, cand)}, 1, timeout=120)
                f = [x for x in f if x[2] == key]
                if f:
                    c2, k2 = cone(cand, f[0][1])
                    ins = c2[:k2 + 1]
                    changed = True
                    break
            if changed:
                break
    return ins


def replay(cx, exe, drv, path):
    # a replay run must not replace the evidence of the last full run (vp.finish() writes it unconditionally)
    evp = os.path.join(vp.ROOT, "evidence", "%s.json" % cx.pid)
    if os.path.exists(evp):
        import atexit
        saved = open(evp).read()
        atexit.register(lambda: open(evp, "w").write(saved))
    obj = json.load(open(path))
    rep = obj.get("replay", obj)
    if "program" not in rep and str(rep.get("case", "")).startswith(("OPS ", "CH ")):
        # an Impl-level case: print both sides (implementation arrays, extracted model + invariants)
        name = "c01_ops" if rep["case"].startswith("OPS ") else "c01_topo"
        hx = vp.build_harness(name, "seq", link_lib=True)
        rc, out_i, err = vp.sh2([hx], input=rep["case"] + "\n", timeout=120)
        print("replay of", path, "\n  case:", rep["case"][:400], "\n  implementation:\n" + out_i)
        mcase = rep["case"]
        if name == "c01_ops":          # hand the model the permutations the implementation chose
            perms = {int(l.split()[2]): l.split()[3:] for l in out_i.splitlines() if l.startswith("P ")}
            segs = mcase.split("|")
            for i in range(1, len(segs)):
                if segs[i].split()[0] in ("sortverts", "sortfaces"):
                    segs[i] = " %s %s " % (segs[i].split()[0], " ".join(perms.get(i, [])))
            mcase = "|".join(segs)
        rc, out_m, err = vp.sh2([drv], input=mcase + "\n", timeout=120)
        print("  extracted model (A = arrays, O = halfedge_inv nan_iff_unreferenced in_range):\n" + out_m)
        if out_i.strip() and [l for l in out_i.splitlines() if l[:2] in ("A ", "H ", "M ")] != [l for l in out_m.splitlines() if l[:2] in ("A ", "H ", "M ")]:
            cx.violation(obj.get("key", "replayed-case"), "replayed case still differs from the model / fails the invariants", rep)
        return
    line = rep["program"]
    t = line.split()
    ins = [seg.split() for seg in line.split("|")[1:]]
    f, st = evaluate(cx, exe, drv, {t[1]: (int(t[2]), ins)}, 1, timeout=300)
    print("replay of", path)
    print("  program:", line)
    for x in f:
        print("  FAILS:", x[2], "-", x[3])
        cx.violation(x[2], x[3], {"program": line, "failing_value": x[4].get("value")})
    if not f:
        print("  all %d values accepted by the extracted checker" % st["values"])


# ------------------------------------------------------------------ the check

def translate_pipelines(cx):
    """Regenerate coq/Gen/Pipelines.v from the repo working tree.  Returns the pipeline records (or None)."""
    import importlib
    import c01_pipeline as T
    importlib.reload(T)
    gen = os.path.join(vp.COQ, "Gen", "Pipelines.v")
    try:
        pipes = T.translate(vp.REPO)
    except T.TranslateError as e:
        T.emit_coq([], gen)
        cx.broke("translate:c01_pipeline", "the pass-table translator no longer understands the source: %s" % e)
        return None
    T.emit_coq(pipes, gen)
    for d in pipes:
        if d["waiver"]:
            cx.assumptions.append("pipeline %s: generator assumption(s) %s (%s) - not proved, oracle on outputs only" % (
                d["name"], "+".join({"stranded": "no unreferenced vertex / no opposed triangle pair", "dup": "no duplicate directed edge / pinched vertex"}[k] for k in d["waiver"][1]), d["waiver"][0]))
    return pipes


def pipeline_verdicts(cx, drv, pipes, findings_by_variant, exe, progs_seen):
    """Judge every generated pass table with the extracted pipeline_ok.  A rejected pipeline is a broken
    proof obligation; it is reported through the concrete violation(s) the end-to-end run found for the
    operations that run that pipeline, or - after an extra search aimed at those operations - as broken."""
    rc, out, err = vp.sh2([drv], input="PIPE\n", timeout=60)
    toks = out.split()
    if rc != 0 or not toks or toks[0] != "PIPE" or len(toks) - 1 != len(pipes):
        cx.broke("pipeline:verdicts", "extracted pipeline_ok produced no verdicts (%r %r)" % (out[:100], err[:200]))
        return
    table = {}
    for d, v in zip(pipes, toks[1:]):
        ok = v == "1"
        table[d["name"]] = {"passes": d["passes_abs"], "fresh": d["fresh"], "ok": ok}
        if ok:
            cx.obligation("pipeline:" + d["name"], True)
            continue
        STRAND = ("refine-strands-vertex", "unreferenced-vertex", "count-mismatch", "odd-euler-characteristic", "index-out-of-range",
                  "pinched-vertex", "duplicate-directed-edge")
        hits = [f for f in findings_by_variant if f[5] in d["ops"] and f[2].startswith(STRAND)]
        if not hits:
            # search aimed at the rejected pipeline: programs that end in one of its operations
            rng = random.Random(cx.seed * 31337 + len(d["name"]))
            extra = {}
            n = 0
            while len(extra) < cx.pick(150, 1200) and n < 20000:
                n += 1
                ins = gen_program(rng, rng.choice(["general"] + FAMILIES))
                ks = [i for i, x in enumerate(ins) if x[0] in d["ops"]]
                if ks:
                    extra["x%s%d" % (d["name"], len(extra))] = (cx.pick(2500, 20000), ins[:ks[-1] + 1])
            f2, st2 = evaluate(cx, exe, drv, extra, min(vp.NPROC, 12))
            cx.cov.setdefault("pipeline_search", {})[d["name"]] = {"programs": len(extra), "values": st2["values"], "hits": len(f2)}
            for pid, k, key, desc, info in f2:
                if not key.startswith(STRAND):
                    continue
                mt, ins = extra[pid]
                small = ins
                try:
                    small = shrink(cx, exe, drv, mt, ins, k, key, budget=25)
                except Exception:
                    pass
                cx.violation(key, desc + " [found by the search aimed at pipeline %s, rejected by pipeline_ok]" % d["name"],
                             {"program": prog_line("r", mt, small), "original_program": prog_line(pid, mt, ins), "variant": "seq",
                              "failing_value": info.get("value"), "pipeline": d["name"], "passes": d["passes_abs"]})
                hits.append((pid, k, key, desc, info, ins[k][0]))
                break
        cx.obligations += 1
        table[d["name"]]["explained_by"] = sorted({h[2] for h in hits})
        if not hits:
            cx.broke("pipeline:" + d["name"], "pipeline_ok rejects the pass list of %s read from %s: %s (fresh=%s) - a vertex stranded by %s is never "
                     "tombstoned before SortGeometry, or duplicate edges / pinched vertices are never split by CleanupTopology; no concrete failing input found" % (
                         d["name"], d["file"], " ; ".join(d["passes_abs"]), d["fresh"],
                         "CreateHalfedges/Subdivide" if not d["fresh"] else "the generator or CreateHalfedges"))
        else:
            cx.notes.append("pipeline %s rejected by pipeline_ok (%s); concrete failing input reported under key(s) %s" % (
                d["name"], " ; ".join(d["passes_abs"]), table[d["name"]]["explained_by"]))
    cx.cov["pipelines"] = table


def gen_soup(rng):
    """closed meshes mutated by opposed pairs, duplicates, flips, drops, random triangles"""
    kind = rng.randrange(5)
    if kind == 0:
        nV, T = 4, [(0, 2, 1), (0, 3, 2), (0, 1, 3), (1, 2, 3)]
    elif kind == 1:
        nV, T = 6, []
        r = [2, 3, 4, 5]
        for k in range(4):
            T += [(0, r[k], r[(k + 1) % 4]), (1, r[(k + 1) % 4], r[k])]
    elif kind == 2:
        n, m = rng.choice([(3, 3), (3, 4), (4, 5)])
        nV, T = n * m, []
        v = lambda i, j: (i % n) * m + (j % m)
        for i in range(n):
            for j in range(m):
                T += [(v(i, j), v(i + 1, j), v(i + 1, j + 1)), (v(i, j), v(i + 1, j + 1), v(i, j + 1))]
    elif kind == 3:
        nV = rng.choice([3, 4, 5])
        T = []
        for _ in range(rng.choice([2, 4, 6, 8])):
            a, b, c = rng.sample(range(nV), 3)
            T.append((a, b, c))
    else:
        nV, T = 8, []
        for o in (0, 4):
            T += [(o, o + 2, o + 1), (o, o + 3, o + 2), (o, o + 1, o + 3), (o + 1, o + 2, o + 3)]
    T = list(T)
    for _ in range(rng.choice([0, 0, 1, 1, 2, 3])):
        mut = rng.randrange(7)
        if mut == 0 and T:                      # opposed pair glued on an existing edge
            a, b, c = rng.choice(T)
            d = rng.randrange(nV)
            if d not in (a, b):
                T += [(a, b, d), (b, a, d)]
        elif mut == 1 and T:                    # opposed copy of an existing triangle (and a second copy)
            a, b, c = rng.choice(T)
            T += [(b, a, c), (a, b, c)]
        elif mut == 2 and T:                    # flip one triangle
            i = rng.randrange(len(T)); a, b, c = T[i]; T[i] = (b, a, c)
        elif mut == 3 and len(T) > 1:           # drop two triangles
            T.pop(rng.randrange(len(T))); T.pop(rng.randrange(len(T)))
        elif mut == 4 and T:                    # duplicate a triangle twice (keeps the count even)
            t = rng.choice(T); T += [t, t]
        elif mut == 5 and T:                    # rotate a triangle's corners (same triangle, other halfedge order)
            i = rng.randrange(len(T)); a, b, c = T[i]; T[i] = (b, c, a)
        else:                                   # pillow: two opposed triangles on fresh corners
            a, b, c = rng.sample(range(nV), 3)
            T += [(a, b, c), (a, c, b)]
    if rng.random() < 0.5:
        rng.shuffle(T)
    if len(T) % 2:
        T.append(T[-1])
    return nV, T


def py_balanced(T):
    from collections import Counter
    E = Counter()
    for a, b, c in T:
        E[(a, b)] += 1; E[(b, c)] += 1; E[(c, a)] += 1
    return all(E[(a, b)] == E[(b, a)] for (a, b) in E)


def topo_correspondence(cx, drv):
    """Extracted Gallina port of CreateHalfedges/IsManifold vs Manifold::Impl on generated soups."""
    exe = vp.build_harness("c01_topo", "seq", link_lib=True)
    rng = random.Random(cx.seed * 424243 + 7)
    cases = {}
    for n in range(cx.pick(1500, 30000)):
        nV, T = gen_soup(rng)
        if n % 40 == 7:
            # vertPos_.size() >= 1<<18 selects the per-vertex bucket branch of CreateHalfedges instead of the
            # global sort; the model has one branch, so this is also a mode-independence check of the two
            nV = (1 << 18) + rng.choice([0, 1, 56])
        elif n % 40 == 8:
            nV = (1 << 18) - 1
        cases["s%d" % n] = (nV, T)
    lines = ["CH %s %d %d %s" % (k, nV, len(T), " ".join("%d %d %d" % t for t in T)) for k, (nV, T) in cases.items()]
    kl = lambda l: l.split()[1]
    ko = lambda l: l.split()[1] if l[:2] in ("H ", "M ") else None
    out_i, crashes = vp.run_cases(exe, lines, kl, ko, timeout=600)
    for cl, rc, err in crashes:
        cx.violation("createhalfedges-crash", "Impl::CreateHalfedges/IsManifold crashed (rc=%s) on a triangle soup" % rc, {"case": cl})
    rc, out_m, err = vp.sh2([drv], input="\n".join(lines) + "\n", timeout=900)
    if rc != 0:
        cx.broke("corr:C01/model-driver", "model driver exited %d: %s" % (rc, err[-300:]))
    impl, model, gate = {}, {}, {}
    for l in out_i.splitlines():
        t = l.split(None, 2)
        if len(t) >= 2 and t[0] in ("H", "M"):
            impl[(t[0], t[1])] = t[2] if len(t) > 2 else ""
    for l in out_m.splitlines():
        t = l.split(None, 2)
        if len(t) >= 2 and t[0] in ("H", "M"):
            model[(t[0], t[1])] = t[2] if len(t) > 2 else ""
        elif len(t) >= 3 and t[0] == "G":
            gate[t[1]] = t[2]
    # extracted invariants on the implementation's arrays
    hi = ["HI %s %s" % (k, impl[("H", k)]) for k in cases if ("H", k) in impl]
    rc, out_h, err = vp.sh2([drv], input="\n".join(hi) + "\n", timeout=900)
    inv = {l.split()[1]: l.split()[2:] for l in out_h.splitlines() if l.startswith("I ")}
    mism = nontriv = removed = accepted = 0
    for k, (nV, T) in cases.items():
        hi_, mi = impl.get(("H", k)), impl.get(("M", k))
        if hi_ is None or mi is None:
            continue
        bal = py_balanced(T) and all(len({a, b, c}) == 3 for a, b, c in T)
        iv = inv.get(k, ["?", "?"])
        oracle_bad = None
        if (mi == "1") != bal:
            oracle_bad = "IsManifold(CreateHalfedges)=%s but the directed edges are %sbalanced" % (mi, "" if bal else "not ")
        elif mi == "1" and iv != ["1", "1"]:
            oracle_bad = "IsManifold accepted, but the extracted is_manifold/halfedge_inv on the arrays say %s" % iv
        if oracle_bad:
            cx.violation("createhalfedges-gate", oracle_bad, {"case": "CH %s %d %d %s" % (k, nV, len(T), " ".join("%d %d %d" % t for t in T)), "impl_H": hi_})
        if hi_ != model.get(("H", k)) or mi != model.get(("M", k)):
            mism += 1
            if mism <= 3:
                cx.broke("corr:C01/create_halfedges#case %s" % k, "model and implementation differ on soup %s: impl H=%s M=%s / model H=%s M=%s" % (
                    T[:12], hi_[:160], mi, str(model.get(("H", k)))[:160], model.get(("M", k))))
        if gate.get(k) != "1":
            cx.broke("model:C01/gate_case#%s" % k, "the gate predicate fails on the MODEL's own output for soup %s" % (T[:12],))
        if "-1" in hi_.split():
            removed += 1
        if mi == "1":
            accepted += 1
        if "-1" in hi_.split() or (mi == "0"):
            nontriv += 1
    cx.cov["correspondence"] = {"soups": len(cases), "mismatches": mism, "soups_in_large_vertex_count_branch(nV>=2^18)": sum(1 for nV, T in cases.values() if nV >= (1 << 18)), "with_removed_opposed_pairs": removed, "accepted_by_IsManifold": accepted,
                                "nontrivial(removal or rejection)": nontriv, "traces_validated_against_impl": len(cases) - mism}
    cx.log("correspondence CreateHalfedges: %d soups, %d mismatches, %d with removed pairs, %d rejected" % (len(cases), mism, removed, len(cases) - accepted))
    return len(cases), nontriv


# ------------------------------------------------------------------ edge-operation correspondence

def raw_from_tris(T):
    """halfedge arrays (start, pair) of a closed mesh without duplicate directed edges"""
    pos = {}
    for t, (a, b, c) in enumerate(T):
        pos[(a, b)] = 3 * t; pos[(b, c)] = 3 * t + 1; pos[(c, a)] = 3 * t + 2
    H = []
    for t, (a, b, c) in enumerate(T):
        H += [[a, pos[(b, a)]], [b, pos[(c, b)]], [c, pos[(a, c)]]]
    return H


def base_mesh(rng):
    k = rng.randrange(4)
    if k == 0:
        return 4, [(0, 2, 1), (0, 3, 2), (0, 1, 3), (1, 2, 3)]
    if k == 1:
        T, r = [], [2, 3, 4, 5]
        for i in range(4):
            T += [(0, r[i], r[(i + 1) % 4]), (1, r[(i + 1) % 4], r[i])]
        return 6, T
    if k == 2:
        n, m = rng.choice([(3, 3), (3, 4), (4, 4)])
        v = lambda i, j: (i % n) * m + (j % m)
        T = []
        for i in range(n):
            for j in range(m):
                T += [(v(i, j), v(i + 1, j), v(i + 1, j + 1)), (v(i, j), v(i + 1, j + 1), v(i, j + 1))]
        return n * m, T
    T = []
    for o in (0, 4):
        T += [(o, o + 2, o + 1), (o, o + 3, o + 2), (o, o + 1, o + 3), (o + 1, o + 2, o + 3)]
    return 8, T


def add_flap(nV, H, e):
    """glue two opposed triangles (a,b,c),(b,a,c) with a new vertex b into the edge e = a->c:
    the folded configuration an edge collapse leaves behind.  Returns (nV', index of a->b)."""
    e2 = H[e][1]
    a, c = H[e][0], H[e2][0]
    b = nV
    k = len(H)
    # tri0 = (a,b,c): k:a->b, k+1:b->c, k+2:c->a ; tri1 = (b,a,c): k+3:b->a, k+4:a->c, k+5:c->b
    H += [[a, k + 3], [b, k + 5], [c, e], [b, k], [a, e2], [c, k + 1]]
    H[e][1] = k + 2
    H[e2][1] = k + 4
    return nV + 1, k


def gen_ops_case(rng, family):
    nV, T = base_mesh(rng)
    H = raw_from_tris(T)
    nbase = len(H)
    flaps = []
    if family == "pillow":                       # an isolated pair of opposed triangles
        k = len(H)
        a, b, c = nV, nV + 1, nV + 2
        H += [[a, k + 3], [b, k + 5], [c, k + 4], [b, k], [a, k + 2], [c, k + 1]]
        nV += 3
        flaps.append(k)
    else:
        used = set()
        for _ in range(rng.choice([1, 1, 2, 3])):
            e = rng.randrange(nbase)             # flaps only on distinct edges of the base mesh (no flap on a flap:
            if e in used or H[e][1] >= nbase:    # the shared vertex would be pinched, outside RemoveIfFolded's contract)
                continue
            used.add(e); used.add(H[e][1])
            nV, k = add_flap(nV, H, e)
            flaps.append(k)
        if not flaps:
            nV, k = add_flap(nV, H, 0)
            flaps.append(k)
    ops = []
    if family in ("folded", "pillow"):
        if rng.random() < 0.2:
            ops.append(["fliptris"])             # no tombstones yet
        for k in flaps:
            # the three halfedges of tri0 and of tri1 reach the different branches of RemoveIfFolded
            ops.append(["removeiffolded", str(k + rng.choice([0, 0, 1, 2, 3, 4, 5]))])
            if rng.random() < 0.3:
                ops.append(["removeiffolded", str(rng.randrange(len(H)))])
        tail = rng.choice([["sortverts", "sortfaces"], ["sortfaces", "sortverts"], ["sortverts", "sortfaces", "fliptris"],
                           ["removeunref", "sortverts", "sortfaces"], ["sortverts"], []])
        ops += [[o] for o in tail]
    elif family == "valid":
        dead = False
        for _ in range(rng.randrange(1, 6)):
            o = rng.choice(["removeiffolded", "fliptris", "reindexfull", "removeunref", "sortverts", "sortfaces", "removeiffolded"])
            if o == "fliptris" and dead:
                continue                             # FlipTris is only used on nodes without tombstones
            if o == "removeiffolded":
                ops.append([o, str(rng.choice(flaps) + rng.randrange(6) if rng.random() < 0.7 else rng.randrange(len(H)))])
                dead = True
            elif o == "reindexfull":
                perm = list(range(nV)); rng.shuffle(perm)
                ops.append([o] + [str(x) for x in perm])
                ops.append(["sortverts"]); ops.append(["sortfaces"])     # keeps later indices meaningful
                break
            else:
                ops.append([o])
                if o in ("sortverts", "sortfaces"):
                    break                            # indices of later ops would be stale
    else:                                            # "free": also the non-preserving primitives, stranded vertices
        nV += rng.choice([0, 1, 2])
        for _ in range(rng.randrange(1, 6)):
            o = rng.choice(["pairup", "collapsetri", "removeiffolded", "fliptris", "collapsetri", "removeunref"])
            if o == "pairup":
                ops.append([o, str(rng.randrange(len(H))), str(rng.randrange(len(H)))])
            elif o in ("fliptris", "removeunref"):
                ops.append([o])
            else:
                ops.append([o, str(rng.randrange(len(H)))])
    return nV, H, ops


def ops_line(cid, nV, H, ops):
    return "OPS %s %d %d %s %s" % (cid, nV, len(H), " ".join("%d %d" % (s, p) for s, p in H), " ".join("| " + " ".join(o) for o in ops))


def ops_correspondence(cx, drv):
    """Extracted ports of PairUp/CollapseTri/RemoveIfFolded/FlipTris/ReindexVerts/RemoveUnreferencedVerts/
    SortVerts/SortFaces vs the real Manifold::Impl methods, arrays compared after every step; the extracted
    invariants (HalfedgeInv, NaN iff unreferenced) judge the implementation's arrays."""
    exe = vp.build_harness("c01_ops", "seq", link_lib=True)
    rng = random.Random(cx.seed * 911 + 3)
    cases = {}
    fam_n = {}
    for n in range(cx.pick(1200, 20000)):
        fam = rng.choices(["folded", "pillow", "valid", "free"], [40, 8, 32, 20])[0]
        fam_n[fam] = fam_n.get(fam, 0) + 1
        cases["o%d" % n] = (fam,) + gen_ops_case(rng, fam)
    lines = [ops_line(k, nV, H, ops) for k, (fam, nV, H, ops) in cases.items()]
    kl = lambda l: l.split()[1]
    ko = lambda l: l.split()[1] if l[:2] == "E " else None
    out_i, crashes = vp.run_cases(exe, lines, kl, ko, timeout=600)
    for cl, rc, err in crashes:
        cx.violation("edgeop-crash", "a simple edge operation crashed (rc=%s) on a hand-built halfedge state" % rc, {"case": cl[:2000]})
    impl, perms = {}, {}
    for l in out_i.splitlines():
        t = l.split(None, 3)
        if len(t) >= 3 and t[0] == "A":
            impl[(t[1], int(t[2]))] = t[3] if len(t) > 3 else ""
        elif len(t) >= 3 and t[0] == "P":
            perms[(t[1], int(t[2]))] = t[3] if len(t) > 3 else ""
    # the model replays the geometric decisions (Morton order) the implementation took
    mlines = []
    for k, (fam, nV, H, ops) in cases.items():
        ops2 = []
        for i, o in enumerate(ops):
            if o[0] in ("sortverts", "sortfaces"):
                ops2.append([o[0]] + perms.get((k, i + 1), "").split())
            else:
                ops2.append(o)
        mlines.append(ops_line(k, nV, H, ops2))
    rc, out_m, err = vp.sh2([drv], input="\n".join(mlines) + "\n", timeout=900)
    if rc != 0:
        cx.broke("corr:C01/ops-driver", "model driver exited %d: %s" % (rc, err[-300:]))
    model, orc = {}, {}
    for l in out_m.splitlines():
        t = l.split(None, 3)
        if len(t) >= 3 and t[0] == "A":
            model[(t[1], int(t[2]))] = t[3] if len(t) > 3 else ""
        elif len(t) >= 3 and t[0] == "O":
            orc[(t[1], int(t[2]))] = t[3]
    mism, steps, branch, exported, bad_export = 0, 0, {}, [], 0
    orc_req = []
    for k, (fam, nV, H, ops) in cases.items():
        for i in range(len(ops) + 1):
            a, b = impl.get((k, i)), model.get((k, i))
            if a is None:
                continue
            steps += 1
            if i > 0:
                branch[ops[i - 1][0]] = branch.get(ops[i - 1][0], 0) + (0 if a == "SKIP" or a == impl.get((k, i - 1)) else 1)
            if a != b:
                mism += 1
                if a != "SKIP":
                    orc_req.append((k, i, a))
                if mism <= 3:
                    cx.broke("corr:C01/edge_ops#%s step %d" % (k, i), "model and implementation differ after `%s` (family %s): impl=%s model=%s" % (
                        " ".join(ops[i - 1][:4]) if i else "init", fam, a[:200], str(b)[:200]))
            elif fam in ("folded", "pillow", "valid") and a != "SKIP" and orc.get((k, i)) != "1 1 1":
                # arrays agree, so the extracted invariants computed on the model state are the implementation's
                cx.broke("model:C01/edge_ops#%s step %d" % (k, i), "invariants %s fail after `%s` on both sides" % (orc.get((k, i)), " ".join(ops[i - 1][:4]) if i else "init"))
        last = len(ops)
        if fam in ("folded", "pillow", "valid") and len(ops) >= 2 and [o[0] for o in ops[-2:]] in (["sortverts", "sortfaces"], ["sortfaces", "sortverts"]):
            a = impl.get((k, last))
            if a and a != "SKIP":
                hpart, npart = a.split(" N")
                st = hpart.split()[1::2]
                de = [(st[3 * (j // 3) + j % 3], st[3 * (j // 3) + (j + 1) % 3]) for j in range(len(st))]
                if len(set(de)) != len(de):
                    continue                         # a remaining flap: 4-manifold edge, not claimed closed (Is2Manifold fails too)
                nv = len(npart.split())
                nt = len(st) // 3
                chi_e = 3 * nt // 2
                exported.append("MESH %s %d %d %d %d %d %d %s" % (k, nv, nv, chi_e, nt, 0, nt, " ".join(st)))
    # oracle on implementation arrays where they differ from the model
    if orc_req:
        ql = []
        for k, i, a in orc_req[:200]:
            hpart, npart = a.split(" N")
            hv = hpart.split()[1:]
            nvv = npart.split()
            ql.append("ORC %s %d %d %d %s %s" % (k, i, len(nvv), len(hv) // 2, " ".join(hv), " ".join(nvv)))
        rc, out_o, err = vp.sh2([drv], input="\n".join(ql) + "\n", timeout=300)
        res = {(l.split()[1], int(l.split()[2])): l.split(None, 3)[3] for l in out_o.splitlines() if l.startswith("O ")}
        for k, i, a in orc_req[:200]:
            fam, nV, H, ops = cases[k]
            if fam in ("folded", "pillow", "valid") and res.get((k, i)) != "1 1 1" and orc.get((k, i - 1)) == "1 1 1" and impl.get((k, i - 1)) == model.get((k, i - 1)):
                op = ops[i - 1][0]
                inv_, nanok, rng_ = (res.get((k, i)) or "? ? ?").split()
                what = ("leaves a vertex that is not NaN but unreferenced, or NaN but referenced" if nanok != "1" else "breaks HalfedgeInv")
                cx.violation("edgeop-invariant@" + op, "Impl::%s on a valid halfedge state %s (extracted halfedge_inv=%s nan_iff_unreferenced=%s in_range=%s)" % (
                    {"removeiffolded": "RemoveIfFolded", "fliptris": "FlipTris", "sortverts": "SortVerts", "sortfaces": "SortFaces",
                     "removeunref": "RemoveUnreferencedVerts", "reindexfull": "ReindexVerts"}.get(op, op), what, inv_, nanok, rng_),
                    {"case": ops_line(k, nV, H, ops[:i]), "step": i, "impl_after": a[:1500], "model_after": str(model.get((k, i)))[:1500]})
    # compaction: after SortVerts + SortFaces from a valid state the exported triangles are a closed 2-manifold
    ver = judge(drv, exported, 4)
    for l in exported:
        k = l.split()[1]
        if not ver.get(k, (False, False, False))[2]:
            bad_export += 1
            fam, nV, H, ops = cases[k]
            cx.violation("compaction-not-closed", "after SortVerts+SortFaces of a valid state the exported triangles fail the extracted check_mesh", {"case": ops_line(k, nV, H, ops)})
    cx.cov["edge_ops_correspondence"] = {"cases": len(cases), "families": fam_n, "steps_compared": steps, "mismatches": mism,
                                         "steps_that_changed_the_arrays": branch, "compacted_states_judged_by_check_mesh": len(exported),
                                         "traces_validated_against_impl": len(cases) - len({k for k, i, a in orc_req})}
    cx.log("correspondence edge ops: %d cases, %d steps, %d mismatches, changed: %s, %d compacted exports judged" % (len(cases), steps, mism, branch, len(exported)))
    return steps, sum(branch.values())


def even_manifold_case(rng):
    """Hand-built even-manifold halfedge arrays: several closed solids identified along shared edges / vertices,
    duplicate directed edges paired by a RANDOM matching (any matching satisfies HalfedgeInv), fans of N triangles
    at the shared vertices with N on both sides of the 32-neighbour switch in DedupeEdges."""
    T = []
    nV = [0]

    def newv(k=1):
        nV[0] += k
        return list(range(nV[0] - k, nV[0]))
    kind = rng.randrange(6)
    N = rng.choice([3, 8, 16, 31, 32, 33, 34, 40, 64, rng.randrange(3, 70)])
    if kind in (0, 1):                       # nW wedges around one shared edge A-B
        A, B = newv(2)
        for w in range(2 if kind == 0 else rng.choice([3, 4])):
            r = newv(N)
            for i in range(N - 1):
                T += [(A, r[i + 1], r[i]), (B, r[i], r[i + 1])]
            T += [(A, B, r[N - 1]), (B, A, r[0])]
    elif kind == 2:                          # m bipyramids sharing one apex (pinched vertex, m fans)
        A, = newv()
        for j in range(rng.choice([2, 3, 4])):
            C, = newv(); r = newv(N)
            for i in range(N):
                T += [(A, r[(i + 1) % N], r[i]), (C, r[i], r[(i + 1) % N])]
    elif kind == 3:                          # wedges sharing an edge AND a bipyramid hanging on A
        A, B = newv(2)
        for w in range(2):
            r = newv(N)
            for i in range(N - 1):
                T += [(A, r[i + 1], r[i]), (B, r[i], r[i + 1])]
            T += [(A, B, r[N - 1]), (B, A, r[0])]
        C, = newv(); M = rng.choice([3, 30, 40]); r = newv(M)
        for i in range(M):
            T += [(A, r[(i + 1) % M], r[i]), (C, r[i], r[(i + 1) % M])]
    elif kind == 4:                          # two fans sharing the edge A-B where the repeated neighbour comes late in the orbit
        A, B = newv(2)
        for w in range(2):
            r = newv(N)
            T += [(A, B, r[N - 1]), (B, A, r[0])]
            for i in range(N - 1):
                T += [(A, r[i + 1], r[i]), (B, r[i], r[i + 1])]
    else:                                    # small: tetrahedra sharing an edge / a vertex
        a, b, c, d, e, f = newv(6)
        tet = lambda p, q, r_, s_: [(p, r_, q), (p, s_, r_), (p, q, s_), (q, r_, s_)]
        T += tet(a, c, d, b) + tet(a, e, f, b)
        if rng.random() < 0.5:
            g_, h_, i_ = newv(3)
            T += tet(a, g_, h_, i_)
    if rng.random() < 0.5:
        rng.shuffle(T)
    if rng.random() < 0.3:
        T = [(b, c, a) if rng.random() < 0.5 else (a, b, c) for a, b, c in T]
    fwd = {}
    for t, tri in enumerate(T):
        for i in range(3):
            fwd.setdefault((tri[i], tri[(i + 1) % 3]), []).append(3 * t + i)
    H = [[T[e // 3][e % 3], -1] for e in range(3 * len(T))]
    for (a, b), es in fwd.items():
        if a < b:
            rs = list(fwd[(b, a)])
            mode = rng.randrange(3)
            if mode == 0:
                rng.shuffle(rs)
            elif mode == 1:
                rs = rs[::-1]
            for x, y in zip(es, rs):
                H[x][1] = y; H[y][1] = x
    return nV[0], H, kind, N


def cleanup_oracle(cx, drv):
    """CleanupTopology / SplitPinchedVerts / DedupeEdges of the real Impl on hand-built even-manifold states.  Not
    ported: judged only by the extracted invariants and, after SortVerts+SortFaces, by the extracted check_mesh."""
    exe = vp.build_harness("c01_ops", "seq", link_lib=True)
    rng = random.Random(cx.seed * 7331 + 9)
    cases, lines = {}, []
    for n in range(cx.pick(400, 6000)):
        nV, H, kind, N = even_manifold_case(rng)
        seq = rng.choice([["cleanup"], ["cleanup"], ["splitpinched", "dedupeedges"], ["cleanup", "cleanup"], ["dedupeedges", "splitpinched", "dedupeedges"]])
        # every pipeline that runs CleanupTopology calls RemoveUnreferencedVerts before SortGeometry: DedupeEdge moves
        # whole fans to new vertices and can leave the original vertex unreferenced
        ops = [[o] for o in seq] + [["removeunref"], ["sortverts"], ["sortfaces"]]
        cases["u%d" % n] = (nV, H, ops, kind, N)
        lines.append(ops_line("u%d" % n, nV, H, ops))
    kl = lambda l: l.split()[1]
    ko = lambda l: l.split()[1] if l[:2] == "E " else None
    out_i, crashes = vp.run_cases(exe, lines, kl, ko, timeout=600)
    for cl, rc, err in crashes:
        cx.violation("cleanup-crash", "CleanupTopology crashed or hung (rc=%s) on a hand-built even-manifold halfedge state" % rc, {"case": cl[:4000]})
    last = {}
    for l in out_i.splitlines():
        t = l.split(None, 3)
        if len(t) >= 4 and t[0] == "A":
            last[t[1]] = (int(t[2]), t[3])
    orc, meshes = [], []
    for k, (nV, H, ops, kind, N) in cases.items():
        if k not in last or last[k][0] != len(ops) or last[k][1] == "SKIP":
            if k in last:
                cx.broke("oracle:C01/cleanup#%s" % k, "case not executed to the end (step %s: %s)" % (last[k][0], last[k][1][:40]))
            continue
        hpart, npart = last[k][1].split(" N")
        hv, nvv = hpart.split()[1:], npart.split()
        orc.append("ORC %s %d %d %d %s %s" % (k, len(ops), len(nvv), len(hv) // 2, " ".join(hv), " ".join(nvv)))
        st = hv[0::2]
        nt = len(st) // 3
        meshes.append("MESH %s %d %d %d %d %d %d %s" % (k, len(nvv), len(nvv), 3 * nt // 2, nt, 0, nt, " ".join(st)))
    rc, out_o, err = vp.sh2([drv], input="\n".join(orc) + "\n", timeout=600)
    res = {l.split()[1]: l.split(None, 3)[3] for l in out_o.splitlines() if l.startswith("O ")}
    ver = judge(drv, meshes, 4)
    bad, dist = 0, {}
    for k, (nV, H, ops, kind, N) in cases.items():
        if k not in res:
            continue
        tag = "kind%d/%s" % (kind, "N<=32" if N <= 32 else "N>32")
        dist[tag] = dist.get(tag, 0) + 1
        if res[k] != "1 1 1" or not ver.get(k, (False, False, False))[2]:
            bad += 1
            if bad <= 3:
                cx.violation("cleanup-leaves-non-2-manifold",
                             "CleanupTopology (SplitPinchedVerts + DedupeEdges) on an even-manifold state (kind %d, fans of %d triangles at the shared vertices) followed by "
                             "SortVerts+SortFaces: extracted halfedge_inv/nan_iff_unreferenced/in_range = %s, extracted check_mesh/check_vertex_manifold = %s (a directed edge still occurs twice or a vertex is pinched)" % (
                                 kind, N, res[k], [int(x) for x in ver.get(k, (False, False, False))[0::2]]),
                             {"case": ops_line(k, nV, H, ops), "fan": N, "kind": kind})
    cx.cov["cleanup_oracle"] = {"cases": len(cases), "judged": len(res), "rejected": bad, "distribution": dist}
    cx.log("cleanup oracle: %d even-manifold states, %d judged by extracted invariants + check_mesh, %d rejected; %s" % (len(cases), len(res), bad, dist))
    return len(res)


def prove_retry(cx):
    """cx.prove(), retried when the shared coq/Makefile lost a race with another check that was regenerating
    its coq/Gen/*.v at the same moment ('No rule to make target')."""
    for attempt in range(4):
        nb, no, nd = len(cx.broken), cx.obligations, cx.discharged
        ok = cx.prove()
        if ok:
            return True
        log = open(os.path.join(vp.BUILD, "logs", "coq_%s.log" % cx.pid)).read()
        if "No rule to make target" not in log or attempt == 3:
            return False
        del cx.broken[nb:]
        cx.obligations, cx.discharged = no, nd
        time.sleep(5 + 5 * attempt)
    return False


def run(cx):
    cx.assumptions += [
        "end-to-end part: coverage of programs is what the seeded generator reaches (families general/lattice/import/smooth-refine/large); the verdict on each exported mesh is the extracted Coq checker's, proved equivalent to the declarative predicate",
        "harness (C++) applies mergeFromVert->mergeToVert and renumbers surviving vertices; OCaml driver parses integers; both trusted",
        "finiteness of positions and tangents is tested by the harness with std::isfinite (not a Coq artefact); non-finite values in user-requested property channels (e.g. curvature on zero-area neighbourhoods) are only recorded",
    ]
    pipes = translate_pipelines(cx)
    prove_retry(cx)
    mls = vp.coq_extract("ExtractC01", ["c01_model.ml"])
    drv = vp.ocaml_build("c01_driver", mls + [os.path.join(vp.ROOT, "extract/c01_driver.ml")])
    exe = vp.build_harness(HARNESS, "seq", link_lib=True)
    if cx.replay_mode:
        return replay(cx, exe, drv, cx.replay_mode)

    rng = random.Random(cx.seed * 1000003 + 1)
    progs = {}
    fam_count = {}
    nprog = int(os.environ.get("VERIF_C01_NPROG", cx.pick(600, 5000)))   # override only for self-validation runs on a loaded machine
    maxtri = cx.pick(2500, 20000)
    for n in range(nprog):
        fam = rng.choices(FAMILIES, FAMILY_WEIGHTS)[0]
        fam_count[fam] = fam_count.get(fam, 0) + 1
        ins = gen_program(rng, fam)
        if rng.random() < 0.06:
            far_partner(rng, ins)
        # a third of the programs is built completely before anything is evaluated (negative maxtri = lazy mode of the
        # harness: values are forced last-first), so pending transforms and unevaluated CSG nodes reach the operations
        progs["q%d" % n] = (-maxtri if rng.random() < 0.35 else maxtri, ins)
    # corpus of past shrunk failures runs first (same ids space)
    cdir = os.path.join(vp.ROOT, "corpus", "C01")
    if os.path.isdir(cdir):
        for fn in sorted(os.listdir(cdir)):
            if fn.endswith(".prog"):
                for i, l in enumerate(open(os.path.join(cdir, fn))):
                    if l.startswith("PROG"):
                        t = l.split()
                        progs["c%s%d" % (re.sub(r"\W", "", fn[:-5]), i)] = (int(t[2]), [seg.split() for seg in l.strip().split("|")[1:]])
    t0 = time.time()
    findings, stats = evaluate(cx, exe, drv, progs, min(vp.NPROC, 12))
    cx.log("seq: %d programs, %d values (%d non-empty, %d error-status, %d skipped-large, %d timeouts), %d triangles judged, %.1fs" % (
        len(progs), stats["values"], stats["nonempty"], stats["error_status"], stats["skipped"], len(stats["timeouts"]), stats["tris"], time.time() - t0))
    allstats = {"seq": stats}
    variants = [("seq", exe, progs, findings)]
    if not cx.quick():
        exe_par = vp.build_harness(HARNESS, "par", link_lib=True)
        rngp = random.Random(cx.seed * 7777 + 5)
        pp = {}
        for n in range(24):
            pp["L%d" % n] = (600000, gen_large(rngp))
        pp["Lhuge"] = (2000000, [["sphere", "1", "1028"], ["trim", "0", "0", "0", "1", "0.5"]])   # 262k+ vertices: CreateHalfedges bucket branch
        for n in range(600):
            fam = rngp.choices(FAMILIES, FAMILY_WEIGHTS)[0]
            pp["p%d" % n] = (-20000 if rngp.random() < 0.35 else 20000, gen_program(rngp, fam))
        t0 = time.time()
        fpar, spar = evaluate(cx, exe_par, drv, pp, 4, alarm=600)
        cx.log("par: %d programs, %d values, %d triangles judged, largest mesh %d triangles, %.1fs" % (len(pp), spar["values"], spar["tris"], spar["maxtri_seen"], time.time() - t0))
        allstats["par"] = spar
        variants.append(("par", exe_par, pp, fpar))

    all_findings = []
    for vname, vexe, vprogs, vfind in variants:
        for pid, k, key, desc, info in vfind:
            ins = vprogs[pid][1]
            all_findings.append((pid, k, key, desc, info, ins[k][0] if k < len(ins) else "?"))
    nshrunk = 0
    seen_keys = {}
    for vname, vexe, vprogs, vfind in variants:
        for pid, k, key, desc, info in vfind:
            seen_keys[key] = seen_keys.get(key, 0) + 1
            if seen_keys[key] > 1:
                continue
            mt, ins = vprogs[pid]
            small = ins
            if nshrunk < 6 and not key.startswith("no-verdict"):
                nshrunk += 1
                try:
                    small = shrink(cx, vexe, drv, mt, ins, k, key)
                except Exception as e:      # shrinking is best effort
                    cx.notes.append("shrink failed for %s: %r" % (key, e))
                    small = cone(ins, k)[0]
            cx.violation(key, desc + " [build variant %s]" % vname,
                         {"program": prog_line("r", mt, small), "original_program": prog_line(pid, mt, ins), "variant": vname,
                          "failing_value": info.get("value"), "S": info.get("S"),
                          "how_to_replay": "bin/check C01 --replay <this file>   (or: echo '<program>' | build/h-c01_prog-%s-*/c01_prog | build/ml-c01_driver-*/c01_driver)" % vname})
    if pipes is not None:
        pipeline_verdicts(cx, drv, pipes, all_findings, exe, progs)
    cx.cov["violation_keys_hit"] = seen_keys
    tot_vals = sum(s["values"] for s in allstats.values())
    cx.cov.update({
        "evaluations": tot_vals,
        "distinct_nontrivial": sum(s["nonempty"] for s in allstats.values()),
        "rule": "one evaluation = one Manifold produced by an instruction of a generated public-API program, exported with GetMeshGL64, merged, judged by the extracted check_mesh/check_counts; "
                "non-trivial = Status NoError and at least one triangle",
        "distribution": {"families": fam_count, "ops": allstats["seq"]["ops"], "programs": len(progs),
                         "triangles_judged": sum(s["tris"] for s in allstats.values()),
                         "largest_mesh": max(s["maxtri_seen"] for s in allstats.values()),
                         "error_status_values": sum(s["error_status"] for s in allstats.values()),
                         "skipped_too_large": sum(s["skipped"] for s in allstats.values()),
                         "programs_timed_out(not judged)": [t for s in allstats.values() for t in s["timeouts"]],
                         "values_with_nonfinite_property_channel(noted only)": [t for s in allstats.values() for t in s.get("nonfinite_property", [])][:20]},
    })
    for pid in list(progs)[:3]:
        cx.sample({"program": prog_line(pid, progs[pid][0], progs[pid][1])[:500]})
    ncorr, ntriv = topo_correspondence(cx, drv)
    cx.cov["evaluations"] += ncorr
    cx.cov["distinct_nontrivial"] += ntriv
    nsteps, nchg = ops_correspondence(cx, drv)
    cx.cov["evaluations"] += nsteps
    cx.cov["distinct_nontrivial"] += nchg
    ncl = cleanup_oracle(cx, drv)
    cx.cov["evaluations"] += ncl
    cx.cov["distinct_nontrivial"] += ncl
