"""C09 — malformed input gives an error Status, never undefined behaviour.
proof (table-driven ingest model, bounds theorem conditional on a Boolean
obligation evaluated on the table regenerated from src/impl.h; status
forwarding table regenerated from src/manifold.cpp) + differential fuzz under
ASan/UBSan of the extracted model against the real constructor."""
import os, random, re, sys, concurrent.futures
import vp

sys.path.insert(0, os.path.join(vp.ROOT, "translate"))
import c09_ladder, c09_status, c09_records as R

LEVEL = "proof"
META = {
    "level": "proof",
    "technique": "Coq proof over a table-driven model of Impl(MeshGLP) (rungs + access-bearing statements regenerated from src/impl.h), "
                 "status-forwarding table regenerated from src/manifold.cpp, extracted model vs. real code under ASan+UBSan",
    "text": "Theorem ingest_in_bounds: for every rung/statement table accepted by the proved-sound Boolean ladder_table_safe, every MeshGL "
            "record (lengths, index vectors, finiteness flags; both index widths) and every oracle answer, all subscripts the ingest "
            "constructor performs (merge map, vertex/property copy, run table -> triRef/faceID/runTransform, triangle loop, later "
            "vertex/property/tangent users) are in bounds; the table is re-read from /repo's impl.h on every run and the obligation "
            "re-evaluated. ladder_total characterises the verdict as the first firing rung; error_absorbing: induction over programs of "
            "public methods with the regenerated forwarding table. Refuted on the pinned tree (vm_compute witnesses, replayed under ASan). "
            "Tie: 2000 structure-aware mutated records per run, model verdict vs Status, sanitizer verdict, error persistence through "
            "random programs; polygons/points/OBJ/numeric arguments explored under the sanitizers.",
    "note": "Trusted: Coq kernel, extraction, the two token-level translators (exercised by the differential run), ASan/UBSan as witness "
            "finders. Abstracted: numeric payloads to all-finite flags; element counts < 2^31; CleanupTopology assumed not to add faces "
            "before tangents are gathered (hypothesis nFaceSort <= NumTri); CreateHalfedges/IsManifold/SortGeometry internals beyond the "
            "listed subscripts are an oracle; the face count at sort time is replayed per record by the harness and ingest_in_bounds_all_face_counts needs no "
            "hypothesis on it once DedupeEdge keeps the tangents in step (table flag read from src/edge_op.cpp). Polygons, point sets, OBJ text, numeric arguments, MeshGL::Merge: exploration only.",
}

KEY_OF_ARRAY = {"triRef": "runindex-oob", "runIndex": "runindex-oob",
                "halfedgeTangent_": "tangent-length-oob", "numProp-divisor": "numprop-zero-div"}
KEY_OF_ITEM = {"IRunLoop": "runindex-oob", "IPost": "tangent-length-oob", "IComputeCounts": "numprop-zero-div"}
NOPS = 36
# ops applied to objects the model accepts (possibly valid solids): cheap ones with valid arguments only
CHEAP_OPS = [0, 1, 2, 3, 4, 5, 6, 8, 10, 11, 12, 13, 18, 20, 21, 22, 23, 25, 30, 32, 33, 35]
ALL_OPS = list(range(NOPS))


def san_summary(err):
    m = re.search(r"ERROR: AddressSanitizer: ([\w-]+)", err)
    if m:
        return "asan:" + m.group(1)
    m = re.search(r"runtime error: ([^\n]*)", err)
    if m:
        return "ubsan:" + m.group(1)[:60]
    if "DEADLYSIGNAL" in err or "SEGV" in err:
        return "segv"
    return "died"


def crash_site(err):
    """first library frame of a sanitizer report, as a stable name"""
    for f in re.findall(r"#\d+ 0x[0-9a-f]+ in ([^\n]*)", err):
        if (vp.REPO.rstrip("/") + "/src/") in f or (vp.REPO.rstrip("/") + "/include/manifold/") in f:
            g = f
            for _ in range(6):
                g = re.sub(r"<[^<>]*>", "", g)
            m = re.search(r"([A-Za-z_~]\w*)\s*\(", g) or re.match(r"\s*(?:[A-Za-z_]\w*::)*([A-Za-z_~]\w*)", g)
            fn = m.group(1) if m else "?"
            fl = re.search(r"/(?:src|include/manifold)/([\w.]+):", f)
            return "%s@%s" % (fn, fl.group(1) if fl else "?")
    m = re.search(r"/(?:src|include/manifold)/([\w.]+):\d+:\d+: runtime error", err)
    if m:
        return "ubsan@" + m.group(1)
    st = re.findall(r"^stage (\S+)", err, flags=re.M)
    if st:                      # killed by the CPU-time watchdog or died without a sanitizer stack: last entry point started
        return "in@" + st[-1]
    return san_summary(err).split(":")[0]


def gen_records(cx, n):
    rng = random.Random(cx.seed * 1000003 + 9)
    recs = []
    bases = {32: R.bases(32), 64: R.bases(64)}
    cid = 0
    # every base unmutated first
    for prec in (32, 64):
        for name, b in bases[prec]:
            recs.append((str(cid), b, "base:" + name, None)); cid += 1
    # valid cube followed by fixed programs (deterministic part of the program search)
    for prog in ([18, 20], [16, 13], [20, 18, 13], [10, 11, 12], [23, 30], [3, 4]):
        recs.append((str(cid), R.cube(64), "base:cube+prog%s" % "-".join(map(str, prog)), prog)); cid += 1
    # fixed witnesses of the Coq refutations
    for tag, f in (("w:runindex", lambda c: c.update(runIndex=[0, 3036])), ("w:tangent8", lambda c: c.update(halfedgeTangent=[0.5] * 8)),
                   ("w:runs-noindex", lambda c: c.update(runOriginalID=[7, 9])), ("w:numprop0", lambda c: c.update(numProp=0))):
        for prec in (32, 64):
            c = R.cube(prec); f(c)
            recs.append((str(cid), c, tag, None)); cid += 1
    while len(recs) < n:
        prec = rng.choice((32, 64))
        name, b = rng.choice(bases[prec])
        depth = 1 if rng.random() < 0.75 else 2
        r, tag = R.mutate(rng, b, depth)
        recs.append((str(cid), r, name + "/" + tag, None)); cid += 1
    return recs


def gen_prog(rng, errored):
    """errored objects get any operation (they must all forward the error, and they are cheap);
    accepted objects only cheap operations with valid arguments."""
    k = rng.choice([1, 2, 2, 3])
    prog = [rng.choice(ALL_OPS if errored else CHEAP_OPS) for _ in range(k)]
    if rng.random() < 0.2:
        prog.insert(rng.randrange(len(prog) + 1), 4)     # Mirror with a zero normal
    return prog


def run_isolated(exe, lines):
    def one(l):
        rc, out, err = vp.sh2([exe], input=l + "\n", timeout=600)
        return l, rc, out, err
    with concurrent.futures.ThreadPoolExecutor(max_workers=min(8, vp.NPROC)) as ex:
        return list(ex.map(one, lines))


def check_program(cx, cid, tag, line, status0, ntri0, steps, stats):
    """error persistence: once non-NoError, stays non-NoError and empty."""
    st, nt = status0, ntri0
    if st != 0 and nt != 0:
        cx.violation("error-not-empty", "constructor returned status %d with %d triangles (%s)" % (st, nt, tag), {"case": line})
    for s in steps:
        op, s1, n1, empty = s.split(":")
        s1, n1 = int(s1), int(n1)
        if st != 0:
            stats["error_steps"] += 1
            if s1 == 0 or n1 != 0 or empty != "1":
                cx.violation("error-lost:" + op, "status %d became status %d / %d triangles after %s (%s)" % (st, s1, n1, op, tag), {"case": line})
            elif s1 != st:
                stats["error_code_changed"] += 1
        elif s1 != 0 and n1 != 0:
            cx.violation("error-not-empty", "%s returned status %d with %d triangles" % (op, s1, n1), {"case": line})
        st, nt = s1, n1


def obj_buffer_sizes():
    """every fixed buffer size in the OBJ reader (src/impl.cpp ReadOBJWithEpsilon), read from the source"""
    try:
        src = open(os.path.join(vp.REPO, "src/impl.cpp")).read()
        a = src.index("ReadOBJWithEpsilon(")
        body = src[a:a + 6000]
        vals = set(int(x) for x in re.findall(r"constexpr\s+size_t\s+\w+\s*=\s*(\d+)\s*;", body))
        vals |= set(int(x) for x in re.findall(r"std::array<\s*char\s*,\s*(\d+)\s*>", body))
        vals |= set(int(x) for x in re.findall(r"char\s+\w+\[(\d+)\]", body))
        return sorted(v for v in vals if 8 <= v <= 1 << 20) or [1000]
    except Exception:
        return [1000]


def explore_lines(cx, n):
    rng = random.Random(cx.seed * 7 + 909)
    special = ["nan", "inf", "-inf", "0", "-0.0", "1e308", "-1e308", "1e-320", "5e-324", "-1", "1", "1e18", "3", "0.5"]
    def num():
        return rng.choice(special) if rng.random() < 0.5 else repr(rng.uniform(-3, 3))
    out = []
    cid = 0
    if cx.quick():
        special = ["nan", "inf", "-inf", "0", "1e308", "5e-324", "-1"]
    # numeric constructor / method arguments: DETERMINISTIC one-at-a-time sweep of special values
    # around valid defaults (so that the set of findings does not depend on the seed)
    defaults = {"Cube": ("1", "2", "3", "0"), "Cylinder": ("1", "1", "0.5", "8"), "Sphere": ("1", "0", "0", "8"),
                "Extrude": ("1", "10", "0.5", "2"), "Revolve": ("270", "0", "0", "8"), "Refine": ("0", "0", "0", "2"),
                "RefineToLength": ("0.5", "0", "0", "0"), "RefineToTolerance": ("0.05", "0", "0", "0"),
                "LevelSet": ("0.3", "1", "0", "0"), "Scale": ("1", "2", "3", "0"), "Rotate": ("10", "20", "30", "0"),
                "Translate": ("1", "2", "3", "0"), "SetTolerance": ("0.01", "0", "0", "0"), "Simplify": ("0.01", "0", "0", "0"),
                "Circle": ("1", "0", "0", "8"), "Square": ("1", "2", "0", "0"), "Offset": ("0.1", "2", "0", "4"),
                "SmoothByNormals": ("0", "0", "0", "0"), "CalculateCurvature": ("0", "0", "0", "1"), "CalculateNormals": ("60", "0", "0", "0"),
                "GetMeshGL": ("0", "0", "0", "0"), "SetPropertiesN": ("0", "0", "0", "1"), "SetPropertiesNull": ("0", "0", "0", "3"),
                "ReserveIDs": ("0", "0", "0", "1"), "MinGap": ("0.5", "2", "0", "0"), "RayCast": ("3", "0.1", "0.2", "0"),
                "SliceProject": ("0.2", "0", "0", "0")}
    used = {"Cube": [0, 1, 2], "Cylinder": [0, 1, 2, 3], "Sphere": [0, 3], "Extrude": [0, 1, 2, 3], "Revolve": [0, 3], "Refine": [3],
            "RefineToLength": [0], "RefineToTolerance": [0], "LevelSet": [0, 1, 2], "Scale": [0, 1, 2], "Rotate": [0, 1, 2],
            "Translate": [0, 1, 2], "SetTolerance": [0], "Simplify": [0], "Circle": [0, 3], "Square": [0, 1], "Offset": [0, 1, 3],
            "SmoothByNormals": [3], "CalculateCurvature": [3], "CalculateNormals": [0, 3], "GetMeshGL": [3], "SetPropertiesN": [3], "SetPropertiesNull": [3], "ReserveIDs": [3],
            "MinGap": [0, 1], "RayCast": [0, 1, 2], "SliceProject": [0]}
    ints = ["0", "-1", "1", "2", "3", "4", "7", "-2147483648", "100", "nan"]
    for what in sorted(defaults):
        for pos in used[what]:
            vals = ints if pos == 3 else special
            if what == "ReserveIDs":
                vals = ["0", "1", "2", "4294967295", "4294967296", "-1", "2147483648"]
            if what in ("SetPropertiesN", "SetPropertiesNull"):
                vals = ["0", "1", "2", "3", "4", "7", "-1", "-2147483648", "100"]
            if what == "Refine":
                vals = ["0", "-1", "1", "2", "3", "-2147483648", "2147483647", "100000", "nan"]
            for v in vals:
                args = list(defaults[what]); args[pos] = v
                out.append(("N%d" % cid, "N N%d %s %s %s %s %s" % (cid, what, args[0], args[1], args[2], args[3]))); cid += 1
    # Smooth(mesh, sharpenedEdges): halfedge index (size_t) and smoothness, all four entry points; the source mesh has 48 halfedges
    for variant in (0, 1, 2, 3):
        for he in ("0", "5", "47", "48", "49", "1000000", "2147483647", "2147483648", "3221225472", "4294967295", "4294967296",
                   "1099511627776", "18446744073709551615", "18446744073709551614", "9223372036854775808"):
            out.append(("S%d" % cid, "S S%d %d %s 0.5" % (cid, variant, he))); cid += 1
        for sm in ("nan", "inf", "-inf", "-1", "2", "0", "1", "1e308"):
            out.append(("S%d" % cid, "S S%d %d 5 %s" % (cid, variant, sm))); cid += 1
    # per-component non-finite injection (deterministic): NaN / +inf / -inf in exactly one component of the first, a
    # middle and the last vertex (or of each argument component / matrix entry) for every entry point taking coordinates
    for entry, sels, comps in (("Warp", (0, 1, 2), (0, 1, 2)), ("WarpBatch", (0, 1, 2), (0, 1, 2)), ("MeshGL64", (0, 1, 2), (0, 1, 2, 3)),
                               ("MeshGL", (0, 1, 2), (0, 1, 2, 3)), ("Transform", (0, 1, 2), (0, 1, 2, 3)), ("Translate", (0,), (0, 1, 2)),
                               ("Scale", (0,), (0, 1, 2)), ("Rotate", (0,), (0, 1, 2)), ("Mirror", (0,), (0, 1, 2)),
                               ("SetPropertiesCb", (0, 1, 2), (0, 1, 2)), ("LevelSetSdf", (0, 1, 2), (0,)), ("LevelSetBounds", (0, 1), (0, 1, 2)),
                               ("ExtrudePoly", (0, 1, 2), (0, 1)), ("RevolvePoly", (0, 1, 2), (0, 1)), ("TriangulatePoly", (0, 1, 2), (0, 1)),
                               ("CrossSectionPoly", (0, 1, 2), (0, 1))):
        for sel in sels:
            for comp in comps:
                for val in ("nan", "inf", "-inf"):
                    out.append(("W%d" % cid, "W W%d %s %d %d %s" % (cid, entry, sel, comp, val))); cid += 1
    for fixed in ("1e-6 0", "1e-6 1 0", "1e-6 2 0 0", "0 1 1 0.5 0.5", "-1 1 2 0 0 1 1", "-1 1 3 0 0 1 0 0 1", "-1 1 3 nan 0 1 0 0 1",
                  "-1 1 4 0 0 1 0 1 1 0 1", "-1 2 4 0 0 3 0 3 3 0 3 4 1 1 1 2 2 2 2 1", "inf 1 3 0 0 1 0 0 1", "nan 1 3 0 0 1 0 0 1",
                  "-1 1 4 0 0 0 0 0 0 0 0", "-1 1 4 0 0 1 1 0 1 1 0", "-1 1 3 1e308 0 -1e308 0 0 1e308"):
        out.append(("P%d" % cid, "P P%d %s" % (cid, fixed))); cid += 1
    for _ in range(n):      # polygons
        np_ = rng.choice([0, 1, 1, 2, 3])
        parts = [str(np_)]
        for _ in range(np_):
            m = rng.choice([0, 1, 2, 3, 4, 5, 8, 12])
            parts.append(str(m))
            mode = rng.randrange(5)
            for i in range(m):
                if mode == 0:
                    parts += [num(), num()]
                elif mode == 1:
                    parts += [str(rng.randrange(3)), str(rng.randrange(3))]
                elif mode == 2:
                    parts += ["0.5", "0.5"]
                else:
                    parts += [repr(rng.uniform(-2, 2)), repr(rng.uniform(-2, 2))]
        eps = rng.choice(["-1", "0", "1e-6", "nan", "inf", "0.5"])
        out.append(("P%d" % cid, "P P%d %s %s" % (cid, eps, " ".join(parts)))); cid += 1
    for _ in range(n):      # hull points
        m = rng.choice([0, 1, 2, 3, 4, 5, 8, 20])
        mode = rng.randrange(4)
        pts = []
        for i in range(m):
            if mode == 0:
                pts += [num(), num(), num()]
            elif mode == 1:
                pts += [str(rng.randrange(2)), str(rng.randrange(2)), "0"]
            elif mode == 2:
                pts += ["1", "1", "1"]
            else:
                pts += [repr(rng.uniform(-1, 1)) for _ in range(3)]
        out.append(("H%d" % cid, "H H%d %d %s" % (cid, m, " ".join(pts)))); cid += 1
    objs = ["", "v 0 0 0\n", "f 1 2 3\n", "v 0 0 0\nv 1 0 0\nv 0 1 0\nv 0 0 1\nf 1 3 2\nf 1 2 4\nf 2 3 4\nf 3 1 4\n",
            "v 0 0 0\nv 1 0 0\nv 0 1 0\nf 1 2 999999999\n", "v nan 0 0\nv 1 0 0\nv 0 1 0\nv 0 0 1\nf 1 3 2\nf 1 2 4\nf 2 3 4\nf 3 1 4\n",
            "v 0 0\nf 0 0 0\nf -1 -2 -3\n", "f 1/1/1 2/2/2 3/3/3\n", "v 1e999 0 0\nv a b c\nf x y z\n", "# only a comment", "v 0 0 0\nv 1 0 0\nv 0 1 0\nv 0 0 1\nf 1 3 2 4\nf 4294967297 2 4\n",
            "v 0x1p+0 0 0\nv 0 0x1p+0 0\nv 0 0 0x1p+0\nv 0 0 0\nf 1 2 3\nf 1 4 2\nf 2 4 3\nf 3 4 1\n", "f 18446744073709551616 1 1\n", "v " + "9" * 400 + " 0 0\n"]
    # line lengths around every buffer size constant of the OBJ reader (read from the source), as comment / v / f /
    # unknown lines, with and without the trailing newline, alone and inside a valid tetrahedron; plus long lines, CR/LF,
    # embedded NULs, many tokens per f line, hex-float mode lines
    tetra = objs[3]
    for B in obj_buffer_sizes():
        for ln in (B - 2, B - 1, B, B + 1, B + 2):
            for kind in ("#", "v 1 2 3", "f 1 2 3", "zz", "v 0x1.8p+1 2 3", "# tolerance = 1e-5"):
                body = kind + (" " * max(0, ln - len(kind)) if kind[0] in "vf#" and kind != "#" else "x" * max(0, ln - len(kind)))
                body = body[:ln]
                for nl in ("\n", "", "\r\n"):
                    objs.append(body + nl)
                objs.append(tetra + body + "\n" + "v 9 9 9\n")
                objs.append(tetra + body)
    objs += ["#" + "y" * 5000 + "\n" + tetra, "v " + "1 " * 3000 + "\n", "f " + "1 " * 3000 + "\n", "f " + "1/2/3 " * 2000 + "\n",
             tetra.replace("\n", "\r\n"), tetra.replace("\n", "\r"), "v 0 0\x000 0\nf 1\x00 2 3\n", "\x00" * 50, tetra + "\x00\x00v 1 1 1\n",
             "#" + "z" * 100000, "v " + "9" * 400 + " " + "9" * 400 + " -" + "9" * 400 + "e-400\n", "v 1e+400 1e-400 -1e+400\n",
             "# float_format = hexfloat\n# tolerance = 0x1.0p-40\nv 0x1p+0 0x0p+0 0x0p+0\nv 0x0p+0 0x1p+0 0x0p+0\nv 0x0p+0 0x0p+0 0x1p+0\nv -0x1p+0 -0x1p+0 -0x1p+0\nf 1 2 3\nf 1 4 2\nf 2 4 3\nf 3 4 1\n",
             "f 1 2\nf 1\nf\nv\nv 1\nv 1 2\n", "f 3 2 1 " + "7 " * 500 + "\n"]
    for o in objs:
        out.append(("B%d" % cid, "B B%d %s" % (cid, o.encode("latin-1").hex() or "00"))); cid += 1
    for _ in range(n // 2):
        base = bytearray(rng.choice(objs[3:6]).encode())
        for _ in range(rng.randrange(1, 4)):
            if base:
                base[rng.randrange(len(base))] = rng.choice(b"0123456789 -.e/\nvf#x")
        out.append(("B%d" % cid, "B B%d %s" % (cid, bytes(base).hex() or "00"))); cid += 1
    return out


def run(cx):
    cx.assumptions += [
        "numeric payloads are abstracted to all-finite flags; element counts are assumed < 2^31 (hypothesis `small`)",
        "accesses after CreateHalfedges are modelled for vertex ids, property rows and the tangent gather only; the oracle nFaceSort is replayed "
        "per record by the harness (CreateHalfedges + CleanupTopology on the positions), so the hypothesis nFaceSort <= NumTri is validated or refuted per record",
        "the entry-time cancel gate is modelled (oracle `cancelled`); the later ADVANCE_PHASE_OR_RETURN cancel points are not; "
        "the correspondence run uses ctx = nullptr (cancelled = false)",
        "status forwarding of lazily evaluated nodes relies on Impl::Transform / Boolean3::Result / CsgLeafNode::Compose keeping their status checks "
        "(verified token-wise as `internal` table entries) and is exercised by random programs on errored objects",
        "polygons, point sets, OBJ text, numeric constructor arguments: exploration under ASan/UBSan with a 10 s watchdog, no model",
    ]
    gen = os.path.join(vp.COQ, "Gen")
    translate_ok = True
    try:
        items = c09_ladder.translate(vp.REPO)
        c09_ladder.emit(items, os.path.join(gen, "Ladder.v"))
        cx.cov["ladder_table"] = items
    except Exception as e:  # translator no longer recognises the constructor
        translate_ok = False
        cx.broke("translate:c09_ladder", "the ingest constructor is no longer recognised: %s" % str(e)[:600])
        with open(os.path.join(gen, "Ladder.v"), "w") as f:
            f.write("(* FALLBACK: translation failed; reference (patched) table *)\nFrom MV Require Import Codec.IngestDefs.\n"
                    "Definition table : list item := patched_table.\n")
    try:
        ms, xs, internal = c09_status.translate(vp.REPO)
        c09_status.emit(ms, xs, internal, os.path.join(gen, "Status.v"))
        cx.cov["status_table"] = {"manifold_methods": len(ms), "kinds": {k: sum(1 for _, x in ms if x == k) for k in sorted(set(x for _, x in ms))},
                                  "not_forwarding": [n for n, k in ms if k == "FwdNone"], "internal": dict(internal),
                                  "cross_section_methods_without_status": len(xs)}
    except Exception as e:
        cx.broke("translate:c09_status", "status forwarding table could not be regenerated: %s" % str(e)[:600])
        ms, internal = [], []
        if not os.path.exists(os.path.join(gen, "Status.v")):
            c09_status.emit([], [], [], os.path.join(gen, "Status.v"))
    if os.environ.get("VERIF_C09_SKIP_PROOFS"):      # self-validation shortcut (mutant runs on a loaded machine); never set by bin/check
        cx.notes.append("proof step skipped by VERIF_C09_SKIP_PROOFS")
    else:
        cx.prove()
    mls = vp.coq_extract("ExtractC09", ["c09_model.ml"])
    drv = vp.ocaml_build("c09_driver", mls + [os.path.join(vp.ROOT, "extract/c09_driver.ml")])
    exe = vp.build_harness("c09_fuzz", "san", link_lib=True)
    env = {"ASAN_OPTIONS": "detect_leaks=0:abort_on_error=0:allocator_may_return_null=1", "UBSAN_OPTIONS": "print_stacktrace=1"}

    recs = gen_records(cx, cx.pick(2000, 60000))
    cx.log('records generated')
    # oracle value nFaceSort: the constructor's steps up to CleanupTopology replayed by the harness on the positions
    # (no tangents, no properties: cannot overrun); validates / refutes the hypothesis nFaceSort <= NumTri per record
    flines = [R.to_line("F", cid, r, ()) for cid, r, tag, prog in recs]
    fout, fcr = vp.run_cases(exe, flines, lambda l: l.split()[1], lambda l: l.split()[1] if l.startswith("F ") else None,
                             timeout=1500, max_restarts=10, env=env)
    nfaces = {}
    for l in fout.splitlines():
        if l.startswith("F "):
            _, cid, nf, nt = l.split()
            nfaces[cid] = (int(nf), int(nt))
    for cl, rc1, err1 in fcr:
        if rc1 != 124:
            cx.violation("faces-replay-crash:" + crash_site(err1), "CreateHalfedges/CleanupTopology replay died on a record (rc=%s %s)" % (rc1, san_summary(err1)), {"case": cl})
    faces_added = {cid: v for cid, v in nfaces.items() if v[0] > v[1]}
    cx.cov["records_where_CleanupTopology_added_faces"] = len(faces_added)
    cx.cov["records_with_faces_replayed"] = sum(1 for v in nfaces.values() if v[0] >= 0)
    nftok = lambda cid: " NF %d" % nfaces[cid][0] if cid in nfaces else ""
    lines0 = {cid: R.to_line("R", cid, r, ()) + nftok(cid) for cid, r, tag, prog in recs}
    tags = {cid: tag for cid, r, tag, prog in recs}
    rc, out_model, err = vp.sh2([drv, "current"], input="\n".join(lines0.values()) + "\n", timeout=1700)
    if rc != 0:
        cx.broke("corr:C09/model-driver", "model driver exited %d: %s" % (rc, err[-400:]))
    pred, tline = {}, ""
    for l in out_model.splitlines():
        if l.startswith("M "):
            _, cid, v, oob = l.split(" ", 3)
            pred[cid] = (v, oob)
        elif l.startswith("T "):
            tline = l
    m = re.match(r"T safe=(\d) strong=(\d) status=(\d) unsafe=(\S*) badstatus=(\S*)", tline)
    table_safe, table_strong, status_ok = (m.group(1) == "1", m.group(2) == "1", m.group(3) == "1") if m else (False, False, False)
    unsafe_items = [x for x in (m.group(4).split(",") if m else []) if x]
    if table_safe:
        unsafe_items = [x for x in unsafe_items if x != "IPost"]
    badstatus = [x for x in (m.group(5).split(",") if m else []) if x]
    cx.cov["ladder_table_safe_strong"] = table_strong
    cx.cov["ladder_table_safe"] = table_safe
    cx.cov["unsafe_items"] = unsafe_items
    cx.cov["status_table_ok"] = status_ok

    prng = random.Random(cx.seed * 31 + 5)
    lines = {}
    for cid, r, tag, _ in recs:
        lines[cid] = R.to_line("R", cid, r, _ if _ is not None else gen_prog(prng, pred.get(cid, ("A", "none"))[0] != "A")) + nftok(cid)
    safe_ids = [cid for cid in lines if pred.get(cid, ("?", "none"))[1] == "none"]
    oob_ids = [cid for cid in lines if cid in pred and pred[cid][1] != "none"]
    kl = lambda l: l.split()[1] if l.startswith("R ") else None
    ko = lambda l: l.split()[1] if l.startswith("O ") else None
    out_impl, crashes = "", []
    CH = 400
    for i in range(0, len(safe_ids), CH):
        o, c = vp.run_cases(exe, [lines[cid] for cid in safe_ids[i:i + CH]], kl, ko, timeout=900, max_restarts=6, env=env)
        out_impl += o
        crashes += c
    cx.log('batch run done, %d crashes' % len(crashes))
    impl = {}
    for l in out_impl.splitlines():
        if l.startswith("O "):
            t = l.split()
            impl[t[1]] = (int(t[2]), int(t[3]), t[5:])
    stats = {"error_steps": 0, "error_code_changed": 0}
    dist = {"verdict": {}, "mutation": {}, "prec32": 0, "predicted_oob": len(oob_ids), "accepted_manifold": 0, "accepted_notmanifold": 0}
    mism = 0
    for cl, rc1, err1 in crashes:
        cid = cl.split()[1] if cl.startswith("R ") else "?"
        if cl.startswith("R "):        # run_cases keeps only the tail of stderr: re-run alone for the full sanitizer report
            _, rc2, _, err2 = run_isolated(exe, [cl])[0]
            if rc2 in (0, 124):        # not reproduced alone / wall-clock timeout of the runner: machine load, not a finding
                cx.notes.append("batch failure not reproduced in isolation (rc %s -> %s): %s" % (rc1, rc2, cl[:80]))
                continue
            rc1, err1 = rc2, err2
        cx.violation("crash-on-model-safe-record:" + crash_site(err1),
                     "record the model accepts as memory-safe made the implementation die (rc=%s, %s; mutation %s): %s"
                     % (rc1, san_summary(err1), tags.get(cid), err1[-300:]), {"case": cl})
    seen, nontriv = set(), 0
    for cid in safe_ids:
        v, _ = pred[cid]
        dist["verdict"][v] = dist["verdict"].get(v, 0) + 1
        mk = tags[cid].split("/")[-1].split(":")[0]
        dist["mutation"][mk] = dist["mutation"].get(mk, 0) + 1
        dist["prec32"] += lines[cid].split()[2] == "32"
        if cid not in impl:
            continue
        st, nt, steps = impl[cid]
        if v == "A":
            # past the ladder: NoError, NotManifold (IsManifold rung) or NonFiniteVertex (the closing !IsFinite() rung,
            # reached e.g. when every triangle is degenerate and the bounding box stays empty)
            ok = st in (0, 1, 2)
            dist["accepted_manifold" if st == 0 else "accepted_notmanifold"] += 1
        else:
            ok = st == int(v)
        if not ok:
            mism += 1
            if mism <= 3:
                cx.broke("corr:C09/ladder#case %s" % cid, "model verdict %s but implementation Status %d (mutation %s)" % (v, st, tags[cid]))
                cx.write_replay("corr_case_%s" % cid, {"case": lines[cid], "model": v, "impl_status": st})
        check_program(cx, cid, tags[cid], lines[cid], st, nt, steps, stats)
        key = lines[cid].split(" ", 2)[2]
        if key not in seen:
            seen.add(key)
            if v != "A" or tags[cid].startswith("base") or st == 2:
                nontriv += 1 if not tags[cid].startswith("base") else 0
    # error-position sweep (deterministic): the errored object in every operand position, against partners of every
    # emptiness class, operands evaluated (eager) or deferred (lazy); every result must stay errored and empty
    sweep_n, sweep_lost = 0, {}
    for l, rc1, out1, err1 in run_isolated(exe, ["E e0 eager", "E e1 lazy"]):
        if rc1 == 124:
            cx.notes.append("error sweep hit the runner's wall-clock timeout (machine load): " + l)
            continue
        if rc1 != 0:
            cx.violation("error-sweep-crash:" + crash_site(err1), "the error-position sweep died (rc=%s %s)" % (rc1, san_summary(err1)), {"case": l})
            continue
        mode = l.split()[2]
        for tok in out1.split("|", 1)[1].split():
            name, st, nt, same = tok.rsplit(":", 3)
            sweep_n += 1
            opn = re.match(r"[A-Za-z.]+", name).group(0)
            if st == "0" or nt != "0":
                sweep_lost.setdefault("error-lost:" + opn, []).append("%s %s -> status %s, %s triangles" % (mode, name, st, nt))
            elif same != "1":
                sweep_lost.setdefault("error-nondeterministic:" + opn, []).append("%s %s" % (mode, name))
    for key, lst in sorted(sweep_lost.items()):
        cx.violation(key, "an operand with a non-NoError status gave a result without error in %d combination(s): %s" % (len(lst), "; ".join(lst[:6])),
                     {"harness_line": "E e0 eager / E e1 lazy", "programs": lst[:40],
                      "setup": "bad = Manifold(Tetrahedron MeshGL64 with vertProperties[4] = NaN); validEmpty = Cube() ^ Cube().Translate({5,0,0}); default = Manifold(); otherError = Manifold(mesh with triVerts[2] = 1000)"})
    cx.cov["error_position_sweep_results"] = sweep_n

    # records the model predicts to be out of bounds: each in its own process
    confirmed = {}
    predicted = {}
    oob_ids.sort(key=lambda c: (c not in faces_added, int(c)))
    todo = oob_ids[:cx.pick(48, 2000)]
    for l, rc1, out1, err1 in run_isolated(exe, [lines[c] for c in todo]):
        cid = l.split()[1]
        arr = re.match(r"([\w-]+)", pred[cid][1]).group(1)
        key = KEY_OF_ARRAY.get(arr, "oob-" + arr)
        if arr == "halfedgeTangent_" and cid in faces_added:
            key = "dedupe-tangent-oob"       # tangents of the right length, but DedupeEdge added faces without tangents
        predicted[key] = predicted.get(key, 0) + 1
        if rc1 not in (0, 124):
            confirmed.setdefault(key, (l, pred[cid][1], san_summary(err1), err1))
    for key, (l, where, summ, err1) in confirmed.items():
        frames = [f.strip() for f in re.findall(r"#\d+ 0x[0-9a-f]+ in ([^\n]*)", err1) if "/src/" in f or "/include/" in f][:3]
        cx.violation(key, "model predicts the out-of-bounds access %s; confirmed by the sanitizer build (%s) %s" % (where, summ, "; ".join(frames)[:300]),
                     {"case": l, "model_first_oob": where, "sanitizer": summ})
    for key in predicted:
        if key not in confirmed:
            cx.broke("model-predicts-oob:" + key, "the model predicts out-of-bounds accesses (%d records) but none was confirmed by the sanitizer" % predicted[key])
    cx.log('isolated runs done')
    # obligations on the generated tables
    cx.obligations += 1
    if table_safe and translate_ok:
        cx.discharged += 1
    elif translate_ok:
        missing = [it for it in unsafe_items if KEY_OF_ITEM.get(it, "oob-" + it) not in confirmed and not any(k.startswith("oob-") for k in confirmed)]
        if missing:
            cx.broke("obligation:ladder_table_safe", "Gen.Ladder.table lacks the rungs needed before %s and no concrete witness was confirmed" % ",".join(missing))
        cx.notes.append("ladder_table_safe Gen.Ladder.table = false (unsafe: %s); concrete witnesses: %s" % (",".join(unsafe_items), ",".join(sorted(confirmed))))
    cx.obligations += 1                      # ladder_table_safe_strong: no hypothesis on the face count at sort time
    if table_strong and translate_ok:
        cx.discharged += 1
    elif translate_ok and table_safe:
        if "dedupe-tangent-oob" not in confirmed:
            cx.broke("obligation:ladder_table_safe_strong", "DedupeEdge adds faces without extending halfedgeTangent_ (or is no longer recognised) "
                     "and no record where that overruns the tangent gather was confirmed")
        cx.notes.append("ladder_table_safe_strong Gen.Ladder.table = false: bounds hold only under nFaceSort <= NumTri; %d generated records add faces" % len(faces_added))
    cx.obligations += 1
    if status_ok:
        cx.discharged += 1
    else:
        lost = [k for k, _, _ in cx.violations if k.startswith("error-lost")]
        if not lost:
            cx.broke("obligation:status_table_ok", "methods without recognised status forwarding: %s; internal: %s" % (",".join(badstatus), dict(internal)))
        cx.notes.append("status_table_ok = false (%s)" % ",".join(badstatus))

    # exploration: numeric arguments, polygons, point sets, OBJ text
    if os.environ.get("VERIF_C09_SKIP_EXPLORE"):     # self-validation shortcut for mutant runs; never set by bin/check
        cx.notes.append("exploration skipped by VERIF_C09_SKIP_EXPLORE")
        cx.cov.update({"evaluations": len(recs), "distinct_nontrivial": nontriv, "rule": "exploration skipped", "distribution": dist})
        return
    ex = explore_lines(cx, cx.pick(150, 3000))
    kl2 = lambda l: l.split()[1]
    ko2 = lambda l: l.split()[1] if l.startswith("O ") else None
    eo = ""
    ecr = []
    for l, rc1, out1, err1 in run_isolated(exe, [l for _, l in ex if l[:2] in ("N ", "S ", "W ")]):
        eo += out1
        if rc1 != 0:
            ecr.append((l, rc1, err1))
    o2, c2 = vp.run_cases(exe, [l for _, l in ex if l[:2] not in ("N ", "S ", "W ")], kl2, ko2, timeout=1500, max_restarts=40, env=env)
    eo += o2
    for cl, rc1, err1 in c2:           # confirm every batch failure alone, with the full report
        if cl.startswith("<"):
            continue
        _, rc2, _, err2 = run_isolated(exe, [cl])[0]
        if rc2 not in (0, 124):
            ecr.append((cl, rc2, err2))
    ekeys = {}
    inconclusive = [c for c, r, e in ecr if r == 124]
    cx.cov["exploration_wall_timeouts_ignored"] = len(inconclusive)
    for cl, rc1, err1 in ecr:
        if rc1 == 124:
            continue        # wall-clock timeout of the runner (machine load); the CPU-time watchdog (SIGPROF, rc -27) decides hangs
        kind = cl.split()[0]
        what = cl.split()[2] if kind in ("N", "W") else {"P": "polygons", "H": "hull-points", "B": "obj-text", "S": "Smooth"}.get(kind, kind)
        args = "_".join(cl.split()[3:7]) if kind == "N" else ("_".join(cl.split()[2:5]) if kind == "S" else "")
        # one key per (entry point, crash site); the argument tuples are listed in the description and the replay
        ekeys.setdefault("explore-%s:%s" % (what, crash_site(err1)), []).append((cl, rc1, err1))
    for key, lst in sorted(ekeys.items()):
        cl, rc1, err1 = lst[0]
        frames = [f.strip() for f in re.findall(r"(/repo/[^\n]*runtime error[^\n]*|#\d+ 0x[0-9a-f]+ in [^\n]*/src/[^\n]*)", err1)][:2]
        argl = [" ".join(c.split()[2:7]) for c, _, _ in lst[:8]]
        rp = {"case": cl, "all_cases": [c for c, _, _ in lst][:20]}
        if cl.startswith("B "):
            txt = bytes.fromhex(cl.split()[2]).decode("latin-1")
            rp["obj_text_repr"] = repr(txt) if len(txt) < 3000 else repr(txt[:1500]) + " ... " + repr(txt[-1200:])
            rp["obj_line_lengths"] = [len(x) for x in re.split(r"[\r\n]", txt)][:40]
            argl = ["OBJ text with line lengths %s" % rp["obj_line_lengths"][:12]]
        cx.violation(key, "%d argument tuple(s) made the implementation die or hang: %s (first: rc=%s %s %s)" % (len(lst), "; ".join(argl)[:400], rc1, san_summary(err1), "; ".join(frames)[:200]), rp)
    nexp = 0
    wline = {l.split()[1]: l for _, l in ex if l.startswith("W ")}
    nonfinite, werr_lost, w_empty_noerror = {}, {}, []
    for l in eo.splitlines():
        if l.startswith("O ") and " W:" in l:
            t = l.split()
            wid, st, nt = t[1], int(t[2]), int(t[3])
            entry = t[5][2:]
            if st == 0 and "finite=0" in l:
                nonfinite.setdefault("nonfinite-accepted:" + entry, []).append(wline.get(wid, wid))
            if "lost=1" in l:
                werr_lost.setdefault("error-lost-after-nonfinite:" + entry, []).append(wline.get(wid, wid))
            if st == 0 and nt == 0 and entry in ("Warp", "WarpBatch"):
                w_empty_noerror.append(wline.get(wid, wid))
    for key, lst in sorted(list(nonfinite.items()) + list(werr_lost.items())):
        cx.violation(key, "a non-finite value in ONE component was accepted: Status NoError with non-finite coordinates / volume (or the error was lost by a "
                     "following Boolean) in %d case(s): %s" % (len(lst), "; ".join(" ".join(x.split()[2:]) for x in lst[:8])), {"case": lst[0], "all_cases": lst[:40]})
    cx.cov["observation_warp_nonfinite_gives_empty_NoError"] = [" ".join(x.split()[2:]) for x in w_empty_noerror][:20]
    for l in eo.splitlines():
        if l.startswith("O "):
            nexp += 1
            if "ERROR-NOT-EMPTY" in l or "badindex:1" in l or "threw:1" in l:
                cx.violation("explore-bad-result", "exploration case returned an unusable result: " + l, {"out": l})
    cx.cov.update({"evaluations": len(recs) + nexp, "distinct_nontrivial": nontriv,
                   "rule": "seeded structure-aware mutation of 9 valid base records x 2 precisions; non-trivial = distinct mutated record that the ladder "
                           "rejects or that is accepted but not manifold (bases themselves excluded)",
                   "distribution": dist, "correspondence_mismatches": mism, "records": len(recs), "records_run_in_batch": len(impl),
                   "predicted_oob_run_isolated": len(todo), "predicted_oob_by_key": predicted, "confirmed_by_sanitizer": sorted(confirmed),
                   "program_steps_on_errored_objects": stats["error_steps"], "error_code_changed_but_still_error": stats["error_code_changed"],
                   "exploration_cases": nexp,
                   "arguments_swept": {
                       "Cube": "size x/y/z", "Cylinder": "height, radiusLow, radiusHigh, circularSegments", "Sphere": "radius, circularSegments",
                       "Extrude": "height, twistDegrees, scaleTop, nDivisions + polygon coordinates", "Revolve": "revolveDegrees, circularSegments + polygon coordinates",
                       "Refine": "n (incl. 100000, INT_MAX)", "RefineToLength": "length", "RefineToTolerance": "tolerance", "LevelSet": "edgeLength, bounds, level",
                       "Scale/Rotate/Translate": "all components", "SetTolerance/Simplify": "tolerance", "CrossSection::Circle/Square/Offset": "radius, segments, size, delta, miterLimit",
                       "SmoothByNormals/CalculateNormals/CalculateCurvature/GetMeshGL": "property / normal channel index", "SetProperties": "numProp (with and without a callback)",
                       "ReserveIDs": "count", "MinGap": "searchLength, distance", "RayCast/WindingNumber": "origin, endpoint, query point", "Slice": "height",
                       "Smooth (MeshGL, MeshGL64, ExecutionContext::Smooth x2)": "sharpenedEdges halfedge index (0..SIZE_MAX incl. 2^31, 3*2^30, 2^32, 2^40, 2^63) and smoothness",
                       "Triangulate/CrossSection/Hull/ReadOBJ": "coordinates, epsilon, text (random + fixed)",
                       "not swept": "Warp/WarpBatch/SetProperties callbacks writing out of range (documented undefined), sdf callbacks returning NaN"}, "exploration": "numeric ctor args / polygons / hull points / OBJ text: sanitizer verdict + 10 s watchdog + error-or-usable only"})
    for cid in (safe_ids[40:41] + oob_ids[:1] + safe_ids[300:301]):
        cx.sample({"mutation": tags[cid], "case": lines[cid][:300], "model": pred.get(cid), "impl": impl.get(cid, ("died/isolated",))[:2]})
