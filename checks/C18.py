"""C18 — measurements and queries agree with their brute-force definitions.
translation_validation: the public measurement/query API of /repo is run on
generated manifolds; everything it returns is judged by exact checkers
extracted from Coq (Geo/MeasureDefs.v, Geo/WindingDefs.v, Topo/CheckMeshDefs.v)
on the exported mesh, with proved kernels (Properties_C18.v)."""
import math, os, random, subprocess
import vp

LEVEL = "translation_validation"
META = {
    "level": "translation_validation",
    "technique": "Coq-verified exact checkers (dyadic/rational arithmetic) run on the library's outputs + proved kernels",
    "text": "Coq: bbox_reduce (CalculateBBox's NaN-skipping min/max combiner gives the tight box of the non-tombstone vertices for every reduction tree, "
            "any number of re-used init values, any vertex order); mingap_candidates_complete (+ C14's collisions_exact_box: no triangle pair closer than the "
            "search length is missed by the inflated-box collider query); tri_dist2_exact (the rational triangle-triangle distance checker returns an attained "
            "value that no pair of points beats - first-order optimality certificate); decompose_components (union-find labels = connected components of the "
            "edge graph, faces partitioned, volume6 additive); area/volume bracket lemmas. Run: Volume/SurfaceArea/BoundingBox/MinGap/RayCast/WindingNumber/"
            "Slice/Project/Decompose/counts of generated manifolds (all primitives, Boolean results, several components, genus>0, random transforms) are compared "
            "with the extracted exact checkers on the GetMeshGL64 export; DistanceTriangleTriangleSquared is compared directly with tri_dist2.",
    "note": "Trusted: Coq kernel, extraction, the OCaml driver (bit pattern -> integer scaling, tolerance arithmetic, sample grids, generic-position filter), "
            "the harness. Floating-point tolerances are stated constants: volume/area 2(n+16)u*sum of term magnitudes (covers any summation order); MinGap "
            "|g^2-d^2| <= 2^-40 (S+L)^2; ray hits within 2^-36 S of segment and surface. Coverage of inputs is what the generator reaches. "
            "The pruning by box gaps inside mingap2 is justified by box_gap2_lower (integer homogeneous form) but not linked to the Q-valued fold by a theorem. "
            "Corpus: key mingap-small-triangles-zero (MinGap returns 0 for separated solids whose triangles have |n|^2 <= 1e-15: absolute threshold in tri_dist.h; "
            "candidate fix hooks/fix_C18_1.patch). Slice is also judged at the exact height of an exported vertex.",
}

R4 = lambda rng, a, b: repr(round(rng.uniform(a, b), 4))


def shape(rng, small=False):
    k = rng.choice(["cube", "cube", "tet", "sphere", "cyl", "lshape", "torus"])
    if k == "cube":
        return "cube %s %s %s %d" % (R4(rng, .5, 2), R4(rng, .5, 2), R4(rng, .5, 2), rng.randrange(2))
    if k == "tet":
        return "tet"
    if k == "sphere":
        return "sphere %s %d" % (R4(rng, .6, 1.5), rng.choice([4, 8] if small else [4, 8, 12, 16]))
    if k == "cyl":
        return "cyl %s %s %s %d" % (R4(rng, .5, 2), R4(rng, .4, 1.2), R4(rng, .3, 1.2), rng.choice([5, 8] if small else [5, 8, 12]))
    if k == "lshape":
        a = rng.uniform(1, 2)
        return "lshape %r %r %s" % (round(a, 3), round(a * rng.uniform(.3, .6), 3), R4(rng, .4, 1.5))
    return "torus %s %s %d %d" % (R4(rng, 1.2, 1.8), R4(rng, .3, .6), rng.choice([6, 8] if small else [8, 12]), rng.choice([4, 6]))


def xform(rng, lattice=False):
    if lattice:
        return "tr %r %r %r" % (rng.randrange(-8, 9) / 4.0, rng.randrange(-8, 9) / 4.0, rng.randrange(-8, 9) / 4.0)
    t = []
    if rng.random() < .8:
        t.append("rot %s %s %s" % (R4(rng, -180, 180), R4(rng, -180, 180), R4(rng, -180, 180)))
    if rng.random() < .4:
        t.append("sc %s %s %s" % (R4(rng, .5, 1.5), R4(rng, .5, 1.5), R4(rng, .5, 1.5)))
    t.append("tr %s %s %s" % (R4(rng, -1, 1), R4(rng, -1, 1), R4(rng, -1, 1)))
    return " ".join(t)


def gen_solid(rng):
    """program leaving one manifold on the stack, tags describing it"""
    r = rng.random()
    if r < .3:
        # a quarter of the single solids stay axis-aligned (translation by multiples of 1/4 only): vertical and horizontal
        # faces, equal coordinates - the "exact ties and zeros" stratum for Project / Slice / RayCast / WindingNumber
        return shape(rng) + " " + xform(rng, lattice=rng.random() < .25), "single"
    if r < .65:
        op = rng.choice(["add", "sub", "int", "sub"])
        p = "%s %s %s %s %s" % (shape(rng), xform(rng), shape(rng), "tr %s %s %s" % (R4(rng, -.5, .5), R4(rng, -.5, .5), R4(rng, -.5, .5)), op)
        if rng.random() < .5:
            p += " " + xform(rng)
        return p, "boolean"
    if r < .9:
        # several components: disjoint by construction (bounding radius < 2.6, shifts of 6)
        p = "%s rot %s %s %s %s rot %s %s %s tr 6 0 0 compose" % (shape(rng), R4(rng, -90, 90), R4(rng, -90, 90), R4(rng, -90, 90),
                                                                   shape(rng), R4(rng, -90, 90), R4(rng, -90, 90), R4(rng, -90, 90))
        if rng.random() < .5:
            p += " %s tr 0 6 0 compose" % shape(rng, True)
        if rng.random() < .5:
            p += " " + xform(rng)
        return p, "components"
    # hollow: a cavity gives 2 components of the surface in one solid, nested
    return "cube 2 2 2 1 cube 1 1 1 1 %s sub" % ("rot %s %s %s" % (R4(rng, 0, 90), R4(rng, 0, 90), R4(rng, 0, 90))), "cavity"


def structured_dirs():
    """directions with exact ties and zeros between components: one/two zero components, |dx|=|dy| (every axis pair, every
    sign pattern) with a zero, tiny, smaller or larger third component, all three equal"""
    import itertools
    out = []
    for third in (0.0, 2.0 ** -20, 2.0 ** -40, 0.5, 2.0):
        for ax in range(3):                       # the axis carrying the odd component
            for sa, sb, sc in itertools.product((1, -1), repeat=3):
                d = [float(sa), float(sb)]
                d.insert(ax, sc * third)
                out.append(tuple(d))
    for ax in range(3):
        for sg in (1, -1):
            d = [0.0, 0.0, 0.0]; d[ax] = float(sg); out.append(tuple(d))
    for sa, sb, sc in itertools.product((1, -1), repeat=3):
        out.append((float(sa), float(sb), float(sc)))
    return sorted(set(out))


STRUCT_DIRS = structured_dirs()
TIE_DIRS = [d for d in STRUCT_DIRS if sorted(map(abs, d))[1] == 1.0 and sorted(map(abs, d))[2] == 1.0 and sorted(map(abs, d))[0] < 0.001]


def structured_ray(rng, scale, centre=(0.0, 0.0, 0.0)):
    """segment through a dyadic point near `centre` whose direction e - o has exactly tied / zero components
    (all numbers dyadic with few bits, so o, e and e - o are exact in binary64)"""
    # half of the rays come from the sharpest stratum: two components tied in magnitude, third zero or tiny
    d = rng.choice(TIE_DIRS) if rng.random() < .5 else rng.choice(STRUCT_DIRS)
    c = [centre[k] + rng.randrange(-40, 41) / 64.0 for k in range(3)]
    h = rng.choice([1.5, 2.0, 3.0, 4.5])
    o = [(c[k] - h * d[k]) * scale for k in range(3)]
    e = [(c[k] + h * d[k]) * scale for k in range(3)]
    if rng.random() < .3:        # one end inside / near the middle: odd parity cases
        e = [c[k] * scale for k in range(3)]
    return "ray %s" % " ".join(repr(x) for x in o + e)


def gen_queries(rng, scale=1.0, centres=((0.0, 0.0, 0.0),)):
    q = ["meas"]
    for _ in range(4):
        q.append(structured_ray(rng, scale, rng.choice(centres)))
    for _ in range(2):
        # query points with equal / zero coordinates
        t = rng.randrange(-60, 61) / 64.0
        u = rng.randrange(-60, 61) / 64.0
        c = rng.choice(centres)
        p = rng.choice([(t, t, t), (t, t, 0.0), (t, -t, u), (t, 0.0, 0.0), (0.0, t, t), (u, t, t), (t, u, -t)])
        q.append("wind %s" % " ".join(repr((p[k] + c[k]) * scale) for k in range(3)))
    for _ in range(2):
        q.append("ray %s" % " ".join(repr(round(rng.uniform(-3, 3), 3) * scale) for _ in range(6)))
    q.append("ray %s" % " ".join(repr(round(rng.uniform(-1, 1), 3) * scale) for _ in range(6)))
    for _ in range(3):
        q.append("wind %s" % " ".join(repr(round(rng.uniform(-1.2, 1.2), 3) * scale) for _ in range(3)))
    q.append("slice %r" % (round(rng.uniform(-.8, .8), 3) * scale))
    q.append("slicev %d" % rng.randrange(1000))
    q.append("proj")
    q.append("decomp")
    return " ".join(q)


def gen_gap(rng):
    lat = rng.random() < .6
    a = ("cube %d %d %d 0" % (rng.randrange(1, 3), rng.randrange(1, 3), rng.randrange(1, 3))) if lat else shape(rng, True)
    b = ("cube %d %d %d 0" % (rng.randrange(1, 3), rng.randrange(1, 3), rng.randrange(1, 3))) if lat else shape(rng, True)
    if lat and rng.random() < .3:
        a = "lshape 2 1 1"
    rel = rng.choice(["separated", "separated", "separated", "separated", "touching", "overlapping", "nested"])
    if rel == "separated":
        d = rng.choice([.25, .5, 1.0, 1.75, 3.0]) if lat else round(rng.uniform(.05, 3), 3)
        sh = "tr %r %r %r" % ((2 + d) if lat else (5.3 + d), rng.randrange(-2, 3) / 2.0 if lat else round(rng.uniform(-1, 1), 3),
                              rng.randrange(-2, 3) / 2.0 if lat else 0.0)
        if lat and rng.random() < .35:
            # diagonal offsets with equal coordinates: closest features are edge-edge / vertex-vertex with exact ties
            sh = rng.choice(["tr %r %r 0.0", "tr %r %r %r"]).replace("%r", repr(2 + d))
        if not lat:
            a += " rot %s %s %s" % (R4(rng, -90, 90), R4(rng, -90, 90), R4(rng, -90, 90))
            b += " rot %s %s %s" % (R4(rng, -90, 90), R4(rng, -90, 90), R4(rng, -90, 90))
    elif rel == "touching":
        a, b, sh, lat = "cube 2 2 2 0", "cube 1 1 1 0", "tr 2 %r %r" % (rng.randrange(0, 3) / 2.0, rng.randrange(0, 3) / 2.0), True
    elif rel == "overlapping":
        sh = "tr %s %s %s" % (R4(rng, .1, .6), R4(rng, -.3, .3), R4(rng, -.3, .3))
    else:
        v = rng.randrange(3)
        if v == 0:      # inside a big convex solid
            a = "cube 6 6 6 1"
            sh = "sc 0.25 0.25 0.25 tr %s %s %s" % (R4(rng, -1, 1), R4(rng, -1, 1), R4(rng, -1, 1))
        elif v == 1:    # inside the tube of a solid torus (genus 1)
            a = "torus 3 1.2 8 6"          # polygonal tube: inscribed radius about 1.0 around the centre polygon of radius >= 2.77
            b = rng.choice(["sphere 1 4", "cube 1 1 1 1", "tet"])
            ang = rng.uniform(0, 2 * math.pi)
            sh = "sc 0.12 0.12 0.12 tr %r %r 0.0" % (round(2.9 * math.cos(ang), 3), round(2.9 * math.sin(ang), 3))
        else:           # inside the second component of a composed solid
            a = "cube 1 1 1 1 cube 6 6 6 1 tr 10 0 0 compose"
            sh = "sc 0.25 0.25 0.25 tr %r %s %s" % (round(10 + rng.uniform(-1, 1), 3), R4(rng, -1, 1), R4(rng, -1, 1))
        if rng.random() < .5:
            # operand order: the harness calls both M.MinGap(N) and N.MinGap(M); also swap the stack order
            return "%s %s %s ; meas gap %s" % (b, sh, a, " ".join(repr(x) for x in (.05, .2, .4, 2.0))), "nested"
        ls_n = (.05, .2, .4, 2.0)
        return "%s %s %s ; meas gap %s" % (a, b, sh, " ".join(repr(x) for x in ls_n)), "nested"
    if rel == "separated":
        # d approximates the true gap (exact for lattice boxes along x): search lengths below, just above, below twice, far above
        ls = sorted(set(round(d * f, 4) for f in (.6, 1.1, 1.4, 1.9, 4.0))) if lat else [.5, 1.5, 3.0, 5.0, 8.0]
    else:
        ls = sorted(set([rng.choice([.1, .3, .6, 1.2, 2.0, 4.0]), rng.choice([.2, .75, 1.5, 2.5, 8.0]), 10.0]))
    return "%s %s %s ; meas gap %s" % (a, b, sh, " ".join(repr(x) for x in ls)), rel


def gen_tritri(rng):
    mode = rng.choice(["lattice", "lattice", "float", "parallel", "far"])
    if mode == "lattice":
        c = [rng.randrange(-3, 4) for _ in range(18)]
    elif mode == "float":
        c = [round(rng.uniform(-2, 2), 3) for _ in range(18)]
    elif mode == "parallel":
        c = [rng.randrange(-3, 4) for _ in range(9)]
        dz = rng.choice([0, 1, 2.5])
        dx = rng.randrange(-4, 5)
        c = c + [c[0] + dx, c[1], c[2] + dz, c[3] + dx, c[4], c[5] + dz, c[6] + dx, c[7], c[8] + dz]
    else:
        c = [round(rng.uniform(-1, 1), 3) for _ in range(9)] + [round(rng.uniform(3, 6), 3) for _ in range(9)]
    return "tet ; " + "tritri " + " ".join(repr(float(x)) for x in c), mode


def build_cases(cx):
    rng = random.Random(cx.seed * 1009 + 18)
    cases = []          # (id, line, kind)
    n_solid, n_gap, n_tt = cx.pick((26, 28, 60), (500, 500, 3000))
    fixed = [
        ("cube 1 1 1 0 ; " + "meas ray -1 0.3 0.4 2 0.31 0.45 wind 0.5 0.5 0.5 wind 1.5 0.5 0.5 slice 0.25 proj decomp", "single"),
        ("torus 2 0.5 12 8 rot 30 10 0 ; meas ray -4 0.1 0.05 4 0.2 0.1 ray 0 0 -3 0.1 0.2 3 wind 2 0.1 0 slice 0.1 proj decomp", "single"),
        ("sphere 1.3 16 rot 10 20 30 tr 0.1 0.2 0.3 cube 1 1 1 1 rot 5 6 7 sub ; meas ray -3 0.1 0.2 3 0.3 0.1 wind 0.9 0.1 0.1 wind 0.1 0.1 0 slice 0.33 proj decomp", "cavity"),
    ]
    # finding: DistanceTriangleTriangleSquared's absolute degeneracy threshold (|n|^2 > 1e-15) makes MinGap return 0
    # for solids with triangles of legs <= ~1e-4 that are a positive distance apart (vertex above a face)
    fixed.append(("cube 0.0001 0.0001 0.0001 0 sphere 1e-05 4 tr 7e-05 2e-05 0.000111 ; meas gap 0.001", "gap-smallscale"))
    fixed.append(("cube 0.01 0.01 0.01 0 sphere 0.001 4 tr 0.007 0.002 0.0111 ; meas gap 0.1", "gap-separated"))
    # nested solids with clearance ABOVE the search length: the answer is 0 (the solids intersect), in both operand
    # orders (the harness evaluates M.MinGap(N) and N.MinGap(M)); inside a genus-1 solid; inside the 2nd component
    fixed += [
        ("cube 20 20 20 1 cube 1 1 1 1 ; meas gap 1.0 5.0 20.0", "gap-nested"),
        ("cube 20 20 20 1 rot 10 20 30 tr 0.3 0.2 0.1 sphere 0.8 4 tr 1 2 3 ; meas gap 0.5 2.0", "gap-nested"),
        ("torus 3 1.2 8 6 sphere 0.4 4 tr 3 0 0 ; meas gap 0.3 0.5 2.0", "gap-nested-genus1"),
        ("cube 1 1 1 1 cube 6 6 6 1 tr 10 0 0 compose sphere 0.5 4 tr 10 0 0 ; meas gap 1.0 2.0 4.0", "gap-nested-2nd-component"),
        ("sphere 0.5 4 tr 10 0 0 cube 1 1 1 1 cube 6 6 6 1 tr 10 0 0 compose ; meas gap 1.0 2.0", "gap-nested-2nd-component"),
        ("cube 8 8 8 1 cube 6 6 6 1 sub cube 1 1 1 1 ; meas gap 1.0 3.0", "gap-in-cavity"),
    ]
    # solids simplified out of existence (smaller than the tolerance): the result has no vertices, so its tight box is
    # the empty box (min = +inf, max = -inf: tight_min [] / tight_max [] of the model, what Manifold() reports);
    # controls: a component that survives next to one that vanishes
    fixed += [
        ("tet sc 0.001 0.001 0.001 settol 1.0 ; meas", "collapsed"),
        ("tet sc 0.001 0.001 0.001 simplify 1.0 ; meas", "collapsed"),
        ("sphere 0.01 8 tr 3 4 5 settol 0.5 ; meas", "collapsed"),
        ("cube 0.01 0.02 0.03 1 rot 10 20 30 tr 1 1 1 simplify 2.0 ; meas", "collapsed"),
        ("tet sc 0.001 0.001 0.001 cube 1 1 1 0 tr 5 0 0 add settol 0.5 ; meas", "collapsed-partly"),
        ("sphere 0.01 8 cube 1 1 1 0 tr 5 0 0 compose simplify 0.25 ; meas decomp", "collapsed-partly"),
    ]
    for p, k in fixed:
        cases.append((str(len(cases)), "CASE %d %s" % (len(cases), p), k))
    for _ in range(n_solid):
        p, k = gen_solid(rng)
        sc = 1.0
        if rng.random() < .15:
            # uniform power-of-two scale of the finished solid (mixing scales inside a Boolean only inflates its tolerance)
            sc = 2.0 ** rng.choice([-40, -20, 20, 40])
            p += " sc %r %r %r" % (sc, sc, sc)
            k += "*2^k"
        centres = ((0.0, 0.0, 0.0), (6.0, 0.0, 0.0)) if (k.startswith("components") and " tr " not in p.split("compose")[-1] and " rot " not in p.split("compose")[-1]) else ((0.0, 0.0, 0.0),)
        cases.append((str(len(cases)), "CASE %d %s ; %s" % (len(cases), p, gen_queries(rng, sc, centres)), k))
    for _ in range(n_gap):
        p, k = gen_gap(rng)
        cases.append((str(len(cases)), "CASE %d %s" % (len(cases), p), "gap-" + k))
    for _ in range(n_tt):
        p, k = gen_tritri(rng)
        cases.append((str(len(cases)), "CASE %d %s" % (len(cases), p), "tritri-" + k))
    return cases


def run_driver_parallel(drv, out_impl, nproc, args=()):
    """split the harness output per case into small batches and let a pool of workers pull them (dynamic load balance:
    a few Minkowski cases cost 100x a hull case)"""
    from concurrent.futures import ThreadPoolExecutor
    blocks, cur = [], []
    for l in out_impl.splitlines():
        cur.append(l)
        if l.startswith("END "):
            blocks.append((sum(len(x) for x in cur), "\n".join(cur) + "\n"))
            cur = []
    blocks.sort(key=lambda b: -b[0])
    batches, cb, csz = [], [], 0
    for sz, b in blocks:
        cb.append(b); csz += sz
        if len(cb) >= 8 or csz > 40000:
            batches.append("".join(cb)); cb, csz = [], 0
    if cb:
        batches.append("".join(cb))
    bad = []

    def work(text):
        p = subprocess.run([drv] + list(args), input=text, stdout=subprocess.PIPE, stderr=subprocess.PIPE, text=True, timeout=3000)
        if p.returncode != 0:
            bad.append((p.returncode, p.stderr[-300:]))
        return p.stdout
    with ThreadPoolExecutor(max_workers=max(1, nproc)) as ex:
        outs = list(ex.map(work, batches))
    return "".join(outs), bad


def run(cx):
    cx.assumptions += [
        "floating-point tolerances are stated constants (see META.note); a defect smaller than them is not detected",
        "queries are judged only at generic arguments: sample points/ray ends within 2^-20*scale of the surface (conservative plane-slab test) are skipped",
        "extracted checkers use Coq's binary integers and rationals; the driver's conversion of IEEE bit patterns to scaled integers is trusted",
        "C14's collisions_exact_box covers the collider traversal that MinGap/RayCast/Slice/WindingNumber use; C13 covers DisjointSets",
    ]
    cx.prove()
    mls = vp.coq_extract("ExtractC18", ["c18_model.ml"])
    drv = vp.ocaml_build("c18_driver", mls + [os.path.join(vp.ROOT, "extract/c18_driver.ml")])
    exe = vp.build_harness("c18_measure", "seq", link_lib=True)
    cases = build_cases(cx)
    lines = [c[1] for c in cases]
    kind = {c[0]: c[2] for c in cases}
    line_of = {c[0]: c[1] for c in cases}
    kl = lambda l: l.split()[1] if l.startswith("CASE") else None
    ko = lambda l: l.split()[1] if l.startswith("END ") else None
    out_impl, crashes = vp.run_cases(exe, lines, kl, ko, timeout=cx.pick(300, 1500))
    for cl, rc, err in crashes:
        cx.violation("query-crash", "a measurement/query crashed or hung (rc=%s): %s" % (rc, err[-200:]), {"case": cl})
    cx.log("harness done: %d cases, %d crashes" % (len(cases), len(crashes)))
    out_v, bad = run_driver_parallel(drv, out_impl, vp.NPROC)
    for rc, err in bad:
        cx.broke("corr:C18/driver", "checker driver exited %s: %s" % (rc, err))
    # reported integers (Q lines)
    rep = {}
    for l in out_impl.splitlines():
        if l.startswith("Q "):
            t = l.split()
            rep[t[1]] = dict(nv=int(t[10]), nt=int(t[11]), nprop=int(t[12]), empty=int(t[13]), genus=int(t[14]), status=int(t[15]), bbox=t[4:10])
    ended, dist, nontriv, checked = set(), {}, set(), 0
    stats = dict(meas=0, gap=0, gap_clamped=0, gap_zero=0, gap_interior=0, ray=0, ray_generic=0, ray_hits=0, wind=0, wind_inside=0, wind_skipped=0,
                 slice=0, slice_samples=0, slice_skipped=0, proj=0, proj_samples=0, decomp=0, decomp_multi=0, tritri=0, tritri_zero=0, genus_pos=0)

    def viol(key, cid, what, extra=None):
        base = cid.split(".")[0].split("/")[0]
        cx.violation(key, what, {"case": line_of.get(base, "?"), "query": cid, "verdict": extra, "replay_with": "echo '<case>' | build/h-c18_measure-*/c18_measure | build/ml-c18_driver-*/c18_driver"})

    for l in out_v.splitlines():
        t = l.split("|")[0].split()
        if len(t) < 3 or t[0] != "V":
            continue
        cid, chk = t[1], t[2]
        base = cid.split(".")[0].split("/")[0]
        if chk == "end":
            ended.add(base)
            continue
        if chk == "error" or (len(t) > 3 and t[3] == "CERTFAIL"):
            cx.broke("corr:C18/checker#%s" % cid, "exact checker could not judge the case (%s)" % l[:200])
            continue
        checked += 1
        v = list(map(int, t[3:]))
        if chk == "meas":
            stats["meas"] += 1
            r = rep.get(base)
            if not v[0]:
                viol("volume-differs-from-exact-sum", cid, "Volume() is outside the rounding bound of the exact signed-tetrahedron sum of the export (%s)" % l.split("|")[-1].strip(), l)
            if not v[1]:
                viol("area-differs-from-exact-sum", cid, "SurfaceArea() is outside the rounding bound of the exact triangle-area sum of the export", l)
            if not v[2]:
                viol("bbox-not-tight", cid, "BoundingBox() is not bit-equal to the tight box of the exported vertices", l)
            if r and r["status"] == 0 and v[3] == 0:
                # no exported vertex: the tight box is the empty box (tight_min [] = +inf, tight_max [] = -inf)
                stats["meas_empty"] = stats.get("meas_empty", 0) + 1
                if r["bbox"] != ["7ff0000000000000"] * 3 + ["fff0000000000000"] * 3:
                    viol("bbox-of-empty-not-empty", cid, "the export has no vertices but BoundingBox() is not the empty box (min +inf, max -inf): bits %s" % " ".join(r["bbox"]), l)
            if r and r["status"] == 0:
                if r["nv"] != v[6] or r["nt"] != v[4] or v[5] != 3 + r["nprop"] or r["empty"] != int(v[4] == 0):
                    viol("counts-differ-from-export", cid, "NumVert/NumTri/NumProp/IsEmpty %r differ from the export (verts %d, tris %d, numProp %d)" % (r, v[6], v[4], v[5]), l)
                if r["genus"] > 0:
                    stats["genus_pos"] += 1
                if v[4] >= 12:
                    nontriv.add(base)
        elif chk == "gap":
            stats["gap"] += 1
            if not (v[1] and v[2]):
                viol("mingap-small-triangles-zero" if kind.get(base) == "gap-smallscale" else "mingap-differs-from-brute-force", cid, "MinGap differs from min(searchLength, exact minimum triangle distance), 0 when intersecting: %s" % l.split("|")[-1].strip(), l)
            if v[3] or v[4]:
                stats["gap_zero"] += 1
            else:
                ap = l.split("|")[-1]
                try:
                    L = float(ap.split("L=")[1].split()[0]); ex = float(ap.split("exact=")[1].split()[0])
                    if ex < L:
                        stats["gap_interior"] += 1
                    else:
                        stats["gap_clamped"] += 1
                except Exception:
                    pass
        elif chk == "ray":
            stats["ray"] += 1
            nh, cr, dg, wo, we, srt, onsurf, onseg = v[:8]
            tpar = v[8] if len(v) > 8 else 1
            if not tpar:
                viol("raycast-distance-inconsistent", cid, "a RayCast hit's distance t does not satisfy origin + t*(endpoint-origin) = position within 2^-36*scale (exact test)", l)
            stats["ray_hits"] += nh
            if not srt:
                viol("raycast-unsorted", cid, "RayCast hits are not sorted by distance within [0,1]", l)
            if not (onsurf and onseg):
                viol("raycast-hit-off-surface", cid, "a RayCast hit position is not on the segment/surface within 2^-36*scale (exact test)", l)
            if dg == 0:
                stats["ray_generic"] += 1
                if nh != cr:
                    viol("raycast-missed-crossing", cid, "RayCast reported %d hits, the exact segment-triangle test finds %d proper crossings" % (nh, cr), l)
                if (nh - (wo - we)) % 2 != 0:
                    viol("raycast-parity", cid, "hit parity %d does not match the change of winding %d -> %d between the ends" % (nh, wo, we), l)
                if cr > 0:
                    nontriv.add(base)
        elif chk == "wind":
            repw, exact, near = v
            if near:
                stats["wind_skipped"] += 1
            else:
                stats["wind"] += 1
                stats["wind_inside"] += int(exact != 0)
                if repw != exact:
                    viol("windingnumber-differs", cid, "WindingNumber %d differs from the exact winding %d at a generic point" % (repw, exact), l)
        elif chk == "slice":
            ns, badn, sk, generic, ins = v
            stats["slice"] += 1; stats["slice_samples"] += ns - sk; stats["slice_skipped"] += sk
            stats["slice_at_vertex_height"] = stats.get("slice_at_vertex_height", 0) + int(not generic)
            if badn:
                viol("slice-winding-differs", cid, "Slice(z): 2-D winding of the polygons differs from the solid's winding at %d of %d generic sample points" % (badn, ns - sk), l)
            if 0 < ins < ns:
                nontriv.add(base)
        elif chk == "proj":
            ns, badn, sk, _, ins = v
            stats["proj"] += 1; stats["proj_samples"] += ns - sk
            if badn:
                viol("project-shadow-differs", cid, "Project(): positive-fill membership differs from the exact shadow at %d of %d generic sample points" % (badn, ns - sk), l)
        elif chk == "decomp":
            nrep, nexp, closed, conn, vol, tsum = v
            stats["decomp"] += 1; stats["decomp_multi"] += int(nexp > 1)
            if nrep != nexp:
                viol("decompose-count", cid, "Decompose returned %d parts, the export's edge graph has %d connected components" % (nrep, nexp), l)
            elif not (closed and conn and vol and tsum):
                viol("decompose-parts", cid, "Decompose parts: closed=%d connected=%d volumes-sum=%d triangles-partitioned=%d" % (closed, conn, vol, tsum), l)
        elif chk == "tritri":
            stats["tritri"] += 1; stats["tritri_zero"] += v[1]
            if not v[0]:
                viol("tri-dist-differs", cid, "DistanceTriangleTriangleSquared differs from the exact squared distance: %s" % l.split("|")[-1].strip(), l)
            nontriv.add(base)
        dist[kind.get(base, "?")] = dist.get(kind.get(base, "?"), 0) + 1
    crashed = set(kl(c[0]) for c in crashes)
    for cid, _, _ in cases:
        if cid not in ended and cid not in crashed:
            cx.broke("corr:C18/case %s" % cid, "no verdict for case (harness or driver produced nothing): %s" % line_of[cid][:200])
            break
    cx.cov.update({
        "programs": len(cases), "disagreements_checked": checked, "evaluations": checked, "distinct_nontrivial": len(nontriv),
        "rule": "seeded generator of stack programs (primitives, random/lattice transforms, Booleans, disjoint composes, cavities) x queries; one evaluation = one "
                "query judged by an extracted exact checker; a case is non-trivial when its mesh has >= 12 triangles and is distinct by program text; "
                "additionally rays with >= 1 proper crossing, slices with some-but-not-all samples inside and triangle pairs count",
        "distribution": {"cases_by_kind": {k: sum(1 for c in cases if c[2] == k) for k in sorted(set(c[2] for c in cases))}, "checks": stats},
    })
    for i in (1, 5, len(cases) - 70 if len(cases) > 80 else 3, len(cases) - 1):
        cx.sample({"case": cases[i][1][:300], "kind": cases[i][2]})
    cx.log("checked %d verdicts over %d cases: %s" % (checked, len(cases), stats))
