(* C06 — shared objects may be used from many threads: no data race, no deadlock.
   Generic lockset protocol theorems over the interleaving model of
   Proto/LocksetDefs.v.  Only statements closed by `exact`, each followed by
   Print Assumptions.  The obligation on the table regenerated from the C++
   sources is in Properties_C06_Table.v.
   NOT covered by these theorems (said in the evidence too): weak-memory
   behaviour (executions are SC interleavings), races inside TBB / the
   allocator / std::mutex / shared_ptr control blocks, and "same answers as a
   serial run" (checked dynamically by harness/c06_race.cpp only). *)
From Coq Require Import List Arith Bool PeanoNat String.
From MV Require Import Proto.LocksetDefs Proto.LocksetModel Proto.LocksetExamples.
Import ListNotations.

(* Lockset discipline => every pair of conflicting accesses of different
   threads is ordered by a release/acquire of a common guard of the location:
   for n threads (any n), any programs, every interleaving (exec), any lock
   kinds (plain/recursive), scoped_lock included. *)
Theorem lockset_drf :
  forall (n : nat) (recursive : lock -> bool) (progs : tid -> list event) (protects : loc -> list lock),
    (forall t, t < n -> disciplined protects (progs t)) ->
    forall tr, exec n recursive progs tr ->
    forall i j t1 t2 e1 e2 x,
      i < j -> nth_error tr i = Some (t1, e1) -> nth_error tr j = Some (t2, e2) ->
      t1 <> t2 -> conflict e1 e2 x ->
      exists l r a ea, In l (protects x) /\ i < r /\ r < a /\ a < j /\
        nth_error tr r = Some (t1, Rel l) /\
        nth_error tr a = Some (t2, ea) /\ In l (acquires ea).
Proof.
  intros n recursive progs protects H tr Hex.
  exact (drf_explicit n recursive progs protects H tr Hex).
Qed.
Print Assumptions lockset_drf.

(* ... hence no data race in the happens-before sense (hb = program order +
   release->later-acquire of the same lock, transitively closed; atomics add no
   edge). *)
Theorem lockset_no_data_race :
  forall (n : nat) (recursive : lock -> bool) (progs : tid -> list event) (protects : loc -> list lock),
    (forall t, t < n -> disciplined protects (progs t)) ->
    forall tr, exec n recursive progs tr -> ~ data_race tr.
Proof.
  intros n recursive progs protects H tr Hex.
  exact (no_race n recursive progs protects H tr Hex).
Qed.
Print Assumptions lockset_no_data_race.

(* Nested acquisitions climbing a rank (or scoped_lock above everything held),
   balanced programs => no reachable state has all unfinished threads blocked. *)
Theorem no_deadlock :
  forall (n : nat) (recursive : lock -> bool) (progs : tid -> list event) (rank : lock -> nat),
    (forall t, t < n -> ordered rank recursive (progs t)) ->
    forall tr, exec n recursive progs tr -> ~ deadlocked n recursive progs tr.
Proof.
  intros n recursive progs rank H tr Hex.
  exact (no_deadlock_lemma n recursive progs rank H tr Hex).
Qed.
Print Assumptions no_deadlock.

(* Soundness of the boolean checker into the hypotheses of the two theorems. *)
Theorem check_prog_sound_thm :
  forall protects rank recursive p,
    check_prog protects rank recursive [] p = true ->
    disciplined protects p /\ ordered rank recursive p.
Proof.
  intros protects rank recursive p H.
  exact (good_disciplined_ordered protects rank recursive p
           (check_prog_sound protects rank recursive p [] (fun _ => 0) (fun l => eq_refl) H)).
Qed.
Print Assumptions check_prog_sound_thm.

(* A class-level table accepted by lockset_ok: client threads that are arbitrary
   sequences of calls of table methods, each call on objects of its choice
   (distinct reference variables of one call = distinct objects), never race
   and never deadlock - any number of threads, objects and calls. *)
Theorem table_threads_safe :
  forall tb, lockset_ok tb = true ->
  forall n progs, (forall t, t < n -> from_table tb (progs t)) ->
  forall tr, exec n (recursive_of tb) progs tr ->
    ~ data_race tr /\ ~ deadlocked n (recursive_of tb) progs tr.
Proof. exact table_threads_safe_lemma. Qed.
Print Assumptions table_threads_safe.

(* Non-vacuity. The unguarded two-thread program really has an execution with a
   data race (so `data_race` is not the empty predicate) and is rejected... *)
Theorem racy_has_race : exec 2 no_rec racy racy_trace /\ data_race racy_trace.
Proof. exact racy_has_race_lemma. Qed.
Print Assumptions racy_has_race.
Theorem racy_rejected :
  check_prog ex_protects rank0 no_rec [] (racy 0) = false /\ check_prog ex_protects rank0 no_rec [] (racy 1) = false.
Proof. exact racy_rejected_lemma. Qed.
(* ...the guarded version is accepted and has a complete interleaving (the
   hypotheses of lockset_drf are satisfiable by a running program)... *)
Theorem guarded_accepted :
  check_prog ex_protects rank0 no_rec [] (guarded 0) = true /\ check_prog ex_protects rank0 no_rec [] (guarded 1) = true.
Proof. exact guarded_accepted_lemma. Qed.
Theorem guarded_runs : exec 2 no_rec guarded guarded_trace.
Proof. exact guarded_exec_lemma. Qed.
(* ...and a lock-order inversion reaches a deadlocked state and is rejected. *)
Theorem inverted_deadlocks :
  exec 2 no_rec inverted inverted_trace /\ deadlocked 2 no_rec inverted inverted_trace /\
  check_prog (fun _ => []) rank0 no_rec [] (inverted 1) = false.
Proof. exact inverted_deadlocks_lemma. Qed.
Print Assumptions inverted_deadlocks.
