(* Proofs about the ported simple halfedge operations (Topo/EdgeOpsDefs.v). *)
From Coq Require Import ZArith List Bool Lia Permutation.
From MV Require Import Topo.CheckMeshDefs Topo.CheckMesh Topo.HalfedgeDefs Topo.EdgeOpsDefs.
Import ListNotations.
Local Open Scope Z_scope.

(* ------------------------------------------------------------ arrays *)
Lemma get_nth_error : forall A (l : list A) i, get l i = nth_error l i.
Proof. induction l as [|x r IH]; destruct i; cbn; auto. Qed.

Lemma getZ_some_range : forall A (l : list A) i x, getZ l i = Some x -> 0 <= i < Z.of_nat (length l).
Proof.
  intros A l i x H. unfold getZ in H. destruct (i <? 0) eqn:E; [discriminate|].
  apply Z.ltb_ge in E. rewrite get_nth_error in H.
  assert (Z.to_nat i < length l)%nat by (apply nth_error_Some; congruence). lia.
Qed.

Lemma getZ_in_range : forall A (l : list A) i, 0 <= i < Z.of_nat (length l) -> exists x, getZ l i = Some x.
Proof.
  intros A l i H. unfold getZ. destruct (i <? 0) eqn:E; [apply Z.ltb_lt in E; lia|].
  rewrite get_nth_error. destruct (nth_error l (Z.to_nat i)) eqn:N; [eauto|].
  apply nth_error_None in N. lia.
Qed.

Lemma getZ_of_nat : forall A (l : list A) k, getZ l (Z.of_nat k) = nth_error l k.
Proof.
  intros. unfold getZ. destruct (Z.of_nat k <? 0) eqn:E; [apply Z.ltb_lt in E; lia|].
  rewrite get_nth_error, Nat2Z.id. reflexivity.
Qed.

Lemma getZ_In : forall A (l : list A) i x, getZ l i = Some x -> In x l.
Proof.
  intros A l i x H. unfold getZ in H. destruct (i <? 0); [discriminate|].
  rewrite get_nth_error in H. eapply nth_error_In; eauto.
Qed.

Lemma In_getZ : forall A (l : list A) x, In x l -> exists i, getZ l i = Some x.
Proof.
  intros A l x H. apply In_nth_error in H. destruct H as [k Hk]. exists (Z.of_nat k). rewrite getZ_of_nat. exact Hk.
Qed.

Lemma iota_spec : forall n from x, In x (iota n from) <-> from <= x < from + Z.of_nat n.
Proof.
  induction n as [|n IH]; intros from x; cbn [iota In].
  - lia.
  - rewrite IH. lia.
Qed.

(* ------------------------------------------------------------ HalfedgeInv as a proposition *)
Definition st_of (h : list (Z * Z)) (e : Z) : Z := match getZ h e with Some x => fst x | None => -2 end.
Definition pr_of (h : list (Z * Z)) (e : Z) : Z := match getZ h e with Some x => snd x | None => -2 end.

Lemma halfedge_inv_at : forall h e, halfedge_inv h = true -> 0 <= e < Z.of_nat (length h) -> inv_at h e = true.
Proof.
  intros h e H He. unfold halfedge_inv in H. rewrite forallb_forall in H. apply H. apply iota_spec. lia.
Qed.

Lemma live_true : forall h e, live h e = true -> exists s p, getZ h e = Some (s, p) /\ s <> -1.
Proof.
  intros h e H. unfold live in H. destruct (getZ h e) as [[s p]|] eqn:G; [|discriminate].
  exists s, p. split; [reflexivity|]. apply negb_true_iff in H. apply Z.eqb_neq in H. exact H.
Qed.

(* what inv_at says about a live halfedge *)
Lemma inv_live : forall h e s p,
  halfedge_inv h = true -> getZ h e = Some (s, p) -> s <> -1 ->
  exists s1 p1 s2 p2 sp pp,
    getZ h (next_he e) = Some (s1, p1) /\ s1 <> -1 /\
    getZ h (next_he (next_he e)) = Some (s2, p2) /\ s2 <> -1 /\
    getZ h p = Some (sp, pp) /\ sp <> -1 /\ pp = e /\ p <> e /\ sp = s1 /\ h_end h p = Some s.
Proof.
  intros h e s p Hinv Hg Hs.
  pose proof (halfedge_inv_at h e Hinv (getZ_some_range _ _ _ _ Hg)) as Ha.
  unfold inv_at in Ha. rewrite Hg in Ha. destruct (s =? -1) eqn:E; [apply Z.eqb_eq in E; contradiction|].
  apply andb_true_iff in Ha. destruct Ha as [Ha Hp]. apply andb_true_iff in Ha. destruct Ha as [L1 L2].
  apply live_true in L1. destruct L1 as [s1 [p1 [G1 N1]]]. apply live_true in L2. destruct L2 as [s2 [p2 [G2 N2]]].
  destruct (getZ h p) as [[sp pp]|] eqn:Gp; [|discriminate].
  unfold h_end, h_start in Hp. rewrite G1 in Hp. cbn [bind fst] in Hp.
  destruct (getZ h (next_he p)) as [[sq pq]|] eqn:Gq; cbn [bind fst] in Hp; [|discriminate].
  repeat (apply andb_true_iff in Hp; destruct Hp as [Hp ?]).
  exists s1, p1, s2, p2, sp, pp. repeat split; auto.
  - apply negb_true_iff in Hp. apply Z.eqb_neq in Hp. exact Hp.
  - apply Z.eqb_eq. assumption.
  - match goal with H : negb (p =? e) = true |- _ => apply negb_true_iff in H; apply Z.eqb_neq in H; exact H end.
  - apply Z.eqb_eq. assumption.
  - unfold h_end, h_start. rewrite Gq. cbn. f_equal. apply Z.eqb_eq. assumption.
Qed.

(* ------------------------------------------------------------ exported triangles = indexed edges *)
Definition edge_at (h : list (Z * Z)) (e : Z) : edge := (st_of h e, st_of h (next_he e)).
Definition edges_idx (h : list (Z * Z)) : list edge := map (edge_at h) (iota (length h) 0).

Lemma getZ_app_off : forall A (pre rest : list A) j,
  getZ (pre ++ rest) (Z.of_nat (length pre) + Z.of_nat j) = nth_error rest j.
Proof.
  intros. replace (Z.of_nat (length pre) + Z.of_nat j) with (Z.of_nat (length pre + j)) by lia.
  rewrite getZ_of_nat. rewrite nth_error_app2 by lia. f_equal. lia.
Qed.

Lemma next_he_3q : forall q, next_he (3 * q) = 3 * q + 1 /\ next_he (3 * q + 1) = 3 * q + 2 /\ next_he (3 * q + 2) = 3 * q.
Proof.
  intro q. unfold next_he.
  replace ((3 * q) mod 3) with 0 by (symmetry; rewrite Z.mul_comm; apply Z_mod_mult).
  replace ((3 * q + 1) mod 3) with 1 by (symmetry; rewrite Z.add_comm, Z.mul_comm, Z_mod_plus_full; reflexivity).
  replace ((3 * q + 2) mod 3) with 2 by (symmetry; rewrite Z.add_comm, Z.mul_comm, Z_mod_plus_full; reflexivity).
  cbn. lia.
Qed.

Lemma edges_idx_aux : forall n (rest pre : list (Z * Z)) q,
  length rest = (3 * n)%nat -> Z.of_nat (length pre) = 3 * q ->
  map (edge_at (pre ++ rest)) (iota (length rest) (Z.of_nat (length pre))) = dir_edges (tris_of rest).
Proof.
  induction n as [|n IH]; intros rest pre q Hl Hq.
  - destruct rest; [reflexivity|discriminate].
  - destruct rest as [|[s0 p0] [|[s1 p1] [|[s2 p2] r]]]; try (cbn in Hl; lia).
    assert (Hr : length r = (3 * n)%nat) by (cbn in Hl; lia).
    change (tris_of ((s0, p0) :: (s1, p1) :: (s2, p2) :: r)) with ((s0, s1, s2) :: tris_of r).
    change (dir_edges ((s0, s1, s2) :: tris_of r)) with ((s0, s1) :: (s1, s2) :: (s2, s0) :: dir_edges (tris_of r)).
    set (h := pre ++ (s0, p0) :: (s1, p1) :: (s2, p2) :: r).
    remember (Z.of_nat (length pre)) as L eqn:HeqL.
    assert (HL : L = 3 * q) by lia.
    change (length ((s0, p0) :: (s1, p1) :: (s2, p2) :: r)) with (S (S (S (length r)))).
    cbn [iota map].
    assert (G0 : getZ h L = Some (s0, p0)).
    { pose proof (getZ_app_off _ pre ((s0, p0) :: (s1, p1) :: (s2, p2) :: r) 0%nat) as X.
      cbn [nth_error] in X. change (Z.of_nat 0) with 0 in X. rewrite Z.add_0_r, <- HeqL in X. exact X. }
    assert (G1 : getZ h (L + 1) = Some (s1, p1)).
    { pose proof (getZ_app_off _ pre ((s0, p0) :: (s1, p1) :: (s2, p2) :: r) 1%nat) as X.
      cbn [nth_error] in X. change (Z.of_nat 1) with 1 in X. rewrite <- HeqL in X. exact X. }
    assert (G2 : getZ h (L + 1 + 1) = Some (s2, p2)).
    { pose proof (getZ_app_off _ pre ((s0, p0) :: (s1, p1) :: (s2, p2) :: r) 2%nat) as X.
      cbn [nth_error] in X. change (Z.of_nat 2) with 2 in X. rewrite <- HeqL in X. replace (L + 1 + 1) with (L + 2) by lia. exact X. }
    destruct (next_he_3q q) as [N0 [N1 N2]].
    assert (NL0 : next_he L = L + 1) by (rewrite HL; exact N0).
    assert (NL1 : next_he (L + 1) = L + 1 + 1) by (rewrite HL, N1; lia).
    assert (NL2 : next_he (L + 1 + 1) = L) by (replace (L + 1 + 1) with (3 * q + 2) by lia; rewrite N2; lia).
    assert (E0 : edge_at h L = (s0, s1)) by (unfold edge_at, st_of; rewrite NL0, G0, G1; reflexivity).
    assert (E1 : edge_at h (L + 1) = (s1, s2)) by (unfold edge_at, st_of; rewrite NL1, G1, G2; reflexivity).
    assert (E2 : edge_at h (L + 1 + 1) = (s2, s0)) by (unfold edge_at, st_of; rewrite NL2, G2, G0; reflexivity).
    rewrite E0, E1, E2. do 3 f_equal.
    specialize (IH r (pre ++ [(s0, p0); (s1, p1); (s2, p2)]) (q + 1) Hr).
    rewrite app_length in IH. cbn [length] in IH.
    replace (Z.of_nat (length pre + 3)) with (L + 1 + 1 + 1) in IH by lia.
    rewrite <- app_assoc in IH. cbn [app] in IH. apply IH. lia.
Qed.

Lemma edges_idx_eq : forall h n, length h = (3 * n)%nat -> dir_edges (tris_of h) = edges_idx h.
Proof.
  intros h n Hn. unfold edges_idx. symmetry. apply (edges_idx_aux n h [] 0 Hn). reflexivity.
Qed.

Lemma NoDup_map_inj : forall A B (f : A -> B) l x y, NoDup (map f l) -> In x l -> In y l -> f x = f y -> x = y.
Proof.
  intros A B f l. induction l as [|a r IH]; intros x y Hnd Hx Hy Hf; [contradiction|].
  cbn in Hnd. inversion Hnd as [|? ? Hnin Hnd']; subst.
  destruct Hx as [Hx|Hx]; destruct Hy as [Hy|Hy]; subst; auto.
  - exfalso. apply Hnin. rewrite Hf. apply in_map. exact Hy.
  - exfalso. apply Hnin. rewrite <- Hf. apply in_map. exact Hx.
Qed.

(* ------------------------------------------------------------ export_closed *)
(* From HalfedgeInv (the pairing invariant), no tombstone, Is2Manifold's "no directed edge
   twice", start vertices in range and every vertex referenced, the triangles emitted by
   GetMeshGLImpl (triVerts[3t+i] = Start(3t+i)) form a closed oriented 2-manifold. *)
Lemma export_closed_lemma : forall (h : list (Z * Z)) (nV : Z) (n : nat),
  length h = (3 * n)%nat ->
  halfedge_inv h = true ->
  all_live h = true ->
  NoDup (dir_edges (tris_of h)) ->
  (forall x, In x h -> 0 <= fst x < nV) ->
  (forall v, 0 <= v < nV -> In v (map fst h)) ->
  Closed2Manifold nV (tris_of h).
Proof.
  intros h nV n Hlen Hinv Hlive Hnd Hrange Href.
  pose proof (edges_idx_eq h n Hlen) as Heq.
  assert (Hall : forall e s p, getZ h e = Some (s, p) -> s <> -1).
  { intros e s p G. unfold all_live in Hlive. rewrite forallb_forall in Hlive.
    specialize (Hlive _ (getZ_In _ _ _ _ G)). cbn in Hlive. apply negb_true_iff in Hlive. apply Z.eqb_neq in Hlive. exact Hlive. }
  (* every indexed edge and its data *)
  assert (Hedge : forall a b, In (a, b) (edges_idx h) ->
            exists e p, 0 <= e < Z.of_nat (length h) /\ getZ h e = Some (a, p) /\ st_of h (next_he e) = b).
  { intros a b Hin. unfold edges_idx in Hin. apply in_map_iff in Hin. destruct Hin as [e [He Hi]].
    apply iota_spec in Hi. destruct (getZ_in_range _ h e) as [[s p] G]; [lia|].
    unfold edge_at, st_of in He. rewrite G in He. cbn in He. inversion He; subst.
    exists e, p. repeat split; try lia. exact G. }
  assert (Hidx : forall e, 0 <= e < Z.of_nat (length h) -> In (edge_at h e) (edges_idx h)).
  { intros e He. unfold edges_idx. apply in_map. apply iota_spec. lia. }
  (* the pair of a halfedge carries the reversed edge *)
  assert (Hrev : forall e s p, getZ h e = Some (s, p) ->
            0 <= p < Z.of_nat (length h) /\ p <> e /\ edge_at h p = (st_of h (next_he e), s)).
  { intros e s p G. destruct (inv_live h e s p Hinv G (Hall _ _ _ G)) as [s1 [p1 [s2 [p2 [sp [pp [G1 [_ [_ [_ [Gp [_ [_ [Hne [Hsp Hend]]]]]]]]]]]]]]].
    split; [eapply getZ_some_range; eauto|]. split; [exact Hne|].
    unfold edge_at, st_of. rewrite Gp, G1. cbn [fst]. subst sp.
    unfold h_end, h_start in Hend. destruct (getZ h (next_he p)) as [[sq pq]|]; cbn in Hend; [|discriminate].
    inversion Hend; subst. reflexivity. }
  unfold Closed2Manifold. split; [|split; [|split]].
  - (* InRange *)
    intros a b c Ht.
    assert (Ha : In (a, b) (edges_idx h)) by (rewrite <- Heq; apply in_dir_edges; exists a, b, c; auto).
    assert (Hb : In (b, c) (edges_idx h)) by (rewrite <- Heq; apply in_dir_edges; exists a, b, c; auto).
    assert (Hc : In (c, a) (edges_idx h)) by (rewrite <- Heq; apply in_dir_edges; exists a, b, c; auto).
    destruct (Hedge _ _ Ha) as [e1 [q1 [_ [G1 _]]]]. destruct (Hedge _ _ Hb) as [e2 [q2 [_ [G2 _]]]]. destruct (Hedge _ _ Hc) as [e3 [q3 [_ [G3 _]]]].
    pose proof (Hrange _ (getZ_In _ _ _ _ G1)). pose proof (Hrange _ (getZ_In _ _ _ _ G2)). pose proof (Hrange _ (getZ_In _ _ _ _ G3)).
    cbn [fst] in *. lia.
  - (* NoDegenerate: a loop edge and its pair would be the same directed edge twice *)
    assert (Hloop : forall a, ~ In (a, a) (edges_idx h)).
    { intros a Hin. destruct (Hedge _ _ Hin) as [e [p [He [G Hb]]]].
      destruct (Hrev e a p G) as [Hp [Hne Hep]]. rewrite Hb in Hep.
      assert (edge_at h e = (a, a)) by (unfold edge_at, st_of at 1; rewrite G; cbn; rewrite Hb; reflexivity).
      apply Hne. rewrite Heq in Hnd. unfold edges_idx in Hnd.
      apply (NoDup_map_inj _ _ (edge_at h) (iota (length h) 0)); try assumption.
      - apply iota_spec. lia.
      - apply iota_spec. lia.
      - congruence. }
    intros a b c Ht.
    assert (Ha : In (a, b) (edges_idx h)) by (rewrite <- Heq; apply in_dir_edges; exists a, b, c; auto).
    assert (Hb : In (b, c) (edges_idx h)) by (rewrite <- Heq; apply in_dir_edges; exists a, b, c; auto).
    assert (Hc : In (c, a) (edges_idx h)) by (rewrite <- Heq; apply in_dir_edges; exists a, b, c; auto).
    repeat split; intro; subst; eapply Hloop; eauto.
  - (* EdgesMatched *)
    apply edges_matched_alt. split; [exact Hnd|].
    intros a b Hin. rewrite Heq in Hin |- *. destruct (Hedge _ _ Hin) as [e [p [He [G Hb]]]].
    destruct (Hrev e a p G) as [Hp [_ Hep]]. rewrite Hb in Hep. rewrite <- Hep. apply Hidx. exact Hp.
  - (* AllReferenced *)
    intros v Hv. apply in_starts_iff_vert. rewrite Heq.
    specialize (Href v Hv). apply in_map_iff in Href. destruct Href as [[s p] [Hs Hin]]. cbn in Hs. subst s.
    apply In_getZ in Hin. destruct Hin as [e G].
    apply in_map_iff. exists (edge_at h e). split.
    + unfold edge_at, st_of at 1. rewrite G. reflexivity.
    + apply Hidx. eapply getZ_some_range; eauto.
Qed.

Lemma export_check_mesh : forall (h : list (Z * Z)) (nV : Z) (n : nat),
  length h = (3 * n)%nat -> halfedge_inv h = true -> all_live h = true ->
  NoDup (dir_edges (tris_of h)) -> (forall x, In x h -> 0 <= fst x < nV) ->
  (forall v, 0 <= v < nV -> In v (map fst h)) ->
  check_mesh nV (tris_of h) = true.
Proof. intros. apply check_mesh_complete. eapply export_closed_lemma; eauto. Qed.

(* ------------------------------------------------------------ renaming start vertices *)
Definition map_start (f : Z -> Z) (x : Z * Z) : Z * Z := (f (fst x), snd x).

Lemma getZ_map : forall A B (g : A -> B) l i, getZ (map g l) i = option_map g (getZ l i).
Proof.
  intros. unfold getZ. destruct (i <? 0); [reflexivity|]. rewrite !get_nth_error. apply nth_error_map.
Qed.

Section MapStart.
  Variable f : Z -> Z.
  Hypothesis f_dead : f (-1) = -1.
  Hypothesis f_live : forall s, s <> -1 -> f s <> -1.

  Lemma f_eqb : forall s, (f s =? -1) = (s =? -1).
  Proof.
    intro s. destruct (s =? -1) eqn:E.
    - apply Z.eqb_eq in E. subst. rewrite f_dead. reflexivity.
    - apply Z.eqb_neq in E. apply Z.eqb_neq. apply f_live. exact E.
  Qed.

  Lemma live_map : forall h e, live (map (map_start f) h) e = live h e.
  Proof.
    intros. unfold live. rewrite getZ_map. destruct (getZ h e) as [[s p]|]; cbn; [|reflexivity]. rewrite f_eqb. reflexivity.
  Qed.

  Lemma h_end_map : forall h e, h_end (map (map_start f) h) e = option_map f (h_end h e).
  Proof.
    intros. unfold h_end, h_start. rewrite getZ_map. destruct (getZ h (next_he e)) as [[s p]|]; reflexivity.
  Qed.

  Lemma inv_at_map : forall h e, inv_at h e = true -> inv_at (map (map_start f) h) e = true.
  Proof.
    intros h e H. unfold inv_at in *. rewrite getZ_map. destruct (getZ h e) as [[s p]|] eqn:G; [|discriminate].
    cbn [option_map map_start fst snd]. rewrite f_eqb. rewrite !live_map.
    destruct (s =? -1); [exact H|].
    apply andb_true_iff in H. destruct H as [H1 H2]. rewrite H1. cbn [andb].
    rewrite getZ_map, !h_end_map.
    destruct (getZ h p) as [[sp pp]|]; [|discriminate]. cbn [option_map map_start fst snd].
    destruct (h_end h e) as [en|]; [|discriminate]. destruct (h_end h p) as [ep|]; [|discriminate].
    cbn [option_map]. rewrite f_eqb.
    repeat (apply andb_true_iff in H2; destruct H2 as [H2 ?]).
    repeat (apply andb_true_iff; split); auto.
    - apply Z.eqb_eq. f_equal. apply Z.eqb_eq. assumption.
    - apply Z.eqb_eq. f_equal. apply Z.eqb_eq. assumption.
  Qed.

  Lemma map_start_preserves_inv : forall h, halfedge_inv h = true -> halfedge_inv (map (map_start f) h) = true.
  Proof.
    intros h H. unfold halfedge_inv in *. rewrite forallb_forall in *. intros e He.
    rewrite map_length in He. apply inv_at_map. apply H. exact He.
  Qed.
End MapStart.

(* scatter only ever stores indices >= its counter *)
Lemma setZ_spec : forall A (l : list A) i v l', setZ l i v = Some l' ->
  length l' = length l /\ getZ l' i = Some v /\ forall j, j <> i -> getZ l' j = getZ l j.
Proof.
  intros A l i v l' H. unfold setZ in H. destruct (i <? 0) eqn:E; [discriminate|]. apply Z.ltb_ge in E.
  assert (Hgen : forall (l l' : list A) k, set l k v = Some l' ->
            length l' = length l /\ get l' k = Some v /\ forall j, j <> k -> get l' j = get l j).
  { clear. induction l as [|x r IH]; intros l' k H; destruct k; cbn in H; try discriminate.
    - inversion H; subst. cbn. repeat split; auto. intros j Hj. destruct j; [contradiction|reflexivity].
    - destruct (set r k v) as [r'|] eqn:S; [|discriminate]. inversion H; subst.
      destruct (IH r' k S) as [L [G N]]. cbn. repeat split; auto. intros j Hj. destruct j; [reflexivity|]. apply N. lia. }
  destruct (Hgen l l' (Z.to_nat i) H) as [L [G N]]. split; [exact L|]. split.
  - unfold getZ. destruct (i <? 0) eqn:E2; [apply Z.ltb_lt in E2; lia|]. exact G.
  - intros j Hj. unfold getZ. destruct (j <? 0) eqn:Ej; [reflexivity|]. apply Z.ltb_ge in Ej. apply N. lia.
Qed.

Lemma scatter_from_vals : forall n2o i acc tbl,
  scatter_from n2o i acc = Some tbl -> 0 <= i ->
  (forall o v, getZ acc o = Some (Some v) -> 0 <= v) ->
  forall o v, getZ tbl o = Some (Some v) -> 0 <= v.
Proof.
  induction n2o as [|x r IH]; intros i acc tbl H Hi Hacc o v G; cbn [scatter_from] in H.
  - inversion H; subst. eauto.
  - unfold bind in H. destruct (setZ acc x (Some i)) as [acc'|] eqn:S; [|discriminate].
    destruct (setZ_spec _ _ _ _ _ S) as [_ [Gx Gn]].
    eapply (IH (i + 1) acc' tbl H); [lia| |exact G].
    intros o' v' G'. destruct (Z.eq_dec o' x) as [->|Hne].
    + rewrite Gx in G'. inversion G'; subst. exact Hi.
    + rewrite (Gn _ Hne) in G'. eauto.
Qed.

Lemma map_opt_map : forall A B (f : A -> option B) (g : A -> B) l l',
  map_opt f l = Some l' -> (forall x y, In x l -> f x = Some y -> y = g x) -> l' = map g l.
Proof.
  induction l as [|x r IH]; intros l' H Hg; cbn in H.
  - inversion H. reflexivity.
  - unfold bind in H. destruct (f x) as [y|] eqn:Fx; [|discriminate]. destruct (map_opt f r) as [r'|] eqn:Mr; [|discriminate].
    inversion H; subst. cbn. f_equal.
    + apply Hg; [left; reflexivity|exact Fx].
    + apply IH; [reflexivity|]. intros. apply Hg; [right; assumption|assumption].
Qed.

(* Impl::ReindexVerts keeps HalfedgeInv, whatever vertNew2Old is (all oracle answers) *)
Lemma reindex_verts_preserves_inv_lemma : forall h n2o oldN h',
  halfedge_inv h = true -> reindex_verts h n2o oldN = Some h' -> halfedge_inv h' = true.
Proof.
  intros h n2o oldN h' Hinv H. unfold reindex_verts, bind in H.
  destruct (scatter n2o oldN) as [tbl|] eqn:S; [|discriminate].
  set (f := fun s => if s <? 0 then s else match lookup tbl s with Some v => v | None => 0 end).
  assert (Hh' : h' = map (map_start f) h).
  { apply (map_opt_map _ _ _ (map_start f) _ _ H). intros [s p] y _ Hy. unfold map_start, f. cbn [fst snd].
    destruct (s <? 0); [inversion Hy; reflexivity|]. destruct (lookup tbl s); cbn in Hy; inversion Hy. reflexivity. }
  subst h'. apply map_start_preserves_inv; [reflexivity| |exact Hinv].
  intros s Hs. unfold f. destruct (s <? 0) eqn:E; [exact Hs|].
  unfold lookup. destruct (getZ tbl s) as [[v|]|] eqn:G; try lia.
  assert (0 <= v); [|lia].
  unfold scatter in S. eapply (scatter_from_vals n2o 0 _ tbl S); [lia| |exact G].
  intros o v' G'. exfalso. apply getZ_In in G'. apply repeat_spec in G'. discriminate.
Qed.
