From Coq Require Import ZArith List Bool Lia.
From MV Require Import Topo.PipelineDefs.
Import ListNotations.

Lemma astep_sound : forall p f s s', described f s -> exec p s s' -> described (astep p f) s'.
Proof.
  intros p f s s' [Hs [Ht [Hu Hd]]] He. unfold described.
  destruct p; cbn [astep exec may_stranded may_tomb may_unsorted may_dup] in *;
    repeat match goal with X : _ /\ _ |- _ => destruct X end; subst;
    repeat split; intro Hflag; try discriminate;
    try (apply orb_false_iff in Hflag; destruct Hflag);
    try congruence; auto;
    try (match goal with E : n_dup _ = 0 -> _ |- _ => rewrite E by auto; auto end);
    try (match goal with E : _ = _ |- _ => rewrite E; solve [auto] end).
Qed.

Lemma arun_sound : forall ps f s s', described f s -> exec_all ps s s' -> described (arun ps f) s'.
Proof.
  induction ps as [|p r IH]; intros f s s' Hd He; cbn [exec_all] in He.
  - subst s'. exact Hd.
  - destruct He as [m [E1 E2]]. unfold arun. cbn [fold_left].
    apply (IH (astep p f) m s'); [eapply astep_sound; eassumption|exact E2].
Qed.

Lemma entry_described : forall fresh s, (fresh = false -> clean s) -> described (entry_flags fresh) s.
Proof.
  intros [|] s H; unfold described; cbn.
  - repeat split; intro; discriminate.
  - destruct (H eq_refl) as [A [B [C D]]]. repeat split; auto.
Qed.

Lemma pipeline_ok_sound_lemma : forall fresh ps s s',
  (fresh = false -> clean s) -> exec_all ps s s' -> pipeline_ok fresh ps = true -> clean s'.
Proof.
  intros fresh ps s s' Hentry He Hok. unfold pipeline_ok, no_flag in Hok.
  pose proof (arun_sound ps (entry_flags fresh) s s' (entry_described fresh s Hentry) He) as [Hs [Ht [Hu Hd]]].
  apply andb_true_iff in Hok. destruct Hok as [Hok H4]. apply andb_true_iff in Hok. destruct Hok as [Hok H3].
  apply andb_true_iff in Hok. destruct Hok as [H1 H2].
  apply negb_true_iff in H1, H2, H3, H4. unfold clean. auto.
Qed.

(* the abstraction is not vacuous: a pipeline that is rejected has a run (allowed
   by the effect relations) ending with a stranded vertex — the shape of Impl::Refine
   on the pinned tree. *)
Lemma refine_shape_not_ok : pipeline_ok false [Subdivide; SortGeometry] = false.
Proof. reflexivity. Qed.

Lemma refine_shape_bad_run :
  exists s', exec_all [Subdivide; SortGeometry] (mkC 0 0 true 0) s' /\ n_stranded s' = 1.
Proof.
  exists (mkC 1 0 true 0). split; [|reflexivity].
  exists (mkC 1 3 false 0). split; [cbn; auto|]. exists (mkC 1 0 true 0). cbn. auto.
Qed.

(* the row that the Impl-level oracle corrected: CleanupTopology on a state with duplicates may strand, so
   a pipeline that cleans up duplicates must still call RemoveUnreferencedVerts *)
Lemma cleanup_without_remove_not_ok : pipeline_ok true [CreateHalfedges; CleanupTopology; SortGeometry] = false.
Proof. reflexivity. Qed.
Lemma import_shape_ok : pipeline_ok true [CreateHalfedges; CleanupTopology; RemoveUnreferencedVerts; SortGeometry] = true.
Proof. reflexivity. Qed.
Lemma simplify_shape_ok : pipeline_ok false [SimplifyTopology; SortGeometry] = true.
Proof. reflexivity. Qed.

Lemma refine_fixed_shape_ok : pipeline_ok false [Subdivide; RemoveUnreferencedVerts; SortGeometry] = true.
Proof. reflexivity. Qed.

(* RemoveUnreferencedVerts on arrays: afterwards no vertex is stranded. *)
Lemma remove_unreferenced_from_spec : forall starts isnan v,
  count_stranded_from starts v (remove_unreferenced_from starts v isnan) = 0.
Proof.
  intros starts isnan. induction isnan as [|b r IH]; intro v; cbn; [reflexivity|].
  rewrite IH. destruct (referenced starts v); cbn.
  - rewrite andb_false_r. reflexivity.
  - reflexivity.
Qed.

Lemma remove_unreferenced_spec : forall starts isnan,
  count_stranded starts (remove_unreferenced starts isnan) = 0.
Proof. intros. apply remove_unreferenced_from_spec. Qed.

Lemma remove_unreferenced_length : forall starts isnan v,
  length (remove_unreferenced_from starts v isnan) = length isnan.
Proof. intros starts isnan. induction isnan as [|b r IH]; intro v; cbn; [reflexivity|]. rewrite IH. reflexivity. Qed.

(* ... and it only ever tombstones unreferenced vertices *)
Lemma remove_unreferenced_keeps_referenced : forall starts isnan v k,
  referenced starts (v + Z.of_nat k)%Z = true ->
  nth_error (remove_unreferenced_from starts v isnan) k = nth_error isnan k.
Proof.
  intros starts isnan. induction isnan as [|b r IH]; intros v k Href; destruct k; cbn; try reflexivity.
  - replace (v + Z.of_nat 0)%Z with v in Href by lia. rewrite Href. reflexivity.
  - apply IH. replace (Z.succ v + Z.of_nat k)%Z with (v + Z.of_nat (S k))%Z by lia. exact Href.
Qed.
