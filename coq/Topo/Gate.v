(* The IsManifold gate: whatever array CreateHalfedges (or anything else) produced, if the
   ported CheckHalfedges/IsManifold accepts it then HalfedgeInv holds.  Also: the insertion
   sort used to model std::stable_sort meets the stable-sort contract. *)
From Coq Require Import ZArith List Bool Lia Permutation Sorted.
From MV Require Import Topo.CheckMeshDefs Topo.HalfedgeDefs Topo.EdgeOpsDefs Topo.EdgeOps.
Import ListNotations.
Local Open Scope Z_scope.

Lemma all_check_spec : forall h n e0, all_check h n e0 = Some true ->
  forall e, e0 <= e < e0 + Z.of_nat n -> check_halfedge h e = Some true.
Proof.
  induction n as [|n IH]; intros e0 H e He; [lia|].
  cbn [all_check] in H. unfold bind in H. destruct (check_halfedge h e0) as [b|] eqn:C; [|discriminate].
  destruct b; [|discriminate]. destruct (Z.eq_dec e e0) as [->|Hne]; [exact C|].
  apply (IH (e0 + 1) H). lia.
Qed.

Lemma check_halfedge_true : forall h e, check_halfedge h e = Some true ->
  exists s en p, h_start h e = Some s /\ h_end h e = Some en /\ h_pair h e = Some p /\
    ((s = -1 /\ en = -1 /\ p = -1) \/
     (~ (s = -1 /\ en = -1 /\ p = -1) /\
      exists s2, h_start h (next_he (next_he e)) = Some s2 /\ en <> -1 /\ s2 <> -1 /\ p <> -1 /\
        h_pair h p = Some e /\ s <> en /\ h_end h p = Some s /\ h_start h p = Some en)).
Proof.
  intros h e H. unfold check_halfedge, bind in H.
  destruct (h_start h e) as [s|] eqn:Hs; [|discriminate].
  destruct (h_end h e) as [en|] eqn:He; [|discriminate].
  destruct (h_pair h e) as [p|] eqn:Hp; [|discriminate].
  exists s, en, p. repeat split; auto.
  destruct ((s =? -1) && (en =? -1) && (p =? -1)) eqn:D.
  - left. apply andb_true_iff in D. destruct D as [D D3]. apply andb_true_iff in D. destruct D as [D1 D2].
    apply Z.eqb_eq in D1, D2, D3. auto.
  - right. split.
    { intros [A [B C]]. subst. cbn in D. discriminate. }
    unfold h_end in He. rewrite He in H.
    destruct (h_start h (next_he (next_he e))) as [s2|] eqn:Hs2; [|discriminate].
    destruct ((en =? -1) || (s2 =? -1)) eqn:O; [discriminate|].
    apply orb_false_iff in O. destruct O as [O1 O2]. apply Z.eqb_neq in O1, O2.
    destruct (p =? -1) eqn:P; [discriminate|]. apply Z.eqb_neq in P.
    destruct (h_pair h p) as [pp|] eqn:Hpp; [|discriminate].
    destruct (h_end h p) as [ep|] eqn:Hep; [|discriminate].
    destruct (h_start h p) as [sp|] eqn:Hsp; [|discriminate].
    inversion H as [H1]. repeat (apply andb_true_iff in H1; destruct H1 as [H1 ?]).
    exists s2. repeat split; auto.
    + f_equal. apply Z.eqb_eq. assumption.
    + match goal with X : negb (s =? en) = true |- _ => apply negb_true_iff in X; apply Z.eqb_neq in X; exact X end.
    + f_equal. symmetry. apply Z.eqb_eq. assumption.
    + f_equal. symmetry. apply Z.eqb_eq. assumption.
Qed.

Lemma next_he_cases : forall e, exists q r, e = 3 * q + r /\ 0 <= r < 3 /\
  next_he e = 3 * q + (if r =? 2 then 0 else r + 1).
Proof.
  intro e. exists (e / 3), (e mod 3). pose proof (Z.div_mod e 3 ltac:(lia)) as D. pose proof (Z.mod_pos_bound e 3 ltac:(lia)) as B.
  split; [lia|]. split; [lia|]. unfold next_he. destruct (e mod 3 =? 2) eqn:E.
  - apply Z.eqb_eq in E. lia.
  - apply Z.eqb_neq in E. lia.
Qed.

Lemma next_he_3 : forall e, next_he (next_he (next_he e)) = e.
Proof.
  intro e. destruct (next_he_cases e) as [q [r [He [Hr Hn]]]].
  assert (Hc : r = 0 \/ r = 1 \/ r = 2) by lia. destruct Hc as [ -> | [ -> | -> ] ]; subst e;
    replace (3 * q + 0) with (3 * q) in * by lia;
    destruct (next_he_3q q) as [N0 [N1 N2]]; repeat (rewrite N0 || rewrite N1 || rewrite N2); reflexivity.
Qed.

Lemma next_he_range : forall e n, 0 <= e < 3 * n -> 0 <= next_he e < 3 * n.
Proof.
  intros e n He. destruct (next_he_cases e) as [q [r [Hq [Hr Hn]]]]. rewrite Hn.
  destruct (r =? 2) eqn:E; [lia|]. apply Z.eqb_neq in E. lia.
Qed.

Lemma h_start_getZ : forall h e s, h_start h e = Some s -> exists p, getZ h e = Some (s, p).
Proof. intros h e s H. unfold h_start, bind in H. destruct (getZ h e) as [[a b]|]; inversion H; subst. eauto. Qed.
Lemma h_pair_getZ : forall h e p, h_pair h e = Some p -> exists s, getZ h e = Some (s, p).
Proof. intros h e p H. unfold h_pair, bind in H. destruct (getZ h e) as [[a b]|]; inversion H; subst. eauto. Qed.

(* IsManifold accepted  ==>  HalfedgeInv, for every halfedge array *)
Lemma is_manifold_implies_inv_lemma : forall h, is_manifold h = Some true -> halfedge_inv h = true.
Proof.
  intros h H. unfold is_manifold in H.
  destruct (length h =? 0)%nat eqn:L0.
  { apply Nat.eqb_eq in L0. destruct h; [reflexivity|discriminate]. }
  destruct (negb (Z.of_nat (length h) mod 3 =? 0)) eqn:M; [discriminate|].
  apply negb_false_iff in M. apply Z.eqb_eq in M.
  assert (Hn : exists n, Z.of_nat (length h) = 3 * n).
  { exists (Z.of_nat (length h) / 3). pose proof (Z.div_mod (Z.of_nat (length h)) 3 ltac:(lia)). lia. }
  destruct Hn as [n Hn].
  pose proof (all_check_spec h (length h) 0 H) as Hall.
  assert (Hchk : forall e, 0 <= e < 3 * n -> check_halfedge h e = Some true) by (intros; apply Hall; lia).
  unfold halfedge_inv. apply forallb_forall. intros e He. apply iota_spec in He.
  assert (Her : 0 <= e < 3 * n) by lia.
  pose proof (next_he_range e n Her) as Hr1. pose proof (next_he_range _ n Hr1) as Hr2.
  destruct (check_halfedge_true h e (Hchk e Her)) as [s [en [p [Hs [Hen [Hp Hc]]]]]].
  destruct (check_halfedge_true h _ (Hchk _ Hr1)) as [s' [en' [p' [Hs' [Hen' [Hp' Hc']]]]]].
  destruct (check_halfedge_true h _ (Hchk _ Hr2)) as [s'' [en'' [p'' [Hs'' [Hen'' [Hp'' Hc'']]]]]].
  (* identify the shared reads *)
  assert (s' = en) by (unfold h_end in Hen; congruence). subst s'.
  assert (s'' = en') by (unfold h_end in Hen'; congruence). subst s''.
  assert (en'' = s) by (unfold h_end in Hen''; rewrite next_he_3 in Hen''; congruence). subst en''.
  destruct (h_start_getZ _ _ _ Hs) as [p0 G]. assert (p0 = p) by (unfold h_pair, bind in Hp; rewrite G in Hp; inversion Hp; reflexivity). subst p0.
  destruct (h_start_getZ _ _ _ Hs') as [q1 G1]. destruct (h_start_getZ _ _ _ Hs'') as [q2 G2].
  unfold inv_at. rewrite G.
  destruct (s =? -1) eqn:Es.
  - apply Z.eqb_eq in Es. subst s.
    destruct Hc as [[_ [Een Ep]]|[_ [x2 [_ [NenB _]]]]].
    + (* e is a tombstone, hence so are the other two halfedges of its triangle *)
      subst en p. unfold live. rewrite G1, G2. cbn [fst]. rewrite Z.eqb_refl. cbn [negb andb].
      destruct Hc' as [[_ [E' _]]|[_ [y2 [Hy2 [_ [Ny2 _]]]]]].
      * subst en'. reflexivity.
      * exfalso. rewrite next_he_3 in Hy2. rewrite Hs in Hy2. inversion Hy2. subst y2. contradiction.
    + (* start = -1 without being a tombstone: the previous halfedge of the triangle rejects *)
      exfalso. destruct Hc'' as [[E1 _]|[_ [z2 [_ [Nz _]]]]].
      * (* previous halfedge is a tombstone, so en' = -1; but then halfedge next e ... *)
        subst en'. destruct Hc' as [[E2 _]|[_ [y2 [Hy2 [_ [Ny2 _]]]]]].
        -- subst en. contradiction.
        -- rewrite next_he_3 in Hy2. rewrite Hs in Hy2. inversion Hy2. subst y2. contradiction.
      * contradiction.
  - apply Z.eqb_neq in Es.
    destruct Hc as [[A _]|[_ [s2 [Hs2 [Nen [Ns2 [Np [Hpp [Hne [Hep Hsp]]]]]]]]]]; [contradiction|].
    rewrite Hs'' in Hs2. inversion Hs2. subst s2.
    unfold live. rewrite G1, G2. cbn [fst].
    assert (T1 : negb (en =? -1) = true) by (apply negb_true_iff; apply Z.eqb_neq; exact Nen).
    assert (T2 : negb (en' =? -1) = true) by (apply negb_true_iff; apply Z.eqb_neq; exact Ns2).
    rewrite T1, T2. cbn [andb].
    destruct (h_start_getZ _ _ _ Hsp) as [pp G3].
    assert (pp = e) by (unfold h_pair, bind in Hpp; rewrite G3 in Hpp; inversion Hpp; reflexivity). subst pp.
    rewrite G3, Hen, Hep. rewrite T1, !Z.eqb_refl. cbn [andb].
    assert (Hpe : p <> e).
    { intro; subst p. rewrite G in G3. inversion G3. contradiction. }
    destruct (p =? e) eqn:Epe; [apply Z.eqb_eq in Epe; contradiction|]. reflexivity.
Qed.

(* ------------------------------------------------------------ std::stable_sort contract *)
Section StableSort.
  Variable key : Z -> Z.

  Lemma ins_stable_perm : forall x l, Permutation (ins_stable key x l) (x :: l).
  Proof.
    intros x l. induction l as [|y r IH]; cbn; [apply Permutation_refl|].
    destruct (key x <=? key y); [apply Permutation_refl|].
    eapply perm_trans; [apply perm_skip; exact IH|apply perm_swap].
  Qed.

  Lemma stable_sort_perm_lemma : forall l, Permutation (stable_sort key l) l.
  Proof.
    induction l as [|x r IH]; cbn; [constructor|].
    eapply perm_trans; [apply ins_stable_perm|apply perm_skip; exact IH].
  Qed.

  Definition key_le (a b : Z) : Prop := key a <= key b.

  Lemma ins_stable_sorted : forall x l, StronglySorted key_le l -> StronglySorted key_le (ins_stable key x l).
  Proof.
    intros x l H. induction H as [|y r Hr IH Hall]; cbn; [repeat constructor|].
    destruct (key x <=? key y) eqn:E.
    - apply Z.leb_le in E. constructor; [constructor; assumption|].
      constructor; [exact E|]. rewrite Forall_forall in *. intros z Hz. specialize (Hall z Hz). unfold key_le in *. lia.
    - apply Z.leb_gt in E. constructor; [exact IH|].
      rewrite Forall_forall in *. intros z Hz.
      apply (Permutation_in _ (ins_stable_perm x r)) in Hz. destruct Hz as [<-|Hz]; [unfold key_le; lia|auto].
  Qed.

  Lemma stable_sort_sorted_lemma : forall l, StronglySorted key_le (stable_sort key l).
  Proof. induction l as [|x r IH]; cbn; [constructor|apply ins_stable_sorted; exact IH]. Qed.

  (* stability: elements with equal keys keep their input order *)
  Lemma ins_stable_filter : forall k x l,
    filter (fun y => key y =? k) (ins_stable key x l) = filter (fun y => key y =? k) (x :: l).
  Proof.
    intros k x l. induction l as [|y r IH]; [reflexivity|].
    cbn [ins_stable]. destruct (key x <=? key y) eqn:E; [reflexivity|]. apply Z.leb_gt in E.
    cbn [filter] in *. rewrite IH.
    destruct (key x =? k) eqn:Ex; destruct (key y =? k) eqn:Ey; try reflexivity.
    apply Z.eqb_eq in Ex, Ey. lia.
  Qed.

  Lemma stable_sort_stable_lemma : forall k l,
    filter (fun y => key y =? k) (stable_sort key l) = filter (fun y => key y =? k) l.
  Proof.
    intros k l. induction l as [|x r IH]; [reflexivity|].
    cbn [stable_sort fold_right]. rewrite ins_stable_filter. cbn [filter]. fold (stable_sort key r). rewrite IH. reflexivity.
  Qed.
End StableSort.
