(* Executable Gallina ports of the simple halfedge operations of Manifold::Impl
   (src/edge_op.cpp, src/sort.cpp, src/mesh_fixes.h, src/impl.cpp) and of the index
   emission of GetMeshGLImpl (src/impl.h).  Model only, no proofs.
   A mesh is the halfedge array [(start, paired)] (3 per triangle, -1/-1 =
   tombstone) plus one flag per vertex: true = vertPos_ is NaN.
   Out-of-bounds access or reading a slot the C++ leaves uninitialised gives None. *)
From Coq Require Import ZArith List Bool Lia.
From MV Require Import Topo.CheckMeshDefs Topo.HalfedgeDefs.
Import ListNotations.
Local Open Scope Z_scope.

Record mesh := mkMesh { hs : list (Z * Z); nan : list bool }.

Definition m_start (m : mesh) (e : Z) : option Z := h_start (hs m) e.
Definition m_pair (m : mesh) (e : Z) : option Z := h_pair (hs m) e.

Definition set_pair (h : list (Z * Z)) (e p : Z) : option (list (Z * Z)) :=
  do x <- getZ h e ;; setZ h e (fst x, p).
Definition set_start (h : list (Z * Z)) (e s : Z) : option (list (Z * Z)) :=
  do x <- getZ h e ;; setZ h e (s, snd x).

(* Impl::PairUp *)
Definition pair_up (h : list (Z * Z)) (e0 e1 : Z) : option (list (Z * Z)) :=
  do h1 <- set_pair h e0 e1 ;; set_pair h1 e1 e0.

Definition tri_of (e : Z) : Z * Z * Z := (e, next_he e, next_he (next_he e)).

(* Impl::CollapseTri(triEdge) *)
Definition collapse_tri (h : list (Z * Z)) (t : Z * Z * Z) : option (list (Z * Z)) :=
  let '(t0, t1, t2) := t in
  do p1 <- h_pair h t1 ;;
  if p1 =? -1 then Some h
  else
    do p2 <- h_pair h t2 ;;
    do h1 <- pair_up h p1 p2 ;;
    do h2 <- setZ h1 t0 (-1, -1) ;;
    do h3 <- setZ h2 t1 (-1, -1) ;;
    setZ h3 t2 (-1, -1).

(* Impl::RemoveIfFolded(edge) *)
Definition remove_if_folded (m : mesh) (edge : Z) : option mesh :=
  let '(a0, a1, a2) := tri_of edge in
  do pe <- m_pair m edge ;;
  let '(b0, b1, b2) := tri_of pe in
  do pa1 <- m_pair m a1 ;;
  if pa1 =? -1 then Some m
  else
    do sa2 <- m_start m a2 ;;
    do sb2 <- m_start m b2 ;;
    if negb (sa2 =? sb2) then Some m
    else
      do pa2 <- m_pair m a2 ;;
      do nan' <-
        (if pa1 =? b2 then
           if pa2 =? b1 then
             do s0 <- m_start m a0 ;; do s1 <- m_start m a1 ;;
             do n1 <- setZ (nan m) s0 true ;; do n2 <- setZ n1 s1 true ;; setZ n2 sa2 true
           else
             do s1 <- m_start m a1 ;; setZ (nan m) s1 true
         else
           if pa2 =? b1 then do s1 <- m_start m b1 ;; setZ (nan m) s1 true
           else Some (nan m)) ;;
      do pb2 <- m_pair m b2 ;;
      do h1 <- pair_up (hs m) pa1 pb2 ;;
      do pa2' <- h_pair h1 a2 ;;
      do pb1' <- h_pair h1 b1 ;;
      do h2 <- pair_up h1 pa2' pb1' ;;
      do h3 <- setZ h2 a0 (-1, -1) ;; do h4 <- setZ h3 b0 (-1, -1) ;;
      do h5 <- setZ h4 a1 (-1, -1) ;; do h6 <- setZ h5 b1 (-1, -1) ;;
      do h7 <- setZ h6 a2 (-1, -1) ;; do h8 <- setZ h7 b2 (-1, -1) ;;
      Some (mkMesh h8 nan').

(* mesh_fixes.h FlipHalfedge: C++ int division truncates toward zero *)
Definition flip_halfedge (e : Z) : Z :=
  let tri := Z.quot e 3 in 3 * tri + (2 - (e - 3 * tri)).

(* FlipTris on every triangle (as CsgLeafNode::Compose applies it to a whole node).
   new[3t+i] = { start := End(old 3t+2-i), pair := Flip(old pair (3t+2-i)) } *)
Fixpoint flip_tris_from (old : list (Z * Z)) (rest : list (Z * Z)) : option (list (Z * Z)) :=
  match rest with
  | [] => Some []
  | (s0, p0) :: (s1, p1) :: (s2, p2) :: r =>
    do r' <- flip_tris_from old r ;;
    (* ends: End(3t)=s1, End(3t+1)=s2, End(3t+2)=s0 *)
    Some ((s0, flip_halfedge p2) :: (s2, flip_halfedge p1) :: (s1, flip_halfedge p0) :: r')
  | _ => None
  end.
Definition flip_tris (h : list (Z * Z)) : option (list (Z * Z)) := flip_tris_from h h.

(* scatter(countAt(0), countAt(n), new2old, old2new): old2new[new2old[i]] = i ;
   the array is allocated uninitialised (None) *)
Fixpoint scatter_from (new2old : list Z) (i : Z) (acc : list (option Z)) : option (list (option Z)) :=
  match new2old with
  | [] => Some acc
  | o :: r => do acc' <- setZ acc o (Some i) ;; scatter_from r (i + 1) acc'
  end.
Definition scatter (new2old : list Z) (oldN : nat) : option (list (option Z)) :=
  scatter_from new2old 0 (repeat None oldN).

Definition lookup (tbl : list (option Z)) (i : Z) : option Z :=
  match getZ tbl i with Some (Some v) => Some v | _ => None end.

(* Impl::ReindexVerts(vertNew2Old, oldNumVert): the scatter runs over the first
   NumVert() entries of vertNew2Old; callers make NumVert() = |vertNew2Old| *)
Fixpoint map_opt {A B} (f : A -> option B) (l : list A) : option (list B) :=
  match l with
  | [] => Some []
  | x :: r => do y <- f x ;; do r' <- map_opt f r ;; Some (y :: r')
  end.

Definition reindex_verts (h : list (Z * Z)) (vertNew2Old : list Z) (oldNumVert : nat) : option (list (Z * Z)) :=
  do tbl <- scatter vertNew2Old oldNumVert ;;
  map_opt (fun x : Z * Z => let (s, p) := x in
             if s <? 0 then Some (s, p) else do s' <- lookup tbl s ;; Some (s', p)) h.

(* Permute(vertPos_, vertNew2Old) on the NaN flags *)
Definition permute {A} (l : list A) (new2old : list Z) : option (list A) :=
  map_opt (fun o => getZ l o) new2old.

(* GatherFaces(faceNew2Old) / ReindexFace *)
Definition gather_faces (h : list (Z * Z)) (faceNew2Old : list Z) : option (list (Z * Z)) :=
  do tbl <- scatter faceNew2Old (Nat.div (length h) 3) ;;
  do faces <- map_opt (fun oldFace =>
      map_opt (fun i =>
        do x <- getZ h (3 * oldFace + i) ;;
        let (s, p) := x in
        let pf := Z.quot p 3 in
        let off := p - 3 * pf in
        do nf <- lookup tbl pf ;;
        Some (s, 3 * nf + off)) [0; 1; 2]) faceNew2Old ;;
  Some (concat faces).

(* Impl::RemoveUnreferencedVerts *)
Definition remove_unreferenced_verts (m : mesh) : mesh :=
  let starts := map fst (hs m) in
  mkMesh (hs m)
    (map (fun vb : Z * bool => if existsb (Z.eqb (fst vb)) starts then snd vb else true)
         (combine (iota (length (nan m)) 0) (nan m))).

(* The topological content of SortVerts: vertNew2Old is a permutation of the old
   vertices in which the NaN ones come last (the Morton order is an oracle);
   ReindexVerts with it, then truncate to the non-NaN prefix. *)
Definition count_live_verts (nanf : list bool) : nat := length (filter negb nanf).

Definition sort_verts (m : mesh) (vertNew2Old : list Z) : option mesh :=
  do h' <- reindex_verts (hs m) vertNew2Old (length (nan m)) ;;
  let keep := firstn (count_live_verts (nan m)) vertNew2Old in
  do nan' <- permute (nan m) keep ;;
  Some (mkMesh h' nan').

(* The topological content of SortFaces: faceNew2Old lists the live faces (the
   tombstones sort last and are cut off), then GatherFaces. *)
Definition sort_faces (m : mesh) (faceNew2Old : list Z) : option mesh :=
  do h' <- gather_faces (hs m) faceNew2Old ;; Some (mkMesh h' (nan m)).

(* GetMeshGLImpl without properties: triVerts[3t+i] = Start(3t+i), numVert = |vertPos_| *)
Fixpoint tris_of (h : list (Z * Z)) : list tri :=
  match h with
  | (a, _) :: (b, _) :: (c, _) :: r => (a, b, c) :: tris_of r
  | _ => []
  end.

(* ---------------------------------------------------------------- invariants *)

(* "a vertex is NaN iff it is unreferenced" *)
Definition nan_iff_unreferenced (m : mesh) : bool :=
  let starts := map fst (hs m) in
  forallb (fun vb : Z * bool => Bool.eqb (snd vb) (negb (existsb (Z.eqb (fst vb)) starts)))
          (combine (iota (length (nan m)) 0) (nan m)).

Definition starts_in_range (m : mesh) : bool :=
  forallb (fun x : Z * Z => (fst x =? -1) || ((0 <=? fst x) && (fst x <? Z.of_nat (length (nan m))))) (hs m).

Definition all_live (h : list (Z * Z)) : bool := forallb (fun x : Z * Z => negb (fst x =? -1)) h.

(* Is2Manifold's extra condition: no directed edge twice among live halfedges *)
Definition live_edges (h : list (Z * Z)) : list edge :=
  flat_map (fun e => match h_start h e, h_end h e with
                     | Some s, Some t => if s =? -1 then [] else [(s, t)]
                     | _, _ => [] end) (iota (length h) 0).
