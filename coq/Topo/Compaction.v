(* compaction_exports_closed: SortVerts (ReindexVerts + truncation) followed by SortFaces
   (GatherFaces) and the index emission of GetMeshGLImpl give a closed oriented 2-manifold,
   from HalfedgeInv + "a vertex is NaN iff unreferenced" + no duplicate live directed edge,
   for all Morton orders (oracles) that meet the stated contracts. *)
From Coq Require Import ZArith List Bool Lia Permutation.
From MV Require Import Topo.CheckMeshDefs Topo.CheckMesh Topo.HalfedgeDefs Topo.EdgeOpsDefs Topo.EdgeOps.
Import ListNotations.
Local Open Scope Z_scope.

Definition idx3 (f : Z) : list Z := [3 * f; 3 * f + 1; 3 * f + 2].
Definition face_tri (h : list (Z * Z)) (f : Z) : tri := (st_of h (3 * f), st_of h (3 * f + 1), st_of h (3 * f + 2)).
Definition map_tri (g : Z -> Z) (t : tri) : tri := let '(a, b, c) := t in (g a, g b, g c).
Definition map_edge (g : Z -> Z) (e : edge) : edge := (g (fst e), g (snd e)).

(* ---- A: the live halfedges, as an index list, carry a reversal-closed loop-free edge set *)
Lemma closed_idx : forall h I,
  halfedge_inv h = true ->
  (forall e, In e I -> exists s p, getZ h e = Some (s, p) /\ s <> -1) ->
  (forall e s p, getZ h e = Some (s, p) -> s <> -1 -> In e I) ->
  NoDup (map (edge_at h) I) ->
  (forall a b, In (a, b) (map (edge_at h) I) -> In (b, a) (map (edge_at h) I)) /\
  (forall a, ~ In (a, a) (map (edge_at h) I)).
Proof.
  intros h I Hinv Hlive Hcompl Hnd.
  assert (Hrev : forall e, In e I -> exists p, In p I /\ p <> e /\
            edge_at h p = (snd (edge_at h e), fst (edge_at h e))).
  { intros e He. destruct (Hlive e He) as [s [p [G Hs]]].
    destruct (inv_live h e s p Hinv G Hs) as [s1 [p1 [s2 [p2 [sp [pp [G1 [_ [_ [_ [Gp [Hsp [_ [Hne [Hsp1 Hend]]]]]]]]]]]]]]].
    exists p. split; [eapply Hcompl; eauto|]. split; [exact Hne|].
    unfold edge_at, st_of. rewrite Gp, G, G1. cbn [fst snd]. subst sp.
    unfold h_end, h_start in Hend. destruct (getZ h (next_he p)) as [[sq pq]|]; cbn in Hend; [|discriminate].
    inversion Hend; subst. reflexivity. }
  split.
  - intros a b Hin. apply in_map_iff in Hin. destruct Hin as [e [He Hi]].
    destruct (Hrev e Hi) as [p [Hp [_ Hep]]]. rewrite He in Hep. cbn in Hep. rewrite <- Hep. apply in_map. exact Hp.
  - intros a Hin. apply in_map_iff in Hin. destruct Hin as [e [He Hi]].
    destruct (Hrev e Hi) as [p [Hp [Hne Hep]]]. rewrite He in Hep. cbn in Hep.
    apply Hne. apply (NoDup_map_inj _ _ (edge_at h) I); auto. congruence.
Qed.

(* ---- B: directed edges of the listed faces = edges at their halfedge indices *)
Lemma dir_edges_faces : forall h F,
  dir_edges (map (face_tri h) F) = map (edge_at h) (flat_map idx3 F).
Proof.
  intros h F. induction F as [|f r IH]; [reflexivity|].
  cbn [map flat_map]. unfold dir_edges in *. cbn [flat_map]. rewrite IH. rewrite map_app.
  f_equal. unfold face_tri, idx3, tri_edges, edge_at. cbn [map].
  destruct (next_he_3q f) as [N0 [N1 N2]]. rewrite N0, N1, N2. reflexivity.
Qed.

Lemma tris_verts_faces : forall h F v,
  In v (all_verts (map (face_tri h) F)) -> exists e, In e (flat_map idx3 F) /\ st_of h e = v.
Proof.
  intros h F v Hin. apply in_all_verts in Hin. destruct Hin as [a [b [c [Ht Hv]]]].
  apply in_map_iff in Ht. destruct Ht as [f [Hf Hin]]. unfold face_tri in Hf. inversion Hf; subst.
  destruct Hv as [ -> | [ -> | -> ] ].
  - exists (3 * f). split; [|reflexivity]. apply in_flat_map. exists f. split; [exact Hin|cbn; auto].
  - exists (3 * f + 1). split; [|reflexivity]. apply in_flat_map. exists f. split; [exact Hin|cbn; auto].
  - exists (3 * f + 2). split; [|reflexivity]. apply in_flat_map. exists f. split; [exact Hin|cbn; auto].
Qed.

(* ---- C: renaming the vertices by a function injective on the used vertices *)
Lemma dir_edges_map_tri : forall g T, dir_edges (map (map_tri g) T) = map (map_edge g) (dir_edges T).
Proof.
  intros g T. induction T as [|[[a b] c] r IH]; [reflexivity|].
  unfold dir_edges in *. cbn [map flat_map]. rewrite IH, map_app. reflexivity.
Qed.

Lemma all_verts_map_tri : forall g T v, In v (all_verts (map (map_tri g) T)) <-> exists o, In o (all_verts T) /\ v = g o.
Proof.
  intros g T v. rewrite in_all_verts. split.
  - intros [a [b [c [Ht Hv]]]]. apply in_map_iff in Ht. destruct Ht as [[[x y] z] [Hm Hin]].
    cbn in Hm. inversion Hm; subst.
    destruct Hv as [ -> | [ -> | -> ] ]; [exists x|exists y|exists z]; (split; [|reflexivity]); apply in_all_verts; exists x, y, z; auto.
  - intros [o [Ho ->]]. apply in_all_verts in Ho. destruct Ho as [x [y [z [Hin Ho]]]].
    exists (g x), (g y), (g z). split.
    + apply in_map_iff. exists (x, y, z). split; [reflexivity|exact Hin].
    + destruct Ho as [ -> | [ -> | -> ] ]; auto.
Qed.

Lemma edge_verts : forall T a b, In (a, b) (dir_edges T) -> In a (all_verts T) /\ In b (all_verts T).
Proof.
  intros T a b H. apply in_dir_edges in H. destruct H as [x [y [z [Ht He]]]].
  split; apply in_all_verts; exists x, y, z; (split; [exact Ht|]);
    destruct He as [He|[He|He]]; inversion He; subst; auto.
Qed.

Lemma renamed_closed : forall (g : Z -> Z) (T : list tri) (nV : Z),
  NoDup (dir_edges T) ->
  (forall a b, In (a, b) (dir_edges T) -> In (b, a) (dir_edges T)) ->
  (forall a, ~ In (a, a) (dir_edges T)) ->
  (forall x y, In x (all_verts T) -> In y (all_verts T) -> g x = g y -> x = y) ->
  (forall x, In x (all_verts T) -> 0 <= g x < nV) ->
  (forall v, 0 <= v < nV -> exists x, In x (all_verts T) /\ g x = v) ->
  Closed2Manifold nV (map (map_tri g) T).
Proof.
  intros g T nV Hnd Hrev Hloop Hinj Hrange Hsurj.
  assert (HE : dir_edges (map (map_tri g) T) = map (map_edge g) (dir_edges T)) by apply dir_edges_map_tri.
  split; [|split; [|split]].
  - intros a b c Ht. apply in_map_iff in Ht. destruct Ht as [[[x y] z] [Hm Hin]]. cbn in Hm. inversion Hm; subst.
    assert (In x (all_verts T) /\ In y (all_verts T) /\ In z (all_verts T)) as [Hx [Hy Hz]]
      by (repeat split; apply in_all_verts; exists x, y, z; auto).
    auto.
  - intros a b c Ht. apply in_map_iff in Ht. destruct Ht as [[[x y] z] [Hm Hin]]. cbn in Hm. inversion Hm; subst.
    assert (In x (all_verts T) /\ In y (all_verts T) /\ In z (all_verts T)) as [Hx [Hy Hz]]
      by (repeat split; apply in_all_verts; exists x, y, z; auto).
    assert (Exy : In (x, y) (dir_edges T)) by (apply in_dir_edges; exists x, y, z; auto).
    assert (Eyz : In (y, z) (dir_edges T)) by (apply in_dir_edges; exists x, y, z; auto).
    assert (Ezx : In (z, x) (dir_edges T)) by (apply in_dir_edges; exists x, y, z; auto).
    repeat split; intro Heq; apply Hinj in Heq; auto; subst; eapply Hloop; eauto.
  - apply edges_matched_alt. rewrite HE. split.
    + apply NoDup_map_inj_in; [|exact Hnd]. intros [a b] [c d] H1 H2 Heq. unfold map_edge in Heq. cbn in Heq. inversion Heq.
      destruct (edge_verts _ _ _ H1). destruct (edge_verts _ _ _ H2).
      f_equal; apply Hinj; auto.
    + intros a b Hin. apply in_map_iff in Hin. destruct Hin as [[x y] [Hm Hxy]]. unfold map_edge in Hm. cbn in Hm. inversion Hm; subst.
      apply in_map_iff. exists (y, x). split; [reflexivity|]. apply Hrev. exact Hxy.
  - intros v Hv. destruct (Hsurj v Hv) as [x [Hx Hg]]. apply all_verts_map_tri. exists x. split; [exact Hx|symmetry; exact Hg].
Qed.

(* ---- D: what the ported functions compute, in terms of face_tri / map_tri *)
Definition fre (tbl : list (option Z)) (s : Z) : Z :=
  if s <? 0 then s else match lookup tbl s with Some v => v | None => 0 end.

Lemma map_opt_in : forall A B (f : A -> option B) l l' x, map_opt f l = Some l' -> In x l -> exists y, f x = Some y.
Proof.
  induction l as [|a r IH]; intros l' x H Hin; [contradiction|]. cbn in H. unfold bind in H.
  destruct (f a) as [y|] eqn:Fa; [|discriminate]. destruct (map_opt f r) as [r'|] eqn:Mr; [|discriminate].
  destruct Hin as [->|Hin]; [eauto|]. eapply IH; eauto.
Qed.

Lemma reindex_verts_form : forall h n2o oldN h',
  reindex_verts h n2o oldN = Some h' ->
  exists tbl, scatter n2o oldN = Some tbl /\ h' = map (map_start (fre tbl)) h /\
    (forall s p, In (s, p) h -> 0 <= s -> exists v, lookup tbl s = Some v).
Proof.
  intros h n2o oldN h' H. unfold reindex_verts, bind in H.
  destruct (scatter n2o oldN) as [tbl|] eqn:S; [|discriminate]. exists tbl. split; [reflexivity|]. split.
  - apply (map_opt_map _ _ _ (map_start (fre tbl)) _ _ H). intros [s p] y _ Hy. unfold map_start, fre. cbn [fst snd].
    destruct (s <? 0); [inversion Hy; reflexivity|]. destruct (lookup tbl s); cbn in Hy; inversion Hy. reflexivity.
  - intros s p Hin Hs. destruct (map_opt_in _ _ _ _ _ (s, p) H Hin) as [y Hy]. cbn in Hy.
    destruct (s <? 0) eqn:E; [apply Z.ltb_lt in E; lia|]. destruct (lookup tbl s); [eauto|discriminate].
Qed.

Lemma st_of_map_start : forall f h e, f (-2) = -2 -> st_of (map (map_start f) h) e = f (st_of h e).
Proof.
  intros f h e Hf. unfold st_of. rewrite getZ_map. destruct (getZ h e) as [[s p]|]; cbn; [reflexivity|symmetry; exact Hf].
Qed.

Lemma face_tri_map_start : forall f h F, f (-2) = -2 -> face_tri (map (map_start f) h) F = map_tri f (face_tri h F).
Proof. intros. unfold face_tri, map_tri. rewrite !st_of_map_start by assumption. reflexivity. Qed.

Lemma map_opt_3 : forall A B (f : A -> option B) a b c l, map_opt f [a; b; c] = Some l ->
  exists x y z, l = [x; y; z] /\ f a = Some x /\ f b = Some y /\ f c = Some z.
Proof.
  intros A B f a b c l H. cbn in H. unfold bind in H.
  destruct (f a) as [x|]; [|discriminate]. destruct (f b) as [y|]; [|discriminate]. destruct (f c) as [z|]; [|discriminate].
  inversion H. exists x, y, z. auto.
Qed.

Lemma map_opt_cons : forall A B (f : A -> option B) x r,
  map_opt f (x :: r) = (do y <- f x ;; do r' <- map_opt f r ;; Some (y :: r')).
Proof. reflexivity. Qed.

Lemma gather_faces_tris : forall h f2o h2, gather_faces h f2o = Some h2 -> tris_of h2 = map (face_tri h) f2o.
Proof.
  intros h f2o h2 H. unfold gather_faces in H. unfold bind at 1 in H.
  destruct (scatter f2o (Nat.div (length h) 3)) as [tbl|]; [|discriminate]. unfold bind at 1 in H.
  match type of H with context [map_opt ?f f2o] => destruct (map_opt f f2o) as [faces|] eqn:F; [|discriminate] end.
  inversion H; subst. clear H. revert faces F. induction f2o as [|fc r IH]; intros faces F.
  - cbn in F. inversion F. reflexivity.
  - rewrite map_opt_cons in F. unfold bind at 1 in F.
    match type of F with context [map_opt ?f [0; 1; 2]] => destruct (map_opt f [0; 1; 2]) as [face|] eqn:Fc; [|discriminate] end.
    unfold bind at 1 in F.
    match type of F with context [map_opt ?f r] => destruct (map_opt f r) as [faces'|] eqn:F'; [|discriminate] end.
    inversion F; subst. clear F. cbn [concat map]. specialize (IH faces' eq_refl).
    destruct (map_opt_3 _ _ _ _ _ _ _ Fc) as [x [y [z [-> [Hx [Hy Hz]]]]]].
    assert (Hfst : forall i q, (do x0 <- getZ h (3 * fc + i);;
                                 (let (s, p) := x0 in do nf <- lookup tbl (Z.quot p 3);; Some (s, 3 * nf + (p - 3 * Z.quot p 3)))) = Some q ->
                               fst q = st_of h (3 * fc + i)).
    { intros i q Hq. unfold bind in Hq. unfold st_of. destruct (getZ h (3 * fc + i)) as [[s p]|]; [|discriminate].
      destruct (lookup tbl (Z.quot p 3)); [|discriminate]. inversion Hq. reflexivity. }
    apply Hfst in Hx, Hy, Hz. destruct x as [x1 x2], y as [y1 y2], z as [z1 z2]. cbn [fst] in *.
    cbn [app tris_of]. rewrite IH. f_equal. unfold face_tri. rewrite Z.add_0_r in Hx. subst x1 y1 z1. reflexivity.
Qed.

(* ---- scatter *)
Lemma scatter_from_inv : forall n2o i acc tbl, scatter_from n2o i acc = Some tbl ->
  forall o v, getZ tbl o = Some (Some v) ->
    getZ acc o = Some (Some v) \/ (exists k, nth_error n2o k = Some o /\ v = i + Z.of_nat k).
Proof.
  induction n2o as [|x r IH]; intros i acc tbl H o v G; cbn [scatter_from] in H.
  - inversion H; subst. left. exact G.
  - unfold bind in H. destruct (setZ acc x (Some i)) as [acc'|] eqn:HS; [|discriminate].
    destruct (setZ_spec _ _ _ _ _ HS) as [_ [Gx Gn]].
    destruct (IH (i + 1) acc' tbl H o v G) as [Ga|[k [Hk Hv]]].
    + destruct (Z.eq_dec o x) as [->|Hne].
      * rewrite Gx in Ga. inversion Ga; subst. right. exists 0%nat. split; [reflexivity|lia].
      * left. rewrite <- (Gn _ Hne). exact Ga.
    + right. exists (S k). split; [exact Hk|lia].
Qed.

Lemma scatter_from_keeps : forall n2o i acc tbl o, scatter_from n2o i acc = Some tbl -> ~ In o n2o -> getZ tbl o = getZ acc o.
Proof.
  induction n2o as [|x r IH]; intros i acc tbl o H Hnin; cbn [scatter_from] in H.
  - inversion H; reflexivity.
  - unfold bind in H. destruct (setZ acc x (Some i)) as [acc'|] eqn:HS; [|discriminate].
    destruct (setZ_spec _ _ _ _ _ HS) as [_ [_ Gn]].
    rewrite (IH (i + 1) acc' tbl o H); [|intro; apply Hnin; right; assumption].
    apply Gn. intro; subst; apply Hnin; left; reflexivity.
Qed.

Lemma scatter_from_hits : forall n2o i acc tbl, scatter_from n2o i acc = Some tbl -> NoDup n2o ->
  forall k o, nth_error n2o k = Some o -> getZ tbl o = Some (Some (i + Z.of_nat k)).
Proof.
  induction n2o as [|x r IH]; intros i acc tbl H Hnd k o Hk; [destruct k; discriminate|].
  cbn [scatter_from] in H. unfold bind in H. destruct (setZ acc x (Some i)) as [acc'|] eqn:HS; [|discriminate].
  inversion Hnd as [|? ? Hnin Hnd']; subst. destruct k as [|k]; cbn in Hk.
  - inversion Hk; subst. rewrite (scatter_from_keeps r (i + 1) acc' tbl o H Hnin).
    destruct (setZ_spec _ _ _ _ _ HS) as [_ [Gx _]]. rewrite Gx. do 2 f_equal. lia.
  - rewrite (IH (i + 1) acc' tbl H Hnd' k o Hk). do 2 f_equal. lia.
Qed.

(* ---- nan_iff_unreferenced, starts_in_range as facts *)
Lemma combine_iota_in : forall (l : list bool) from k b,
  nth_error l k = Some b -> In (from + Z.of_nat k, b) (combine (iota (length l) from) l).
Proof.
  induction l as [|x r IH]; intros from k b H; destruct k; cbn in H; try discriminate.
  - inversion H; subst. cbn. left. f_equal. lia.
  - cbn [length iota combine In]. right. replace (from + Z.of_nat (S k)) with (from + 1 + Z.of_nat k) by lia. apply IH. exact H.
Qed.

Lemma nan_iff_fact : forall m v b, nan_iff_unreferenced m = true -> getZ (nan m) v = Some b ->
  (b = false <-> In v (map fst (hs m))).
Proof.
  intros m v b H G. unfold nan_iff_unreferenced in H. rewrite forallb_forall in H.
  pose proof (getZ_some_range _ _ _ _ G) as Hr.
  assert (Hin : In (v, b) (combine (iota (length (nan m)) 0) (nan m))).
  { replace v with (0 + Z.of_nat (Z.to_nat v)) by lia. apply combine_iota_in.
    unfold getZ in G. destruct (v <? 0); [discriminate|]. rewrite get_nth_error in G. exact G. }
  specialize (H _ Hin). cbn [fst snd] in H. apply eqb_prop in H.
  split.
  - intro Hb. rewrite Hb in H. symmetry in H. apply negb_false_iff in H. apply existsb_exists in H.
    destruct H as [x [Hx Hv]]. apply Z.eqb_eq in Hv. subst. exact Hx.
  - intro Hv. destruct b; [|reflexivity]. symmetry in H. apply negb_true_iff in H.
    assert (Hex : existsb (Z.eqb v) (map fst (hs m)) = true) by (apply existsb_exists; exists v; split; [exact Hv|apply Z.eqb_refl]).
    congruence.
Qed.

Lemma map_opt_length : forall A B (f : A -> option B) l l', map_opt f l = Some l' -> length l' = length l.
Proof.
  induction l as [|x r IH]; intros l' H; cbn in H.
  - inversion H. reflexivity.
  - unfold bind in H. destruct (f x); [|discriminate]. destruct (map_opt f r) as [r'|] eqn:M; [|discriminate].
    inversion H. cbn. f_equal. apply IH. reflexivity.
Qed.

Lemma count_live_le : forall l, (count_live_verts l <= length l)%nat.
Proof.
  intro l. unfold count_live_verts. induction l as [|x r IH]; cbn; [lia|]. destruct (negb x); cbn; lia.
Qed.

(* ---- the theorem *)
Lemma compaction_exports_closed_lemma :
  forall (m m1 m2 : mesh) (n2o f2o : list Z),
    halfedge_inv (hs m) = true ->
    nan_iff_unreferenced m = true ->
    starts_in_range m = true ->
    NoDup (map (edge_at (hs m)) (flat_map idx3 f2o)) ->
    NoDup n2o -> length n2o = length (nan m) ->
    (forall k o, nth_error n2o k = Some o ->
       (getZ (nan m) o = Some false <-> (k < count_live_verts (nan m))%nat)) ->
    (forall f e, In f f2o -> In e (idx3 f) -> exists s p, getZ (hs m) e = Some (s, p) /\ s <> -1) ->
    (forall e s p, getZ (hs m) e = Some (s, p) -> s <> -1 -> In e (flat_map idx3 f2o)) ->
    sort_verts m n2o = Some m1 -> sort_faces m1 f2o = Some m2 ->
    Closed2Manifold (Z.of_nat (length (nan m2))) (tris_of (hs m2)).
Proof.
  intros m m1 m2 n2o f2o Hinv Hnan Hrange Hnd Hndv Hlen Horacle Hfaces Hcompl Hsv Hsf.
  set (h := hs m) in *. set (L := count_live_verts (nan m)) in *.
  set (I := flat_map idx3 f2o) in *.
  unfold sort_verts in Hsv. unfold bind at 1 in Hsv.
  destruct (reindex_verts (hs m) n2o (length (nan m))) as [h1|] eqn:R; [|discriminate].
  unfold bind in Hsv. destruct (permute (nan m) (firstn (count_live_verts (nan m)) n2o)) as [nan1|] eqn:P; [|discriminate].
  inversion Hsv; subst m1. clear Hsv.
  unfold sort_faces, bind in Hsf. cbn [hs nan] in Hsf.
  destruct (gather_faces h1 f2o) as [h2|] eqn:Gf; [|discriminate]. inversion Hsf; subst m2. clear Hsf. cbn [hs nan].
  destruct (reindex_verts_form _ _ _ _ R) as [tbl [Hsc [Hh1 Hdef]]]. fold h in Hh1, Hdef.
  set (g := fre tbl).
  assert (Hg2 : g (-2) = -2) by reflexivity.
  (* the exported triangles *)
  rewrite (gather_faces_tris _ _ _ Gf). rewrite Hh1.
  rewrite (map_ext _ (fun F => map_tri g (face_tri h F))) by (intro; apply face_tri_map_start; exact Hg2).
  rewrite <- map_map.
  (* number of vertices *)
  assert (HL : length nan1 = L).
  { unfold permute in P. rewrite (map_opt_length _ _ _ _ _ P), firstn_length. pose proof (count_live_le (nan m)). fold L in H. lia. }
  rewrite HL.
  (* facts about the live indices *)
  assert (HliveI : forall e, In e I -> exists s p, getZ h e = Some (s, p) /\ s <> -1).
  { intros e He. apply in_flat_map in He. destruct He as [f [Hf He]]. eapply Hfaces; eauto. }
  destruct (closed_idx h I Hinv HliveI Hcompl Hnd) as [Hrev Hloop].
  (* facts about the used vertices and g *)
  assert (Hvert : forall x, In x (all_verts (map (face_tri h) f2o)) ->
            exists k, nth_error n2o k = Some x /\ g x = Z.of_nat k /\ (k < L)%nat).
  { intros x Hx. destruct (tris_verts_faces _ _ _ Hx) as [e [He Hst]].
    destruct (HliveI e He) as [s [p [G Hs]]]. unfold st_of in Hst. rewrite G in Hst. cbn in Hst. subst s.
    assert (Hin : In (x, p) h) by (eapply getZ_In; eauto).
    assert (Hxr : 0 <= x < Z.of_nat (length (nan m))).
    { unfold starts_in_range in Hrange. rewrite forallb_forall in Hrange. specialize (Hrange _ Hin). cbn [fst] in Hrange.
      apply orb_true_iff in Hrange. destruct Hrange as [E|E]; [apply Z.eqb_eq in E; contradiction|].
      apply andb_true_iff in E. destruct E as [E1 E2]. apply Z.leb_le in E1. apply Z.ltb_lt in E2. lia. }
    destruct (Hdef x p Hin ltac:(lia)) as [v Hv].
    assert (Gt : getZ tbl x = Some (Some v)).
    { unfold lookup in Hv. destruct (getZ tbl x) as [[w|]|]; inversion Hv; reflexivity. }
    unfold scatter in Hsc. destruct (scatter_from_inv _ _ _ _ Hsc x v Gt) as [Ga|[k [Hk Hvk]]].
    { exfalso. apply getZ_In in Ga. apply repeat_spec in Ga. discriminate. }
    exists k. split; [exact Hk|]. split.
    - unfold g, fre. destruct (x <? 0) eqn:E; [apply Z.ltb_lt in E; lia|]. rewrite Hv. lia.
    - apply (Horacle k x Hk). destruct (getZ_in_range _ (nan m) x Hxr) as [b Gb]. rewrite Gb. f_equal.
      apply (nan_iff_fact m x b Hnan Gb). apply in_map_iff. exists (x, p). split; [reflexivity|exact Hin]. }
  apply renamed_closed.
  - rewrite dir_edges_faces. exact Hnd.
  - rewrite dir_edges_faces. exact Hrev.
  - rewrite dir_edges_faces. exact Hloop.
  - intros x y Hx Hy Hgxy. destruct (Hvert x Hx) as [k [Hk [Hgk _]]]. destruct (Hvert y Hy) as [k' [Hk' [Hgk' _]]].
    assert (k = k') by lia. subst k'. congruence.
  - intros x Hx. destruct (Hvert x Hx) as [k [_ [Hgk HkL]]]. lia.
  - intros v Hv.
    assert (Hk : exists o, nth_error n2o (Z.to_nat v) = Some o).
    { destruct (nth_error n2o (Z.to_nat v)) eqn:E; [eauto|]. apply nth_error_None in E.
      pose proof (count_live_le (nan m)). fold L in H. lia. }
    destruct Hk as [o Hk].
    assert (Gn : getZ (nan m) o = Some false) by (apply (Horacle _ o Hk); lia).
    assert (Href : In o (map fst h)) by (apply (nan_iff_fact m o false Hnan Gn); reflexivity).
    apply in_map_iff in Href. destruct Href as [[s p] [Hs Hin]]. cbn in Hs. subst s.
    pose proof (getZ_some_range _ _ _ _ Gn) as Hor.
    destruct (In_getZ _ _ _ Hin) as [e Ge].
    assert (HeI : In e I) by (eapply Hcompl; [exact Ge|lia]).
    exists o. split.
    + apply in_flat_map in HeI. destruct HeI as [f [Hf He]].
      apply in_all_verts. exists (st_of h (3 * f)), (st_of h (3 * f + 1)), (st_of h (3 * f + 2)).
      split; [apply in_map_iff; exists f; split; [reflexivity|exact Hf]|].
      assert (Hst : st_of h e = o) by (unfold st_of; rewrite Ge; reflexivity).
      cbn in He. destruct He as [<-|[<-|[<-|[]]]]; auto.
    + unfold g, fre. destruct (o <? 0) eqn:E; [apply Z.ltb_lt in E; lia|].
      unfold scatter in Hsc. pose proof (scatter_from_hits _ _ _ _ Hsc Hndv _ _ Hk) as Gt.
      unfold lookup. rewrite Gt. lia.
Qed.
