(* Port of the duplicate-detection loop of Manifold::Impl::DedupeEdges (src/edge_op.cpp,
   localLoop): the first orbit around a vertex records, per end vertex, the smallest halfedge
   index - in a vector searched linearly while it has at most `threshold` (32) entries, in an
   unordered_map after that; the second orbit flags every halfedge that is not that smallest one.
   `orbit` is the list of (End(current), current) in ForVert order (tombstones already skipped).
   Definitions only. *)
From Coq Require Import ZArith List Bool.
Import ListNotations.
Local Open Scope Z_scope.

Definition entry : Type := (Z * Z)%type.   (* end vertex, smallest halfedge seen *)

(* find_if + `iter->second = min(iter->second, current)`  /  map.insert + min on collision *)
Fixpoint upd_min (l : list entry) (endV cur : Z) : option (list entry) :=
  match l with
  | [] => None
  | (v, c) :: r =>
    if v =? endV then Some ((v, Z.min c cur) :: r)
    else match upd_min r endV cur with Some r' => Some ((v, c) :: r') | None => None end
  end.

Definition insert_min (l : list entry) (endV cur : Z) : list entry :=
  match upd_min l endV cur with Some l' => l' | None => l ++ [(endV, cur)] end.

(* state: (endVerts vector, endVertSet map); the map being empty is the mode flag, as in the C++ *)
Definition dstate : Type := (list entry * list entry)%type.

Definition step (threshold : nat) (st : dstate) (e : entry) : dstate :=
  let '(vec, set) := st in
  let '(endV, cur) := e in
  match set with
  | [] =>
    match upd_min vec endV cur with
    | Some vec' => (vec', [])
    | None =>
      let vec' := vec ++ [(endV, cur)] in
      if Nat.ltb threshold (length vec') then ([], vec')     (* endVertSet.insert(all); endVerts.clear() *)
      else (vec', [])
    end
  | _ => (vec, insert_min set endV cur)
  end.

Definition first_pass (threshold : nat) (orbit : list entry) : dstate := fold_left (step threshold) orbit ([], []).

Fixpoint assoc (l : list entry) (endV : Z) : option Z :=
  match l with [] => None | (v, c) :: r => if v =? endV then Some c else assoc r endV end.

Definition lookup_st (st : dstate) (endV : Z) : option Z :=
  match snd st with [] => assoc (fst st) endV | _ => assoc (snd st) endV end.

(* second orbit: results.push_back(current) when the recorded halfedge differs *)
Definition flagged (threshold : nat) (orbit : list entry) : list Z :=
  let st := first_pass threshold orbit in
  map snd (filter (fun e : entry => match lookup_st st (fst e) with Some c => negb (c =? snd e) | None => true end) orbit).

(* specification: every halfedge except the smallest of each group of equal end vertices *)
Definition min_of (orbit : list entry) (endV : Z) : option Z :=
  fold_left (fun acc (e : entry) => if fst e =? endV then Some (match acc with Some m => Z.min m (snd e) | None => snd e end) else acc)
            orbit None.
Definition flagged_spec (orbit : list entry) : list Z :=
  map snd (filter (fun e : entry => match min_of orbit (fst e) with Some c => negb (c =? snd e) | None => true end) orbit).
