(* C01: abstract interpretation of the pass sequences ("pipelines") that build or
   rebuild a Manifold::Impl.  The pass lists themselves are regenerated from the
   C++ sources on every run (translate/c01_pipeline.py -> Gen/Pipelines.v).
   Definitions only. *)
From Coq Require Import ZArith List Bool.
Import ListNotations.

Inductive pass : Type :=
| CreateHalfedges          (* rebuilds halfedge_ from triangles; drops opposed triangle pairs *)
| Subdivide                (* Impl::Subdivide: new vertices + CreateHalfedges *)
| CleanupTopology          (* SplitPinchedVerts + DedupeEdges *)
| SimplifyTopology         (* CleanupTopology + edge collapses / swaps (either variant) *)
| RemoveUnreferencedVerts  (* vertPos_[v] := NaN for every v that starts no halfedge *)
| SortGeometry             (* SortVerts drops NaN vertices, SortFaces drops tombstone triangles *)
| AssumeNoStranded         (* explicit, listed assumption about a generator (not a C++ call) *)
| AssumeNoDup              (* explicit, listed assumption: the generator emits no duplicate directed edge / pinched vertex *)
| OtherPass.               (* a call with no effect on the three facts below *)

(* What a pipeline may leave behind.  A "stranded" vertex is a vertex that is
   not NaN and is referenced by no halfedge; a "tombstone" is a removed (-1)
   triangle or a NaN vertex still occupying a slot. *)
(* n_dup counts what CleanupTopology repairs: directed edges occurring more than once
   (4-manifold edges) and pinched vertices. *)
Record cstate : Type := mkC { n_stranded : nat; n_tomb : nat; is_sorted : bool; n_dup : nat }.

(* The effect of each pass, as a relation (everything the C++ may do to the three counters). *)
Definition exec (p : pass) (s s' : cstate) : Prop :=
  match p with
  | CreateHalfedges => is_sorted s' = false                       (* may strand, tombstone, pair duplicates *)
  | Subdivide => is_sorted s' = false /\ (n_dup s = 0 -> n_dup s' = 0)   (* refining a 2-manifold keeps it one (trusted) *)
  | CleanupTopology | SimplifyTopology =>
      (* DedupeEdge moves whole fans to new vertices: with duplicates present the ORIGINAL vertex can be left
         unreferenced and not NaN (observed by the Impl-level oracle); without duplicates nothing is stranded -
         a collapse NaN-s the vertex it removes *)
      n_dup s' = 0 /\ (n_dup s = 0 -> n_stranded s' = n_stranded s) /\ is_sorted s' = false
  | RemoveUnreferencedVerts => n_stranded s' = 0 /\ is_sorted s' = is_sorted s /\ n_dup s' = n_dup s
  | SortGeometry => n_stranded s' = n_stranded s /\ n_tomb s' = 0 /\ is_sorted s' = true /\ n_dup s' = n_dup s
  | AssumeNoStranded => n_stranded s' = 0 /\ n_tomb s' = n_tomb s /\ is_sorted s' = is_sorted s /\ n_dup s' = n_dup s
  | AssumeNoDup => n_stranded s' = n_stranded s /\ n_tomb s' = n_tomb s /\ is_sorted s' = is_sorted s /\ n_dup s' = 0
  | OtherPass => s' = s
  end.

Fixpoint exec_all (ps : list pass) (s s' : cstate) : Prop :=
  match ps with
  | [] => s' = s
  | p :: r => exists m, exec p s m /\ exec_all r m s'
  end.

Definition clean (s : cstate) : Prop := n_stranded s = 0 /\ n_tomb s = 0 /\ is_sorted s = true /\ n_dup s = 0.

(* abstract domain: may-flags *)
Record flags : Type := mkF { may_stranded : bool; may_tomb : bool; may_unsorted : bool; may_dup : bool }.

Definition astep (p : pass) (f : flags) : flags :=
  match p with
  | CreateHalfedges => mkF true true true true
  | Subdivide => mkF true true true (may_dup f)
  | CleanupTopology | SimplifyTopology => mkF (may_stranded f || may_dup f) true true false
  | RemoveUnreferencedVerts => mkF false true (may_unsorted f) (may_dup f)
  | SortGeometry => mkF (may_stranded f) false false (may_dup f)
  | AssumeNoStranded => mkF false (may_tomb f) (may_unsorted f) (may_dup f)
  | AssumeNoDup => mkF (may_stranded f) (may_tomb f) (may_unsorted f) false
  | OtherPass => f
  end.

Definition arun (ps : list pass) (f : flags) : flags := fold_left (fun f p => astep p f) ps f.

Definition no_flag (f : flags) : bool := negb (may_stranded f) && negb (may_tomb f) && negb (may_unsorted f) && negb (may_dup f).

(* entry: `fresh = true` for pipelines that fill a new Impl (nothing known),
   `false` for pipelines that start from an existing valid Manifold. *)
Definition entry_flags (fresh : bool) : flags := if fresh then mkF true true true true else mkF false false false false.

Definition pipeline_ok (fresh : bool) (ps : list pass) : bool := no_flag (arun ps (entry_flags fresh)).

(* gamma: which concrete states a flag set describes *)
Definition described (f : flags) (s : cstate) : Prop :=
  (may_stranded f = false -> n_stranded s = 0) /\
  (may_tomb f = false -> n_tomb s = 0) /\
  (may_unsorted f = false -> is_sorted s = true) /\
  (may_dup f = false -> n_dup s = 0).

(* -------- one row of the table tied to arrays: RemoveUnreferencedVerts ---------
   verts: true = NaN (tombstone) ; starts: halfedge start vertices (-1 = removed) *)
Definition referenced (starts : list Z) (v : Z) : bool := existsb (Z.eqb v) starts.

Fixpoint remove_unreferenced_from (starts : list Z) (v : Z) (isnan : list bool) : list bool :=
  match isnan with
  | [] => []
  | b :: r => (if referenced starts v then b else true) :: remove_unreferenced_from starts (Z.succ v) r
  end.
Definition remove_unreferenced (starts : list Z) (isnan : list bool) : list bool :=
  remove_unreferenced_from starts 0%Z isnan.

Fixpoint count_stranded_from (starts : list Z) (v : Z) (isnan : list bool) : nat :=
  match isnan with
  | [] => 0
  | b :: r => (if negb b && negb (referenced starts v) then 1 else 0) + count_stranded_from starts (Z.succ v) r
  end.
Definition count_stranded (starts : list Z) (isnan : list bool) : nat := count_stranded_from starts 0%Z isnan.
