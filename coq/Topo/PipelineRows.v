(* Rows of the pass-effect table (Topo/PipelineDefs.v: exec) derived from the ported
   functions instead of being stated: RemoveUnreferencedVerts completely; for SortGeometry the
   "no tombstone afterwards" half, under the stated oracle hypotheses on the Morton orders. *)
From Coq Require Import ZArith List Bool Lia.
From MV Require Import Topo.CheckMeshDefs Topo.HalfedgeDefs Topo.EdgeOpsDefs Topo.EdgeOps Topo.PipelineDefs Topo.Pipeline.
Import ListNotations.
Local Open Scope Z_scope.

Definition dead_halfedges (h : list (Z * Z)) : nat := length (filter (fun x : Z * Z => fst x =? -1) h).
Definition nan_verts (l : list bool) : nat := length (filter (fun b : bool => b) l).

(* abstraction of a concrete mesh (plus the "sorted" bit, which the arrays do not carry) *)
(* duplicate directed edges among the live halfedges *)
Definition dup_edges (h : list (Z * Z)) : nat := length (live_edges h) - length (nodup edge_eq_dec (live_edges h)).

Definition abs_state (m : mesh) (sorted : bool) : cstate :=
  mkC (count_stranded (map fst (hs m)) (nan m)) (dead_halfedges (hs m) + nan_verts (nan m)) sorted (dup_edges (hs m)).

Lemma remove_unreferenced_verts_eq_from : forall starts l v,
  map (fun vb : Z * bool => if existsb (Z.eqb (fst vb)) starts then snd vb else true) (combine (iota (length l) v) l)
  = remove_unreferenced_from starts v l.
Proof.
  intros starts l. induction l as [|b r IH]; intro v; cbn; [reflexivity|].
  unfold referenced. f_equal. rewrite <- IH. replace (Z.succ v) with (v + 1) by lia. reflexivity.
Qed.

Lemma remove_unreferenced_verts_eq : forall m,
  nan (remove_unreferenced_verts m) = remove_unreferenced (map fst (hs m)) (nan m).
Proof. intro m. unfold remove_unreferenced_verts, remove_unreferenced. cbn [nan]. apply remove_unreferenced_verts_eq_from. Qed.

(* the RemoveUnreferencedVerts row, derived: the ported function is a run of that pass *)
Lemma exec_remove_unreferenced_derived_lemma : forall m sorted,
  exec RemoveUnreferencedVerts (abs_state m sorted) (abs_state (remove_unreferenced_verts m) sorted).
Proof.
  intros m sorted. cbn [exec abs_state n_stranded is_sorted n_dup]. split; [|split; reflexivity].
  rewrite remove_unreferenced_verts_eq. cbn [hs remove_unreferenced_verts]. apply remove_unreferenced_spec.
Qed.

(* SortVerts: if the permutation lists the non-NaN vertices first (Morton code kNoCode sorts
   last), no NaN vertex survives *)
Lemma map_opt_forall : forall A B (f : A -> option B) l l' (P : B -> Prop),
  map_opt f l = Some l' -> (forall x y, In x l -> f x = Some y -> P y) -> forall y, In y l' -> P y.
Proof.
  induction l as [|x r IH]; intros l' P H HP y Hy; cbn in H.
  - inversion H; subst. contradiction.
  - unfold bind in H. destruct (f x) as [y0|] eqn:Fx; [|discriminate]. destruct (map_opt f r) as [r'|] eqn:Mr; [|discriminate].
    inversion H; subst. destruct Hy as [->|Hy]; [eapply HP; [left; reflexivity|exact Fx]|].
    eapply (IH r' P eq_refl); [|exact Hy]. intros. eapply HP; [right; eassumption|eassumption].
Qed.

Lemma sort_verts_no_nan_lemma : forall m n2o m',
  sort_verts m n2o = Some m' ->
  (forall o, In o (firstn (count_live_verts (nan m)) n2o) -> getZ (nan m) o = Some false) ->
  nan_verts (nan m') = 0%nat.
Proof.
  intros m n2o m' H Hfirst. unfold sort_verts, bind in H.
  destruct (reindex_verts (hs m) n2o (length (nan m))) as [h'|]; [|discriminate].
  destruct (permute (nan m) (firstn (count_live_verts (nan m)) n2o)) as [nan'|] eqn:P; [|discriminate].
  inversion H; subst. cbn [nan]. unfold nan_verts.
  assert (Hall : forall b, In b nan' -> b = false).
  { unfold permute in P. eapply (map_opt_forall _ _ _ _ _ (fun b => b = false) P).
    intros o y Ho Hy. rewrite (Hfirst o Ho) in Hy. inversion Hy. reflexivity. }
  clear P H. induction nan' as [|b r IH]; [reflexivity|].
  cbn. rewrite (Hall b (or_introl eq_refl)). apply IH. intros. apply Hall. right. assumption.
Qed.

(* SortFaces: if only live faces are listed (tombstones sort last and are cut off), no
   tombstone triangle survives *)
Lemma sort_faces_all_live_lemma : forall m f2o m',
  sort_faces m f2o = Some m' ->
  (forall f i s p, In f f2o -> In i [0; 1; 2] -> getZ (hs m) (3 * f + i) = Some (s, p) -> s <> -1) ->
  dead_halfedges (hs m') = 0%nat.
Proof.
  intros m f2o m' H Hlive. unfold sort_faces in H. unfold bind at 1 in H.
  destruct (gather_faces (hs m) f2o) as [hh|] eqn:Gf; [|discriminate].
  inversion H; subst. cbn [hs]. clear H. unfold gather_faces, bind in Gf.
  destruct (scatter f2o (Nat.div (length (hs m)) 3)) as [tbl|]; [|discriminate].
  match type of Gf with context [map_opt ?f f2o] => destruct (map_opt f f2o) as [faces|] eqn:F; [|discriminate] end.
  inversion Gf; subst. clear Gf. unfold dead_halfedges.
  assert (Hall : forall face, In face faces -> forall x, In x face -> fst x <> -1).
  { eapply (map_opt_forall _ _ _ _ _ (fun face => forall x, In x face -> fst x <> -1) F).
    intros f face Hf Hface. eapply (map_opt_forall _ _ _ _ _ (fun x => fst x <> -1) Hface).
    intros i y Hi Hy. unfold bind in Hy. destruct (getZ (hs m) (3 * f + i)) as [[s p]|] eqn:G; [|discriminate].
    destruct (lookup tbl (Z.quot p 3)); [|discriminate]. inversion Hy; subst. cbn. eapply Hlive; eauto. }
  clear F. induction faces as [|fc r IH]; [reflexivity|].
  cbn [concat]. rewrite filter_app, app_length.
  assert (Hz : length (filter (fun x : Z * Z => fst x =? -1) fc) = 0%nat).
  { assert (Hfc : forall x, In x fc -> fst x <> -1) by (apply Hall; left; reflexivity).
    clear -Hfc. induction fc as [|x r IH]; [reflexivity|]. cbn.
    destruct (fst x =? -1) eqn:E; [apply Z.eqb_eq in E; exfalso; apply (Hfc x); [left; reflexivity|exact E]|].
    apply IH. intros. apply Hfc. right. assumption. }
  rewrite Hz. apply IH. intros. eapply Hall; [right; eassumption|assumption].
Qed.
