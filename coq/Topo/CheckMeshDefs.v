(* C01 oracle: the declarative predicate Closed2Manifold over merged triangle
   indices and the executable checker check_mesh / check_counts.
   Definitions only (the single Lemma below is the totality obligation the
   standard-library merge sort functor asks of its order argument).
   Other properties reuse this file: do not rename its top-level definitions. *)
From Coq Require Import ZArith List Bool Lia Sorting.Mergesort Orders.
Import ListNotations.
Local Open Scope Z_scope.

Definition tri : Type := (Z * Z * Z)%type.
Definition edge : Type := (Z * Z)%type.

Definition tri_edges (t : tri) : list edge :=
  let '(a, b, c) := t in [(a, b); (b, c); (c, a)].
Definition tri_verts (t : tri) : list Z :=
  let '(a, b, c) := t in [a; b; c].

(* all directed edges (halfedges) of the mesh, 3 per triangle, in order *)
Definition dir_edges (tris : list tri) : list edge := flat_map tri_edges tris.
Definition all_verts (tris : list tri) : list Z := flat_map tri_verts tris.

Definition swap_edge (e : edge) : edge := (snd e, fst e).

Definition edge_eq_dec : forall x y : edge, {x = y} + {x <> y}.
Proof. decide equality; apply Z.eq_dec. Defined.

(* ---------------------------------------------------------------------- *)
(* The property, as properties.jsonl states it.                            *)

Definition InRange (nV : Z) (tris : list tri) : Prop :=
  forall a b c, In (a, b, c) tris -> 0 <= a < nV /\ 0 <= b < nV /\ 0 <= c < nV.

Definition NoDegenerate (tris : list tri) : Prop :=
  forall a b c, In (a, b, c) tris -> a <> b /\ b <> c /\ c <> a.

(* every directed edge occurs exactly once and is matched by exactly one
   opposite edge *)
Definition EdgesMatched (tris : list tri) : Prop :=
  forall a b, In (a, b) (dir_edges tris) ->
    count_occ edge_eq_dec (dir_edges tris) (a, b) = 1%nat /\
    count_occ edge_eq_dec (dir_edges tris) (b, a) = 1%nat.

Definition AllReferenced (nV : Z) (tris : list tri) : Prop :=
  forall v, 0 <= v < nV -> In v (all_verts tris).

Definition Closed2Manifold (nV : Z) (tris : list tri) : Prop :=
  InRange nV tris /\ NoDegenerate tris /\ EdgesMatched tris /\ AllReferenced nV tris.

(* ---------------------------------------------------------------------- *)
(* The executable checker: O(n log n), three merge sorts of 3*|tris| keys.  *)

Module ZLe <: TotalLeBool.
  Definition t := Z.
  Definition leb := Z.leb.
  Lemma leb_total : forall a1 a2, is_true (leb a1 a2) \/ is_true (leb a2 a1).
  Proof. intros a1 a2; unfold leb, is_true; rewrite !Z.leb_le; lia. Qed.
End ZLe.
Module ZSort := Sort ZLe.

Definition tri_in_range (nV : Z) (t : tri) : bool :=
  let '(a, b, c) := t in
  (0 <=? a) && (a <? nV) && (0 <=? b) && (b <? nV) && (0 <=? c) && (c <? nV).

Definition tri_nondegenerate (t : tri) : bool :=
  let '(a, b, c) := t in
  negb (a =? b) && negb (b =? c) && negb (c =? a).

(* (a,b) -> a*nV+b : injective on [0,nV)^2 *)
Definition enc (nV : Z) (e : edge) : Z := fst e * nV + snd e.

Fixpoint strictly_increasing (l : list Z) : bool :=
  match l with
  | [] => true
  | x :: r => match r with
              | [] => true
              | y :: _ => (x <? y) && strictly_increasing r
              end
  end.

Fixpoint list_eqb (l1 l2 : list Z) : bool :=
  match l1, l2 with
  | [], [] => true
  | x :: r1, y :: r2 => (x =? y) && list_eqb r1 r2
  | _, _ => false
  end.

(* on a sorted list: does it contain exactly next, next+1, ..., stop-1
   (repetitions allowed)?  `next` is the next value not yet seen. *)
Fixpoint covers (next : Z) (l : list Z) : Z :=
  match l with
  | [] => next
  | x :: r => if x =? next then covers (next + 1) r
              else if x =? next - 1 then covers next r
              else -1
  end.

Definition check_mesh (nV : Z) (tris : list tri) : bool :=
  forallb (tri_in_range nV) tris &&
  forallb tri_nondegenerate tris &&
  (let es := dir_edges tris in
   let s := ZSort.sort (map (enc nV) es) in
   let s' := ZSort.sort (map (fun e => enc nV (swap_edge e)) es) in
   strictly_increasing s && list_eqb s s') &&
  (covers 0 (ZSort.sort (map fst (dir_edges tris))) =? Z.max 0 nV).

(* ---------------------------------------------------------------------- *)
(* Count identities reported by the library against the exported mesh:
   NumVert, NumTri are the mesh's; NumEdge = 3*NumTri/2;
   chi = V - E + T is even; Genus = 1 - chi/2.                              *)

Definition euler_chi (nV nE nT : Z) : Z := nV - nE + nT.

Definition check_counts (nV : Z) (tris : list tri) (repV repE repT repGenus : Z) : bool :=
  let nT := Z.of_nat (length tris) in
  (repV =? nV) && (repT =? nT) &&
  (2 * repE =? 3 * nT) &&
  Z.even (euler_chi nV repE nT) &&
  (2 * (1 - repGenus) =? euler_chi nV repE nT).

Definition CountsAgree (nV : Z) (tris : list tri) (repV repE repT repGenus : Z) : Prop :=
  let nT := Z.of_nat (length tris) in
  repV = nV /\ repT = nT /\ 2 * repE = 3 * nT /\
  (exists k, euler_chi nV repE nT = 2 * k /\ repGenus = 1 - k).
