(* Finite sweeps over the ported CreateHalfedges / IsManifold (bounds are part of the statements). *)
From Coq Require Import ZArith List Bool.
From MV Require Import Topo.CheckMeshDefs Topo.HalfedgeDefs.
Import ListNotations.
Local Open Scope Z_scope.

Definition verts (n : nat) : list Z := iota n 0.

(* all triangles over n vertices with pairwise distinct corners *)
Definition nondeg_tris (n : nat) : list tri :=
  flat_map (fun a => flat_map (fun b => flat_map (fun c =>
    if negb (a =? b) && negb (b =? c) && negb (c =? a) then [(a, b, c)] else []) (verts n)) (verts n)) (verts n).

Fixpoint lists_of {A} (elems : list A) (len : nat) : list (list A) :=
  match len with
  | O => [[]]
  | S k => flat_map (fun l => map (fun x => x :: l) elems) (lists_of elems k)
  end.

Definition sweep (n len : nat) : bool := forallb gate_case (lists_of (nondeg_tris n) len).

(* length-4 lists: first two triangles arbitrary (24 x 24), last two from a set that
   contains opposed pairs, rotations and a far triangle (the list is built back to front) *)
Definition tail_set : list tri := [(0,1,2); (1,0,2); (0,2,1); (0,1,3); (1,0,3)].
Definition lists_4 : list (list tri) :=
  flat_map (fun l => map (fun x => x :: l) (nondeg_tris 4))
    (flat_map (fun l => map (fun x => x :: l) (nondeg_tris 4)) (lists_of tail_set 2)).

Lemma gate_small : sweep 4 0 && sweep 4 1 && sweep 4 2 && sweep 4 3 && forallb gate_case lists_4 && sweep 5 2 = true.
Proof. vm_compute. reflexivity. Qed.
