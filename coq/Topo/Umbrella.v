(* check_vertex_manifold nV tris = true <-> VertexManifold nV tris *)
From Coq Require Import ZArith List Bool Lia Permutation FMapPositive.
From MV Require Import Topo.CheckMeshDefs Topo.CheckMesh Topo.UmbrellaDefs.
Import ListNotations.
Local Open Scope Z_scope.

(* ------------------------------------------------------------ small facts *)
Lemma memZ_In : forall x l, memZ x l = true <-> In x l.
Proof.
  induction l as [|y r IH]; cbn; [split; [discriminate|contradiction]|].
  rewrite orb_true_iff, IH, Z.eqb_eq. split; intros [H|H]; auto.
Qed.

Lemma nodupZ_NoDup : forall l, nodupZ l = true <-> NoDup l.
Proof.
  induction l as [|x r IH]; cbn; [split; [constructor|reflexivity]|].
  rewrite andb_true_iff, negb_true_iff, IH. split.
  - intros [H1 H2]. constructor; [|exact H2]. intro Hin. apply memZ_In in Hin. congruence.
  - intro H. inversion H; subst. split; [|assumption].
    destruct (memZ x r) eqn:E; [apply memZ_In in E; contradiction|reflexivity].
Qed.

Lemma mem_edge_In : forall e l, mem_edge e l = true <-> In e l.
Proof.
  intros [a b] l. unfold mem_edge. rewrite existsb_exists. split.
  - intros [[c d] [Hin H]]. cbn in H. apply andb_true_iff in H. destruct H as [H1 H2].
    apply Z.eqb_eq in H1, H2. subst. exact Hin.
  - intro Hin. exists (a, b). split; [exact Hin|]. cbn. rewrite !Z.eqb_refl. reflexivity.
Qed.

(* ------------------------------------------------------------ cycles *)
(* edges along l, then from its last element to z *)
Fixpoint chain (l : list Z) (z : Z) : list edge :=
  match l with
  | [] => []
  | [x] => [(x, z)]
  | x :: ((y :: _) as r) => (x, y) :: chain r z
  end.

Lemma path_edges_chain : forall l first, path_edges first l = chain l first.
Proof. induction l as [|x [|y r] IH]; intro first; cbn; auto. f_equal. apply (IH first). Qed.

Lemma chain_fst : forall l z, map fst (chain l z) = l.
Proof. induction l as [|x [|y r] IH]; intro z; cbn; auto. f_equal. apply (IH z). Qed.

Lemma chain_length : forall l z, length (chain l z) = length l.
Proof. intros. rewrite <- (chain_fst l z) at 2. rewrite map_length. reflexivity. Qed.

Lemma chain_app : forall l1 y l2 z, chain (l1 ++ y :: l2) z = chain l1 y ++ chain (y :: l2) z.
Proof.
  induction l1 as [|x [|x' r] IH]; intros y l2 z.
  - reflexivity.
  - reflexivity.
  - change ((x :: x' :: r) ++ y :: l2) with (x :: (x' :: r) ++ y :: l2).
    change (chain (x :: (x' :: r) ++ y :: l2) z) with ((x, x') :: chain ((x' :: r) ++ y :: l2) z).
    rewrite IH. reflexivity.
Qed.

Lemma cyc_edges_fst : forall cyc, map fst (cyc_edges cyc) = cyc.
Proof. intros [|a r]; [reflexivity|]. unfold cyc_edges. rewrite path_edges_chain. apply chain_fst. Qed.

Lemma cyc_edges_length : forall cyc, length (cyc_edges cyc) = length cyc.
Proof. intro. rewrite <- (cyc_edges_fst cyc) at 2. rewrite map_length. reflexivity. Qed.

Lemma NoDup_fst : forall (l : list edge), NoDup (map fst l) -> NoDup l.
Proof. intros l H. eapply NoDup_map_rev. exact H. Qed.

(* rotating the cycle keeps its edge set *)
Lemma cyc_edges_rotate : forall pre a post,
  Permutation (cyc_edges (pre ++ a :: post)) (cyc_edges (a :: post ++ pre)).
Proof.
  intros pre a post. destruct pre as [|p pre'].
  - cbn [app]. rewrite app_nil_r. apply Permutation_refl.
  - unfold cyc_edges. change ((p :: pre') ++ a :: post) with (p :: pre' ++ a :: post).
    rewrite !path_edges_chain.
    change (p :: pre' ++ a :: post) with ((p :: pre') ++ a :: post). rewrite chain_app.
    change (a :: post ++ p :: pre') with ((a :: post) ++ p :: pre').
    destruct post as [|q post'].
    + cbn [app]. change (chain [a] p) with ([(a, p)]).
      change (chain (a :: p :: pre') a) with ((a, p) :: chain (p :: pre') a).
      apply Permutation_sym. apply Permutation_cons_append.
    + replace ((a :: q :: post') ++ p :: pre') with ((a :: q :: post') ++ p :: pre') by reflexivity.
      assert (E : chain ((a :: q :: post') ++ p :: pre') a = chain (a :: q :: post') p ++ chain (p :: pre') a)
        by (apply chain_app).
      rewrite E. apply Permutation_app_comm.
Qed.

(* ------------------------------------------------------------ soundness of the list checker *)
Lemma walk_length : forall L n cur r, walk L cur n = Some r -> length r = n.
Proof.
  induction n as [|n IH]; intros cur r H; cbn in H.
  - inversion H. reflexivity.
  - destruct (succ_of L cur) as [y|]; [|discriminate]. destruct (walk L y n) as [r'|] eqn:W; [|discriminate].
    inversion H. cbn. f_equal. eapply IH. exact W.
Qed.

Lemma check_umbrella_list_sound : forall L, check_umbrella_list L = true ->
  exists cyc, cyc <> [] /\ NoDup cyc /\ Permutation L (cyc_edges cyc).
Proof.
  intros L H. unfold check_umbrella_list in H. destruct L as [|[a0 b0] L']; [discriminate|].
  match type of H with context [walk ?a ?b ?c] => destruct (walk a b c) as [cyc|] eqn:W; [|discriminate] end.
  apply andb_true_iff in H. destruct H as [Hnd Hin]. apply nodupZ_NoDup in Hnd.
  pose proof (walk_length _ _ _ _ W) as Hlen.
  exists cyc. split.
  { intro Hc. rewrite Hc in Hlen. cbn in Hlen. lia. }
  split; [exact Hnd|].
  apply Permutation_sym. apply NoDup_Permutation_bis.
  - apply NoDup_fst. rewrite cyc_edges_fst. exact Hnd.
  - rewrite cyc_edges_length, Hlen. apply le_n.
  - intros e He. rewrite forallb_forall in Hin. apply mem_edge_In. apply Hin. exact He.
Qed.

(* ------------------------------------------------------------ completeness of the list checker *)
Lemma succ_of_unique : forall L x y, NoDup (map fst L) -> In (x, y) L -> succ_of L x = Some y.
Proof.
  induction L as [|[a b] r IH]; intros x y Hnd Hin; [contradiction|].
  cbn [map fst] in Hnd. inversion Hnd as [|? ? Hnin Hnd']; subst. cbn [succ_of].
  destruct (a =? x) eqn:E.
  - apply Z.eqb_eq in E. subst a. destruct Hin as [Hin|Hin]; [inversion Hin; reflexivity|].
    exfalso. apply Hnin. apply in_map_iff. exists (x, y). split; [reflexivity|exact Hin].
  - apply Z.eqb_neq in E. destruct Hin as [Hin|Hin]; [inversion Hin; subst; contradiction|]. apply IH; assumption.
Qed.

Lemma walk_chain : forall L l z, l <> [] ->
  (forall a b, In (a, b) (chain l z) -> succ_of L a = Some b) ->
  walk L (hd 0 l) (length l) = Some l.
Proof.
  intros L l. induction l as [|x [|y r] IH]; intros z Hne Hs; [contradiction| |].
  - cbn. rewrite (Hs x z) by (left; reflexivity). reflexivity.
  - change (length (x :: y :: r)) with (S (length (y :: r))). cbn [hd walk].
    rewrite (Hs x y) by (left; reflexivity).
    assert (Hy : walk L (hd 0 (y :: r)) (length (y :: r)) = Some (y :: r)).
    { apply (IH z); [discriminate|]. intros a b Hin. apply Hs. right. exact Hin. }
    cbn [hd] in Hy. rewrite Hy. reflexivity.
Qed.

Lemma check_umbrella_list_complete : forall L cyc,
  cyc <> [] -> NoDup cyc -> Permutation L (cyc_edges cyc) -> check_umbrella_list L = true.
Proof.
  intros L cyc Hne Hnd Hperm.
  assert (HfstP : Permutation (map fst L) cyc) by (rewrite <- (cyc_edges_fst cyc); apply Permutation_map; exact Hperm).
  assert (HndL : NoDup (map fst L)) by (eapply Permutation_NoDup; [apply Permutation_sym; exact HfstP|exact Hnd]).
  destruct L as [|[a0 b0] L'].
  { exfalso. apply Permutation_nil in Hperm.
    assert (Hl : length (cyc_edges cyc) = 0%nat) by (rewrite Hperm; reflexivity).
    rewrite cyc_edges_length in Hl. destruct cyc; [contradiction|discriminate]. }
  assert (Ha0 : In a0 cyc) by (eapply Permutation_in; [exact HfstP|left; reflexivity]).
  destruct (in_split _ _ Ha0) as [pre [post Hsplit]]. subst cyc.
  set (rot := a0 :: post ++ pre).
  assert (Hrot : Permutation ((a0, b0) :: L') (cyc_edges rot)) by (eapply perm_trans; [exact Hperm|apply cyc_edges_rotate]).
  assert (HndR : NoDup rot).
  { eapply Permutation_NoDup; [|exact Hnd]. unfold rot. apply Permutation_sym. apply Permutation_cons_app. apply Permutation_app_comm. }
  assert (Hlen : length ((a0, b0) :: L') = length rot) by (rewrite (Permutation_length Hrot); apply cyc_edges_length).
  assert (Hwalk : walk ((a0, b0) :: L') a0 (length ((a0, b0) :: L')) = Some rot).
  { rewrite Hlen. change a0 with (hd 0 rot) at 1. apply (walk_chain _ rot a0); [discriminate|].
    intros a b Hin. apply succ_of_unique; [exact HndL|].
    eapply Permutation_in; [apply Permutation_sym; exact Hrot|]. unfold cyc_edges, rot. rewrite path_edges_chain. exact Hin. }
  unfold check_umbrella_list.
  match goal with |- context [walk ?a ?b ?c] => replace (walk a b c) with (Some rot) by (symmetry; exact Hwalk) end.
  apply andb_true_iff. split; [apply nodupZ_NoDup; exact HndR|].
  apply forallb_forall. intros e He. apply mem_edge_In. eapply Permutation_in; [apply Permutation_sym; exact Hrot|exact He].
Qed.

Lemma check_umbrella_list_iff : forall L,
  check_umbrella_list L = true <-> exists cyc, cyc <> [] /\ NoDup cyc /\ Permutation L (cyc_edges cyc).
Proof.
  intro L. split; [apply check_umbrella_list_sound|]. intros [cyc [H1 [H2 H3]]]. eapply check_umbrella_list_complete; eauto.
Qed.

(* ------------------------------------------------------------ grouping by vertex *)
Lemma vkey_inj : forall v w, 0 <= v -> 0 <= w -> vkey v = vkey w -> v = w.
Proof. intros v w Hv Hw H. unfold vkey in H. apply Z2Pos.inj in H; lia. Qed.

Lemma get_add_link : forall m v x y w, 0 <= w ->
  get_links (add_link m v x y) w = (if v =? w then [(x, y)] else []) ++ get_links m w.
Proof.
  intros m v x y w Hw. unfold add_link. destruct (v <? 0) eqn:E.
  - apply Z.ltb_lt in E. destruct (v =? w) eqn:E2; [apply Z.eqb_eq in E2; lia|reflexivity].
  - apply Z.ltb_ge in E. destruct (v =? w) eqn:E2.
    + apply Z.eqb_eq in E2. subst w. unfold get_links at 1. rewrite PositiveMap.gss. reflexivity.
    + apply Z.eqb_neq in E2. unfold get_links at 1. rewrite PositiveMap.gso; [reflexivity|].
      intro Hk. apply E2. symmetry. apply vkey_inj; auto.
Qed.

Lemma perm_rev3 : forall (A B C g : list edge), Permutation (C ++ B ++ A ++ g) ((A ++ B ++ C) ++ g).
Proof.
  intros. rewrite !app_assoc. apply Permutation_app_tail.
  eapply perm_trans; [apply Permutation_app_comm|]. rewrite <- app_assoc. apply Permutation_app_head. apply Permutation_app_comm.
Qed.

Lemma get_add_tri : forall m t w, 0 <= w ->
  Permutation (get_links (add_tri m t) w) (fan_edges w t ++ get_links m w).
Proof.
  intros m [[a b] c] w Hw. unfold add_tri, fan_edges. rewrite !get_add_link by exact Hw. apply perm_rev3.
Qed.

Lemma all_links_from : forall tris m w, 0 <= w ->
  Permutation (get_links (fold_left add_tri tris m) w) (link w tris ++ get_links m w).
Proof.
  induction tris as [|t r IH]; intros m w Hw; [apply Permutation_refl|].
  cbn [fold_left]. eapply perm_trans; [apply IH; exact Hw|].
  unfold link. cbn [flat_map]. fold (link w r).
  eapply perm_trans; [apply Permutation_app_head; apply get_add_tri; exact Hw|].
  rewrite !app_assoc. apply Permutation_app_tail. apply Permutation_app_comm.
Qed.

Lemma all_links_spec : forall tris w, 0 <= w -> Permutation (get_links (all_links tris) w) (link w tris).
Proof.
  intros tris w Hw. unfold all_links. eapply perm_trans; [apply all_links_from; exact Hw|].
  unfold get_links at 1. rewrite PositiveMap.gempty. rewrite app_nil_r. apply Permutation_refl.
Qed.

Lemma iotaZ_spec : forall n from x, In x (iotaZ n from) <-> from <= x < from + Z.of_nat n.
Proof.
  induction n as [|n IH]; intros from x; cbn [iotaZ In]; [lia|]. rewrite IH. lia.
Qed.

Lemma check_vertex_manifold_iff_lemma : forall nV tris,
  check_vertex_manifold nV tris = true <-> VertexManifold nV tris.
Proof.
  intros nV tris. unfold check_vertex_manifold, VertexManifold. rewrite forallb_forall. split.
  - intros H v Hv. assert (Hin : In v (iotaZ (Z.to_nat nV) 0)) by (apply iotaZ_spec; lia).
    specialize (H v Hin). apply check_umbrella_list_iff in H. destruct H as [cyc [H1 [H2 H3]]].
    exists cyc. split; [exact H1|]. split; [exact H2|].
    eapply perm_trans; [apply Permutation_sym; apply all_links_spec; lia|exact H3].
  - intros H v Hin. apply iotaZ_spec in Hin. destruct (H v) as [cyc [H1 [H2 H3]]]; [lia|].
    apply check_umbrella_list_iff. exists cyc. split; [exact H1|]. split; [exact H2|].
    eapply perm_trans; [apply all_links_spec; lia|exact H3].
Qed.

Lemma check_mesh_v_iff_lemma : forall nV tris, check_mesh_v nV tris = true <-> Closed2ManifoldV nV tris.
Proof.
  intros nV tris. unfold check_mesh_v, Closed2ManifoldV. rewrite andb_true_iff, check_mesh_iff_lemma, check_vertex_manifold_iff_lemma. reflexivity.
Qed.

(* a pinched vertex: two tetrahedra sharing only vertex 0 - edge-manifold, not vertex-manifold *)
Lemma pinched_example :
  let t := [(0,2,1); (0,3,2); (0,1,3); (1,2,3); (0,5,4); (0,6,5); (0,4,6); (4,5,6)] in
  check_mesh 7 t = true /\ check_vertex_manifold 7 t = false.
Proof. vm_compute. split; reflexivity. Qed.
